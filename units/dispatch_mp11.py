"""backmp11 dispatch strategies (C13 C06 C07)"""
from .common import *
from .rows_mp11 import ENUMS, DROP2
RS = 'backmp11/detail/favor_runtime_speed.hpp'
def gm(_): return [X.T('g_m')]
# compile-time facts of the enclosing dispatch_table a dispatch function may branch on: symbolic constants, NOT related to the content of the
# cell table (a machine without rows of its own for the event still has forwarding cells for its submachines)
TYPE_FACTS = [dict(name='TVAL-' + n, pat=n + ' :: value', rep='g_' + n, min=0, max=4) for n in ('has_transitions', 'has_internal_transitions', 'has_forward_transitions')]
UNITS = []
UNITS.append(Unit('backmp11.dispatch_impl.flat_fold.dispatch', ['C13', 'C06', 'C07', 'C18'], 'backmp11',
    Part(RS, ['class dispatch_impl < dispatch_strategy :: flat_fold , NotExplicit >'], 'dispatch ( StateMachine & sm , uint8_t region_id , const Event & event )'),
    'process_result dispatch(fsm_t* sm, uint8_t region_id, event_t event)', 'dispatch_mp11.spec.h',
    xform=back_xform(['get_state_id', 'is_kleene_event', 'convert_event_and_execute'], {'Transition': 'Transition'}, refparams=('sm',), enums=ENUMS, drop=DROP2, foreach=True, size_of=gm,
        pre_rewrites=[dict(name='TVAR-event', pat='using TransitionEvent = typename Transition :: transition_event ;', rep='', min=1, max=1),
                      dict(name='TVAR-source', pat='using SourceState = typename Transition :: current_state_type ;', rep='', min=1, max=1)],
        rewrites=[dict(name='auto-id', pat='const auto state_id =', rep='const int state_id =', min=1, max=1),
                  dict(name='TVAL-source-id', pat='auto source_state_id = StateMachine :: get_state_id ( SourceState ) ;', rep='const int source_state_id = src_id_of ( sm , region_id , Transition ) ;', min=1, max=1),
                  dict(name='TVAL-kleene', pat='is_kleene_event ( TransitionEvent )', rep='is_kleene_event ( Transition )', min=1, max=1),
                  dict(name='SCOPE-base', pat='base :: convert_event_and_execute ( Transition ,', rep='convert_event_and_execute ( Transition ,', min=1, max=1)] + TYPE_FACTS),
    loops={0: '__CPROVER_assigns(transition, result, g_calls, g_ret)\n'
              '__CPROVER_loop_invariant(0 <= transition && transition <= g_m && g_calls == ((0 <= g_wit && g_wit < transition) ? 1 : 0))\n'
              '__CPROVER_loop_invariant((int)result == (g_calls ? g_ret : HANDLED_FALSE))\n__CPROVER_decreases(g_m - transition)'},
    also_replace=['Transition_execute'], replay=['sel']))
UNITS.append(Unit('backmp11.dispatch_impl.function_pointer_array.dispatch', ['C13', 'C06', 'C07', 'C18'], 'backmp11',
    Part(RS, ['class dispatch_impl < dispatch_strategy :: function_pointer_array , NotExplicit >'], 'static process_result dispatch ( StateMachine & sm , uint8_t region_id , const Event & event )'),
    'process_result dispatch(fsm_t* sm, uint8_t region_id, event_t event)', 'dispatch_mp11.spec.h',
    xform=back_xform([], refparams=('sm',), enums=ENUMS, drop=DROP2, rewrites=[
        dict(name='auto-id', pat='const auto state_id =', rep='const int state_id =', min=1, max=1),
        dict(name='table-alias', pat='auto & cells = m_cells ;', rep='', min=1, max=1),
        dict(name='table-read', pat='const cell_t cell = cells [ state_id ] ;', rep='const cell_t cell = cells_at ( sm , region_id , state_id ) ;', min=1, max=1),
        dict(name='fnptr-call', pat='return cell ( sm ,', rep='return cell_call ( cell , sm ,', min=1, max=1)] + TYPE_FACTS),
    replay=['sel']))
