"""backmp11: thin static entry functions of the dispatch tables, both compile policies (C06 C01)"""
from .common import *
from .rows_mp11 import ENUMS, DROP2
RS = 'backmp11/detail/favor_runtime_speed.hpp'; CT = 'backmp11/favor_compile_time.hpp'
UNITS = []
UNITS.append(Unit('backmp11.dispatch_table.dispatch', ['C06', 'C01', 'C13'], 'backmp11',
    Part(RS, ['class dispatch_table'], 'static process_result dispatch ( StateMachine & sm , uint8_t region_id , const Event & event )'),
    'process_result rts_dispatch(fsm_t* sm, uint8_t region_id, event_t event)', 'dispatch_thin_mp11.spec.h', defines=['UNIT_RTS_DISPATCH=1'],
    xform=back_xform([], refparams=(), enums=ENUMS, drop=DROP2, pre_rewrites=[
        dict(name='SCOPE-has-transitions', pat='has_transitions :: value', rep='g_has_transitions', min=1, max=1),
        dict(name='SCOPE-has-forward', pat='has_forward_transitions :: value', rep='g_has_forward_transitions', min=1, max=1),
        dict(name='TVAR-table', pat='using table = $*A ;', rep='', min=1, max=1),
        dict(name='SCOPE-dispatch', pat='table :: dispatch (', rep='impl_dispatch (', min=0, max=1)]), replay=['sel']))
UNITS.append(Unit('backmp11.dispatch_table.internal_dispatch', ['C01', 'C13'], 'backmp11',
    Part(RS, ['class dispatch_table'], 'static process_result internal_dispatch ( StateMachine & sm , const Event & event )'),
    'process_result rts_internal_dispatch(fsm_t* sm, event_t event)', 'dispatch_thin_mp11.spec.h', defines=['UNIT_RTS_INTERNAL=1'],
    xform=back_xform([], refparams=(), enums=ENUMS, drop=DROP2, pre_rewrites=[
        dict(name='SCOPE-has-internal', pat='has_internal_transitions :: value', rep='g_has_internal', min=1, max=1),
        dict(name='SCOPE-execute', pat='internal_dispatch_impl :: transition :: execute (', rep='internal_chain_execute (', min=0, max=1)]), replay=['sel']))
DTC = ['class dispatch_table < StateMachine , any_event >']
UNITS.append(Unit('backmp11.favor_compile_time.dispatch_table.dispatch', ['C06', 'C01', 'C13'], 'backmp11',
    Part(CT, DTC, 'static process_result dispatch ( StateMachine & sm , uint8_t region_id , const any_event & event )'),
    'process_result ct_dispatch(fsm_t* sm, uint8_t region_id, event_t event)', 'dispatch_thin_mp11.spec.h', defines=['UNIT_CT_DISPATCH=1'],
    xform=back_xform([], refparams=('sm',), enums=ENUMS, drop=DROP2, pre_rewrites=[
        dict(name='auto-id', pat='const auto state_id =', rep='const uint16_t state_id =', min=1, max=1),
        dict(name='singleton', pat='const dispatch_table & self = instance ( ) ;', rep='', min=1, max=1),
        dict(name='table-dispatch', pat='self . m_state_dispatch_tables [ $*I ] . dispatch (', rep='state_table_dispatch ( $*I ,', min=0, max=1)]), replay=['sel']))
UNITS.append(Unit('backmp11.favor_compile_time.dispatch_table.internal_dispatch', ['C01', 'C13'], 'backmp11',
    Part(CT, DTC, 'static process_result internal_dispatch ( StateMachine & sm , const any_event & event )'),
    'process_result ct_internal_dispatch(fsm_t* sm, event_t event)', 'dispatch_thin_mp11.spec.h', defines=['UNIT_CT_INTERNAL=1'],
    xform=back_xform([], refparams=(), enums=ENUMS, drop=DROP2, pre_rewrites=[
        dict(name='SCOPE-has-internal', pat='has_internal_transitions :: value', rep='g_has_internal', min=1, max=1),
        dict(name='singleton', pat='const dispatch_table & self = instance ( ) ;', rep='', min=1, max=1),
        dict(name='table-dispatch', pat='self . m_internal_dispatch_table . dispatch (', rep='internal_table_dispatch (', min=0, max=1)]), replay=['sel']))
UNITS.append(Unit('backmp11.favor_compile_time.internal_dispatch_table.dispatch', ['C01', 'C13'], 'backmp11',
    Part(CT, DTC + ['class internal_dispatch_table'], 'process_result dispatch ( StateMachine & sm , const any_event & event ) const'),
    'process_result itable_dispatch(fsm_t* sm, event_t event)', 'dispatch_thin_mp11.spec.h', defines=['UNIT_CT_ITABLE=1'],
    xform=back_xform([], refparams=(), enums=ENUMS, drop=DROP2, pre_rewrites=[
        dict(name='CONT-find', pat='auto it = m_transition_chains . find ( event . type ( ) ) ;', rep='', min=1, max=1),
        dict(name='CONT-found', pat='it != m_transition_chains . end ( )', rep='g_has_chain', min=1, max=1),
        dict(name='CONT-call', pat='( it -> second . execute ) ( sm , event )', rep='ichain_execute ( sm , event )', min=0, max=1)]), replay=['sel']))
