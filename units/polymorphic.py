"""backmp11 basic_polymorphic (C20, C15)"""
from .common import *
from .rows_mp11 import DROP2
BP = 'backmp11/detail/basic_polymorphic.hpp'
UNITS = []
DROP3 = DROP2 | {'noexcept'}
xf_cb = back_xform([], refparams=(), members=['copy_construct_fn', 'move_construct_fn', 'delete_fn', 'size', 'is_inline'], drop=DROP3)
UNITS.append(Unit('backmp11.control_block.copy', ['C20', 'C15'], 'backmp11', Part(BP, ['struct control_block'], 'void copy ( void * dest , const void * src ) const'),
    'void cb_copy(const control_block* self, void* dest, const void* src)', 'polymorphic.spec.h', xform=xf_cb, replay=['poly']))
UNITS.append(Unit('backmp11.control_block.move', ['C20', 'C15'], 'backmp11', Part(BP, ['struct control_block'], 'void move ( void * dest , void * src ) const noexcept'),
    'void cb_move(const control_block* self, void* dest, void* src)', 'polymorphic.spec.h', xform=xf_cb, replay=['poly']))
UNITS.append(Unit('backmp11.control_block.destroy', ['C20'], 'backmp11', Part(BP, ['struct control_block'], 'void destroy ( void * obj ) const noexcept'),
    'void cb_destroy(const control_block* self, void* obj)', 'polymorphic.spec.h', xform=xf_cb, replay=['poly']))
MEMB = [dict(name='member-buffer', pat='& self -> m_buffer', rep='& self -> u . m_buffer', min=0), dict(name='member-ptr', pat='self -> m_ptr', rep='self -> u . m_ptr', min=0),
        dict(name='other-ptr', pat='other -> m_ptr', rep='other -> u . m_ptr', min=0),
        dict(name='cb-destroy', pat='self -> m_control_block -> destroy (', rep='m_cb_destroy ( self -> m_control_block ,', min=0),
        dict(name='cb-copy', pat='self -> m_control_block -> copy (', rep='m_cb_copy ( self -> m_control_block ,', min=0),
        dict(name='cb-move', pat='self -> m_control_block -> move (', rep='m_cb_move ( self -> m_control_block ,', min=0)]
xf_p = back_xform([], refparams=('other',), members=['m_control_block', 'm_buffer', 'm_ptr'], methods=['get', 'destroy'], drop=DROP3,
                  rewrites=MEMB + [dict(name='method-get', pat='get ( self )', rep='poly_get ( self )', min=0), dict(name='method-destroy', pat='destroy ( self ) ;', rep='poly_destroy ( self ) ;', min=0),
                                   dict(name='THIS-ret', pat='return self ;', rep='return self ;', min=0), dict(name='addr-of-ref', pat='& other )', rep='other )', min=0)])
SC = ['class basic_polymorphic_base']
UNITS.append(Unit('backmp11.basic_polymorphic_base.get', ['C20'], 'backmp11', Part(BP, SC, 'void * get ( ) const noexcept'),
    'void* poly_get(const poly_t* self)', 'polymorphic.spec.h', xform=xf_p, replay=['poly']))
UNITS.append(Unit('backmp11.basic_polymorphic_base.destroy', ['C20'], 'backmp11', Part(BP, SC, 'void destroy ( )'),
    'void poly_destroy(poly_t* self)', 'polymorphic.spec.h', xform=xf_p, also_replace_if_present=[], replay=['poly']))

UNITS.append(Unit('backmp11.basic_polymorphic_base.copy_ctor', ['C20', 'C15'], 'backmp11',
    Part(BP, SC, 'basic_polymorphic_base ( const basic_polymorphic_base & other ) : m_control_block', init_list=True),
    'void poly_copy_ctor(poly_t* self, const poly_t* other)', 'polymorphic.spec.h', xform=xf_p, replay=['poly']))
for sa in (0, 1):
    UNITS.append(Unit('backmp11.basic_polymorphic_base.copy_assign' + ('.self' if sa else ''), ['C20', 'C15'], 'backmp11',
        Part(BP, SC, 'basic_polymorphic_base & operator = ( const basic_polymorphic_base & other )'),
        'poly_t* poly_copy_assign(poly_t* self, const poly_t* other)', 'polymorphic.spec.h', xform=xf_p, defines=['IS_ASSIGN=1', 'SELF_ASSIGN=%d' % sa], replay=['poly']))
UNITS.append(Unit('backmp11.basic_polymorphic_base.move_ctor', ['C20', 'C15'], 'backmp11',
    Part(BP, SC, 'basic_polymorphic_base ( basic_polymorphic_base && other ) noexcept : m_control_block', init_list=True),
    'void poly_move_ctor(poly_t* self, poly_t* other)', 'polymorphic.spec.h', xform=xf_p, replay=['poly']))
for sa in (0, 1):
    UNITS.append(Unit('backmp11.basic_polymorphic_base.move_assign' + ('.self' if sa else ''), ['C20', 'C15'], 'backmp11',
        Part(BP, SC, 'basic_polymorphic_base & operator = ( basic_polymorphic_base && other ) noexcept'),
        'poly_t* poly_move_assign(poly_t* self, poly_t* other)', 'polymorphic.spec.h', xform=xf_p, defines=['IS_ASSIGN=1', 'SELF_ASSIGN=%d' % sa], replay=['poly']))
UNITS.append(Unit('backmp11.basic_polymorphic_base.dtor', ['C20'], 'backmp11', Part(BP, SC, '~ basic_polymorphic_base ( )'),
    'void poly_dtor(poly_t* self)', 'polymorphic.spec.h', xform=xf_p, replay=['poly']))
UNITS.append(Unit('backmp11.basic_polymorphic_base.IsInline', ['C20'], 'backmp11', Part(BP, SC, '', member_init='IsInline'),
    '_Bool IsInline(size_t size_U, size_t align_U, _Bool nothrow_move_U)', 'polymorphic.spec.h', defines=['UNIT_INLINE=1'],
    xform=back_xform([], refparams=(), drop=DROP3, rewrites=[
        dict(name='TVAL-sizeof', pat='sizeof ( U )', rep='size_U', min=0), dict(name='TVAL-alignof', pat='alignof ( U )', rep='align_U', min=0),
        dict(name='TVAL-max-align', pat='alignof ( max_align_t )', rep='( ( size_t ) 16 )', min=0),
        dict(name='TVAL-trait', pat='is_nothrow_move_constructible_v < U >', rep='nothrow_move_U', min=0),
        dict(name='TVALUE-bool-constant', pat='MEMBER_INIT ( IsInline , bool_constant < $*E > ) ;', rep='MEMBER_INIT ( IsInline , ( $*E ) ) ;', min=1, max=1)]), replay=['poly']))
UNITS.append(Unit('backmp11.basic_polymorphic_base.converting_ctor', ['C20'], 'backmp11',
    Part(BP, SC, 'explicit basic_polymorphic_base ( const U & obj )', init_list=True),
    'void poly_conv_ctor(poly_t* self, const void* obj)', 'polymorphic.spec.h', defines=['UNIT_CONV_CTOR=1'],
    xform=back_xform([], refparams=(), members=['m_control_block', 'm_buffer', 'm_ptr'], drop=DROP3, rewrites=MEMB + [
        dict(name='INITLIST-cb', pat='self -> m_control_block = & control_block_v < U , IsInline < U > :: value > ;', rep='self -> m_control_block = IS_INLINE_U ? & g_cb_inline : & g_cb_heap ;', min=0, max=1),
        dict(name='TVAL-inline', pat='IsInline < U > :: value', rep='IS_INLINE_U', min=0),
        dict(name='TVAL-trivial', pat='is_trivially_copyable_v < U >', rep='g_trivial_U', min=0),
        dict(name='TVAL-sizeof', pat='sizeof ( U )', rep='g_size_U', min=0),
        dict(name='addr-of-ref', pat='& obj', rep='obj', min=0),
        dict(name='memcpy-ghost', pat='memcpy ( & self -> u . m_buffer , obj , g_size_U ) ;', rep='{ memcpy ( & self -> u . m_buffer , obj , g_size_U ) ; g_built = 1 ; }', min=0, max=1),
        dict(name='placement-new', pat='new ( & self -> u . m_buffer ) U ( obj ) ;', rep='placement_new_copy ( & self -> u . m_buffer , obj ) ;', min=0, max=1),
        dict(name='heap-new', pat='new U ( obj )', rep='heap_new_copy ( obj )', min=0, max=1)]), also_replace=['IsInline'], compose='const _Bool is_inline_U = IsInline(g_size_U, g_align_U, g_nothrow_move_U);   /* IsInline<U>::value: one compile-time constant */\n@0', replay=['poly']))
