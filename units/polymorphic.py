"""backmp11 basic_polymorphic (C20, C15)"""
from .common import *
from .rows_mp11 import DROP2
BP = 'backmp11/detail/basic_polymorphic.hpp'
UNITS = []
DROP3 = DROP2 | {'noexcept'}
xf_cb = back_xform([], refparams=(), members=['copy_construct_fn', 'move_construct_fn', 'delete_fn', 'size', 'is_inline'], drop=DROP3)
UNITS.append(Unit('backmp11.control_block.copy', ['C20', 'C15'], 'backmp11', Part(BP, ['struct control_block'], 'void copy ( void * dest , const void * src ) const'),
    'void cb_copy(const control_block* self, void* dest, const void* src)', 'polymorphic.spec.h', xform=xf_cb, replay=['poly']))
UNITS.append(Unit('backmp11.control_block.move', ['C20', 'C15'], 'backmp11', Part(BP, ['struct control_block'], 'void move ( void * dest , void * src ) const noexcept'),
    'void cb_move(const control_block* self, void* dest, void* src)', 'polymorphic.spec.h', xform=xf_cb, replay=['poly']))
UNITS.append(Unit('backmp11.control_block.destroy', ['C20'], 'backmp11', Part(BP, ['struct control_block'], 'void destroy ( void * obj ) const noexcept'),
    'void cb_destroy(const control_block* self, void* obj)', 'polymorphic.spec.h', xform=xf_cb, replay=['poly']))
MEMB = [dict(name='member-buffer', pat='& self -> m_buffer', rep='& self -> u . m_buffer', min=0), dict(name='member-ptr', pat='self -> m_ptr', rep='self -> u . m_ptr', min=0),
        dict(name='other-ptr', pat='other -> m_ptr', rep='other -> u . m_ptr', min=0),
        dict(name='cb-destroy', pat='self -> m_control_block -> destroy (', rep='m_cb_destroy ( self -> m_control_block ,', min=0),
        dict(name='cb-copy', pat='self -> m_control_block -> copy (', rep='m_cb_copy ( self -> m_control_block ,', min=0),
        dict(name='cb-move', pat='self -> m_control_block -> move (', rep='m_cb_move ( self -> m_control_block ,', min=0)]
xf_p = back_xform([], refparams=('other',), members=['m_control_block', 'm_buffer', 'm_ptr'], methods=['get', 'destroy'], drop=DROP3,
                  rewrites=MEMB + [dict(name='method-get', pat='get ( self )', rep='poly_get ( self )', min=0), dict(name='method-destroy', pat='destroy ( self ) ;', rep='poly_destroy ( self ) ;', min=0),
                                   dict(name='THIS-ret', pat='return self ;', rep='return self ;', min=0), dict(name='addr-of-ref', pat='& other )', rep='other )', min=0)])
SC = ['class basic_polymorphic_base']
UNITS.append(Unit('backmp11.basic_polymorphic_base.get', ['C20'], 'backmp11', Part(BP, SC, 'void * get ( ) const noexcept'),
    'void* poly_get(const poly_t* self)', 'polymorphic.spec.h', xform=xf_p, replay=['poly']))
UNITS.append(Unit('backmp11.basic_polymorphic_base.destroy', ['C20'], 'backmp11', Part(BP, SC, 'void destroy ( )'),
    'void poly_destroy(poly_t* self)', 'polymorphic.spec.h', xform=xf_p, also_replace_if_present=[], replay=['poly']))

UNITS.append(Unit('backmp11.basic_polymorphic_base.copy_ctor', ['C20', 'C15'], 'backmp11',
    Part(BP, SC, 'basic_polymorphic_base ( const basic_polymorphic_base & other ) : m_control_block', init_list=True),
    'void poly_copy_ctor(poly_t* self, const poly_t* other)', 'polymorphic.spec.h', xform=xf_p, replay=['poly']))
for sa in (0, 1):
    UNITS.append(Unit('backmp11.basic_polymorphic_base.copy_assign' + ('.self' if sa else ''), ['C20', 'C15'], 'backmp11',
        Part(BP, SC, 'basic_polymorphic_base & operator = ( const basic_polymorphic_base & other )'),
        'poly_t* poly_copy_assign(poly_t* self, const poly_t* other)', 'polymorphic.spec.h', xform=xf_p, defines=['IS_ASSIGN=1', 'SELF_ASSIGN=%d' % sa], replay=['poly']))
UNITS.append(Unit('backmp11.basic_polymorphic_base.move_ctor', ['C20', 'C15'], 'backmp11',
    Part(BP, SC, 'basic_polymorphic_base ( basic_polymorphic_base && other ) noexcept : m_control_block', init_list=True),
    'void poly_move_ctor(poly_t* self, poly_t* other)', 'polymorphic.spec.h', xform=xf_p, replay=['poly']))
for sa in (0, 1):
    UNITS.append(Unit('backmp11.basic_polymorphic_base.move_assign' + ('.self' if sa else ''), ['C20', 'C15'], 'backmp11',
        Part(BP, SC, 'basic_polymorphic_base & operator = ( basic_polymorphic_base && other ) noexcept'),
        'poly_t* poly_move_assign(poly_t* self, poly_t* other)', 'polymorphic.spec.h', xform=xf_p, defines=['IS_ASSIGN=1', 'SELF_ASSIGN=%d' % sa], replay=['poly']))
UNITS.append(Unit('backmp11.basic_polymorphic_base.dtor', ['C20'], 'backmp11', Part(BP, SC, '~ basic_polymorphic_base ( )'),
    'void poly_dtor(poly_t* self)', 'polymorphic.spec.h', xform=xf_p, replay=['poly']))
