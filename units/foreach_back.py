"""the mpl::for_each function objects of back / back11 that the cascade units assumed: init_states, call_init, fork_helper (C02 C03 C09)"""
from .common import *
UNITS = []
for be in BACKS:
    SM = be + '/state_machine.hpp'
    UNITS.append(Unit(be + '.init_states.foreach', ['C03', 'C02', 'C13'], be,
        [Part(SM, ['struct init_states'], 'init_states ( int * const init )', init_list=True, xform=back_xform([], refparams=())),
         Part(SM, ['struct init_states'], 'void operator ( ) ( wrap < State > const & )', xform=back_xform(['get_state_id'], refparams=(), rewrites=[
              dict(name='TVAL-type-value', pat=') :: type :: value', rep=')', min=0, max=1)]))],
        'void init_states_foreach(fsm_t* self)', 'foreach_back.spec.h', defines=['UNIT_INIT_STATES=1'],
        compose='int* const init = self->m_states; int* m_initial_states; int m_index; const int old_k = self->m_states[g_k];\n{ @0 }\n'
                'for (type_t State = 0; State != nr_regions; ++State)\n'
                '__CPROVER_assigns(State, m_index, __CPROVER_object_upto(self->m_states, sizeof(self->m_states)))\n'
                '__CPROVER_loop_invariant(0 <= State && State <= nr_regions && m_index == State - 1 && m_initial_states == self->m_states)\n'
                '__CPROVER_loop_invariant(g_k < State ==> self->m_states[g_k] == g_init_ids[g_k])\n'
                '__CPROVER_decreases(nr_regions - State)\n{ @1 }',
        force_loop_contracts=True, replay=['order']))
    UNITS.append(Unit(be + '.call_init.foreach', ['C02', 'C03', 'C13'], be,
        Part(SM, ['struct call_init'], 'void operator ( ) ( wrap < State > const & )', xform=back_xform(['at_key'], refparams=(), throwers=['execute_entry'], exc_ret='',
             rewrites=[dict(name='deref-self', pat='* self )', rep='self )', min=0)])),
        'void call_init_foreach(fsm_t* self, event_t evt)', 'foreach_back.spec.h', defines=['UNIT_CALL_INIT=1'],
        compose='for (type_t State = 0; State != nr_regions; ++State)\n'
                '__CPROVER_assigns(State, g_entry_next, g_exc)\n'
                '__CPROVER_loop_invariant(0 <= State && State <= nr_regions && !g_exc && g_entry_next == State)\n'
                '__CPROVER_decreases(nr_regions - State)\n{ @0 }',
        force_loop_contracts=True, replay=['order']))
    UNITS.append(Unit(be + '.fork_helper.foreach', ['C09', 'C13'], be,
        Part(SM, ['struct direct_event_start_helper', 'struct fork_helper'], 'void operator ( ) ( wrap < StateType > const & )', xform=back_xform(['get_state_id', 'find_region_id'], refparams=(), rewrites=[
             dict(name='TVAL-id', pat='get_state_id ( stt , StateType :: wrapped_entry )', rep='get_state_id ( stt , StateType )', min=1, max=1),
             dict(name='TVAL-region', pat='find_region_id ( StateType :: wrapped_entry ) :: region_index', rep='REGION_INDEX ( StateType )', min=1),
             dict(name='member-self', pat='helper_self ->', rep='self ->', min=0)])),
        'void fork_foreach(fsm_t* self, event_t evt)', 'foreach_back.spec.h', defines=['UNIT_FORK=1'],
        compose='const int old_k = self->m_states[g_k];\n'
                'for (type_t StateType = 0; StateType != g_ntargets; ++StateType)\n'
                '__CPROVER_assigns(StateType, __CPROVER_object_upto(self->m_states, sizeof(self->m_states)))\n'
                '__CPROVER_loop_invariant(0 <= StateType && StateType <= g_ntargets)\n'
                '__CPROVER_loop_invariant(self->m_states[g_k] == ((g_k_is_fork_target && g_tw < StateType) ? g_k_fork_id : old_k))\n'
                '__CPROVER_decreases(g_ntargets - StateType)\n{ @0 }',
        force_loop_contracts=True, replay=['hist']))
