"""back / back11 default policy: run-time fill of dispatch_table::entries (C01 C05)"""
from .common import *
UNITS = []
RWR = [dict(name='TVAL-src-id', pat='get_state_id ( stt , Transition :: current_state_type )', rep='g_src_id [ Transition ]', min=0, max=1),
       dict(name='TVAR-stt', pat='typedef create_stt ( Fsm ) stt ;', rep='', min=0, max=1),
       # the function pointer stored is the row's execute (ROW) or its event-converting wrapper (ROW_CONVERTING)
       dict(name='CELL-set-row-converting', pat='self -> entries [ $*I ] = & convert_event_and_forward < Transition > :: execute ;', rep='entries [ $*I ] = ROW_CONVERTING ( Transition ) ;', min=0, max=1),
       dict(name='CELL-set-row', pat='self -> entries [ $*I ] = $*F ;', rep='entries [ $*I ] = ROW ( Transition ) ;', min=0, max=1)]
RWD = [dict(name='TVAL-state-id', pat='get_state_id ( stt , State )', rep='g_state_id [ State ]', min=0, max=1),
       dict(name='TVAR-stt', pat='typedef create_stt ( Fsm ) stt ;', rep='', min=0, max=1),
       dict(name='FN-defer', pat='cell call_no_transition = & Fsm :: defer_transition ;', rep='const int call_no_transition = FN_DEFER ;', min=0, max=1),
       dict(name='FN-nt', pat='cell call_no_transition = & Fsm :: call_no_transition ;', rep='const int call_no_transition = FN_NT ;', min=0, max=1),
       dict(name='FN-nt-internal', pat='cell call_no_transition = & Fsm :: call_no_transition_internal ;', rep='const int call_no_transition = FN_NT_INTERNAL ;', min=0, max=1),
       dict(name='FN-eventless', pat='cell call_no_transition = & Fsm :: default_eventless_transition ;', rep='const int call_no_transition = FN_EVENTLESS ;', min=0, max=1),
       dict(name='CELL-set-default', pat='tofill_entries [ $*I ] = call_no_transition ;', rep='entries [ $*I ] = call_no_transition ;', min=0, max=1)]
xr = back_xform(['get_state_id', 'create_stt'], refparams=(), rewrites=RWR)
xd = back_xform(['get_state_id', 'create_stt'], refparams=(), rewrites=RWD)
for be in BACKS:
    DTH = be + '/dispatch_table.hpp'
    IC = ['struct dispatch_table {', 'struct init_cell'] if False else ['struct init_cell']
    DC = ['struct default_init_cell {']; DCC = ['struct default_init_cell < EventType , typename enable_if < typename is_completion_event < EventType > :: type > :: type >']
    def IB(a, b, nth): return Part(DTH, IC, 'init_event_base_case ( Transition const & , %s const & , %s const & ) const' % (a, b), nth=nth, xform=xr)
    UNITS.append(Unit(be + '.dispatch_table.construct', ['C01', 'C05', 'C13'], be,
        Part(DTH, [], 'dispatch_table ( )', nth=0, xform=back_xform([], refparams=(), pre_rewrites=[
            dict(name='TVAR-maps', pat='typedef typename $*A ;', rep='', min=2, max=2),     # the type-level map of rows per source and the chained rows (type computation)
            dict(name='FOREACH-defaults', pat='for_each < typename generate_state_set < Stt > :: type , wrap < _1 > > ( default_init_cell < Event > ( this , entries ) ) ;', rep='default_cells ( entries ) ;', min=0, max=1),
            dict(name='FOREACH-rows', pat='for_each < chained_rows > ( init_cell ( this ) ) ;', rep='row_cells ( entries ) ;', min=0, max=1)])),
        'void build_entries(int* entries)', 'rts_table.spec.h', defines=['UNIT_CTOR=1'], cbmc_flags=['--object-bits', '12'], replay=['sel']))
    UNITS.append(Unit(be + '.dispatch_table.default_cells', ['C01', 'C05', 'C13'], be,
        [Part(DTH, DC, 'operator ( ) ( wrap < State > const & , dummy < 0 > = 0 )', xform=xd),     # @0 deferring state
         Part(DTH, DC, 'operator ( ) ( wrap < State > const & , dummy < 1 > = 0 )', xform=xd),     # @1 ordinary state
         Part(DTH, DC, 'operator ( ) ( wrap < State > const & , dummy < 2 > = 0 )', xform=xd),     # @2 the machine itself (internal table)
         Part(DTH, DCC, 'operator ( ) ( wrap < State > const & , dummy < 0 > = 0 )', xform=xd),    # @3 completion event, state
         Part(DTH, DCC, 'operator ( ) ( wrap < State > const & , dummy < 1 > = 0 )', xform=xd)],   # @4 completion event, machine itself
        'void default_cells(int* entries)', 'rts_table.spec.h', defines=['UNIT_DEFAULTS=1'],
        compose='for (type_t State = 0; State != g_ns; ++State)\n'
                '__CPROVER_assigns(State, __CPROVER_object_whole(entries))\n'
                '__CPROVER_loop_invariant(0 <= State && State <= g_ns)\n'
                '__CPROVER_loop_invariant(g_s < State ==> entries[g_c] == DEFAULT_OF(g_s))\n'
                '__CPROVER_decreases(g_ns - State)\n'
                '{ if (g_is_completion_event) { if (g_state_is_fsm[State]) {@4} else {@3} } else if (g_deferred[State]) {@0} else if (g_state_is_fsm[State]) {@2} else {@1} }\n'
                'g_phase = 1;   /* ghost */',
        force_loop_contracts=True, cbmc_flags=['--object-bits', '12'], replay=['sel', 'kleene']))
    UNITS.append(Unit(be + '.dispatch_table.row_cells', ['C01', 'C13'], be,
        [IB('true_', 'false_', 0), IB('true_', 'false_', 1), IB('false_', 'true_', 0), IB('false_', 'true_', 1), IB('true_', 'true_', 0), IB('true_', 'true_', 1), IB('false_', 'false_', 0), IB('false_', 'false_', 1)],   # @0..@7
        'void row_cells(int* entries)', 'rts_table.spec.h', defines=['UNIT_ROWS=1'],
        compose='const int before = entries[g_c];\n'
                'for (type_t Transition = 0; Transition != g_nt; ++Transition)\n'
                '__CPROVER_assigns(Transition, __CPROVER_object_whole(entries))\n'
                '__CPROVER_loop_invariant(0 <= Transition && Transition <= g_nt)\n'
                '__CPROVER_loop_invariant(entries[g_c] == ((g_has_row && g_i < Transition) ? CELLV(g_i) : before))\n'
                '__CPROVER_decreases(g_nt - Transition)\n'
                '{ if (!g_not_real[Transition]) { const _Bool fsm_src = g_src_is_fsm[Transition];\n'
                '    if (g_is_base[Transition] && !g_is_kleene[Transition]) { if (fsm_src) {@1} else {@0} }\n'
                '    else if (!g_is_base[Transition] && g_is_kleene[Transition]) { if (fsm_src) {@3} else {@2} }\n'
                '    else if (g_is_base[Transition] && g_is_kleene[Transition]) { if (fsm_src) {@5} else {@4} }\n'
                '    else { if (fsm_src) {@7} else {@6} } } }\n'
                'g_phase = 2;   /* ghost */',
        force_loop_contracts=True, cbmc_flags=['--object-bits', '12'], replay=['sel', 'kleene']))
