"""backmp11 public entry points: start / stop / process_event_pool / enqueue_event / process_event (C03 C04 C06)"""
from .common import *
from .rows_mp11 import ENUMS, DROP2
SB = 'backmp11/detail/state_machine_base.hpp'
UNITS = []
RW = [dict(name='fsm-argument', pat='get_fsm_argument ( )', rep='self', min=0),
      dict(name='method-on_entry', pat='on_entry ( self ,', rep='machine_on_entry ( self ,', min=0, max=1),
      dict(name='method-on_exit', pat='on_exit ( self ,', rep='machine_on_exit ( self ,', min=0, max=1),
      dict(name='pool-empty', pat='get_event_pool ( ) . events . empty ( )', rep='pool_events_empty ( self )', min=0, max=1),
      dict(name='SCOPE-policy-defer', pat='compile_policy_impl :: defer_event ( self ,', rep='policy_defer_event ( self ,', min=0, max=1),
      dict(name='SCOPE-policy-defer2', pat='compile_policy_impl :: defer_event ( * self ,', rep='policy_defer_event ( self ,', min=0, max=1),
      dict(name='SCOPE-normalize', pat='compile_policy_impl :: normalize_event (', rep='normalize_event (', min=0),
      dict(name='ENUMQ-info', pat='process_info :: direct_call', rep='process_info_direct_call', min=0)]
def xfa(): return back_xform([], refparams=(), members=['m_running', 'm_event_processing'], methods=['on_entry', 'on_exit', 'do_process_event_pool', 'process_event_internal'], enums=ENUMS, drop=DROP2, rewrites=RW)
UNITS.append(Unit('backmp11.start', ['C03', 'C13'], 'backmp11', Part(SB, [], 'void start ( Event const & initial_event )'),
    'void api_start(fsm_t* self, event_t initial_event)', 'api_mp11.spec.h', defines=['UNIT_START=1'], xform=xfa(), replay=['order']))
UNITS.append(Unit('backmp11.stop', ['C03', 'C13'], 'backmp11', Part(SB, [], 'void stop ( Event const & final_event )'),
    'void api_stop(fsm_t* self, event_t final_event)', 'api_mp11.spec.h', defines=['UNIT_STOP=1'], xform=xfa(), replay=['order']))
UNITS.append(Unit('backmp11.process_event_pool', ['C04', 'C13'], 'backmp11', Part(SB, [], 'size_t process_event_pool ( size_t max_events = SIZE_MAX )'),
    'size_t api_process_event_pool(fsm_t* self, size_t max_events)', 'api_mp11.spec.h', defines=['UNIT_POOL=1'], xform=xfa(), replay=['queue']))
UNITS.append(Unit('backmp11.enqueue_event', ['C04', 'C18', 'C13'], 'backmp11', Part(SB, [], 'void enqueue_event ( Event const & event )'),
    'void api_enqueue_event(fsm_t* self, event_t event)', 'api_mp11.spec.h', defines=['UNIT_ENQUEUE=1'], xform=xfa(), replay=['queue']))
UNITS.append(Unit('backmp11.process_event', ['C04', 'C06', 'C13'], 'backmp11', Part(SB, [], 'process_result process_event ( Event const & event )'),
    'process_result api_process_event(fsm_t* self, event_t event)', 'api_mp11.spec.h', defines=['UNIT_PROCESS=1'], xform=xfa(), replay=['queue']))

EX = ['struct exit_pt']
UNITS.append(Unit('backmp11.exit_pt.forward_event', ['C09', 'C18', 'C13'], 'backmp11', Part(SB, EX, 'void forward_event ( void * root_sm , const ForwardEvent & forward_event )'),
    'void exit_forward_event(exitpt_t* self, fsm_t* root_sm, event_t forward_event)', 'api_mp11.spec.h', defines=['UNIT_EXIT_FORWARD=1'],
    xform=back_xform([], refparams=(), members=['m_forward_fn'], enums=ENUMS, drop=DROP2, pre_rewrites=[dict(name='ASSERT-convertible', pat='static_assert ( $*A ;', rep='', min=0, max=1)],
        rewrites=[dict(name='fnptr-call', pat='self -> m_forward_fn ( root_sm , & forward_event ) ;', rep='call_forward_fn ( self , root_sm , forward_event ) ;', min=0, max=1)]), replay=['sel']))
UNITS.append(Unit('backmp11.exit_pt.call_enqueue_event', ['C09', 'C04', 'C13'], 'backmp11', Part(SB, EX, 'static void call_enqueue_event ( void * root_sm , const void * event )'),
    'void call_enqueue_event(fsm_t* root_sm, event_t event)', 'api_mp11.spec.h', defines=['UNIT_EXIT_ENQUEUE=1'],
    xform=back_xform([], refparams=(), enums=ENUMS, drop=DROP2, rewrites=[
        dict(name='CAST-call', pat='( ( RootSm * ) ( root_sm ) ) -> enqueue_event ( * ( ( const Event * ) ( event ) ) ) ;', rep='root_enqueue_event ( root_sm , event ) ;', min=0, max=1)]), replay=['sel']))
UNITS.append(Unit('backmp11.completion_event_occurrence.try_process_impl', ['C10', 'C13'], 'backmp11',
    Part(SB, ['class completion_event_occurrence'], 'optional < process_result > try_process_impl ( derived_t & sm )'),
    'optres_t completion_try_process_impl(cocc_t* self, fsm_t* sm)', 'api_mp11.spec.h', defines=['UNIT_COMPLETION_OCC=1'],
    xform=back_xform([], refparams=(), members=['m_region_id'], enums=ENUMS, drop=DROP2, rewrites=[
        dict(name='base-member-call', pat='mark_for_deletion ( ) ;', rep='MARK_FOR_DELETION ( self ) ;', min=0, max=1),
        dict(name='OPT-some', pat='return sm . template process_completion_transition < completion_transition > ( self -> m_region_id ) ;', rep='return some_ ( process_completion_transition ( sm , self -> m_region_id ) ) ;', min=0, max=1),
        dict(name='OPT-some2', pat='return sm . process_completion_transition < completion_transition > ( self -> m_region_id ) ;', rep='return some_ ( process_completion_transition ( sm , self -> m_region_id ) ) ;', min=0, max=1)]),
    must_contain=[('backmp11/common_types.hpp', 'void mark_for_deletion ( ) { m_marked_for_deletion = true ; }')], replay=['queue']))
UNITS.append(Unit('backmp11.defer_event', ['C05', 'C18', 'C13'], 'backmp11', Part(SB, [], 'void defer_event ( Event const & event )'),
    'void api_defer_event(fsm_t* self, event_t event)', 'api_mp11.spec.h', defines=['UNIT_DEFER_API=1'], xform=xfa(), replay=['defer']))
