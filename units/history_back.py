"""history policies (C08, C15, C05)"""
from .common import *
H = 'back/history_policies.hpp'
UNITS = []
LOOP = lambda arr, src, extra='': ('__CPROVER_assigns(i, __CPROVER_object_whole(self))\n'
    '__CPROVER_loop_invariant(0 <= i && i <= NumberOfRegions && (g_k < i ==> (%s)) %s)\n__CPROVER_decreases(NumberOfRegions - i)') % (' && '.join('self->%s[g_k] == %s[g_k]' % (a, src) for a in arr), extra)
for pol, cls in enumerate(['NoHistoryImpl', 'AlwaysHistoryImpl', 'ShallowHistoryImpl']):
    D = ['POLICY=%d' % pol]
    mem = ['m_initialStates', 'm_currentStates']
    xf = back_xform(['contains'], refparams=('rhs',), members=mem)
    arrs = ['m_currentStates', 'm_initialStates'] if pol == 2 else ['m_initialStates']
    UNITS.append(Unit('back.%s.set_initial_states' % cls, ['C08', 'C13'], 'back', Part(H, ['class ' + cls], 'void set_initial_states ( int * const initial_states )'),
        'void set_initial_states(hist_t* self, int* const initial_states)', 'history_back.spec.h', xform=xf, defines=D, loops={0: LOOP(arrs, 'initial_states')}))
    UNITS.append(Unit('back.%s.history_exit' % cls, ['C08', 'C13'], 'back', Part(H, ['class ' + cls], 'void history_exit ( int * const' ),
        'void history_exit(hist_t* self, int* const current_states)', 'history_back.spec.h', xform=xf, defines=D,
        loops=({} if pol == 0 else {0: LOOP(['m_currentStates'] if pol == 2 else ['m_initialStates'], 'current_states',
               '&& self->m_initialStates[g_k] == __CPROVER_loop_entry(self->m_initialStates[g_k])' if pol == 2 else '')})))
    UNITS.append(Unit('back.%s.history_entry' % cls, ['C08', 'C13'], 'back', Part(H, ['class ' + cls], 'const int * history_entry ( Event const &'),
        'const int* history_entry(hist_t* self, event_t evt)', 'history_back.spec.h', xform=xf, defines=D, replay=['hist', 'ser', 'copy']))
    UNITS.append(Unit('back.%s.process_deferred_events' % cls, ['C08', 'C05', 'C13'], 'back', Part(H, ['class ' + cls], 'bool process_deferred_events ( Event const & ) const'),
        '_Bool process_deferred_events(hist_t* self, event_t evt)', 'history_back.spec.h', xform=xf, defines=D, replay=['hist', 'ser', 'copy']))
    UNITS.append(Unit('back.%s.assign' % cls, ['C15', 'C08'], 'back', Part(H, ['class ' + cls], '& operator = ('),
        'hist_t* history_assign(hist_t* self, hist_t* rhs)', 'history_back.spec.h',
        xform=back_xform(['contains'], refparams=('rhs',), members=mem, rewrites=[dict(name='THIS-ret', pat='return self ;', rep='return self ;', min=1, max=1)]),
        defines=D, loops={0: ('__CPROVER_assigns(i, __CPROVER_object_whole(self))\n__CPROVER_loop_invariant(0 <= i && i <= NumberOfRegions && (g_k < i ==> (self->m_initialStates[g_k] == rhs->m_initialStates[g_k]%s)))\n__CPROVER_decreases(NumberOfRegions - i)') % (' && self->m_currentStates[g_k] == rhs->m_currentStates[g_k]' if pol == 2 else '')}))
for _u in UNITS:
    if not _u.replay: _u.replay = ['hist', 'copy', 'ser']      # every unit needs native families to fall back on when it is undecided
