"""entry / exit cascades of back / back11 (C02 C03 C04 C05 C08 C09 C10 C12)"""
from .common import *
UNITS = []
P = ['C02', 'C08', 'C09', 'C13']
RID = dict(name='SPEC-arg', pat='region_id :: value', rep='region_id', min=1)
FOREACH_EXIT = dict(name='FOREACH-functor-exit', pat='for_each < state_list , wrap < _1 > > ( entry_exit_helper < Event , false > $$A ) ;', rep='exit_active_substate $$A ;', min=1, max=1)
FOREACH_ENTRY = dict(name='FOREACH-functor-entry', pat='for_each < state_list , wrap < _1 > > ( entry_exit_helper < Event , true > $$A ) ;', rep='enter_active_substate $$A ;', min=1, max=1)
PCE = dict(name='helper-object', pat='handle_eventless_transitions_helper < library_sm > eventless_helper ( self , $$A ) ; eventless_helper . process_completion_event ( $*B ) ;',
           rep='PROCESS_COMPLETION_EVENT ( self , $$A $*B ) ;', min=1, max=1)
MEM = ['m_states', 'm_history', 'm_event_processing', 'm_deferred_events_queue']
METH = ['internal_start', 'do_entry', 'do_exit', 'clear_deferred_queue', 'process_event']
THROW = ['exit_active_substate', 'enter_active_substate', 'Derived_on_exit', 'Derived_on_entry', 'regions_do_exit', 'regions_do_start', 'internal_start',
         'direct_event_start_helper_call', 'PROCESS_COMPLETION_EVENT', 'process_event', 'do_handle_deferred', 'process_message_queue']
def xf(rewrites=(), pre=(), exc_ret='', throwers=THROW, guards=None):
    return back_xform(['get_state_id', 'find_region_id'], refparams=('fsm', 'evt'), members=MEM, methods=METH, rewrites=list(rewrites), pre_rewrites=list(pre), throwers=throwers, exc_ret=exc_ret, guards=guards)
GUARDS = {'event_processing_reset': 'event_processing_reset_dtor'}
# the scope guard's destructor (RAII): extracted and called where C++ unwinding / scope exit runs it (GUARD rule); absent -> empty body
def GUARD_DTOR(SM):
    return Part(SM, ['struct event_processing_reset'], '~ event_processing_reset ( )', optional=True,
                xform=back_xform([], refparams=(), rewrites=[dict(name='REF-member', pat='m_flag', rep='* m_flag', min=0)]))
GUARD_FS = 'static void event_processing_reset_dtor(_Bool* m_flag){@1}\n'
REG_ENTRY = dict(name='SPEC-first-entry', pat='region_entry_exit_helper < int_ < 0 > > :: do_entry ( self ,', rep='REGIONS_DO_ENTRY ( self ,', min=0, max=1)
DERIVED = [dict(name='CRTP-on_entry', pat='( ( ( Derived * ) ( self ) ) ) -> on_entry (', rep='Derived_on_entry ( self ,', min=0),
           dict(name='CRTP-on_exit', pat='( ( ( Derived * ) ( self ) ) ) -> on_exit (', rep='Derived_on_exit ( self ,', min=0),
           dict(name='fsm-deref', pat='* self )', rep='self )', min=0)]
for be in BACKS:
    SM = be + '/state_machine.hpp'
    SC = ['struct region_entry_exit_helper {']; SCE = ['struct region_entry_exit_helper < int_ < nr_regions :: value > , Dummy >']
    UNITS.append(Unit(be + '.region_entry_exit_helper.do_entry', ['C08', 'C09', 'C13'], be,
        [Part(SM, SC, 'static void do_entry ( library_sm * self_ , Event const & incomingEvent )',
              xform=back_xform([], refparams=(), rewrites=[RID, dict(name='member-call', pat='self_ -> m_history . history_entry (', rep='history_entry ( self_ ,', min=1, max=1),
                    dict(name='static-member', pat='library_sm :: remove_direct_entry_event_wrapper', rep='remove_direct_entry_event_wrapper', min=0, max=1),
                    dict(name='SPEC-next', pat='region_entry_exit_helper < int_ < region_id + 1 > > :: do_entry (', rep='regions_do_entry ( region_id + 1 ,', min=1, max=1)])),
         Part(SM, SCE, 'static void do_entry ( library_sm * , Event const & )')],
        'void regions_do_entry(int region_id, fsm_t* self_, event_t incomingEvent)', 'cascade_back.spec.h',
        compose='if (region_id == nr_regions) {@1} else {@0}', rec=True, replay=['hist']))
    UNITS.append(Unit(be + '.region_entry_exit_helper.do_exit', ['C02', 'C07', 'C13'], be,
        [Part(SM, SC, 'static void do_exit ( library_sm * self_ , Event const & incomingEvent )',
              xform=back_xform([], refparams=(), throwers=['exit_active_substate'], exc_ret='', rewrites=[RID, FOREACH_EXIT,
                    dict(name='SPEC-next', pat='region_entry_exit_helper < int_ < region_id + 1 > > :: do_exit (', rep='regions_do_exit ( region_id + 1 ,', min=1, max=1)])),
         Part(SM, SCE, 'static void do_exit ( library_sm * , Event const & )')],
        'void regions_do_exit(int region_id, fsm_t* self_, event_t incomingEvent)', 'cascade_back.spec.h',
        compose='if (region_id == nr_regions) {@1} else {@0}', rec=True, replay=['order']))
    UNITS.append(Unit(be + '.region_start_helper.do_start', ['C02', 'C04', 'C09', 'C13'], be,
        [Part(SM, ['struct region_start_helper {'], 'static void do_start ( library_sm * self_ , Event const & incomingEvent )',
              xform=back_xform([], refparams=(), throwers=['enter_active_substate'], exc_ret='', rewrites=[RID, FOREACH_ENTRY,
                    dict(name='SPEC-next', pat='region_start_helper < int_ < region_id + 1 > > :: do_start (', rep='regions_do_start ( region_id + 1 ,', min=1, max=1)])),
         Part(SM, ['struct region_start_helper < int_ < nr_regions :: value > , Dummy >'], 'static void do_start ( library_sm * , Event const & )')],
        'void regions_do_start(int region_id, fsm_t* self_, event_t incomingEvent)', 'cascade_back.spec.h',
        compose='if (region_id == nr_regions) {@1} else {@0}', rec=True, replay=['order']))
    UNITS.append(Unit(be + '.remove_direct_entry_event_wrapper', ['C08', 'C09'], be,
        [Part(SM, [], 'remove_direct_entry_event_wrapper ( EventType const & evt , dummy < 0 > = 0 )', xform=back_xform([], refparams=(), rewrites=[dict(name='wrapper-member', pat='evt . m_event', rep='unwrap ( evt )', min=1, max=1)])),
         Part(SM, [], 'remove_direct_entry_event_wrapper ( EventType const & evt , dummy < 1 > = 0 )')],
        'event_t remove_direct_entry_event_wrapper(event_t evt)', 'cascade_back.spec.h', compose='if (evt.wrapped) {@0} else {@1}', replay=['hist']))
    # internal_start: its only callers are the direct_event_start_helper variants, inside do_entry's busy bracket
    for ctx, d in (('from_do_entry', 'CALLER_DO_ENTRY=1'),):
        UNITS.append(Unit(be + '.internal_start.' + ctx, ['C02', 'C04', 'C10', 'C09', 'C13'], be,
            Part(SM, [], 'void internal_start ( Event const & incomingEvent )'),
            'void internal_start(fsm_t* self, event_t incomingEvent)', 'cascade_back.spec.h', defines=[d],
            xform=xf([dict(name='SPEC-first', pat='region_start_helper < int_ < 0 > > :: do_start (', rep='regions_do_start ( 0 ,', min=1, max=1), PCE]),
            also_replace=['process_completion_event'], replay=['queue']))
    UNITS.append(Unit(be + '.do_exit', ['C02', 'C05', 'C07', 'C08', 'C13'], be,
        Part(SM, [], 'void do_exit ( Event const & incomingEvent , FsmType & fsm )'),
        'void do_exit(fsm_t* self, event_t incomingEvent, fsm_t* fsm)', 'cascade_back.spec.h',
        xform=xf(DERIVED + [dict(name='SPEC-first', pat='region_entry_exit_helper < int_ < 0 > > :: do_exit (', rep='regions_do_exit ( 0 ,', min=1, max=1),
                  dict(name='history-exit', pat='self -> m_history . history_exit ( self -> m_states )', rep='history_exit ( self , self -> m_states )', min=1, max=1),
                  dict(name='history-deferred', pat='self -> m_history . process_deferred_events (', rep='process_deferred_events ( self ,', min=1, max=1)]),
        replay=['order', 'hist']))
    UNITS.append(Unit(be + '.do_entry', ['C02', 'C04', 'C05', 'C08', 'C10', 'C12', 'C13'], be,
        [Part(SM, [], 'void do_entry ( Event const & incomingEvent , FsmType & fsm )',
              xform=xf(DERIVED + [REG_ENTRY,
                  dict(name='functor-call', pat='direct_event_start_helper ( self ) (', rep='direct_event_start_helper_call ( self ,', min=0, max=1),
                  dict(name='helper-object', pat='handle_defer_helper < library_sm > defer_helper ( self -> m_deferred_events_queue ) ; defer_helper . do_handle_deferred (', rep='do_handle_deferred ( self ,', min=0, max=1)],
                  guards=GUARDS)), GUARD_DTOR(SM)],
        'void do_entry(fsm_t* self, event_t incomingEvent, fsm_t* fsm)', 'cascade_back.spec.h', compose='@0', file_scope=GUARD_FS,
        also_replace_if_present=['regions_do_entry'], replay=['hist', 'exc', 'defer']))

DES = [REG_ENTRY, dict(name='member-call-start', pat='self -> internal_start (', rep='internal_start ( self ,', min=0, max=1),
       dict(name='member-call-process', pat='self -> process_event (', rep='process_event ( self ,', min=0, max=1),
       dict(name='member-call-enqueue', pat='self -> enqueue_event (', rep='enqueue_event_instead ( self ,', min=0, max=1),
       dict(name='wrapper-member', pat='evt . m_event', rep='unwrap ( evt )', min=0),
       dict(name='TVAL-target-id', pat='get_state_id ( stt , EventType :: active_state :: wrapped_entry )', rep='g_target_id', min=0, max=1),
       dict(name='TVAL-target-region', pat='find_region_id ( EventType :: active_state :: wrapped_entry ) :: region_index', rep='g_target_region', min=0, max=1),
       dict(name='FOREACH-functor-fork', pat='for_each < EventType :: active_state , wrap < _1 > > ( fork_helper < EventType > ( self , evt ) ) ;', rep='fork_foreach ( self , evt ) ;', min=0, max=1)]
for be in BACKS:
    SM = be + '/state_machine.hpp'
    for kind in range(4):
        UNITS.append(Unit(be + '.direct_event_start_helper.%d' % kind, ['C09', 'C02', 'C08', 'C13'], be,
            Part(SM, ['struct direct_event_start_helper'], 'operator ( ) ( EventType const & evt , FsmType & fsm , dummy < %d > = 0 )' % kind),
            'void direct_event_start(fsm_t* self, event_t evt, fsm_t* fsm)', 'cascade_back.spec.h', defines=['ENTRY_KIND=%d' % kind], also_replace_if_present=['regions_do_entry'],
            xform=back_xform(['get_state_id', 'find_region_id'], refparams=('fsm',), rewrites=DERIVED + DES,
                             throwers=['Derived_on_entry', 'internal_start', 'process_event'], exc_ret=''),
            replay=['hist', 'sel']))
START_RW = DERIVED + [dict(PCE, min=0),
    dict(name='FOREACH-functor-init', pat='for_each < seq_initial_states , wrap < _1 > > ( init_states ( self -> m_states ) ) ;', rep='init_states_foreach ( self ) ;', min=0, max=1),
    dict(name='FOREACH-functor-callinit0', pat='for_each < initial_states , wrap < _1 > > ( call_init < fsm_initial_event > ( fsm_initial_event ( ) , self ) ) ;', rep='call_init_foreach ( self , fsm_initial_event ( ) ) ;', min=0, max=1),
    dict(name='FOREACH-functor-callinit1', pat='for_each < initial_states , wrap < _1 > > ( call_init < Event > ( incomingEvent , self ) ) ;', rep='call_init_foreach ( self , incomingEvent ) ;', min=0, max=1),
    dict(name='member-do_exit', pat='do_exit ( self ,', rep='do_exit_stub ( self ,', min=0, max=1)]
for be in BACKS:
    SM = be + '/state_machine.hpp'
    for nm, anchor in (('start', 'void start ( )'), ('start_evt', 'void start ( Event const & incomingEvent )')):
        UNITS.append(Unit(be + '.' + nm, ['C03', 'C02', 'C04', 'C10', 'C12', 'C13'], be,
            [Part(SM, [], anchor, xform=xf(START_RW + [dict(name='member-queue', pat='process_message_queue ( self )', rep='start_process_message_queue ( self )', min=0, max=1)],
                                           throwers=['Derived_on_entry', 'call_init_foreach', 'PROCESS_COMPLETION_EVENT', 'start_process_message_queue'], guards=GUARDS)), GUARD_DTOR(SM)],
            'void start_unit(fsm_t* self, event_t incomingEvent)', 'cascade_back.spec.h', compose='@0', file_scope=GUARD_FS,
            also_replace=['process_completion_event'], replay=['queue', 'order', 'exc']))
    for nm, anchor in (('stop', 'void stop ( )'), ('stop_evt', 'void stop ( Event const & finalEvent )')):
        UNITS.append(Unit(be + '.' + nm, ['C03', 'C13'], be, Part(SM, [], anchor),
            'void stop_unit(fsm_t* self, event_t finalEvent)', 'cascade_back.spec.h', xform=xf(START_RW, throwers=[]), replay=['order']))
