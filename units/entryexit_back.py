"""per-state dispatch and execute_entry/exit variants of back / back11 (C02 C03 C09)"""
from .common import *
UNITS = []
def gns(_): return [X.T('g_nstates')]
for be in BACKS:
    SM = be + '/state_machine.hpp'
    SC = ['struct entry_exit_helper']
    hx = back_xform(['get_state_id', 'execute_entry', 'execute_exit', 'at_key'], refparams=(), rewrites=[dict(name='deref-self', pat='* self )', rep='self )', min=0)])
    UNITS.append(Unit(be + '.entry_exit_helper.foreach', ['C02', 'C03', 'C07', 'C13'], be,
        [Part(SM, SC, 'void operator ( ) ( wrap < State > const & )', xform=back_xform([], refparams=(), rewrites=[
              dict(name='OVL-call', pat='entry_exit_helper < Event , is_entry > :: helper < bool_ < is_entry > , State > ( ) ;', rep='if ( is_entry ) helper_entry ( State , state_id , evt , self ) ; else helper_exit ( State , state_id , evt , self ) ;', min=1, max=1)])),
         Part(SM, SC, 'helper ( dummy < 0 > = 0 )', xform=hx), Part(SM, SC, 'helper ( dummy < 1 > = 0 )', xform=hx)],
        'void entry_exit_foreach(_Bool is_entry, int state_id, event_t evt, fsm_t* self)', 'entryexit_back.spec.h',
        file_scope='static void helper_entry(type_t State, int state_id, event_t evt, fsm_t* self){@1}\nstatic void helper_exit(type_t State, int state_id, event_t evt, fsm_t* self){@2}\n',
        compose='for (type_t State = 0; State != g_nstates; ++State)\n'
                '__CPROVER_assigns(State, g_calls, g_exc)\n'
                '__CPROVER_loop_invariant(0 <= State && State <= g_nstates && g_calls == ((0 <= state_id && state_id < State) ? 1 : 0))\n'
                '__CPROVER_decreases(g_nstates - State)\n{ @0 }',
        force_loop_contracts=True, replay=['order']))
    for kind, (nm, dn) in enumerate((('composite', 0), ('simple', 1), ('pseudo_exit', 2))):
        UNITS.append(Unit(be + '.execute_entry.' + nm, ['C02', 'C09', 'C13'], be, Part(SM, [], 'execute_entry ( StateType & astate , EventType const & evt , FsmType & fsm , dummy < %d > = 0 )' % dn),
            'void execute_entry_unit(stref_t astate, event_t evt, fsm_t* fsm)', 'entryexit_back.spec.h', defines=['KIND=%d' % kind],
            xform=back_xform([], refparams=(), throwers=['state_on_entry'], exc_ret='', rewrites=[
                dict(name='member-do_entry', pat='astate . do_entry (', rep='state_do_entry ( astate ,', min=0, max=1),
                dict(name='member-on_entry', pat='astate . on_entry (', rep='state_on_entry ( astate ,', min=0, max=1),
                dict(name='member-forward', pat='astate . forward_event (', rep='state_forward_event ( astate ,', min=0, max=1)]), replay=['order', 'hist']))
    for kind, (nm, dn) in enumerate((('composite', 0), ('simple', 1))):
        UNITS.append(Unit(be + '.execute_exit.' + nm, ['C02', 'C13'], be, Part(SM, [], 'execute_exit ( StateType & astate , EventType const & evt , FsmType & fsm , dummy < %d > = 0 )' % dn),
            'void execute_exit_unit(stref_t astate, event_t evt, fsm_t* fsm)', 'entryexit_back.spec.h', defines=['KIND=%d' % kind],
            xform=back_xform([], refparams=(), rewrites=[
                dict(name='member-do_exit', pat='astate . do_exit (', rep='state_do_exit ( astate ,', min=0, max=1),
                dict(name='member-on_exit', pat='astate . on_exit (', rep='state_on_exit ( astate ,', min=0, max=1)]), replay=['order']))
    for expl, dn in ((0, 1), (1, 0)):
        UNITS.append(Unit(be + '.convert_event_and_execute_entry.' + ('explicit' if expl else 'normal'), ['C09', 'C02', 'C13'], be,
            Part(SM, [], 'convert_event_and_execute_entry ( StateType & astate , EventType const & evt , FsmType & fsm , dummy < %d > = 0 )' % dn),
            'void convert_event_and_execute_entry(stref_t astate, event_t evt, fsm_t* fsm)', 'entryexit_back.spec.h', defines=['EXPLICIT=%d' % expl],
            xform=back_xform(['execute_entry', 'direct_entry_event'], refparams=(), rewrites=[
                dict(name='TARG-call', pat='execute_entry ( StateType , astate ,', rep='execute_entry_any ( StateType , astate ,', min=0, max=1),
                dict(name='deduced-call', pat='execute_entry ( astate ,', rep='execute_entry_any ( StateType , astate ,', min=0, max=1)]), replay=['hist']))
    UNITS.append(Unit(be + '.exit_pt.ForwardHelper.true', ['C09', 'C07', 'C13'], be,
        Part(SM, ['struct exit_pt', 'struct ForwardHelper < true , Dummy >'], 'static void helper ( ForwardEvent const & incomingEvent , forwarding_function & forward_fct )'),
        'void forward_helper(event_t incomingEvent, fwd_fct_t* forward_fct, _Bool OwnEvent)', 'entryexit_back.spec.h',
        xform=back_xform([], refparams=(), rewrites=[dict(name='function-bool', pat='( forward_fct )', rep='( forward_fct -> set )', min=0, max=2), dict(name='function-bool-not', pat='! forward_fct', rep='! forward_fct -> set', min=0, max=2),
                                                     dict(name='function-call', pat='forward_fct ( incomingEvent ) ;', rep='call_forward ( forward_fct , incomingEvent ) ;', min=0, max=2)]), replay=['hist', 'sel', 'copy']))

for be in BACKS:
    SM = be + '/state_machine.hpp'
    UNITS.append(Unit(be + '.get_state_by_id', ['C03', 'C13'], be,
        [Part(SM, [], 'BaseState * get_state_by_id ( int id )', xform=back_xform([], refparams=(), rewrites=[
              dict(name='result-handle', pat='const BaseState * result_state = 0 ;', rep='stref_t result_state = 0 ; const stref_t g_target = at_key ( id , self -> m_substate_list ) ;', min=1, max=1),
              dict(name='FOREACH-functor', pat='for_each < state_list , $*W ( get_state_id_helper ( id , & result_state , $t ) ) ;',
                   rep='for ( type_t State = 0 ; State != g_nstates ; ++ State ) LOOPC { get_state_id_helper_call ( State , id , & result_state , self ) ; }', min=1, max=1),
              dict(name='CAST-const', pat='( BaseState * ) ( result_state )', rep='( result_state )', min=0, max=1)])),
         Part(SM, ['struct get_state_id_helper'], 'void operator ( ) ( wrap < StateType > const & )', xform=back_xform(['get_state_id', 'at_key'], refparams=(), rewrites=[
              dict(name='handle-of', pat='& at_key (', rep='at_key (', min=1, max=1)]))],
        'stref_t get_state_by_id(fsm_t* self, int id)', 'entryexit_back.spec.h',
        file_scope='/* functor object erased: constructor arguments (id, &result_state, this) are passed per call in constructor order */\n'
                   'static void get_state_id_helper_call(type_t StateType, int searched_id, stref_t* result_state, fsm_t* self){@1}\n'
                   '#define LOOPC __CPROVER_assigns(State, result_state) __CPROVER_loop_invariant(0 <= State && State <= g_nstates && result_state == ((0 <= id && id < State) ? g_target : 0)) __CPROVER_decreases(g_nstates - State)\n',
        compose='@0', force_loop_contracts=True, replay=['order']))
