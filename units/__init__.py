"""unit recipes. Each module defines UNITS (list of pipeline.Unit)."""
import importlib, pkgutil, os, json
def all_units(raw=False):
    out = []
    here = os.path.dirname(__file__)
    for m in sorted(pkgutil.iter_modules([here])):
        mod = importlib.import_module('units.' + m.name)
        out += getattr(mod, 'UNITS', [])
    names = [u.name for u in out]
    assert len(names) == len(set(names)), "duplicate unit names"
    assert all(u.replay for u in out), "a unit without native replay families has nothing to fall back on when it is undecided"
    fams = set(f[:-4] for f in os.listdir(os.path.join(os.path.dirname(here), 'replay')) if f.endswith('.cpp'))
    assert all(f in fams for u in out for f in u.replay), "a unit names a replay family that does not exist"
    if not raw:
        # a unit is also run under every property that one of its obligations' labels names (tools/label_index.py)
        try: idx = json.load(open(os.path.join(here, 'label_index.json')))
        except (OSError, ValueError): idx = {}
        for u in out:
            own = getattr(u, '_own_props', None)
            if own is None: u._own_props = own = list(u.props)
            u.props = own + [p for p in idx.get(u.name, []) if p not in own]
    return out
