"""unit recipes. Each module defines UNITS (list of pipeline.Unit)."""
import importlib, pkgutil, os
def all_units():
    out = []
    here = os.path.dirname(__file__)
    for m in sorted(pkgutil.iter_modules([here])):
        mod = importlib.import_module('units.' + m.name)
        out += getattr(mod, 'UNITS', [])
    names = [u.name for u in out]
    assert len(names) == len(set(names)), "duplicate unit names"
    return out
