"""forwarding rows (C07)"""
from .common import *
UNITS = []
for be in BACKS:
    SM = be + '/state_machine.hpp'
    UNITS.append(Unit(be + '.frow.execute', ['C07', 'C13', 'C18'], be,
        Part(SM, ['struct frow'], 'static HandledEnum execute ( library_sm & fsm , int region_index , int , transition_event'),
        'HandledEnum frow_execute(fsm_t* fsm, int region_index, int state, event_t evt)', 'hierarchy.spec.h',
        xform=back_xform(['get_state_id', 'at_key'], throwers=['SUB_PEI'],
            rewrites=[dict(name='member-call-on-substate', pat='( at_key $$A ) . process_event_internal (', rep='SUB_PEI ( at_key $$A ,', min=1, max=1)]),
        must_contain=[(SM, 'execute_return process_event_internal ( Event const & evt , EventSource source = EVENT_SOURCE_DEFAULT )' if be == 'back' else
                           'execute_return process_event_internal ( Event && evt , EventSource source = EVENT_SOURCE_DEFAULT )')],
        also_replace=['sub_process_event_internal'], replay=['sel']))
