"""backmp11 entry/exit cascades and history (C02 C04 C08 C09 C10 C12)"""
from .common import *
from .rows_mp11 import ENUMS, DROP2
HI = 'backmp11/detail/history_impl.hpp'; SB = 'backmp11/detail/state_machine_base.hpp'
UNITS = []
def wrong_mode(prefix, arg, obj):
    """the traversal of a machine's OWN active substates must be the non-recursive one (nested machines enter / exit their substates themselves):
    every other spelling - another visit_mode, or the default overload visit(v), which is active_recursive - becomes a stub whose precondition is false"""
    out = [dict(name='visit-other-mode-' + m, pat='%svisit < visit_mode :: %s > ( %s ) ;' % (prefix, m, arg), rep='visit_wrong_mode ( %s ) ;' % obj, min=0, max=1)
           for m in ('active_recursive', 'all_non_recursive', 'all_recursive', 'active_states', 'all_states')]
    return out + [dict(name='visit-default-overload', pat='%svisit ( %s ) ;' % (prefix, arg), rep='visit_wrong_mode ( %s ) ;' % obj, min=0, max=1)]
HRW = [dict(name='array-assign-init', pat='sm -> m_active_state_ids = value_array < InitialStateIds > ;', rep='ARRAY_ASSIGN ( sm -> m_active_state_ids , g_init_ids16 ) ;', min=0, max=1),
       dict(name='array-assign-last', pat='sm -> m_active_state_ids = self -> m_last_active_state_ids ;', rep='ARRAY_ASSIGN ( sm -> m_active_state_ids , self -> m_last_active_state_ids ) ;', min=0, max=1),
       dict(name='array-assign-save', pat='self -> m_last_active_state_ids = sm -> m_active_state_ids ;', rep='ARRAY_ASSIGN ( self -> m_last_active_state_ids , sm -> m_active_state_ids ) ;', min=0, max=1),
       dict(name='SCOPE-pool-member', pat='StateMachine :: event_pool_member :: value', rep='StateMachine_event_pool_member_value', min=0, max=1),
       dict(name='CONT-clear', pat='sm -> get_event_pool ( ) . events . clear ( ) ;', rep='pool_clear ( sm ) ;', min=0, max=1),
       dict(name='overload-ids', pat='on_entry ( sm , event ) ;', rep='SET_IDS_THEN ( hist_on_entry_ids ( self , sm , event ) ) ;', min=0, max=1),
       dict(name='visit-active', pat='sm -> visit < visit_mode :: active_non_recursive > ( visitor ) ;', rep='visit_active_entry ( sm ) ;', min=0, max=1)] + wrong_mode('sm -> ', 'visitor', 'sm')
xfh = back_xform(['mp_contains'], refparams=('sm',), members=['m_last_active_state_ids'], enums=ENUMS, drop=DROP2, rewrites=HRW)
SCOPES = {0: 'class history_impl < no_history , InitialStateIds >', 1: 'class history_impl < always_shallow_history , InitialStateIds >', 2: 'class history_impl < shallow_history < Events ... > , InitialStateIds >'}
for pol, sc in SCOPES.items():
    D = ['POLICY=%d' % pol]
    UNITS.append(Unit('backmp11.history_impl.%d.on_entry' % pol, ['C08', 'C05', 'C04', 'C13'], 'backmp11',
        Part(HI, [sc], 'void on_entry ( StateMachine & sm , const Event & )'), 'void hist_on_entry_ids(hist11_t* self, fsm_t* sm, event_t event)',
        'cascade_mp11.spec.h', xform=xfh, defines=D, replay=['hist']))
    UNITS.append(Unit('backmp11.history_impl.%d.on_exit' % pol, ['C08', 'C13'], 'backmp11',
        Part(HI, [sc], 'void on_exit ( StateMachine &' ), 'void hist_on_exit(hist11_t* self, fsm_t* sm)',
        'cascade_mp11.spec.h', xform=xfh, defines=D, replay=['hist']))
    if pol != 0:
        UNITS.append(Unit('backmp11.history_impl.%d.on_entry_visit' % pol, ['C08', 'C02', 'C13'], 'backmp11',
            Part(HI, [sc], 'void on_entry ( StateMachine & sm , const Event & event , Visitor && visitor )'), 'void hist_on_entry_visit(hist11_t* self, fsm_t* sm, event_t event)',
            'cascade_mp11.spec.h', xform=xfh, defines=D, also_replace=['hist_on_entry_ids'], replay=['hist']))
def gnr(_): return [X.T('nr_regions')]
UNITS.append(Unit('backmp11.history_impl.0.on_entry_visit', ['C08', 'C02', 'C13'], 'backmp11',
    Part(HI, [SCOPES[0]], 'void on_entry ( StateMachine & sm , const Event & event , Visitor && visitor )'), 'void hist_on_entry_visit(hist11_t* self, fsm_t* sm, event_t event)',
    'cascade_mp11.spec.h', defines=['POLICY=0'], also_replace=['hist_on_entry_ids'],
    xform=back_xform(['mp_contains'], refparams=('sm',), members=['m_last_active_state_ids'], enums=ENUMS, drop=DROP2, foreach=True, size_of=gnr, throwers=['visitor_state_by_id'], exc_ret='',
        rewrites=HRW + [dict(name='state-by-id', pat='auto & state = get < decltype ( state_id ) :: value > ( sm -> m_states ) ; visitor ( state ) ;', rep='visitor_state_by_id ( sm , g_init_ids16 [ state_id ] ) ;', min=0, max=1),
                        dict(name='state-by-id2', pat='auto & state = std :: get < decltype ( state_id ) :: value > ( sm -> m_states ) ; visitor ( state ) ;', rep='visitor_state_by_id ( sm , g_init_ids16 [ state_id ] ) ;', min=0, max=1)]),
    loops={0: '__CPROVER_assigns(state_id, g_entry_next, g_exc)\n__CPROVER_loop_invariant(0 <= state_id && state_id <= nr_regions && g_entry_next == state_id && !g_exc)\n__CPROVER_decreases(nr_regions - state_id)'},
    replay=['hist']))
MRW = [dict(name='CRTP-on_entry', pat='( ( front_end_t * ) ( self ) ) -> on_entry (', rep='front_on_entry ( self ,', min=0, max=1),
       dict(name='CRTP-on_exit', pat='( ( ( front_end_t * ) ( self ) ) ) -> on_exit (', rep='front_on_exit ( self ,', min=0, max=1),
       dict(name='SCOPE-pool-member', pat='event_pool_member :: value', rep='g_has_event_pool', min=0, max=1),
       dict(name='visitor-object', pat='state_entry_visitor < Event > visitor { self , event } ;', rep='', min=0, max=1),
       dict(name='history-entry', pat='self -> m_history . on_entry ( self , event , visitor ) ;', rep='m_history_on_entry_visit ( self , event ) ;', min=0, max=1),
       dict(name='history-exit', pat='self -> m_history . on_exit ( self ) ;', rep='m_history_on_exit ( self ) ;', min=0, max=1),
       dict(name='visit-active-exit', pat='visit < visit_mode :: active_non_recursive > ( [ self , & event ] $$A $$B ) ;', rep='visit_active_exit ( self , event ) ;', min=0, max=1)] + wrong_mode('', '[ self , & event ] $$A $$B', 'self')
GUARDS = {'event_processing_reset': 'event_processing_reset_dtor'}
# the scope guard's destructor (RAII): extracted and called where C++ unwinding / scope exit runs it (GUARD rule); absent -> empty body
GUARD_DTOR = Part(SB, ['struct event_processing_reset'], '~ event_processing_reset ( )', optional=True,
                  xform=back_xform([], refparams=(), rewrites=[dict(name='REF-member', pat='flag', rep='* flag', min=0)]))
GUARD_FS = 'static void event_processing_reset_dtor(_Bool* flag){@1}\n'
def xfm(throwers=(), guards=None):
    return back_xform(['is_composite', 'has_completion_transitions'], refparams=(), members=['m_running', 'm_event_processing', 'm_history', 'm_active_state_ids'],
                      methods=['preprocess_entry', 'postprocess_entry', 'process_event_pool'], enums=ENUMS, drop=DROP2, rewrites=MRW, throwers=throwers, exc_ret='', guards=guards)
UNITS.append(Unit('backmp11.preprocess_entry', ['C04', 'C02', 'C03', 'C13'], 'backmp11', Part(SB, [], 'void preprocess_entry ( Event const & event , Fsm & fsm )'),
    'void preprocess_entry(fsm_t* self, event_t event, fsm_t* fsm)', 'cascade_mp11.spec.h', xform=xfm(['front_on_entry']), replay=['queue', 'hist']))
UNITS.append(Unit('backmp11.postprocess_entry', ['C04', 'C05', 'C13'], 'backmp11', Part(SB, [], 'void postprocess_entry ( )'),
    'void postprocess_entry(fsm_t* self)', 'cascade_mp11.spec.h', xform=xfm(), replay=['queue']))
UNITS.append(Unit('backmp11.on_entry', ['C02', 'C04', 'C05', 'C08', 'C12', 'C03', 'C13'], 'backmp11',
    [Part(SB, [], 'void on_entry ( Event const & event , Fsm & fsm )', xform=xfm(['preprocess_entry', 'm_history_on_entry_visit', 'postprocess_entry'], guards=GUARDS)), GUARD_DTOR],
    'void machine_on_entry(fsm_t* self, event_t event, fsm_t* fsm)', 'cascade_mp11.spec.h', compose='@0', file_scope=GUARD_FS, replay=['queue', 'hist', 'exc']))
UNITS.append(Unit('backmp11.on_exit', ['C02', 'C08', 'C07', 'C03', 'C17', 'C13'], 'backmp11', Part(SB, [], 'void on_exit ( Event const & event , Fsm & fsm )'),
    'void machine_on_exit(fsm_t* self, event_t event, fsm_t* fsm)', 'cascade_mp11.spec.h', xform=xfm(['visit_active_exit', 'front_on_exit']), replay=['order', 'hist']))
UNITS.append(Unit('backmp11.on_state_entry_completed', ['C10', 'C13'], 'backmp11', Part(SB, [], 'void on_state_entry_completed ( uint8_t region_id )'),
    'void on_state_entry_completed(fsm_t* self, type_t State, uint8_t region_id)', 'cascade_mp11.spec.h',
    xform=back_xform(['is_composite', 'has_completion_transitions'], refparams=(), enums=ENUMS, drop=DROP2, rewrites=[
        dict(name='pool-accessor', pat='auto & event_pool = get_event_pool ( ) ;', rep='', min=1, max=1),
        dict(name='CONT-push-front-make', pat='event_pool . events . push_front ( processable_event :: make ( completion_event_occurrence < State > { region_id } ) ) ;', rep='pool_push_front_completion ( self , region_id ) ;', min=1, max=1)]),
    replay=['queue']))
def gnt(_): return [X.T('g_nt')]
UNITS.append(Unit('backmp11.on_explicit_entry', ['C09', 'C08', 'C02', 'C04', 'C12', 'C03', 'C13'], 'backmp11', [Part(SB, [], 'void on_explicit_entry ( Event const & event , Fsm & fsm )',
    xform=back_xform(['get_state_id', 'get_state'], refparams=(), members=['m_history', 'm_active_state_ids', 'm_event_processing'], methods=['preprocess_entry', 'postprocess_entry'],
        enums=ENUMS, drop=DROP2, foreach=True, size_of=gnt, throwers=['preprocess_entry', 'visitor_call_state', 'visit_active_entry2', 'postprocess_entry'], exc_ret='', guards=GUARDS,
        pre_rewrites=[dict(name='TVAR-identities', pat='using state_identities = $*A ;', rep='', min=1, max=1),
                      dict(name='SCONST-all-regions', pat='static constexpr bool all_regions_defined = mp11 :: mp_size < state_identities > :: value == nr_regions ;', rep='const _Bool all_regions_defined = ( g_nt == nr_regions ) ;', min=0, max=1),
                      dict(name='SCONST-all-regions2', pat='static constexpr bool all_regions_defined = mp_size < state_identities > :: value == nr_regions ;', rep='const _Bool all_regions_defined = ( g_nt == nr_regions ) ;', min=0, max=1),
                      dict(name='DECLTYPE-identity', pat='using State = typename decltype ( state_identity ) :: type ;', rep='const type_t State = state_identity ;', min=2, max=2),
                      dict(name='TVAL-zone', pat='static constexpr uint8_t region_id = State :: zone_index ;', rep='const uint8_t region_id = g_zone [ State ] ;', min=1, max=1)],
        rewrites=[dict(name='history-entry', pat='self -> m_history . on_entry ( self , event ) ;', rep='m_history_on_entry_ids ( self , event ) ;', min=0, max=1),
                  dict(name='TVAL-init-ids', pat='self -> m_active_state_ids = value_array < initial_state_ids > ;', rep='ARRAY_ASSIGN ( self -> m_active_state_ids , g_init_ids16 ) ;', min=0, max=1),
                  dict(name='TVAL-id', pat='get_state_id ( State )', rep='g_tid [ State ]', min=1, max=1),
                  dict(name='visitor-object', pat='state_entry_visitor < Event > visitor { self , event } ;', rep='ALL_IDS_SET ( ) ;', min=1, max=1),
                  dict(name='visitor-call', pat='auto & state = self -> get_state ( State ) ; visitor ( state ) ;', rep='visitor_call_state ( self , State ) ;', min=0, max=1),
                  dict(name='visitor-call2', pat='auto & state = get_state ( State ) ; visitor ( state ) ;', rep='visitor_call_state ( self , State ) ;', min=0, max=1),
                  dict(name='visit-active', pat='visit < visit_mode :: active_non_recursive > ( visitor ) ;', rep='visit_active_entry2 ( self ) ;', min=0, max=1)] + wrong_mode('', 'visitor', 'self'))), GUARD_DTOR],
    'void on_explicit_entry(fsm_t* self, event_t event, fsm_t* fsm)', 'cascade_mp11.spec.h', compose='@0', file_scope=GUARD_FS,
    loops={0: '__CPROVER_assigns(state_identity, __CPROVER_object_upto(self->m_active_state_ids, sizeof(self->m_active_state_ids)))\n'
              '__CPROVER_loop_invariant(0 <= state_identity && state_identity <= g_nt)\n'
              '__CPROVER_loop_invariant(g_w < state_identity ==> self->m_active_state_ids[g_zone[g_w]] == g_tid[g_w])\n'
              '__CPROVER_loop_invariant((NO_TARGET_IN_K && g_hist_called) ==> self->m_active_state_ids[g_k] == g_hist_ids[g_k])\n'
              '__CPROVER_decreases(g_nt - state_identity)',
           1: '__CPROVER_assigns(state_identity, g_entry_next, g_exc)\n__CPROVER_loop_invariant(0 <= state_identity && state_identity <= g_nt && g_entry_next == state_identity && !g_exc)\n__CPROVER_decreases(g_nt - state_identity)'},
    replay=['hist']))
UNITS.append(Unit('backmp11.on_pseudo_entry', ['C09', 'C13'], 'backmp11', Part(SB, [], 'void on_pseudo_entry ( Event const & event , Fsm & fsm )'),
    'void on_pseudo_entry(fsm_t* self, event_t event, fsm_t* fsm)', 'cascade_mp11.spec.h',
    xform=back_xform(['on_explicit_entry'], refparams=(), methods=['process_event'], enums=ENUMS, drop=DROP2, throwers=['on_explicit_entry_stub', 'process_event'], exc_ret='',
        rewrites=[dict(name='TARG-call', pat='on_explicit_entry ( TargetStates , event , fsm ) ;', rep='on_explicit_entry_stub ( self , event , fsm ) ;', min=1, max=1)]),
    replay=['hist']))

for pol, sc in SCOPES.items():
    if pol == 0: continue
    UNITS.append(Unit('backmp11.history_impl.%d.member_init' % pol, ['C08', 'C03', 'C13'], 'backmp11',
        Part(HI, [sc], '', member_init='m_last_active_state_ids'), 'void hist_construct(hist11_t* self)', 'cascade_mp11.spec.h',
        xform=back_xform([], refparams=(), rewrites=[dict(name='TVAL-init-ids', pat='value_array < InitialStateIds >', rep='g_init_ids16', min=0, max=1)]),
        defines=['POLICY=%d' % pol], replay=['hist']))

UNITS.append(Unit('backmp11.on_exit.per_state', ['C02', 'C03', 'C13'], 'backmp11', Part(SB, [], '[ this , & event ] ( auto & state )'),
    'void exit_lambda(fsm_t* self, event_t event, stref_t state)', 'cascade_mp11.spec.h', defines=['UNIT_EXIT_LAMBDA=1'],
    xform=back_xform([], refparams=(), enums=ENUMS, drop=DROP2, rewrites=[
        dict(name='fsm-argument', pat='get_fsm_argument ( )', rep='self', min=0, max=1),
        dict(name='member-on_exit', pat='state . on_exit (', rep='substate_on_exit ( state ,', min=0, max=1)]), replay=['order']))

UNITS.append(Unit('backmp11.state_entry_visitor.call', ['C02', 'C03', 'C10', 'C18', 'C13'], 'backmp11', Part(SB, ['class state_entry_visitor'], 'void operator ( ) ( State & state )'),
    'void entry_visitor_call(entryvis_t* self, type_t State, stref_t state)', 'cascade_mp11.spec.h', defines=['UNIT_ENTRY_VISITOR=1'],
    xform=back_xform([], refparams=(), enums=ENUMS, drop=DROP2, members=['m_self', 'm_event', 'm_region_id'], rewrites=[
        dict(name='fsm-argument', pat='self -> m_self . get_fsm_argument ( )', rep='self -> m_self', min=0, max=1),
        dict(name='member-on_entry', pat='state . on_entry (', rep='substate_on_entry ( state ,', min=0, max=2),
        dict(name='TCALL-completed', pat='self -> m_self . template on_state_entry_completed < State > (', rep='entry_completed ( self -> m_self , State ,', min=0, max=2),
        dict(name='TCALL-completed-b', pat='self -> m_self . on_state_entry_completed < State > (', rep='entry_completed ( self -> m_self , State ,', min=0, max=2)]), replay=['order', 'queue']))
