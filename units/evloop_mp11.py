"""backmp11 event loop head (C04 C05 C10 C11 C12 C13)"""
from .common import *
from .rows_mp11 import ENUMS, DROP2
SB = 'backmp11/detail/state_machine_base.hpp'
UNITS = []
RW = [dict(name='SCOPE-pool-member', pat='event_pool_member :: value', rep='event_pool_member_value', min=0),
      dict(name='SCOPE-policy', pat='compile_policy_impl :: is_event_deferred (', rep='compile_policy_impl_is_event_deferred (', min=0),
      dict(name='SCOPE-policy-defer', pat='compile_policy_impl :: defer_event (', rep='compile_policy_impl_defer_event (', min=0),
      dict(name='pool-accessor', pat='get_event_pool ( ) .', rep='self -> event_pool .', min=0),
      dict(name='fsm-argument', pat='get_fsm_argument ( )', rep='self', min=0),
      dict(name='TCALL-transition', pat='Transition :: execute (', rep='Transition_execute ( Transition ,', min=0),
      dict(name='completion-event-object', pat='using completion_event = Transition :: transition_event ; completion_event event { } ;', rep='event_t event = { 0 , 0 , 0 , 0 } ;', min=0, max=1)]
GUARDS = {'event_processing_reset': 'event_processing_reset_dtor'}
GUARD_DTOR = Part(SB, ['struct event_processing_reset'], '~ event_processing_reset ( )', optional=True,
                  xform=back_xform([], refparams=(), rewrites=[dict(name='REF-member', pat='flag', rep='* flag', min=0)]))
GUARD_FS = 'static void event_processing_reset_dtor(_Bool* flag){@1}\n'
def xf(throwers):
    return back_xform(['mp_any_of', 'is_flag_active', 'has_no_exception_thrown'], refparams=(), members=['m_event_processing'],
                      methods=['is_flag_active', 'is_end_interrupt_event', 'do_process_event', 'process_event_pool', 'exception_caught'],
                      enums=ENUMS, drop=DROP2, rewrites=RW, throwers=throwers, try_=True, guards=GUARDS)
P = ['C04', 'C05', 'C10', 'C11', 'C12', 'C13']
UNITS.append(Unit('backmp11.process_event_internal', P, 'backmp11',
    [Part(SB, [], 'process_result process_event_internal ( Event const & event , process_info info )', xform=xf(['do_process_event', 'process_event_pool'])), GUARD_DTOR],
    'process_result process_event_internal(fsm_t* self, event_t event, process_info info)', 'evloop_mp11.spec.h', compose='@0', file_scope=GUARD_FS, fire={'TRY': (1, 1), 'PP': (1, 1)}, replay=['queue', 'exc', 'block', 'defer']))
UNITS.append(Unit('backmp11.process_completion_transition', ['C10', 'C11', 'C12', 'C04', 'C13'], 'backmp11',
    [Part(SB, [], 'process_result process_completion_transition ( uint8_t region_id )', xform=xf(['Transition_execute'])), GUARD_DTOR],
    'process_result process_completion_transition(fsm_t* self, uint8_t region_id)', 'evloop_mp11.spec.h', compose='@0', file_scope=GUARD_FS, fire={'TRY': (1, 1), 'PP': (1, 1)}, replay=['queue', 'exc', 'block']))
