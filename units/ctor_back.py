"""back / back11 constructors: order of the construction steps (C06 C07 C03 C08)"""
from .common import *
UNITS = []
RW = [dict(name='FOREACH-functor-init', pat='for_each < seq_initial_states , wrap < _1 > > ( init_states ( self -> m_states ) ) ;', rep='init_states_foreach ( self ) ;', min=0, max=1),
      dict(name='history-init', pat='self -> m_history . set_initial_states ( self -> m_states ) ;', rep='history_set_initial_states ( self ) ;', min=0, max=1),
      dict(name='ASSERT-grammar', pat='BOOST_MPL_ASSERT_MSG $$A ;', rep='', min=0, max=1)]
for be in BACKS:
    SM = be + '/state_machine.hpp'
    for nm, anchor, nth, has_expr in (('default', 'state_machine ( ) : Derived ( )', 0, 0), ('args', 'state_machine ( ARG0 && t0 , ARG && ... t )', 0, 0),
                                      ('states_expr', 'state_machine ( Expr const & expr , ARG && ... t )', 0, 1), ('states_expr.cxx03', 'state_machine ( Expr const & expr , typename', 0, 1)):
        UNITS.append(Unit(be + '.constructor.' + nm, ['C06', 'C07', 'C03', 'C08', 'C13'], be, Part(SM, [], anchor, nth=nth),
            'void construct(fsm_t* self, int expr)', 'ctor_back.spec.h', defines=['HAS_EXPR=%d' % has_expr],
            xform=back_xform([], refparams=(), members=['m_states', 'm_history'], methods=['set_states', 'fill_states'], rewrites=RW), replay=['sel']))
