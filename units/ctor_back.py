"""back / back11 constructors: order of the construction steps (C06 C07 C03 C08)"""
from .common import *
UNITS = []
RW = [dict(name='FOREACH-functor-init', pat='for_each < seq_initial_states , wrap < _1 > > ( init_states ( self -> m_states ) ) ;', rep='init_states_foreach ( self ) ;', min=0, max=1),
      dict(name='history-init', pat='self -> m_history . set_initial_states ( self -> m_states ) ;', rep='history_set_initial_states ( self ) ;', min=0, max=1),
      dict(name='ASSERT-grammar', pat='BOOST_MPL_ASSERT_MSG $$A ;', rep='', min=0, max=1)]
for be in BACKS:
    SM = be + '/state_machine.hpp'
    for nm, anchor, nth, has_expr in (('default', 'state_machine ( ) : Derived ( )', 0, 0), ('args', 'state_machine ( ARG0 && t0 , ARG && ... t )', 0, 0),
                                      ('states_expr', 'state_machine ( Expr const & expr , ARG && ... t )', 0, 1), ('states_expr.cxx03', 'state_machine ( Expr const & expr , typename', 0, 1)):
        UNITS.append(Unit(be + '.constructor.' + nm, ['C06', 'C07', 'C03', 'C08', 'C13'], be, Part(SM, [], anchor, nth=nth),
            'void construct(fsm_t* self, int expr)', 'ctor_back.spec.h', defines=['UNIT_CTORS=1', 'HAS_EXPR=%d' % has_expr],
            xform=back_xform([], refparams=(), members=['m_states', 'm_history'], methods=['set_states', 'fill_states'], rewrites=RW), replay=['sel']))

for be in BACKS:
    SM = be + '/state_machine.hpp'
    AS = ['struct add_state']
    UNITS.append(Unit(be + '.add_state.call', ['C06', 'C07', 'C09', 'C15', 'C13'], be,
        [Part(SM, AS, 'void operator ( ) ( State const & )', xform=back_xform(['get_state_id', 'at_key', 'create_state_helper'], refparams=(), rewrites=[
              dict(name='OVL-new-state-helper', pat='new_state_helper < State > ( ) ,', rep='if ( g_is_composite ) { NEW_STATE_COMPOSITE } else if ( g_is_pseudo_exit ) { NEW_STATE_EXIT } ', min=0, max=1),
              dict(name='OVL-new-state-helper2', pat='this -> new_state_helper < State > ( ) ,', rep='if ( g_is_composite ) { NEW_STATE_COMPOSITE } else if ( g_is_pseudo_exit ) { NEW_STATE_EXIT } ', min=0, max=1),
              dict(name='SCOPE-set-sm', pat='create_state_helper ( State ) :: set_sm ( self ) ;', rep='create_state_set_sm ( State , self ) ;', min=0, max=1),
              dict(name='visitor-helper', pat='visitor_helper $$A ;', rep='', min=0, max=1), dict(name='TVAL-id', pat='const int state_id = ( get_state_id ( stt , State ) ) ;', rep='', min=0, max=1)])),
         Part(SM, AS, 'new_state_helper ( dummy < 0 > = 0 )', xform=back_xform(['at_key'], refparams=(), rewrites=[
              dict(name='member-call', pat='at_key ( StateType , self -> m_substate_list ) . set_containing_sm ( containing_sm ) ;', rep='sub_set_containing_sm ( at_key ( StateType , self -> m_substate_list ) , containing_sm ) ;', min=0, max=1), dict(name='member-upper', pat='at_key ( StateType , self -> m_substate_list ) . m_upper_fsm = containing_sm ;', rep='set_upper_fsm ( at_key ( StateType , self -> m_substate_list ) , containing_sm ) ;', min=0, max=1)])),
         Part(SM, AS, 'new_state_helper ( dummy < 2 > = 0 )', xform=back_xform(['at_key'], refparams=(), rewrites=[
              dict(name='BIND-pf', pat='execute_return ( ContainingSM :: * pf ) $$A = & ContainingSM :: process_event ;', rep='', min=1, max=1),
              dict(name='BIND', pat='function < $*T > fct = bind ( pf , containing_sm , _1 ) ;', rep='fsm_t * const fct = containing_sm ;', min=1, max=1),
              dict(name='member-call', pat='at_key ( StateType , self -> m_substate_list ) . set_forward_fct ( fct ) ;', rep='set_forward_fct_bound_to ( at_key ( StateType , self -> m_substate_list ) , fct ) ;', min=0, max=1)]))],
        'void add_state_call(fsm_t* self, fsm_t* containing_sm, type_t State)', 'ctor_back.spec.h', defines=['UNIT_ADD_STATE=1'],
        compose='const type_t StateType = State;\n@0', file_scope='static void new_state_composite(fsm_t* self, fsm_t* containing_sm, type_t StateType){@1}\nstatic void new_state_exit(fsm_t* self, fsm_t* containing_sm, type_t StateType){@2}\n#define NEW_STATE_COMPOSITE new_state_composite(self, containing_sm, StateType);\n#define NEW_STATE_EXIT new_state_exit(self, containing_sm, StateType);\n', replay=['sel', 'hist']))
    UNITS.append(Unit(be + '.set_containing_sm', ['C06', 'C07', 'C13'], be, Part(SM, [], 'void set_containing_sm ( ContainingSM * sm )'),
        'void set_containing_sm(fsm_t* self, fsm_t* sm)', 'ctor_back.spec.h', defines=['UNIT_SET_CONTAINING=1'],
        xform=back_xform([], refparams=(), members=['m_is_included', 'm_substate_list'], rewrites=[
            dict(name='FOREACH-add-state', pat='for_each ( self -> m_substate_list , add_state < ContainingSM > ( self , sm ) ) ;', rep='wire_substates ( self , sm ) ;', min=0, max=1)]), replay=['sel']))

for be in BACKS:
    SM = be + '/state_machine.hpp'
    CRW = [dict(name='base-assign', pat='Derived :: operator = ( rhs ) ;', rep='Derived_assign ( self , rhs ) ;', min=0, max=1),
           dict(name='addr-of-ref', pat='self != & rhs', rep='self != rhs', min=0, max=1)]
    UNITS.append(Unit(be + '.copy_assignment', ['C15', 'C13'], be, Part(SM, [], 'library_sm & operator = ( library_sm const & rhs )'),
        'fsm_t* copy_assign(fsm_t* self, const fsm_t* rhs)', 'ctor_back.spec.h', defines=['UNIT_COPY_OPS=1'],
        xform=back_xform([], refparams=(), methods=['do_copy', 'fill_states'], rewrites=CRW), replay=['copy']))
    UNITS.append(Unit(be + '.copy_constructor', ['C15', 'C13'], be, Part(SM, [], 'state_machine ( library_sm const & rhs ) : Derived ( rhs )'),
        'void copy_construct(fsm_t* self, const fsm_t* rhs)', 'ctor_back.spec.h', defines=['UNIT_COPY_OPS=1'],
        xform=back_xform([], refparams=(), methods=['do_copy', 'fill_states'], rewrites=CRW), replay=['copy']))
    UNITS.append(Unit(be + '.copy_helper.call', ['C15', 'C13'], be, Part(SM, ['struct copy_helper'], 'void operator ( ) ( wrap < StateType > const & )'),
        'void copy_helper_call(copy_helper_t* self, type_t StateType)', 'ctor_back.spec.h', defines=['UNIT_COPY_HELPER=1'],
        xform=back_xform(['get_state_id', 'create_state_helper', 'visitor_helper'], refparams=(), members=['m_sm'], rewrites=[
            dict(name='TVAL-id', pat='const int state_id = ( get_state_id ( stt , StateType ) ) ;', rep='const int state_id = 0 ;', min=0, max=1),
            dict(name='OVL-visitor', pat='visitor_helper ( StateType , state_id ) ;', rep='copy_visitor_helper ( self -> m_sm , StateType , state_id ) ;', min=0, max=1),
            dict(name='SCOPE-set-sm', pat='create_state_helper ( StateType ) :: set_sm ( self -> m_sm ) ;', rep='create_state_set_sm ( StateType , self -> m_sm ) ;', min=0, max=1)]), replay=['copy']))
    UNITS.append(Unit(be + '.fill_states', ['C07', 'C09', 'C15', 'C13'], be, Part(SM, [], 'void fill_states ( ContainingSM * containing_sm = 0 )'),
        'void fill_states_unit(fsm_t* self, fsm_t* containing_sm)', 'ctor_back.spec.h', defines=['UNIT_FILL_STATES=1'],
        xform=back_xform([], refparams=(), members=['m_visitors', 'm_substate_list'], rewrites=[
            dict(name='policy-check-1', pat='FsmCheckPolicy :: template check_orthogonality < library_sm > ( ) ;', rep='', min=0, max=1),
            dict(name='policy-check-1b', pat='FsmCheckPolicy :: check_orthogonality < library_sm > ( ) ;', rep='', min=0, max=1),
            dict(name='policy-check-2', pat='FsmCheckPolicy :: template check_unreachable_states < library_sm > ( ) ;', rep='', min=0, max=1),
            dict(name='policy-check-2b', pat='FsmCheckPolicy :: check_unreachable_states < library_sm > ( ) ;', rep='', min=0, max=1),
            dict(name='TVAL-max', pat='const int max_state = ( mpl :: size < state_list > :: value ) ;', rep='const int max_state = 0 ;', min=0, max=1),
            dict(name='TVAL-max2', pat='const int max_state = ( size < state_list > :: value ) ;', rep='const int max_state = 0 ;', min=0, max=1),
            dict(name='member-call', pat='self -> m_visitors . fill_visitors ( max_state ) ;', rep='fill_visitors ( self , max_state ) ;', min=0, max=1),
            dict(name='FOREACH-add-state', pat='for_each ( self -> m_substate_list , add_state < ContainingSM > ( self , containing_sm ) ) ;', rep='wire_substates ( self , containing_sm ) ;', min=0, max=1)]), replay=['sel']))
