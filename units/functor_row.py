"""front/functor_row.hpp: Row<> / Internal<> glue, get_functor_return_value, ActionSequence_, Defer (C14 C02 C05)"""
from .common import *
UNITS = []
FR = 'front/functor_row.hpp'
RW = [dict(name='functor-call-action', pat='Action ( ) ( evt , fsm , src , tgt ) ;', rep='call_action ( Action , evt , fsm , src , tgt ) ;', min=0, max=1),
      dict(name='functor-call-guard', pat='Guard ( ) ( evt , fsm , src , tgt )', rep='call_guard_f ( Guard , evt , fsm , src , tgt )', min=0, max=1),
      dict(name='TVAL-retval', pat='get_functor_return_value ( Action ) :: value', rep='get_functor_return_value ( Action )', min=0, max=1),
      dict(name='TVAL-retval2', pat='get_functor_return_value < Action > :: value', rep='get_functor_return_value ( Action )', min=0, max=1)]
xr = back_xform(['get_functor_return_value'], refparams=(), rewrites=RW)
ROWS = [('Row.full', ['struct Row {'], True, True), ('Row.action_only', ['struct Row < SOURCE , EVENT , TARGET , ACTION , none >'], True, False),
        ('Row.guard_only', ['struct Row < SOURCE , EVENT , TARGET , none , GUARD >'], False, True),
        ('Row.internal_action', ['struct Row < SOURCE , EVENT , none , ACTION , none >'], True, False), ('Row.internal_guard', ['struct Row < SOURCE , EVENT , none , none , GUARD >'], False, True),
        ('Row.internal_full', ['struct Row < SOURCE , EVENT , none , ACTION , GUARD >'], True, True),
        ('Internal.full', ['struct Internal {'], True, True), ('Internal.action_only', ['struct Internal < EVENT , ACTION , none >'], True, False), ('Internal.guard_only', ['struct Internal < EVENT , none , GUARD >'], False, True)]
for nm, sc, has_a, has_g in ROWS:
    if has_a:
        UNITS.append(Unit('front.%s.action_call' % nm, ['C14', 'C02', 'C05'], 'front', Part(FR, sc, 'action_call ( FSM & fsm , EVT & evt , SourceState & src , TargetState & tgt , AllStates & )'),
            'HandledEnum action_call(fsm_t* fsm, event_t evt, stref_t src, stref_t tgt)', 'functor_row.spec.h', defines=['UNIT_ACTION_CALL=1'], xform=xr, replay=['order', 'defer']))
    if has_g:
        UNITS.append(Unit('front.%s.guard_call' % nm, ['C14', 'C02'], 'front', Part(FR, sc, 'guard_call ( FSM & fsm , EVT & evt , SourceState & src , TargetState & tgt , AllStates & )'),
            '_Bool guard_call(fsm_t* fsm, event_t evt, stref_t src, stref_t tgt)', 'functor_row.spec.h', defines=['UNIT_GUARD_CALL=1'], xform=xr, replay=['fronts', 'order']))
for kind, sc in enumerate((['struct get_functor_return_value {'], ['struct get_functor_return_value < Func , typename enable_if < typename has_deferring_action < Func > :: type > :: type >'],
                           ['struct get_functor_return_value < Func , typename enable_if < typename has_some_deferring_actions < Func > :: type > :: type >'])):
    UNITS.append(Unit('front.get_functor_return_value.%d' % kind, ['C14', 'C05'], 'front', Part(FR, sc, '', member_init='value'),
        'HandledEnum functor_return_value(_Bool some_deferring_actions_value)', 'functor_row.spec.h', defines=['UNIT_RETVAL=1', 'RETKIND=%d' % kind],
        xform=back_xform([], refparams=(), rewrites=[dict(name='TVAL-some', pat='Func :: some_deferring_actions :: value', rep='some_deferring_actions_value', min=0, max=1)]), replay=['defer']))
UNITS.append(Unit('front.ActionSequence_.call4', ['C14', 'C02'], 'front',
    Part(FR, ['struct ActionSequence_', 'struct Call2'], 'void operator ( ) ( wrap < FCT > const & )',
         xform=back_xform([], refparams=(), rewrites=[dict(name='functor-call', pat='FCT ( ) ( evt_ , fsm_ , src_ , tgt_ ) ;', rep='call_seq_action ( FCT , evt_ , fsm_ , src_ , tgt_ ) ;', min=0, max=1)])),
    'void action_sequence_call(event_t evt, fsm_t* fsm, stref_t src, stref_t tgt)', 'functor_row.spec.h', defines=['UNIT_SEQ=1'],
    # operator()(evt,fsm,src,tgt): mpl::for_each<Sequence, wrap<_1>>(Call2(evt,fsm,src,tgt)) ; Call2's members are references to the four arguments
    compose='const event_t evt_ = evt; fsm_t* const fsm_ = fsm; const stref_t src_ = src, tgt_ = tgt;\n'
            'for (type_t FCT = 0; FCT != g_nseq; ++FCT)\n__CPROVER_assigns(FCT, g_anext)\n__CPROVER_loop_invariant(0 <= FCT && FCT <= g_nseq && g_anext == FCT)\n__CPROVER_decreases(g_nseq - FCT)\n{ @0 }',
    must_contain=[(FR, 'Call2 ( EVT & evt , FSM & fsm , SourceState & src , TargetState & tgt ) : evt_ ( evt ) , fsm_ ( fsm ) , src_ ( src ) , tgt_ ( tgt ) { }'),
                  (FR, 'for_each < Sequence , wrap < _1 > > ( Call2 < EVT , FSM , SourceState , TargetState > ( evt , fsm , src , tgt ) ) ;')],
    force_loop_contracts=True, replay=['euml', 'fronts', 'order']))
UNITS.append(Unit('front.Defer.call', ['C05', 'C14'], 'front', Part(FR, ['struct Defer'], 'void operator ( ) ( EVT & evt , FSM & fsm , SourceState & , TargetState & ) const'),
    'void defer_call(event_t evt, fsm_t* fsm, stref_t src, stref_t tgt)', 'functor_row.spec.h', defines=['UNIT_DEFER=1'],
    xform=back_xform([], refparams=(), rewrites=[dict(name='member-call', pat='fsm . defer_event (', rep='fsm_defer_event ( fsm ,', min=0, max=1)]), replay=['defer']))
SD = 'front/state_machine_def.hpp'
BRW = [dict(name='memfn-action', pat='( fsm . * action ) ( evt )', rep='call_member_action ( fsm , action , evt )', min=0, max=1),
       dict(name='memfn-guard', pat='( fsm . * guard ) ( evt )', rep='call_member_guard ( fsm , guard , evt )', min=0, max=1)]
xb = back_xform([], refparams=(), rewrites=BRW)
for nm, has_a, has_g in (('a_row', 1, 0), ('row', 1, 1), ('g_row', 0, 1), ('a_irow', 1, 0), ('irow', 1, 1), ('g_irow', 0, 1)):
    sc = ['struct ' + nm + ' {']
    if has_a:
        UNITS.append(Unit('front.basic.%s.action_call' % nm, ['C14', 'C02'], 'front', Part(SD, sc, 'action_call ( FSM & fsm , Event const & evt , SourceState & , TargetState & , AllStates & )'),
            'HandledEnum basic_action_call(fsm_t* fsm, event_t evt)', 'functor_row.spec.h', defines=['UNIT_BASIC_ACTION=1'], xform=xb, replay=['fronts', 'order']))
    if has_g:
        UNITS.append(Unit('front.basic.%s.guard_call' % nm, ['C14', 'C02'], 'front', Part(SD, sc, 'guard_call ( FSM & fsm , Event const & evt , SourceState & , TargetState & , AllStates & )'),
            '_Bool basic_guard_call(fsm_t* fsm, event_t evt)', 'functor_row.spec.h', defines=['UNIT_BASIC_GUARD=1'], xform=xb, replay=['fronts', 'order']))

UNITS.append(Unit('front.ActionSequence_.call3', ['C14', 'C02'], 'front',
    Part(FR, ['struct ActionSequence_', 'struct Call {'], 'void operator ( ) ( wrap < FCT > const & )',
         xform=back_xform([], refparams=(), rewrites=[dict(name='functor-call', pat='FCT ( ) ( evt_ , fsm_ , state_ ) ;', rep='call_seq_action3 ( FCT , evt_ , fsm_ , state_ ) ;', min=0, max=1)])),
    'void action_sequence_call3(event_t evt, fsm_t* fsm, stref_t state)', 'functor_row.spec.h', defines=['UNIT_SEQ3=1'],
    compose='const event_t evt_ = evt; fsm_t* const fsm_ = fsm; const stref_t state_ = state;\n'
            'for (type_t FCT = 0; FCT != g_nseq; ++FCT)\n__CPROVER_assigns(FCT, g_anext)\n__CPROVER_loop_invariant(0 <= FCT && FCT <= g_nseq && g_anext == FCT)\n__CPROVER_decreases(g_nseq - FCT)\n{ @0 }',
    must_contain=[(FR, 'Call ( EVT & evt , FSM & fsm , STATE & state ) : evt_ ( evt ) , fsm_ ( fsm ) , state_ ( state ) { }'),
                  (FR, 'for_each < Sequence , wrap < _1 > > ( Call < EVT , FSM , STATE > ( evt , fsm , state ) ) ;')],
    force_loop_contracts=True, replay=['euml', 'fronts', 'order']))
