"""front-end run-time code (C14): operator functors, PlantUML tokenizer (bounded)"""
from .common import *
UNITS = []
OPH = 'front/operator.hpp'
for op, st in enumerate(['Or_', 'And_', 'Not_']):
    for ar, sig in ((4, 'bool operator ( ) ( EVT const & evt , FSM & fsm , SourceState & src , TargetState & tgt )'), (3, 'bool operator ( ) ( Event const & evt , FSM & fsm , STATE & state )')):
        UNITS.append(Unit('front.%s.call%d' % (st, ar), ['C14'], 'front', Part(OPH, ['struct ' + st], sig),
            '_Bool functor_call(event_t evt, fsm_t* fsm, stref_t %s)' % ('src, stref_t tgt' if ar == 4 else 'state, stref_t unused'), 'functors.spec.h', defines=['OP=%d' % op],
            xform=back_xform([], refparams=(), rewrites=[
                dict(name='functor-call-4', pat='$1 ( ) ( evt , fsm , src , tgt )', rep='call_guard ( $1 , evt , fsm , src , tgt )', min=0),
                dict(name='functor-call-3', pat='$1 ( ) ( evt , fsm , state )', rep='call_guard3 ( $1 , evt , fsm , state )', min=0)]),
            also_replace=['call_guard'], replay=['euml', 'puml']))

# ---------------- PlantUML tokenizer: bounded stand-ins (never counted as proved) ----------------
PU = 'front/puml/puml.hpp'
SVRW = [dict(name='CONT-find_first_not_of', pat='$1 . find_first_not_of (', rep='sv_find_first_not_of ( $1 ,', min=0),
        dict(name='CONT-find_last_not_of', pat='$1 . find_last_not_of (', rep='sv_find_last_not_of ( $1 ,', min=0),
        dict(name='CONT-find', pat='$1 . find (', rep='sv_find ( $1 ,', min=0),
        dict(name='CONT-substr', pat='$1 . substr (', rep='sv_substr ( $1 ,', min=0),
        dict(name='CONT-empty', pat='$1 . empty ( )', rep='sv_is_empty ( $1 )', min=0),
        dict(name='npos', pat='string :: npos', rep='npos', min=0),
        dict(name='size_type', pat='string :: size_type', rep='size_t', min=0),
        dict(name='sv-empty', pat='string_view { }', rep='sv_empty ( )', min=0),
        dict(name='std-min', pat='min (', rep='sz_min (', min=0),
        dict(name='auto-sv', pat='auto $1 = sv_substr', rep='sv_t $1 = sv_substr', min=0),
        dict(name='auto-cstr', pat='auto target = $1 ;', rep='const char * target = $1 ;', min=0),
        dict(name='auto-size', pat='auto $1 =', rep='size_t $1 =', min=0),
        dict(name='aggregate-init', pat='return Transition {', rep='return ( Transition ) {', min=0)]
xf_pu = back_xform([], refparams=(), rewrites=SVRW, drop=DROP_KW | {'constexpr'})
H_CLEAN = '''
void h_cleanup_token(void){
  char buf[LEN]; size_t n; __CPROVER_assume(n <= LEN);
  sv_t s; s.p = buf; s.n = n;
  sv_t r = cleanup_token(s);
  /* oracle: r is the range from the first to the last non-trim character, empty iff there is none */
  size_t b = npos, e = npos; for (size_t i = 0; i < LEN; ++i) if (i < n && !is_trim(buf[i])) { if (b == npos) b = i; e = i; }
  __CPROVER_assert(b == npos ? r.n == 0 : (r.p == buf + b && r.n == e - b + 1), "C14.cleanup-token-strips-exactly-leading-and-trailing-blanks-and-dashes");
}
'''
UNITS.append(Unit('front.puml.cleanup_token.bounded', ['C14'], 'front', Part(PU, [], 'string_view cleanup_token ( const string_view & str )'),
    'sv_t cleanup_token(sv_t str)', 'puml.spec.h', xform=xf_pu, mode='bounded', harness=H_CLEAN, unwind={'quick': 22, 'thorough': 34},
    defines=['LEN=20'], bounded='strings of at most 20 characters (thorough: 32)', cbmc_flags=['--no-signed-overflow-check'], replay=['puml']))

AUX_CLEAN = Aux('cleanup_token', 'sv_t', PU, [], 'string_view cleanup_token', params='sv_t str', xform=xf_pu)
AUX_GUARDS = Aux('parse_guards', 'Transition', PU, [], 'Transition parse_guards', params='sv_t part',
                 xform=back_xform([], refparams=(), rewrites=SVRW + [dict(name='value-init', pat='Transition res ;', rep='Transition res = { { 0 , 0 } , { 0 , 0 } , { 0 , 0 } , { 0 , 0 } , { 0 , 0 } } ;', min=1, max=1)], drop=DROP_KW | {'constexpr'}))
AUX_RIGHT = Aux('parse_row_right', 'Transition', PU, [], 'Transition parse_row_right', params='sv_t part',
                xform=back_xform([], refparams=(), rewrites=SVRW + [dict(name='value-init', pat='Transition res ;', rep='Transition res = { { 0 , 0 } , { 0 , 0 } , { 0 , 0 } , { 0 , 0 } , { 0 , 0 } } ;', min=1, max=1)], drop=DROP_KW | {'constexpr'}))
GEN_RIGHT = '''
static size_t put(char* buf, size_t pos, char c) { __CPROVER_assert(pos < LEN, "harness: generated line fits"); buf[pos] = c; return pos + 1; }
/* ghost description of the part right of the arrow:  ws TGT [ws ':' ws EV [ws '/' ws ACT] [ws '[' G ']'] ]   (offsets into buf) */
static size_t R_b, R_e, tgt_b, tgt_e, ev_b, ev_e, act_b, act_e, g_b, g_e; static _Bool has_ev, has_act, has_g;
static size_t gen_ident(char* buf, size_t pos, unsigned l) { for (unsigned i = 0; i < 2; ++i) if (i < l) { char c; __CPROVER_assume(is_ident(c)); pos = put(buf, pos, c); } return pos; }
static size_t gen_right(char* buf, size_t pos) {
  unsigned lt, le, la, lg; _Bool sp2, sp3, sp4, sp5; _Bool nd_ev, nd_act, nd_g; has_ev = nd_ev; has_act = nd_act; has_g = nd_g;   /* nondeterministic shape */
  __CPROVER_assume(1 <= lt && lt <= 2 && 1 <= le && le <= 2 && 1 <= la && la <= 2 && 1 <= lg && lg <= 2);
  __CPROVER_assume(has_ev || (!has_act && !has_g));
  R_b = pos;
  if (sp2) pos = put(buf, pos, ' ');
  tgt_b = pos; pos = gen_ident(buf, pos, lt); tgt_e = pos;
  ev_b = ev_e = act_b = act_e = g_b = g_e = 0;
  if (has_ev) {
    if (sp3) pos = put(buf, pos, ' '); pos = put(buf, pos, ':'); if (sp4) pos = put(buf, pos, ' ');
    ev_b = pos; pos = gen_ident(buf, pos, le); ev_e = pos;
    _Bool guard_first;      /* both documented orders: "ev / act [g]" and "ev [g] / act" */
    for (int part = 0; part < 2; ++part) {
      _Bool do_guard = guard_first ? (part == 0) : (part == 1);
      if (!do_guard && has_act) { if (sp3) pos = put(buf, pos, ' '); pos = put(buf, pos, '/'); if (sp4) pos = put(buf, pos, ' '); act_b = pos; pos = gen_ident(buf, pos, la); act_e = pos; }
      if (do_guard && has_g) { if (sp5) pos = put(buf, pos, ' '); pos = put(buf, pos, '['); g_b = pos; pos = gen_ident(buf, pos, lg); g_e = pos; pos = put(buf, pos, ']'); }
    }
  }
  R_e = pos; return pos; }
#define CHECK_RIGHT(t, buf) \
  __CPROVER_assert(sv_eq_range((t).target, buf, tgt_b, tgt_e), "C14.puml-row-target-is-the-text-after-the-arrow"); \
  __CPROVER_assert(has_ev ? sv_eq_range((t).event, buf, ev_b, ev_e) : (t).event.n == 0, "C14.puml-row-event-is-the-text-after-the-colon"); \
  __CPROVER_assert(has_act ? sv_eq_range((t).action, buf, act_b, act_e) : (t).action.n == 0, "C14.puml-row-action-is-the-text-after-the-slash"); \
  __CPROVER_assert(has_g ? sv_eq_range((t).guard, buf, g_b, g_e) : (t).guard.n == 0, "C14.puml-row-guard-is-the-text-in-brackets");
'''
H_RIGHT = GEN_RIGHT + '''
void h_parse_row_right(void){
  char buf[LEN]; size_t pos = gen_right(buf, 0);
  __CPROVER_assume(has_ev);     /* parse_row calls parse_row_right only for lines with a ':' (checked by the stub in parse_row.bounded) */
  sv_t part; part.p = buf; part.n = pos;
  Transition t = parse_row_right(part);
  CHECK_RIGHT(t, buf)
  __CPROVER_assert(!(has_act && has_g), "canary: a line with action and guard is generated");
}
'''
UNITS.append(Unit('front.puml.parse_row_right.bounded', ['C14'], 'front', Part(PU, [], 'Transition parse_row_right ( string_view part )', xform=AUX_RIGHT.xform),
    'Transition parse_row_right(sv_t part)', 'puml.spec.h', mode='bounded', harness=H_RIGHT, aux=[AUX_CLEAN, AUX_GUARDS],
    unwind={'quick': 22, 'thorough': 22}, defines=['LEN=20'], timeout=900,
    bounded='generated right-hand parts of a transition line: target/event/action/guard identifiers of 1-2 characters, 0-1 blanks at each gap (length <= 18)',
    cbmc_flags=['--no-signed-overflow-check'], replay=['puml']))
H_ROW = GEN_RIGHT + '''
static char* g_buf;
/* checked stub for parse_row_right: its contract (proved by front.puml.parse_row_right.bounded for all generated right parts): called
   on exactly the text right of the arrow, it returns the four ranges of that text */
Transition parse_row_right(sv_t part) {
  __CPROVER_assert(has_ev, "C14.puml-row-without-colon-uses-the-simple-source-target-form");
  __CPROVER_assert(part.p == g_buf + R_b && part.n == R_e - R_b, "C14.puml-row-right-part-is-the-text-after-the-arrow");
  Transition t; t.source = sv_empty();
  t.target.p = g_buf + tgt_b; t.target.n = tgt_e - tgt_b;
  t.event = has_ev ? (sv_t){ g_buf + ev_b, ev_e - ev_b } : sv_empty();
  t.action = has_act ? (sv_t){ g_buf + act_b, act_e - act_b } : sv_empty();
  t.guard = has_g ? (sv_t){ g_buf + g_b, g_e - g_b } : sv_empty();
  return t; }
Transition parse_row(sv_t row);
void h_parse_row(void){
  char buf[LEN]; g_buf = buf; size_t pos = 0; unsigned ls, dashes; _Bool sp1;
  __CPROVER_assume(1 <= ls && ls <= 3 && 1 <= dashes && dashes <= 3);
  size_t src_b = pos; for (unsigned i = 0; i < 3; ++i) if (i < ls) { char c; __CPROVER_assume(is_ident(c)); pos = put(buf, pos, c); } size_t src_e = pos;
  if (sp1) pos = put(buf, pos, ' ');
  for (unsigned i = 0; i < 3; ++i) if (i < dashes) pos = put(buf, pos, '-'); pos = put(buf, pos, '>');
  pos = gen_right(buf, pos);
  sv_t row; row.p = buf; row.n = pos;
  Transition t = parse_row(row);
  __CPROVER_assert(sv_eq_range(t.source, buf, src_b, src_e), "C14.puml-row-source-is-the-text-before-the-arrow");
  CHECK_RIGHT(t, buf)
  __CPROVER_assert(!(has_ev && dashes == 2 && ls == 3), "canary: a line with an event, a long arrow and a 3-character source is generated");
}
'''
UNITS.append(Unit('front.puml.parse_row.bounded', ['C14'], 'front', Part(PU, [], 'Transition parse_row ( string_view row )'),
    'Transition parse_row(sv_t row)', 'puml.spec.h', xform=xf_pu, mode='bounded', harness=H_ROW, aux=[AUX_CLEAN],
    unwind={'quick': 30, 'thorough': 30}, defines=['LEN=28'], timeout=900,
    bounded='generated transition lines: source identifier of 1-3 characters, arrow of 1-3 dashes, right part as in parse_row_right.bounded (replaced by its checked contract stub), length <= 26',
    cbmc_flags=['--no-signed-overflow-check'], replay=['puml']))

# ---- action lists: count_actions / parse_action<a> (a comma separated list becomes that many actions, in order) ----
GEN_ACTS = '''
static size_t put(char* buf, size_t pos, char c) { __CPROVER_assert(pos < LEN, "harness: generated list fits"); buf[pos] = c; return pos + 1; }
static size_t it_b[3], it_e[3]; static unsigned n_items;
static size_t gen_actions(char* buf) {
  size_t pos = 0; unsigned n; __CPROVER_assume(n <= 3); n_items = n;
  for (unsigned k = 0; k < 3; ++k) if (k < n) {
    unsigned l; _Bool sp_before, sp_after; __CPROVER_assume(1 <= l && l <= 2);
    if (k > 0) pos = put(buf, pos, ',');
    if (sp_before) pos = put(buf, pos, ' ');
    it_b[k] = pos; for (unsigned i = 0; i < 2; ++i) if (i < l) { char c; __CPROVER_assume(is_ident(c)); pos = put(buf, pos, c); } it_e[k] = pos;
    if (sp_after) pos = put(buf, pos, ' ');
  }
  return pos; }
'''
H_COUNT = GEN_ACTS + '''
void h_count_actions(void){
  char buf[LEN]; size_t n = gen_actions(buf); sv_t s; s.p = buf; s.n = n;
  int r = count_actions(s);
  __CPROVER_assert(r == (int)n_items, "C14.puml-action-list-has-one-action-per-comma-separated-item");
  __CPROVER_assert(n_items != 3, "canary: a list of three actions is generated");
}
'''
UNITS.append(Unit('front.puml.count_actions.bounded', ['C14'], 'front', Part(PU, [], 'int count_actions ( string_view s )'),
    'int count_actions(sv_t s)', 'puml.spec.h', xform=xf_pu, mode='bounded', harness=H_COUNT, unwind={'quick': 16, 'thorough': 16}, defines=['LEN=14'],
    bounded='generated action lists: 0-3 identifiers of 1-2 characters, optional blank before / after each (length <= 14)', cbmc_flags=['--no-signed-overflow-check'], replay=['puml']))
H_PACT = GEN_ACTS + '''
void h_parse_action(void){
  char buf[LEN]; size_t n = gen_actions(buf); sv_t s; s.p = buf; s.n = n;
  int a; __CPROVER_assume(0 <= a && a < (int)n_items);          /* the library asks for actions 0 .. count_actions-1 (mp_iota over the count) */
  sv_t r = parse_action(a, s);
  __CPROVER_assert(sv_eq_range(r, buf, it_b[a], it_e[a]), "C14.puml-action-number-a-is-the-a-th-item-of-the-list-in-order");
  __CPROVER_assert(!(n_items == 3 && a == 2), "canary: the third action of three is asked for");
}
'''
UNITS.append(Unit('front.puml.parse_action.bounded', ['C14'], 'front', Part(PU, [], 'auto parse_action ( string_view actions )'),
    'sv_t parse_action(int a, sv_t actions)', 'puml.spec.h', xform=back_xform([], refparams=(), rewrites=SVRW + [dict(name='CAST-functional', pat='size_t ( 0 )', rep='( ( size_t ) 0 )', min=0), dict(name='auto-int', pat='size_t action_cpt = 0 ;', rep='int action_cpt = 0 ;', min=1, max=1)], drop=DROP_KW | {'constexpr'}), mode='bounded', harness=H_PACT, aux=[AUX_CLEAN], unwind={'quick': 16, 'thorough': 16}, defines=['LEN=14'],
    bounded='generated action lists as in count_actions.bounded, every index below the number of items', cbmc_flags=['--no-signed-overflow-check'], replay=['puml']))
H_CTR = '''
void h_count_transitions(void){
  char buf[LEN]; size_t n; __CPROVER_assume(n <= LEN); sv_t s; s.p = buf; s.n = n;
  int r = count_transitions(s);
  /* oracle: number of non-overlapping "->" scanning left to right */
  int c = 0; for (size_t i = 0; i + 1 < LEN; ++i) if (i + 1 < n && buf[i] == '-' && buf[i + 1] == '>') { ++c; ++i; }
  __CPROVER_assert(r == c, "C14.puml-one-transition-per-arrow");
  __CPROVER_assert(c != 3, "canary: a text with three arrows is generated");
}
'''
UNITS.append(Unit('front.puml.count_transitions.bounded', ['C14'], 'front', Part(PU, [], 'int count_transitions ( string_view s )'),
    'int count_transitions(sv_t s)', 'puml.spec.h', xform=xf_pu, mode='bounded', harness=H_CTR, unwind={'quick': 14, 'thorough': 22}, defines=['LEN=12'],
    bounded='arbitrary texts of at most 12 characters (thorough: 20)', cbmc_flags=['--no-signed-overflow-check'], replay=['puml']))
