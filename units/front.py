"""front-end run-time code (C14): operator functors, PlantUML tokenizer (bounded)"""
from .common import *
UNITS = []
OPH = 'front/operator.hpp'
for op, st in enumerate(['Or_', 'And_', 'Not_']):
    for ar, sig in ((4, 'bool operator ( ) ( EVT const & evt , FSM & fsm , SourceState & src , TargetState & tgt )'), (3, 'bool operator ( ) ( Event const & evt , FSM & fsm , STATE & state )')):
        UNITS.append(Unit('front.%s.call%d' % (st, ar), ['C14'], 'front', Part(OPH, ['struct ' + st], sig),
            '_Bool functor_call(event_t evt, fsm_t* fsm, stref_t %s)' % ('src, stref_t tgt' if ar == 4 else 'state, stref_t unused'), 'functors.spec.h', defines=['OP=%d' % op],
            xform=back_xform([], refparams=(), rewrites=[
                dict(name='functor-call-4', pat='$1 ( ) ( evt , fsm , src , tgt )', rep='call_guard ( $1 , evt , fsm , src , tgt )', min=0),
                dict(name='functor-call-3', pat='$1 ( ) ( evt , fsm , state )', rep='call_guard3 ( $1 , evt , fsm , state )', min=0)]),
            also_replace=['call_guard'], replay=['puml']))

# ---------------- PlantUML tokenizer: bounded stand-ins (never counted as proved) ----------------
PU = 'front/puml/puml.hpp'
SVRW = [dict(name='CONT-find_first_not_of', pat='$1 . find_first_not_of (', rep='sv_find_first_not_of ( $1 ,', min=0),
        dict(name='CONT-find_last_not_of', pat='$1 . find_last_not_of (', rep='sv_find_last_not_of ( $1 ,', min=0),
        dict(name='CONT-find', pat='$1 . find (', rep='sv_find ( $1 ,', min=0),
        dict(name='CONT-substr', pat='$1 . substr (', rep='sv_substr ( $1 ,', min=0),
        dict(name='CONT-empty', pat='$1 . empty ( )', rep='sv_is_empty ( $1 )', min=0),
        dict(name='npos', pat='string :: npos', rep='npos', min=0),
        dict(name='size_type', pat='string :: size_type', rep='size_t', min=0),
        dict(name='sv-empty', pat='string_view { }', rep='sv_empty ( )', min=0),
        dict(name='std-min', pat='min (', rep='sz_min (', min=0),
        dict(name='auto-sv', pat='auto $1 = sv_substr', rep='sv_t $1 = sv_substr', min=0),
        dict(name='auto-cstr', pat='auto target = "', rep='const char * target = "', min=0),
        dict(name='auto-size', pat='auto $1 =', rep='size_t $1 =', min=0),
        dict(name='aggregate-init', pat='return Transition {', rep='return ( Transition ) {', min=0)]
xf_pu = back_xform([], refparams=(), rewrites=SVRW, drop=DROP_KW | {'constexpr'})
H_CLEAN = '''
void h_cleanup_token(void){
  char buf[LEN]; size_t n; __CPROVER_assume(n <= LEN);
  sv_t s; s.p = buf; s.n = n;
  sv_t r = cleanup_token(s);
  /* oracle: r is the range from the first to the last non-trim character, empty iff there is none */
  size_t b = npos, e = npos; for (size_t i = 0; i < LEN; ++i) if (i < n && !is_trim(buf[i])) { if (b == npos) b = i; e = i; }
  __CPROVER_assert(b == npos ? r.n == 0 : (r.p == buf + b && r.n == e - b + 1), "C14.cleanup-token-strips-exactly-leading-and-trailing-blanks-and-dashes");
}
'''
UNITS.append(Unit('front.puml.cleanup_token.bounded', ['C14'], 'front', Part(PU, [], 'string_view cleanup_token ( const string_view & str )'),
    'sv_t cleanup_token(sv_t str)', 'puml.spec.h', xform=xf_pu, mode='bounded', harness=H_CLEAN, unwind={'quick': 22, 'thorough': 34},
    defines=['LEN=20'], bounded='strings of at most 20 characters (thorough: 32)', cbmc_flags=['--no-signed-overflow-check'], replay=['puml']))

AUX_CLEAN = Aux('cleanup_token', 'sv_t', PU, [], 'string_view cleanup_token', params='sv_t str', xform=xf_pu)
AUX_GUARDS = Aux('parse_guards', 'Transition', PU, [], 'Transition parse_guards', params='sv_t part',
                 xform=back_xform([], refparams=(), rewrites=SVRW + [dict(name='value-init', pat='Transition res ;', rep='Transition res = { { 0 , 0 } , { 0 , 0 } , { 0 , 0 } , { 0 , 0 } , { 0 , 0 } } ;', min=1, max=1)], drop=DROP_KW | {'constexpr'}))
AUX_RIGHT = Aux('parse_row_right', 'Transition', PU, [], 'Transition parse_row_right', params='sv_t part',
                xform=back_xform([], refparams=(), rewrites=SVRW + [dict(name='value-init', pat='Transition res ;', rep='Transition res = { { 0 , 0 } , { 0 , 0 } , { 0 , 0 } , { 0 , 0 } , { 0 , 0 } } ;', min=1, max=1)], drop=DROP_KW | {'constexpr'}))
H_ROW = '''
static size_t put(char* buf, size_t pos, char c) { __CPROVER_assert(pos < LEN, "harness: generated line fits"); buf[pos] = c; return pos + 1; }
void h_parse_row(void){
  /* a line of the documented grammar:  SRC ws ARROW ws TGT [ws ':' ws EV [ws '/' ws ACT] [ws '[' G ']'] ]  (identifiers 1..2 characters) */
  char buf[LEN]; size_t pos = 0;
  unsigned ls, lt, le, la, lg, dashes; _Bool sp1, sp2, sp3, sp4, has_ev, has_act, has_g;
  __CPROVER_assume(1 <= ls && ls <= 2 && 1 <= lt && lt <= 2 && 1 <= le && le <= 2 && 1 <= la && la <= 2 && 1 <= lg && lg <= 2 && 1 <= dashes && dashes <= 2);
  __CPROVER_assume(has_ev || (!has_act && !has_g));
  size_t src_b = pos; for (unsigned i = 0; i < 2; ++i) if (i < ls) { char c; __CPROVER_assume(is_ident(c)); pos = put(buf, pos, c); } size_t src_e = pos;
  if (sp1) pos = put(buf, pos, ' ');
  for (unsigned i = 0; i < 2; ++i) if (i < dashes) pos = put(buf, pos, '-'); pos = put(buf, pos, '>');
  if (sp2) pos = put(buf, pos, ' ');
  size_t tgt_b = pos; for (unsigned i = 0; i < 2; ++i) if (i < lt) { char c; __CPROVER_assume(is_ident(c)); pos = put(buf, pos, c); } size_t tgt_e = pos;
  size_t ev_b = 0, ev_e = 0, act_b = 0, act_e = 0, g_b = 0, g_e = 0;
  if (has_ev) {
    if (sp3) pos = put(buf, pos, ' '); pos = put(buf, pos, ':'); if (sp4) pos = put(buf, pos, ' ');
    ev_b = pos; for (unsigned i = 0; i < 2; ++i) if (i < le) { char c; __CPROVER_assume(is_ident(c)); pos = put(buf, pos, c); } ev_e = pos;
    if (has_act) { if (sp3) pos = put(buf, pos, ' '); pos = put(buf, pos, '/'); if (sp4) pos = put(buf, pos, ' ');
      act_b = pos; for (unsigned i = 0; i < 2; ++i) if (i < la) { char c; __CPROVER_assume(is_ident(c)); pos = put(buf, pos, c); } act_e = pos; }
    if (has_g) { if (sp1) pos = put(buf, pos, ' '); pos = put(buf, pos, '[');
      g_b = pos; for (unsigned i = 0; i < 2; ++i) if (i < lg) { char c; __CPROVER_assume(is_ident(c)); pos = put(buf, pos, c); } g_e = pos; pos = put(buf, pos, ']'); }
  }
  sv_t row; row.p = buf; row.n = pos;
  Transition t = parse_row(row);
  __CPROVER_assert(sv_eq_range(t.source, buf, src_b, src_e), "C14.puml-row-source-is-the-text-before-the-arrow");
  __CPROVER_assert(sv_eq_range(t.target, buf, tgt_b, tgt_e), "C14.puml-row-target-is-the-text-after-the-arrow");
  __CPROVER_assert(!has_ev || sv_eq_range(t.event, buf, ev_b, ev_e), "C14.puml-row-event-is-the-text-after-the-colon");
  __CPROVER_assert(has_ev || t.event.n == 0, "C14.puml-row-without-colon-has-no-event");
  __CPROVER_assert(has_act ? sv_eq_range(t.action, buf, act_b, act_e) : t.action.n == 0, "C14.puml-row-action-is-the-text-after-the-slash");
  __CPROVER_assert(has_g ? sv_eq_range(t.guard, buf, g_b, g_e) : t.guard.n == 0, "C14.puml-row-guard-is-the-text-in-brackets");
}
'''
UNITS.append(Unit('front.puml.parse_row.bounded', ['C14'], 'front', Part(PU, [], 'Transition parse_row ( string_view row )'),
    'Transition parse_row(sv_t row)', 'puml.spec.h', xform=xf_pu, mode='bounded', harness=H_ROW, aux=[AUX_CLEAN, AUX_GUARDS, AUX_RIGHT],
    unwind={'quick': 22, 'thorough': 22}, defines=['LEN=20'], timeout=900,
    bounded='generated lines of the documented row grammar: identifiers of 1-2 characters, 0-1 blanks at each gap, arrows -> and -->, optional ": event", "/ action", "[guard]" (line length <= 20)',
    cbmc_flags=['--no-signed-overflow-check'], replay=['puml']))
