"""front/row2.hpp, front/internal_row.hpp, front/detail/row2_helper.hpp: rows that name a member function of any state (C14 C02 C18)"""
from .common import *
UNITS = []
R2 = 'front/row2.hpp'; IR = 'front/internal_row.hpp'; RH = 'front/detail/row2_helper.hpp'
RW = [dict(name='SCOPE-action-helper', pat='row2_action_helper ( CalledForAction , Event , action ) :: call_helper (', rep='row2_action_call_helper (', min=0, max=1),
      dict(name='SCOPE-action-helper-t', pat='row2_action_helper ( CalledForAction , Event , action ) :: template call_helper (', rep='row2_action_call_helper (', min=0, max=1),
      dict(name='SCOPE-guard-helper', pat='row2_guard_helper ( CalledForGuard , Event , guard ) :: call_helper (', rep='row2_guard_call_helper (', min=0, max=1)]
xr = back_xform(['row2_action_helper', 'row2_guard_helper', 'bool_', 'is_base_of'], refparams=('fsm',), rewrites=RW)
A_SIG = 'action_call ( FSM & fsm , Event const & evt , SourceState & src , TargetState & tgt , AllStates & all_states )'
G_SIG = 'guard_call ( FSM & fsm , Event const & evt , SourceState & src , TargetState & tgt , AllStates & all_states )'
for hdr, kinds in ((R2, (('a_row2', 1, 0), ('row2', 1, 1), ('g_row2', 0, 1), ('a_irow2', 1, 0), ('irow2', 1, 1), ('g_irow2', 0, 1))),
                   (IR, (('a_internal', 1, 0), ('internal', 1, 1), ('g_internal', 0, 1)))):
    for nm, has_a, has_g in kinds:
        sc = ['struct ' + nm + ' {']
        if has_a:
            UNITS.append(Unit('front.row2.%s.action_call' % nm, ['C14', 'C02', 'C18'], 'front', Part(hdr, sc, A_SIG),
                'HandledEnum row2_action_call(fsm_t* fsm, event_t evt, stref_t src, stref_t tgt, stref_t all_states)', 'functor_row.spec.h', defines=['UNIT_ROW2_ACTION=1'], xform=xr, replay=['fronts', 'order']))
        if has_g:
            UNITS.append(Unit('front.row2.%s.guard_call' % nm, ['C14', 'C01', 'C18'], 'front', Part(hdr, sc, G_SIG),
                '_Bool row2_guard_call(fsm_t* fsm, event_t evt, stref_t src, stref_t tgt, stref_t all_states)', 'functor_row.spec.h', defines=['UNIT_ROW2_GUARD=1'], xform=xr, replay=['fronts', 'order']))
HRW = [dict(name='memfn-on-state', pat='( at_key ( $1 , all_states ) . * $2 ) ( evt )', rep='call_member_of_state ( all_states , $1 , $2 , evt )', min=0, max=1),
       dict(name='memfn-on-fsm', pat='( fsm . * $1 ) ( evt )', rep='call_member_of_fsm ( fsm , $1 , evt )', min=0, max=1)]
xh = back_xform(['at_key'], refparams=(), rewrites=HRW)
for helper, is_guard in (('row2_action_helper', 0), ('row2_guard_helper', 1)):
    for tag, on_fsm, sig in (('false_', 0, 'call_helper ( FSM & , Evt const & evt , SourceState & , TargetState & , AllStates & all_states , false_ const & )'),
                             ('true_', 1, 'call_helper ( FSM & fsm , Evt const & evt , SourceState & , TargetState & , AllStates & , true_ const & )')):
        UNITS.append(Unit('front.%s.call_helper.%s' % (helper, tag), ['C14', 'C02', 'C18'], 'front', Part(RH, ['struct ' + helper], sig),
            '_Bool row2_helper_call(fsm_t* fsm, event_t evt, stref_t src, stref_t tgt, stref_t all_states)', 'functor_row.spec.h',
            defines=['UNIT_ROW2_HELPER=1', 'ON_FSM=%d' % on_fsm, 'IS_GUARD=%d' % is_guard], xform=xh, replay=['fronts', 'order']))
