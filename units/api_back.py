"""back / back11 public entry points that only forward: process_event, enqueue_event, execute_queued_events, execute_single_queued_event (C04 C06)"""
from .common import *
UNITS = []
for be in BACKS:
    SM = be + '/state_machine.hpp'
    UNITS.append(Unit(be + '.process_event', ['C04', 'C06', 'C13'], be, Part(SM, [], 'execute_return process_event ( Event const & evt )' if be == 'back' else 'execute_return process_event ( Event && evt )'),
        'HandledEnum api_process_event(fsm_t* self, event_t evt)', 'api_back.spec.h', defines=['UNIT_PROCESS=1'],
        xform=back_xform(['forward'], refparams=(), methods=['process_event_internal'], rewrites=[dict(name='perfect-forward', pat='forward ( Event , evt )', rep='evt', min=0, max=1)]), replay=['queue']))
    for nm, anchor, helper, ev in (('enqueue_event', 'void enqueue_event ( EventType const & evt )', 'enqueue_event_helper', 1),
                                   ('execute_queued_events', 'void execute_queued_events ( )', 'execute_queued_events_helper', 0),
                                   ('execute_single_queued_event', 'void execute_single_queued_event ( )', 'execute_single_queued_event_helper', 0)):
        UNITS.append(Unit(be + '.' + nm, ['C04', 'C13'], be, Part(SM, [], anchor),
            'void api_queue_op(fsm_t* self, event_t evt)', 'api_back.spec.h', defines=['UNIT_QUEUE=1', 'WITH_EVENT=%d' % ev],
            xform=back_xform(['is_no_message_queue', helper], refparams=(), methods=[helper], rewrites=[
                dict(name='OVL-call-ev', pat=helper + ' ( self , EventType , evt , is_no_message_queue ( library_sm ) )', rep='queue_helper ( self , evt , is_no_message_queue ( library_sm ) )', min=0, max=1),
                dict(name='OVL-call', pat=helper + ' ( self , is_no_message_queue ( library_sm ) )', rep='queue_helper ( self , evt , is_no_message_queue ( library_sm ) )', min=0, max=1)]), replay=['queue']))

    for nm, props in (('call_no_transition', ['C06', 'C01', 'C13']), ('call_no_transition_internal', ['C06', 'C01', 'C13']), ('default_eventless_transition', ['C10', 'C06', 'C13'])):
        UNITS.append(Unit(be + '.' + nm, props, be, Part(SM, [], ('static HandledEnum %s ( library_sm & , int , int , Event const & )' if be == 'back' else 'static HandledEnum %s ( library_sm & , int , int , Event & )') % nm),
            'HandledEnum default_cell(fsm_t* fsm, int region, int state, event_t evt)', 'api_back.spec.h', defines=['UNIT_DEFAULT_CELL=1'],
            xform=back_xform([], refparams=()), replay=['sel']))
