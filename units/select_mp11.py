"""candidate selection, region loop, forwarding of backmp11 (C01 C06 C07 C13)"""
from .common import *
from .rows_mp11 import xf_mp11, ENUMS, DROP2, COMMON_RW
PROPS = ['C01', 'C06', 'C07', 'C13']
TT = 'backmp11/detail/transition_table.hpp'; RS = 'backmp11/detail/favor_runtime_speed.hpp'; SB = 'backmp11/detail/state_machine_base.hpp'
CT = 'backmp11/favor_compile_time.hpp'
HTD = ('backmp11/common_types.hpp', 'static constexpr process_result handled_true_or_deferred = process_result :: HANDLED_TRUE | process_result :: HANDLED_DEFERRED ;')
def gn(_): return [X.T('g_n')]
CHAIN_LOOP = ('__CPROVER_assigns(%s, result, g_chain_pos, g_consumed, g_taken, g_rejects)\n'
              '__CPROVER_loop_invariant(0 <= %s && %s <= g_n && g_chain_pos == %s && !g_consumed && g_taken == 0 && 0 <= g_rejects && g_rejects <= %s + 1 && g_rejects >= __CPROVER_loop_entry(g_rejects))\n'
              '__CPROVER_loop_invariant(result == (g_rejects > 0 ? HANDLED_GUARD_REJECT : HANDLED_FALSE))\n'
              '__CPROVER_decreases(g_n - %s)')
UNITS = []
UNITS.append(Unit('backmp11.transition_chain.execute', PROPS, 'backmp11',
    Part(TT, ['struct transition_chain'], 'static process_result execute ( StateMachine & sm , uint8_t region_id , Event const & evt )'),
    'process_result chain_entry(fsm_t* sm, uint8_t region_id, event_t evt)', 'select_mp11.spec.h',
    xform=back_xform([], {'Transition': 'row'}, refparams=('sm',), enums=ENUMS, drop=DROP2, foreach=True, size_of=gn),
    loops={0: CHAIN_LOOP % (('transition',) * 6)}, must_contain=[HTD], fire={'UNTIL': (1, 1)}, replay=['sel']))
UNITS.append(Unit('backmp11.internal_transition_chain.execute', PROPS, 'backmp11',
    Part(RS, ['struct internal_transition_chain'], 'static process_result execute ( StateMachine & sm , Event const & evt )'),
    'process_result chain_entry(fsm_t* sm, uint8_t region_id, event_t evt)', 'select_mp11.spec.h',
    xform=back_xform([], {'Transition': 'internal_row'}, refparams=('sm',), enums=ENUMS, drop=DROP2, foreach=True, size_of=gn),
    loops={0: CHAIN_LOOP % (('transition',) * 6)}, must_contain=[HTD], fire={'UNTIL': (1, 1)}, also_replace=['row_execute'], replay=['sel']))
# favor_compile_time chains: range-for over a vector of type-erased cells
RF = lambda extra: [dict(name='RANGEFOR', pat='for ( const generic_cell cell : m_transition_cells )', rep='for ( int cell = 0 ; cell != g_n ; ++ cell )', min=1, max=1),
                    dict(name='cell-typedef', pat='using cell_t = $*A ;', rep='', min=1, max=1),
                    dict(name='cell-call', pat='( ( cell_t ) ( cell ) ) (', rep='row_execute ( cell ,', min=1, max=1)] + extra
UNITS.append(Unit('backmp11.favor_compile_time.transition_chain.execute', PROPS, 'backmp11',
    Part(CT, ['class transition_chain'], 'process_result execute ( StateMachine & sm , uint8_t region_id , any_event const & event , process_result result ) const'),
    'process_result chain_entry_acc(fsm_t* sm, uint8_t region_id, event_t event, process_result result)', 'select_mp11.spec.h',
    xform=back_xform([], refparams=(), enums=ENUMS, drop=DROP2, rewrites=RF([])),
    loops={0: CHAIN_LOOP % (('cell',) * 6)}, must_contain=[HTD], replay=['sel']))
UNITS.append(Unit('backmp11.favor_compile_time.internal_transition_chain.execute', PROPS, 'backmp11',
    Part(CT, ['class internal_transition_chain'], 'process_result execute ( StateMachine & sm , any_event const & event ) const'),
    'process_result chain_entry(fsm_t* sm, uint8_t region_id, event_t event)', 'select_mp11.spec.h',
    xform=back_xform([], refparams=(), enums=ENUMS, drop=DROP2, rewrites=RF([dict(name='no-region-arg', pat='row_execute ( cell , sm , event )', rep='row_execute ( cell , sm , 0 , event )', min=1, max=1)])),
    loops={0: CHAIN_LOOP % (('cell',) * 6)}, must_contain=[HTD], replay=['sel']))
# do_process_event
UNITS.append(Unit('backmp11.do_process_event', PROPS, 'backmp11',
    Part(SB, [], 'process_result do_process_event ( Event const & event , process_info info )'),
    'process_result do_process_event(fsm_t* self, event_t event, process_info info)', 'select_mp11.spec.h',
    xform=back_xform([], refparams=(), enums=ENUMS, drop=DROP2, members=['m_active_state_ids'], methods=['no_transition'],
        pre_rewrites=[dict(name='dispatch-table-alias', pat='using dispatch_table = $*A ;', rep='', min=1, max=1)],
        rewrites=[dict(name='SCOPE-dispatch', pat='dispatch_table :: dispatch (', rep='dispatch_table_dispatch (', min=0, max=1), dict(name='SCOPE-internal', pat='dispatch_table :: internal_dispatch (', rep='dispatch_table_internal_dispatch (', min=0, max=1),
                  dict(name='fsm-argument', pat='get_fsm_argument ( )', rep='self', min=1, max=1),
                  dict(name='RANGEFOR', pat='for ( const auto state_id : self -> m_active_state_ids ) {', rep='for ( size_t __i = 0 ; __i < nr_regions ; ++ __i ) { const uint16_t state_id = self -> m_active_state_ids [ __i ] ;', min=1, max=1),
                  dict(name='GHOST-regions-done', pat='if $$C { result $1 dispatch_table_internal_dispatch (', rep='g_acc_regions = g_acc ; if $$C { result $1 dispatch_table_internal_dispatch (', min=1, max=1)]),
    loops={0: '__CPROVER_assigns(region_id, result, g_region_next, g_acc, g_ntaken, __CPROVER_object_whole(self->m_active_state_ids))\n'
              '__CPROVER_loop_invariant(region_id <= nr_regions && g_region_next == region_id && (int)result == g_acc && ACC_INV && !g_internal_tried)\n'
              '__CPROVER_decreases(nr_regions - region_id)',
           1: '__CPROVER_assigns(__i, g_nt_next, g_exc)\n__CPROVER_loop_invariant(__i <= nr_regions && g_nt_next == __i && g_acc == 0)\n__CPROVER_decreases(nr_regions - __i)'},
    must_contain=[HTD], replay=['sel']))
# forward_transition::execute
UNITS.append(Unit('backmp11.forward_transition.execute', ['C07', 'C13', 'C18'], 'backmp11',
    Part(RS, ['struct forward_transition'], 'static process_result execute ( StateMachine & sm , uint8_t region_id , Event const & event )'),
    'process_result forward_execute(fsm_t* sm, uint8_t region_id, event_t event)', 'select_mp11.spec.h',
    xform=xf_mp11(['get_state_id', 'get_state'], throwers=['sub_process_event_internal'], rewrites=[
        dict(name='auto-id', pat='const auto state_id =', rep='const int state_id =', min=1, max=1),
        dict(name='member-call-on-substate', pat='sm -> get_state ( Submachine ) . process_event_internal (', rep='sub_process_event_internal ( __CPROVER_uninterpreted_get_state ( Submachine ) ,', min=1, max=1)]),
    replay=['sel']))
UNITS.append(Unit('backmp11.favor_compile_time.state_dispatch_table.dispatch', PROPS, 'backmp11',
    Part(CT, ['class state_dispatch_table'], 'process_result dispatch ( StateMachine & sm , uint8_t region_id , const any_event & event ) const'),
    'process_result state_dispatch(const sdt_t* self, fsm_t* sm, uint8_t region_id, event_t event)', 'select_mp11.spec.h',
    xform=back_xform([], refparams=(), members=['m_call_process_event', 'm_transition_chains'], enums=ENUMS, drop=DROP2, rewrites=[
        dict(name='fnptr-call', pat='self -> m_call_process_event ( sm , event )', rep='call_process_event_fp ( self , sm , event )', min=0, max=1),
        dict(name='CONT-find', pat='auto it = self -> m_transition_chains . find ( event . type ( ) ) ;', rep='', min=1, max=1),
        dict(name='CONT-found', pat='it != self -> m_transition_chains . end ( )', rep='self -> has_chain', min=1, max=1),
        dict(name='CONT-call', pat='( it -> second . execute ) ( sm ,', rep='chain_execute_acc ( self , sm ,', min=0, max=1)]),
    must_contain=[HTD], replay=['sel']))
