"""deferred events of back / back11 (C05)"""
from .common import *
UNITS = []
HARNESS = '''
void h_do_handle_deferred(void){
  helper_t h; g_h=&h; int n=nondet_int(); __CPROVER_assume(0<=n && n<=QN); h.m_deferred_events_queue.n=n;
  char s; h.m_cur_seq=s; g_budget=BUDGET;
  /* all n occurrences were deferred in the previous cycle (defer_event: sequence (char)(cur+1)), arrival order = ticket */
  for(int i=0;i<QN;i++){ h.m_deferred_events_queue.a[i].first=i; h.m_deferred_events_queue.a[i].second=(char)(s+1); }
  g_nlog=0;
  do_handle_deferred(&h,1);
  for(int i=1;i<h.m_deferred_events_queue.n;i++)
    __CPROVER_assert(h.m_deferred_events_queue.a[i-1].first < h.m_deferred_events_queue.a[i].first, "C05.deferred-queue-back-in-arrival-order-after-a-pass");
  /* conservation: every ticket is either still queued (once) or was invoked */
  for(int t=0;t<QN;t++) if (t<n) { int q=0; for(int i=0;i<h.m_deferred_events_queue.n;i++) q += (h.m_deferred_events_queue.a[i].first==t);
    int inv=0; for(int i=0;i<g_nlog;i++) inv += (g_log[i]==t);
    __CPROVER_assert(q<=1, "C05.no-deferred-occurrence-duplicated");
    __CPROVER_assert(q==1 || inv>=1, "C05.deferred-occurrence-leaves-the-queue-only-by-being-dispatched"); }
  /* (d) the new cycle retries every pending occurrence, and the first attempts come in arrival order */
  int prev_first=-1;
  for(int t=0;t<QN;t++) if (t<n) { int first=-1; for(int i=g_nlog-1;i>=0;i--) if (g_log[i]==t) first=i;
    __CPROVER_assert(first>=0, "C05.every-pending-deferred-occurrence-is-retried-in-a-new-cycle");
    __CPROVER_assert(first>prev_first, "C05.deferred-occurrences-are-retried-oldest-first"); prev_first=first; }
  /* (e) what is still pending was re-evaluated after the last handled event and carries the next cycle's number */
  int last_handled=-1; for(int i=0;i<g_nlog;i++) if (g_res[i] & HANDLED_TRUE) last_handled=i;
  for(int i=0;i<h.m_deferred_events_queue.n;i++) { int last=-1; for(int k=0;k<g_nlog;k++) if (g_log[k]==h.m_deferred_events_queue.a[i].first) last=k;
    __CPROVER_assert(last>last_handled, "C05.pending-occurrences-are-re-evaluated-after-every-handled-event");
    __CPROVER_assert(h.m_deferred_events_queue.a[i].second==(char)(h.m_cur_seq+1), "C05.pending-occurrences-wait-for-the-next-cycle"); }
}
'''
for be in BACKS:
    SM = be + '/state_machine.hpp'
    SC = ['struct handle_defer_helper <']
    body_rw = [
        dict(name='REFLOC', pat='char & cur_seq = m_events_queue . m_cur_seq ;', rep='', min=1, max=1),   # the reference local is the macro cur_seq of the spec file
        dict(name='CONT-empty', pat='m_events_queue . m_deferred_events_queue . empty ( )', rep='dq_empty ( & m_events_queue -> m_deferred_events_queue )', min=1, max=1),
        dict(name='CONT-front', pat='deferred_events_queue_t :: value_type & pair = m_events_queue . m_deferred_events_queue . front ( ) ;', rep='pair_t * pair = dq_front ( & m_events_queue -> m_deferred_events_queue ) ;', min=1, max=1),
        dict(name='REF-pair', pat='pair . $1', rep='pair -> $1', min=0, max=6),
        dict(name='CONT-pop', pat='m_events_queue . m_deferred_events_queue . pop_front ( )', rep='dq_pop_front ( & m_events_queue -> m_deferred_events_queue )', min=0, max=2),
        dict(name='INVOKE-next', pat='next ( )', rep='invoke_deferred ( next )', min=0, max=2),
        dict(name='STL-stable_sort', pat='stable_sort ( m_events_queue . m_deferred_events_queue . begin ( ) , m_events_queue . m_deferred_events_queue . end ( ) , sort_greater ( ) ) ;', rep='std_stable_sort ( & m_events_queue -> m_deferred_events_queue ) ;', min=1, max=1),
        dict(name='STL-for_each', pat='for_each ( m_events_queue . m_deferred_events_queue . begin ( ) , m_events_queue . m_deferred_events_queue . end ( ) , set_sequence ( $*A ) ) ;', rep='std_for_each_set ( & m_events_queue -> m_deferred_events_queue , $*A ) ;', min=1, max=1),
        dict(name='recursive-member-call', pat='do_handle_deferred (', rep='do_handle_deferred ( m_events_queue ,', min=0, max=2),
        dict(name='member', pat='m_events_queue . m_cur_seq', rep='m_events_queue -> m_cur_seq', min=1),
    ]
    if be == 'back11':
        body_rw = [r for r in body_rw if r['name'] not in ('STL-stable_sort', 'STL-for_each')] + [
            dict(name='STL-stable_sort', pat='stable_sort ( m_events_queue . m_deferred_events_queue . begin ( ) , m_events_queue . m_deferred_events_queue . end ( ) , [ ] $$A $$B ) ;', rep='std_stable_sort ( & m_events_queue -> m_deferred_events_queue ) ;', min=1, max=1),
            dict(name='STL-for_each', pat='for_each ( m_events_queue . m_deferred_events_queue . begin ( ) , m_events_queue . m_deferred_events_queue . end ( ) , [ seq ] $$A $$B ) ;', rep='std_for_each_set ( & m_events_queue -> m_deferred_events_queue , seq ) ;', min=1, max=1),
            dict(name='auto-seq', pat='auto seq =', rep='char seq =', min=1, max=1)]
        body_rw = [r for r in body_rw if r['name'] != 'member'] + [dict(name='member', pat='m_events_queue . m_cur_seq', rep='m_events_queue -> m_cur_seq', min=1)]
        auxs = [Aux('sort_greater_call', '_Bool', SM, SC, 'stable_sort (', params='pair_t const* d1, pair_t const* d2', lambda_body=True,
                     xform=back_xform([], refparams=(), rewrites=[dict(name='REF', pat='$1 . second', rep='$1 -> second', min=2, max=2)])),
                Aux('set_sequence_call', 'void', SM, SC, 'for_each (', params='char seq, pair_t* d', lambda_body=True,
                     xform=back_xform([], refparams=(), rewrites=[dict(name='REF', pat='d . second', rep='d -> second', min=1, max=1)]))]
    else:
        auxs = [Aux('sort_greater_call', '_Bool', SM, SC + ['struct sort_greater'], 'bool operator ( )', params='pair_t const* d1, pair_t const* d2',
                     xform=back_xform([], refparams=(), rewrites=[dict(name='REF', pat='$1 . second', rep='$1 -> second', min=2, max=2)])),
                Aux('set_sequence_call', 'void', SM, SC + ['struct set_sequence'], 'void operator ( )', params='char seq_, pair_t* d',
                     xform=back_xform([], refparams=(), rewrites=[dict(name='REF', pat='d . second', rep='d -> second', min=1, max=1)]))]
    if body_rw:
        UNITS.append(Unit(be + '.do_handle_deferred.bounded', ['C05', 'C20', 'C13'], be,
            Part(SM, SC, 'void do_handle_deferred ( bool new_seq = false )', xform=back_xform([], refparams=(), rewrites=body_rw)),
            'void do_handle_deferred(helper_t* m_events_queue, _Bool new_seq)', 'deferred_back_bounded.spec.h', mode='bounded',
            aux=auxs, cbmc_flags=['--no-signed-overflow-check'],
            harness=HARNESS, unwind={'quick': 2 * 3 + 4, 'thorough': 2 * 4 + 4}, defines=['QN=3', 'BUDGET=2'],
            bounded='deferred queue length <= 3 (thorough: 4), at most 2 handled events per call (recursion depth), full-range char m_cur_seq, every result code 0..7 of a re-dispatched occurrence; insertion sort stands in for std::stable_sort',
            timeout=600, replay=['defer', 'queue']))

MQ = [dict(name='member-seq', pat='self -> m_deferred_events_queue . m_cur_seq', rep='CUR_SEQ ( self )', min=0),
      dict(name='CONT-push', pat='self -> m_deferred_events_queue . m_deferred_events_queue . push_back (', rep='dq_push_back ( self ,', min=0),
      dict(name='BIND', pat='bind ( pf , self ,', rep='mk_call ( self ,', min=0),
      dict(name='BIND-pf', pat='execute_return ( library_sm :: * pf ) $$A = & library_sm :: process_event_internal ;', rep='', min=0),
      dict(name='helper-object', pat='handle_defer_helper < library_sm > defer_helper ( self -> m_deferred_events_queue ) ; defer_helper . do_handle_deferred (', rep='do_handle_deferred ( self ,', min=0)]
for be in BACKS:
    SM = be + '/state_machine.hpp'
    xfd = back_xform(['is_no_message_queue', 'bool_', 'has_fsm_deferred_events'], refparams=('fsm',), members=['m_deferred_events_queue'], methods=['do_post_msg_queue_helper'], rewrites=MQ)
    UNITS.append(Unit(be + '.defer_event', ['C05', 'C18', 'C13'], be, Part(SM, [], 'defer_event ( Event const & e )'),
        'void defer_event(fsm_t* self, event_t e)', 'deferred.spec.h', xform=xfd, fire={'RW:BIND': (1, 1), 'RW:BIND-pf': (1, 1), 'RW:CONT-push': (1, 1)}, replay=['defer']))
    UNITS.append(Unit(be + '.defer_transition', ['C05', 'C06', 'C13'], be, Part(SM, [], 'static HandledEnum defer_transition ( library_sm & fsm , int , int , Event'),
        'HandledEnum defer_transition(fsm_t* fsm, int region, int state, event_t e)', 'deferred.spec.h',
        xform=back_xform([], refparams=('fsm',), rewrites=[dict(name='member-call', pat='fsm -> defer_event (', rep='defer_event ( fsm ,', min=1, max=1)]), replay=['defer']))
    UNITS.append(Unit(be + '.do_handle_prio_msg_queue_deferred_queue', ['C05', 'C04', 'C13'], be,
        [Part(SM, [], 'void do_handle_prio_msg_queue_deferred_queue ( EventSource source , HandledEnum handled , true_ const & )', xform=xfd),
         Part(SM, [], 'void do_handle_prio_msg_queue_deferred_queue ( EventSource source , HandledEnum handled , false_ const & )', xform=xfd)],
        'void prio_unit(fsm_t* self, EventSource source, HandledEnum handled, _Bool queue_first)', 'deferred.spec.h',
        compose='if (queue_first) {@0} else {@1}', replay=['defer', 'queue']))
