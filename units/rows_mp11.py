"""backmp11 transitions (C02 C19 C09 C03 C12 C01 C10 C13)"""
from .common import *
TT = 'backmp11/detail/transition_table.hpp'
ENUMS = {'process_result': '', 'process_info': 'process_info_'}
COMMON_RW = [
    dict(name='fsm-argument', pat='sm -> get_fsm_argument ( )', rep='sm', min=0),
    dict(name='state-object', pat='auto & $1 = sm -> get_state ( $2 ) ;', rep='const stref_t $1 = __CPROVER_uninterpreted_get_state ( $2 ) ;', min=0),
    dict(name='static-member', pat='StateMachine :: get_state_id (', rep='get_state_id_mp11 (', min=0),
    dict(name='auto-const', pat='auto $1 = get_state_id_mp11', rep='const int $1 = get_state_id_mp11', min=0),
]
DROP2 = DROP_KW | {'static', 'constexpr', '[[maybe_unused]]'}
def xf_mp11(templates, rewrites=(), throwers=(), refvals=(), exc_ret=EXC_RET, refparams=('sm',)):
    return back_xform(templates, {'active_state_switching': 'active_state_switching!'}, refparams=refparams, throwers=throwers,
                      rewrites=COMMON_RW + list(rewrites), enums=ENUMS, drop=DROP2, refvals=refvals, exc_ret=exc_ret)
PROPS = ['C02', 'C19', 'C09', 'C03', 'C12', 'C01', 'C10', 'C13']
THROW = ['call_guard_or_true', 'state_on_exit', 'call_action_or_true', 'call_entry', 'user_guard', 'user_action']
UNITS = []
UNITS.append(Unit('backmp11.transition.execute', PROPS, 'backmp11',
    Part(TT, ['struct transition {'], 'static process_result execute ( StateMachine & sm , uint8_t region_id , transition_event const & event )'),
    'process_result transition_execute(fsm_t* sm, uint8_t region_id, event_t event)', 'rows_mp11.spec.h',
    xform=xf_mp11(['get_state_id', 'get_state', 'call_guard_or_true', 'call_action_or_true', 'call_entry', 'on_state_entry_completed', 'has_exit_pseudostate_be_tag', 'is_state_active'],
        refvals=('state_id',), throwers=THROW, rewrites=[
        dict(name='REFLOC', pat='auto & ( * state_id ) = $*A ;', rep='uint16_t * state_id = & ( $*A ) ;', min=1, max=1),
        dict(name='exit-point-active-test', pat='source . is_state_active ( Row :: Source )', rep='is_exit_state_active_mp11 ( source )', min=0, max=1),
        dict(name='exit-call', pat='source . on_exit (', rep='state_on_exit ( current_state_type , source ,', min=1, max=1),
        dict(name='member-call', pat='sm -> on_state_entry_completed (', rep='on_state_entry_completed ( sm ,', min=1, max=1)]),
    aux=policy_aux(), fire={'ASSERT': (1, 1), 'AUX': (16, 16)}, replay=['order', 'exc', 'hist', 'sel']))
for (nm, scope, sig, smi) in (('state', ['struct internal_transition {'], 'static process_result execute ( StateMachine & sm , uint8_t region_id , transition_event const & event )', 0),
                              ('sm', ['struct internal_transition < Row , HasAction , HasGuard , StateMachine >'], 'static process_result execute ( StateMachine & sm , transition_event const & event )', 1)):
    UNITS.append(Unit('backmp11.internal_transition.%s.execute' % nm, ['C02', 'C01', 'C03', 'C13'], 'backmp11',
        Part(TT, scope, sig), 'process_result internal_transition_execute(fsm_t* sm, uint8_t region_id, event_t event)', 'rows_mp11.spec.h',
        xform=xf_mp11(['get_state_id', 'get_state', 'call_guard_or_true', 'call_action_or_true'], throwers=THROW, rewrites=[
            dict(name='alias', pat='auto & target = source ;', rep='const stref_t target = source ;', min=1, max=1),
            dict(name='sm-as-state', pat='auto & source = sm ;', rep='const stref_t source = 0 ;', min=smi, max=smi),
            dict(name='auto-id', pat='const auto state_id =', rep='const int state_id =', min=1 - smi, max=1 - smi)]),
        defines=['ROW_INTERNAL=1', 'ROW_SM_INTERNAL=%d' % smi], replay=['order']))
# call_guard_or_true / call_action_or_true: three-way if constexpr
UNITS.append(Unit('backmp11.call_guard_or_true', ['C02', 'C01', 'C19', 'C09'], 'backmp11',
    Part(TT, ['struct transition_table_impl'], 'static bool call_guard_or_true ( StateMachine & sm , const Event & event , Source & source , Target & target )'),
    '_Bool call_guard_or_true(type_t Row, _Bool HasGuard, fsm_t* sm, event_t event, stref_t source, stref_t target)', 'rows_mp11.spec.h',
    xform=xf_mp11(['has_Guard', 'invoke_guard_functor'], exc_ret='0', rewrites=[
        dict(name='functor-guard', pat='invoke_guard_functor ( Row :: Guard ) :: execute ( event , sm , source , target )', rep='user_guard ( sm , event , source , target )', min=1, max=1),
        dict(name='row-guard', pat='Row :: guard_call ( sm , event , source , target , sm -> m_states )', rep='user_guard ( sm , event , source , target )', min=1, max=1),
        dict(name='ghost-no-guard', pat='else { return true ; }', rep='else { NO_GUARD_STEP ( ) ; return true ; }', min=1, max=1)]),
    defines=['NO_POLICY=1', 'HasGuardP=HasGuard'], replay=['order']))
UNITS.append(Unit('backmp11.call_action_or_true', ['C02', 'C19'], 'backmp11',
    Part(TT, ['struct transition_table_impl'], 'static process_result call_action_or_true ( StateMachine & sm , const Event & event , Source & source , Target & target )'),
    'process_result call_action_or_true(type_t Row, _Bool HasAction, fsm_t* sm, event_t event, stref_t source, stref_t target)', 'rows_mp11.spec.h',
    xform=xf_mp11(['has_Action', 'invoke_action_functor'], rewrites=[
        dict(name='functor-action', pat='invoke_action_functor ( Row :: Action ) :: execute ( event , sm , source , target )', rep='user_action ( sm , event , source , target )', min=1, max=1),
        dict(name='row-action', pat='Row :: action_call ( sm , event , source , target , sm -> m_states )', rep='user_action ( sm , event , source , target )', min=1, max=1),
        dict(name='ghost-no-action', pat='else { return HANDLED_TRUE ; }', rep='else { NO_ACTION_STEP ( ) ; return HANDLED_TRUE ; }', min=1, max=1)]),
    defines=['NO_POLICY=1', 'HasGuardP=HasGuard'], replay=['order']))

UNITS.append(Unit('backmp11.call_entry', ['C09', 'C02', 'C13'], 'backmp11',
    Part(TT, ['struct transition_table_impl'], 'static void call_entry ( StateMachine & sm , const Event & event , Target & target )'),
    'void call_entry_unit(fsm_t* sm, event_t event, stref_t target)', 'call_entry_mp11.spec.h',
    xform=back_xform([], refparams=(), enums=ENUMS, drop=DROP2, throwers=['target_entry', 'target_forward_event'], exc_ret='',
        pre_rewrites=[dict(name='TVAR-fetarget', pat='using FeTarget = typename Row :: Target ;', rep='', min=1, max=1),
                      dict(name='TVAR-targets', pat='using targets = to_mp_list_t < FeTarget > ;', rep='', min=2, max=2),
                      dict(name='TVAR-states', pat='using states = mp11 :: mp_transform < get_state , targets > ;', rep='', min=0, max=2),
                      dict(name='TVAR-states2', pat='using states = mp_transform < get_state , targets > ;', rep='', min=0, max=2),
                      dict(name='fsm-ref', pat='auto & fsm = sm . get_fsm_argument ( ) ;', rep='fsm_t * const fsm = sm ;', min=1, max=1),
                      dict(name='SCOPE-explicit', pat='is_explicit_entry_point < FeTarget > :: value', rep='g_is_explicit', min=1, max=1),
                      dict(name='SCOPE-entry-pseudo', pat='has_entry_pseudostate_be_tag < FeTarget > :: value', rep='g_is_entry_pseudo', min=1, max=1),
                      dict(name='SCOPE-exit-pseudo', pat='has_exit_pseudostate_be_tag < Target > :: value', rep='g_is_exit_pseudo', min=1, max=1),
                      dict(name='member-explicit', pat='target . template on_explicit_entry < states > ( event , fsm ) ;', rep='target_entry ( E_EXPLICIT , target , event , fsm ) ;', min=0, max=1),
                      dict(name='member-pseudo', pat='target . template on_pseudo_entry < states > ( event , fsm ) ;', rep='target_entry ( E_PSEUDO , target , event , fsm ) ;', min=0, max=1),
                      dict(name='member-plain', pat='target . on_entry ( event , fsm ) ;', rep='target_entry ( E_PLAIN , target , event , fsm ) ;', min=0, max=1),
                      dict(name='member-forward', pat='target . forward_event ( * sm . m_root_sm , event ) ;', rep='target_forward_event ( target , g_root_of ( sm ) , event ) ;', min=0, max=1)]),
    file_scope='static fsm_t* g_root_of(fsm_t* sm) { return g_root; }   /* *sm.m_root_sm: the root machine [A: set at construction] */\n', replay=['hist', 'sel']))
