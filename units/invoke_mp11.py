"""backmp11 transition_table.hpp: invocation of a row's guard / action functor (C02 C05 C14 C18)"""
from .common import *
from .rows_mp11 import ENUMS, DROP2, TT
UNITS = []
P4 = 'event_t event, fsm_t* fsm, stref_t source, stref_t target'
def xf(extra=()):
    return back_xform([], refparams=('fsm',), enums=ENUMS, drop=DROP2, throwers=['user_functor4', 'user_functor2', 'user_functor1', 'invoke_functor'], exc_ret='0', rewrites=[
        dict(name='functor-object-call', pat='Functor { } (', rep='FUNCTOR_CALL (', min=0, max=2),
        dict(name='TCALL-invoke', pat='invoke_functor < Functor > ( priority_tag_0 { } , Functor { } ,', rep='invoke_functor (', min=0, max=2),
        dict(name='member-defer', pat='fsm -> defer_event (', rep='fsm_defer_event ( fsm ,', min=0, max=2)] + list(extra))
for tag, ar in ((0, 4), (1, 2), (2, 1)):
    UNITS.append(Unit('backmp11.invoke_functor.arity%d' % ar, ['C02', 'C14', 'C18', 'C01', 'C13'], 'backmp11',
        Part(TT, [], 'auto invoke_functor ( priority_tag_%d ,' % tag), '_Bool invoke_functor_unit(%s)' % P4, 'invoke_mp11.spec.h',
        defines=['ARITY=%d' % ar], xform=xf(), also_replace=['user_functor%d' % ar], replay=['sel', 'order']))
UNITS.append(Unit('backmp11.invoke_guard_functor.execute', ['C01', 'C14', 'C18', 'C13'], 'backmp11',
    Part(TT, ['struct invoke_guard_functor {'], 'static bool execute ('), '_Bool guard_execute(%s)' % P4, 'invoke_mp11.spec.h', xform=xf(), replay=['sel']))
UNITS.append(Unit('backmp11.invoke_guard_functor.none.execute', ['C01', 'C14', 'C13'], 'backmp11',
    Part(TT, ['struct invoke_guard_functor < none >'], 'static bool execute ('), '_Bool guard_execute(%s)' % P4, 'invoke_mp11.spec.h', defines=['GUARD_NONE=1'], xform=xf(), replay=['sel']))
for kind, (nm, scope) in enumerate((('functor', 'struct invoke_action_functor {'), ('none', 'struct invoke_action_functor < none >'), ('Defer', 'struct invoke_action_functor < Defer >'))):
    UNITS.append(Unit('backmp11.invoke_action_functor.%s.execute' % nm, ['C02', 'C05', 'C06', 'C14', 'C18', 'C13'], 'backmp11',
        Part(TT, [scope], 'static process_result execute ('), 'process_result action_execute(%s)' % P4, 'invoke_mp11.spec.h', defines=['ACTION_KIND=%d' % kind], xform=xf(),
        replay=['order', 'defer']))
