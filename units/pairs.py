"""C13: kernels that must be observationally equivalent are proved against the SAME contract.
PAIRS: (unit A, unit B, spec/function of A, spec/function of B).  tools in check: both must discharge every obligation, and the
labelled clauses of the two contract functions must be textually identical after the listed renamings."""
UNITS = []
REN = [('m_active_state_ids', 'm_states'), ('sm->', 'fsm->'), ('process_result', 'HandledEnum')]
PAIRS = [
  # selection: template recursion vs loop vs mp_for_each_until vs range-for
  ('back.chain_row.execute', 'back.favor_compile_time.chain_row', ('select.spec.h', 'chain_entry'), ('select.spec.h', 'chain_entry')),
  ('back.chain_row.execute', 'back11.chain_row.execute', ('select.spec.h', 'chain_entry'), ('select.spec.h', 'chain_entry')),
  ('back.chain_row.execute', 'backmp11.transition_chain.execute', ('select.spec.h', 'chain_entry'), ('select_mp11.spec.h', 'chain_entry')),
  ('backmp11.transition_chain.execute', 'backmp11.favor_compile_time.transition_chain.execute', ('select_mp11.spec.h', 'chain_entry'), ('select_mp11.spec.h', 'chain_entry_acc')),
  ('backmp11.internal_transition_chain.execute', 'backmp11.favor_compile_time.internal_transition_chain.execute', ('select_mp11.spec.h', 'chain_entry'), ('select_mp11.spec.h', 'chain_entry')),
  ('backmp11.dispatch_impl.flat_fold.dispatch', 'backmp11.dispatch_impl.function_pointer_array.dispatch', ('dispatch_mp11.spec.h', 'dispatch'), ('dispatch_mp11.spec.h', 'dispatch')),
  # region loop + result
  ('back.do_process_event', 'back11.do_process_event', ('select.spec.h', 'do_process_event'), ('select.spec.h', 'do_process_event')),
  ('back.do_process_event', 'backmp11.do_process_event', ('select.spec.h', 'do_process_event'), ('select_mp11.spec.h', 'do_process_event')),
  # rows: execution order and switch policy
  ('back.row_.execute', 'back11.row_.execute', ('rows_back.spec.h', 'row_execute'), ('rows_back.spec.h', 'row_execute')),
  ('back.row_.execute', 'backmp11.transition.execute', ('rows_back.spec.h', 'row_execute'), ('rows_mp11.spec.h', 'transition_execute')),
  # forwarding
  ('back.frow.execute', 'back11.frow.execute', ('hierarchy.spec.h', 'frow_execute'), ('hierarchy.spec.h', 'frow_execute')),
  ('back.frow.execute', 'backmp11.forward_transition.execute', ('hierarchy.spec.h', 'frow_execute'), ('select_mp11.spec.h', 'forward_execute')),
  # event loop head
  ('back.process_event_internal', 'back11.process_event_internal', ('evloop_back.spec.h', 'process_event_internal'), ('evloop_back.spec.h', 'process_event_internal')),
  # history / entry (back vs back11 share the header for the policies)
  ('back.do_entry', 'back11.do_entry', ('cascade_back.spec.h', 'do_entry'), ('cascade_back.spec.h', 'do_entry')),
  ('back.do_exit', 'back11.do_exit', ('cascade_back.spec.h', 'do_exit'), ('cascade_back.spec.h', 'do_exit')),
  # public entry: process_event is a direct call in every back-end and returns the result of the step
  ('back.process_event', 'back11.process_event', ('api_back.spec.h', 'api_process_event'), ('api_back.spec.h', 'api_process_event')),
  ('back.process_event', 'backmp11.process_event', ('api_back.spec.h', 'api_process_event'), ('api_mp11.spec.h', 'api_process_event')),
  ('back.start', 'back11.start', ('cascade_back.spec.h', 'start_unit'), ('cascade_back.spec.h', 'start_unit')),
  ('back.do_copy.queues_empty', 'back11.do_copy.queues_empty', ('copy_serialize.spec.h', 'do_copy'), ('copy_serialize.spec.h', 'do_copy')),
]
