"""flags and introspection of back / back11 (C17, C03)"""
from .common import *
UNITS = []
for be in BACKS:
    SM = be + '/state_machine.hpp'
    UNITS.append(Unit(be + '.is_flag_active.binaryop', ['C17', 'C11', 'C13'], be, Part(SM, [], 'bool is_flag_active ( ) const', nth=0),
        '_Bool is_flag_active2(const fsm_t* self)', 'flags.spec.h',
        xform=back_xform(['get_entries_for_flag'], refparams=(), members=['m_states'], rewrites=[
            dict(name='table-pointer', pat='flag_handler * flags_entries = get_entries_for_flag ( Flag ) ;', rep='', min=1, max=1),
            dict(name='fnptr-call', pat='( * flags_entries $$A ) ( self )', rep='call_flag_handler ( $$A! , self )', min=2, max=2),
            dict(name='functor-call', pat='BinaryOp :: type ( ) (', rep='binary_op (', min=1, max=1),
            dict(name='TVAL-nr', pat='nr_regions :: value', rep='nr_regions', min=1, max=1)]),
        loops={0: '__CPROVER_assigns(i, res)\n'
                  '__CPROVER_loop_invariant(1 <= i && i <= nr_regions)\n'
                  '__CPROVER_loop_invariant((g_k < i && !g_op_is_and && HANS(self->m_states[g_k])) ==> res)\n'
                  '__CPROVER_loop_invariant((g_k < i && g_op_is_and && !HANS(self->m_states[g_k])) ==> !res)\n'
                  '__CPROVER_loop_invariant(i == 1 ==> res == HANS(self->m_states[0]))\n'
                  '__CPROVER_decreases(nr_regions - i)'}, replay=['block']))
    UNITS.append(Unit(be + '.init_flags.call', ['C17', 'C13'], be,
        [Part(SM, ['struct init_flags'], 'void operator ( ) ( wrap < StateType > const & )'),
         Part(SM, ['struct init_flags'], 'void helper ( flag_handler * an_entry , int offset , true_ const & )'),
         Part(SM, ['struct init_flags'], 'void helper ( flag_handler * an_entry , int offset , false_ const & )')],
        'void init_flags_call(int* entries)', 'flags.spec.h',
        xform=back_xform(['get_state_id'], refparams=(), rewrites=[
            dict(name='TVAR-flags', pat='typedef get_flag_list < StateType > :: type flags ;', rep='', min=0, max=1),
            dict(name='TVAR-found', pat='typedef contains < flags , Flag > :: type found ;', rep='', min=0, max=1),
            dict(name='TVAL-found', pat='found :: type :: value', rep='g_found', min=0, max=1),
            dict(name='TVAL-id', pat='get_state_id ( stt , StateType )', rep='g_state_id', min=0, max=1),
            dict(name='TVAR-composite', pat='typedef and_ < $*A ;', rep='', min=0, max=1),
            dict(name='OVL-call', pat='helper < StateType > ( entries , state_id , bool_ < composite_no_forward :: type :: value > ( ) ) ;', rep='{ if ( g_composite_no_forward ) helper_true ( entries , state_id ) ; else helper_false ( entries , state_id ) ; }', min=0, max=1),
            dict(name='handler-true', pat='& FlagHandler < StateType , Flag > :: flag_true', rep='H_TRUE', min=0, max=1),
            dict(name='handler-forward', pat='& FlagHandler < T , Flag > :: forward', rep='H_FORWARD', min=0, max=1),
            dict(name='handler-false', pat='& FlagHandler < T , Flag > :: flag_false', rep='H_FALSE', min=0, max=1)]),
        compose='@0', file_scope='static void helper_true(int* an_entry, int offset){@1}\nstatic void helper_false(int* an_entry, int offset){@2}\n', replay=['block']))
    UNITS.append(Unit(be + '.visit_current_states', ['C03', 'C13'], be, Part(SM, [], 'void visit_current_states ( )'),
        'void visit_current_states(fsm_t* self)', 'flags.spec.h',
        xform=back_xform([], refparams=(), members=['m_states', 'm_visitors'], rewrites=[
            dict(name='member-call', pat='self -> m_visitors . execute (', rep='visitors_execute ( self ,', min=1, max=1),
            dict(name='TVAL-nr', pat='nr_regions :: value', rep='nr_regions', min=1, max=1)]),
        loops={0: '__CPROVER_assigns(i, g_visit_next)\n__CPROVER_loop_invariant(0 <= i && i <= nr_regions && g_visit_next == i)\n__CPROVER_decreases(nr_regions - i)'}, replay=['order']))
    UNITS.append(Unit(be + '.current_state', ['C03', 'C13'], be, Part(SM, [], 'const int * current_state ( ) const'),
        'const int* current_state(const fsm_t* self)', 'flags.spec.h', xform=back_xform([], refparams=(), members=['m_states']), replay=['order']))
