"""hand-written parts of backmp11 machine copy / move (C15)"""
from .common import *
from .rows_mp11 import ENUMS, DROP2
UNITS = []
SB = 'backmp11/detail/state_machine_base.hpp'
NP = ['class non_propagating']
RET = []   # `return *this;` of a reference-returning operator becomes `return self;` (THIS rule)
UNITS.append(Unit('backmp11.non_propagating.copy_assign', ['C15', 'C13'], 'backmp11', Part(SB, NP, 'non_propagating & operator = ( const non_propagating &'),
    'np_t* np_assign(np_t* self, const np_t* rhs)', 'copy_mp11.spec.h', defines=['UNIT_NP=1'], xform=back_xform([], refparams=('rhs',), members=['m_value'], enums=ENUMS, drop=DROP2, rewrites=RET), replay=['copy']))
UNITS.append(Unit('backmp11.non_propagating.move_assign', ['C15', 'C13'], 'backmp11', Part(SB, NP, 'non_propagating & operator = ( non_propagating &&'),
    'np_t* np_assign(np_t* self, const np_t* rhs)', 'copy_mp11.spec.h', defines=['UNIT_NP=1'], xform=back_xform([], refparams=('rhs',), members=['m_value'], enums=ENUMS, drop=DROP2, rewrites=RET), replay=['copy']))
UNITS.append(Unit('backmp11.non_propagating.move_ctor', ['C15', 'C13'], 'backmp11', Part(SB, NP, 'non_propagating ( non_propagating &&'),
    'void np_move_ctor(np_t* self, np_t* rhs)', 'copy_mp11.spec.h', defines=['UNIT_NP=1'], xform=back_xform([], refparams=('rhs',), members=['m_value'], enums=ENUMS, drop=DROP2), replay=['copy']))
for nm, anchor, mv in (('copy_ctor', 'state_machine_base ( state_machine_base const & rhs )', 0), ('move_ctor', 'state_machine_base ( state_machine_base && rhs )', 1)):
    UNITS.append(Unit('backmp11.state_machine_base.' + nm, ['C15', 'C13'], 'backmp11', Part(SB, [], anchor, init_list=True),
        'void construct_from(fsm_t* self, const fsm_t* rhs)', 'copy_mp11.spec.h', defines=['UNIT_CTOR=1', 'IS_MOVE=%d' % mv],
        xform=back_xform([], refparams=(), enums=ENUMS, drop=DROP2, rewrites=[
            dict(name='INITLIST-delegating', pat='state_machine_base = ;', rep='default_construct ( self ) ;', min=0, max=1),
            dict(name='defaulted-copy-assign', pat='self = rhs ;', rep='assign_from ( self , rhs , 0 ) ;', min=0, max=1),
            dict(name='defaulted-move-assign', pat='self = move ( rhs ) ;', rep='assign_from ( self , rhs , 1 ) ;', min=0, max=1)]), replay=['copy']))
CTY = 'backmp11/common_types.hpp'
EO_MEMBERS = [(CTY, 'process_fn_t m_process_fn { } ;'), (CTY, 'bool m_marked_for_deletion { } ;')]
def special(cls, anchor, members):
    # user-provided special member if the class declares one, else the compiler-generated member-wise operation
    return Part(CTY, ['class ' + cls], anchor, optional=True, init_list=True, default_body='* self = * other ;',
                xform=back_xform([], refparams=('other', 'rhs'), members=members, enums=ENUMS, drop=DROP2, rewrites=[dict(name='REF-param-name', pat='rhs', rep='other', min=0)]))
for nm, anchor in (('copy_ctor', 'event_occurrence ( const event_occurrence &'), ('move_ctor', 'event_occurrence ( event_occurrence &&'),
                   ('copy_assign', 'operator = ( const event_occurrence &'), ('move_assign', 'operator = ( event_occurrence &&')):
    ctor = nm.endswith('ctor')
    UNITS.append(Unit('backmp11.event_occurrence.' + nm, ['C15', 'C20', 'C13'], 'backmp11', special('event_occurrence', anchor, ['m_process_fn', 'm_marked_for_deletion']),
        'void eo_copy(eo_t* self, const eo_t* other)', 'copy_mp11.spec.h', defines=['UNIT_EO=1'],
        compose=('EO_DEFAULT_MEMBER_INIT(self);\n' if ctor else '') + '@0', must_contain=EO_MEMBERS, replay=['copy']))
for nm, anchor in (('copy_ctor', 'deferred_event ( const deferred_event &'), ('move_ctor', 'deferred_event ( deferred_event &&'),
                   ('copy_assign', 'operator = ( const deferred_event &'), ('move_assign', 'operator = ( deferred_event &&')):
    ctor = nm.endswith('ctor')
    UNITS.append(Unit('backmp11.deferred_event.' + nm, ['C15', 'C20', 'C05', 'C13'], 'backmp11', special('deferred_event', anchor, ['m_seq_cnt', 'm_event']),
        'void de_copy(de_t* self, const de_t* other)', 'copy_mp11.spec.h', defines=['UNIT_DE=1'],
        compose=('EO_DEFAULT_MEMBER_INIT(self);\n' if ctor else '') + '@0', must_contain=EO_MEMBERS + [(CTY, 'uint16_t m_seq_cnt ;'), (CTY, 'Event m_event ;')], replay=['copy']))

UNITS.append(Unit('backmp11.state_machine_base.constructor', ['C03', 'C07', 'C15', 'C13'], 'backmp11',
    Part(SB, [], 'state_machine_base ( Args && ... args ) : front_end_t'),
    'void base_construct(fsm_t* self)', 'copy_mp11.spec.h', defines=['UNIT_BASE_CTOR=1'],
    xform=back_xform([], refparams=(), members=['m_root_sm', 'm_active_state_ids'], enums=ENUMS, drop=DROP2, pre_rewrites=[
        dict(name='ASSERT-derived', pat='static_assert ( $*A ;', rep='', min=0),
        dict(name='SCOPE-context', pat='! std :: is_same_v < context_t , no_context >', rep='0', min=0, max=1),
        dict(name='SCOPE-context2', pat='! is_same_v < context_t , no_context >', rep='0', min=0, max=1),
        dict(name='SCOPE-root', pat='is_same_v < root_sm_t , no_root_sm > || is_same_v < root_sm_t , derived_t >', rep='g_is_root', min=0, max=1),
        dict(name='SCOPE-root2', pat='std :: is_same_v < root_sm_t , no_root_sm > || std :: is_same_v < root_sm_t , derived_t >', rep='g_is_root', min=0, max=1),
        dict(name='TVAR-visitor', pat='using visitor_t = init_state_visitor < derived_t > ;', rep='', min=1, max=1),
        dict(name='visitor-object', pat='visitor_t visitor { self ( ) } ;', rep='', min=1, max=1),
        dict(name='visit-all', pat='visit_if < visit_mode :: all_recursive , visitor_t :: template predicate > ( visitor ) ;', rep='init_all_states ( self ) ;', min=0, max=1),
        dict(name='root-pointer', pat='* m_root_sm = this ;', rep='self -> m_root_sm = self ;', min=0, max=1),
        dict(name='TVAL-init-ids', pat='m_active_state_ids = value_array < initial_state_ids > ;', rep='memcpy ( self -> m_active_state_ids , g_init_ids16 , sizeof ( uint16_t ) * NR_CAP ) ;', min=0, max=1)]),
    replay=['copy', 'order']))
