"""hand-written parts of backmp11 machine copy / move (C15)"""
from .common import *
from .rows_mp11 import ENUMS, DROP2
UNITS = []
SB = 'backmp11/detail/state_machine_base.hpp'
NP = ['class non_propagating']
RET = []   # `return *this;` of a reference-returning operator becomes `return self;` (THIS rule)
UNITS.append(Unit('backmp11.non_propagating.copy_assign', ['C15', 'C13'], 'backmp11', Part(SB, NP, 'non_propagating & operator = ( const non_propagating &'),
    'np_t* np_assign(np_t* self, const np_t* rhs)', 'copy_mp11.spec.h', defines=['UNIT_NP=1'], xform=back_xform([], refparams=('rhs',), members=['m_value'], enums=ENUMS, drop=DROP2, rewrites=RET), replay=['copy']))
UNITS.append(Unit('backmp11.non_propagating.move_assign', ['C15', 'C13'], 'backmp11', Part(SB, NP, 'non_propagating & operator = ( non_propagating &&'),
    'np_t* np_assign(np_t* self, const np_t* rhs)', 'copy_mp11.spec.h', defines=['UNIT_NP=1'], xform=back_xform([], refparams=('rhs',), members=['m_value'], enums=ENUMS, drop=DROP2, rewrites=RET), replay=['copy']))
UNITS.append(Unit('backmp11.non_propagating.move_ctor', ['C15', 'C13'], 'backmp11', Part(SB, NP, 'non_propagating ( non_propagating &&'),
    'void np_move_ctor(np_t* self, np_t* rhs)', 'copy_mp11.spec.h', defines=['UNIT_NP=1'], xform=back_xform([], refparams=('rhs',), members=['m_value'], enums=ENUMS, drop=DROP2), replay=['copy']))
for nm, anchor, mv in (('copy_ctor', 'state_machine_base ( state_machine_base const & rhs )', 0), ('move_ctor', 'state_machine_base ( state_machine_base && rhs )', 1)):
    UNITS.append(Unit('backmp11.state_machine_base.' + nm, ['C15', 'C13'], 'backmp11', Part(SB, [], anchor, init_list=True),
        'void construct_from(fsm_t* self, const fsm_t* rhs)', 'copy_mp11.spec.h', defines=['UNIT_CTOR=1', 'IS_MOVE=%d' % mv],
        xform=back_xform([], refparams=(), enums=ENUMS, drop=DROP2, rewrites=[
            dict(name='INITLIST-delegating', pat='state_machine_base = ;', rep='default_construct ( self ) ;', min=0, max=1),
            dict(name='defaulted-copy-assign', pat='self = rhs ;', rep='assign_from ( self , rhs , 0 ) ;', min=0, max=1),
            dict(name='defaulted-move-assign', pat='self = move ( rhs ) ;', rep='assign_from ( self , rhs , 1 ) ;', min=0, max=1)]), replay=['copy']))
