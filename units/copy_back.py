"""copy / assignment / serialization of back / back11 (C15, C16)"""
from .common import *
UNITS = []
for be in BACKS:
    SM = be + '/state_machine.hpp'
    UNITS.append(Unit(be + '.region_copy_helper.do_copy', ['C15', 'C13'], be,
        [Part(SM, ['struct region_copy_helper {'], 'static void do_copy ( library_sm * self_ , library_sm const & rhs )',
              xform=back_xform([], refparams=('rhs',), rewrites=[dict(name='SPEC-arg', pat='region_id :: value', rep='region_id', min=1),
                    dict(name='SPEC-next', pat='region_copy_helper < int_ < region_id + 1 > > :: do_copy (', rep='regions_do_copy ( region_id + 1 ,', min=1, max=1)])),
         Part(SM, ['struct region_copy_helper < int_ < nr_regions :: value > , Dummy >'], 'static void do_copy ( library_sm * , library_sm const & )')],
        'void regions_do_copy(int region_id, fsm_t* self_, const fsm_t* rhs)', 'copy_serialize.spec.h',
        compose='if (region_id == nr_regions) {@1} else {@0}', rec=True, replay=['copy']))
    RW = [dict(name='SPEC-first', pat='region_copy_helper < int_ < 0 > > :: do_copy ( self ,', rep='REGIONS_DO_COPY ( self ,', min=0, max=1),
          dict(name='CONT-assign-mq', pat='self -> m_events_queue = rhs -> m_events_queue ;', rep='mq_assign ( self , rhs ) ;', min=0, max=1),
          dict(name='CONT-assign-dq', pat='self -> m_deferred_events_queue = rhs -> m_deferred_events_queue ;', rep='dq_assign ( self , rhs ) ;', min=0, max=1),
          dict(name='history-assign', pat='self -> m_history = rhs -> m_history ;', rep='history_assign ( self , rhs ) ;', min=0, max=1),
          dict(name='fusion-assign', pat='self -> m_substate_list = rhs -> m_substate_list ;', rep='substates_assign ( self , rhs ) ;', min=0, max=1),
          dict(name='FOREACH-functor', pat='for_each < state_list , wrap < _1 > > ( copy_helper ( self ) ) ;', rep='copy_helper_foreach ( self ) ;', min=0, max=1)]
    for var, D in (('', []), ('.queues_empty', ['QUEUES_EMPTY=1'])):
        UNITS.append(Unit(be + '.do_copy' + var, ['C15', 'C13'], be, Part(SM, [], 'void do_copy ( library_sm const & rhs , dummy < 0 > = 0 )'),
            'void do_copy(fsm_t* self, const fsm_t* rhs)', 'copy_serialize.spec.h', defines=D,
            xform=back_xform([], refparams=('rhs',), members=['m_events_queue', 'm_deferred_events_queue', 'm_history', 'm_event_processing', 'm_is_included', 'm_substate_list', 'm_upper_fsm', 'm_root_sm'], rewrites=RW),
            also_replace_if_present=['regions_do_copy'], replay=['copy']))
    UNITS.append(Unit(be + '.serialize', ['C16'], be, Part(SM, [], 'void serialize ( Archive & ar , const unsigned int )'),
        'void serialize(fsm_t* self, archive_t* ar, unsigned int version)', 'copy_serialize.spec.h',
        xform=back_xform([], refparams=(), members=['m_states', 'm_history', 'm_event_processing', 'm_is_included', 'm_substate_list'], rewrites=[
            dict(name='base-object', pat='( serialize_state < Archive > ( ar ) ) ( serialization :: base_object < Derived > ( self ) ) ;', rep='AR_AMP ( ar , base ) ;', min=0, max=1),
            dict(name='ARCHIVE-direction', pat='Archive :: is_loading :: value', rep='ar -> is_loading', min=0),
            dict(name='ARCHIVE-direction2', pat='Archive :: is_saving :: value', rep='( ! ar -> is_loading )', min=0),
            dict(name='ARCHIVE-amp', pat='ar & self -> $1 ;', rep='AR_AMP ( ar , $1 ) ;', min=0),
            dict(name='fusion-for_each', pat='for_each ( self -> m_substate_list , serialize_state < Archive > ( ar ) ) ;', rep='AR_AMP ( ar , substates ) ;', min=0, max=1)]),
        also_replace=['ar_amp'], replay=['ser']))
for pol, cls in enumerate(['NoHistoryImpl', 'AlwaysHistoryImpl', 'ShallowHistoryImpl']):
    UNITS.append(Unit('back.%s.serialize' % cls, ['C16', 'C08'], 'back', Part('back/history_policies.hpp', ['class ' + cls], 'void serialize ( Archive &'),
        'void history_serialize(archive_t* ar, unsigned int version)', 'copy_serialize.spec.h', defines=['POLICY=%d' % pol],
        xform=back_xform([], refparams=(), rewrites=[
            dict(name='ARCHIVE-direction', pat='Archive :: is_loading :: value', rep='ar -> is_loading', min=0),
            dict(name='ARCHIVE-amp', pat='ar & $1 ;', rep='HAR_AMP ( ar , $1 ) ;', min=0)]),
        also_replace_if_present=['har_amp'], replay=['ser']))
