"""run-to-completion loop of back / back11 (C04 C10 C11 C12 C05d)"""
from .common import *
UNITS = []
TEMPL = ['is_event_handling_blocked_helper', 'bool_', 'has_fsm_blocking_states', 'do_pre_msg_queue_helper', 'is_no_message_queue',
         'do_process_helper', 'is_no_exception_thrown', 'has_event_queue_before_deferred_queue', 'handle_eventless_transitions_helper',
         'handle_defer_helper', 'is_flag_active', 'EndInterruptFlag', 'forward']
METHODS = ['is_event_handling_blocked_helper', 'do_pre_msg_queue_helper', 'do_process_helper', 'do_allow_event_processing_after_transition',
           'do_handle_prio_msg_queue_deferred_queue', 'do_post_msg_queue_helper', 'process_message_queue', 'do_process_event', 'exception_caught']
MEMBERS = ['m_event_processing', 'm_events_queue', 'm_deferred_events_queue']
CONT = [dict(name='INVOKE-in-place', pat='self -> m_events_queue . m_events_queue . front ( ) ( ) ;', rep='invoke_call ( mq_front ( self ) ) ;', min=0),      # calling the stored functor while it still sits in the container
        dict(name='CONT-empty', pat='self -> m_events_queue . m_events_queue . empty ( )', rep='mq_empty ( self )', min=0),
        dict(name='CONT-front', pat='self -> m_events_queue . m_events_queue . front ( )', rep='mq_front ( self )', min=0),
        dict(name='CONT-pop', pat='self -> m_events_queue . m_events_queue . pop_front ( )', rep='mq_pop_front ( self )', min=0),
        dict(name='CONT-push', pat='self -> m_events_queue . m_events_queue . push_back (', rep='mq_push_back ( self ,', min=0),
        dict(name='BIND', pat='bind ( pf , self ,', rep='mk_call ( self ,', min=0),
        dict(name='BIND-pf', pat='execute_return ( library_sm :: * pf ) $$A = & library_sm :: process_event_internal ;', rep='', min=0),
        dict(name='INVOKE-next', pat='next ( ) ;', rep='invoke_call ( next ) ;', min=0),
        dict(name='INVOKE-to_call', pat='to_call ( ) ;', rep='invoke_call ( to_call ) ;', min=0)]
DRAIN = ('__CPROVER_assigns(g_popped, g_dispatched, g_pushed, g_exc)\n'
         '__CPROVER_loop_invariant(g_popped <= g_pushed && g_dispatched == g_popped)')
def xf(rewrites=(), throwers=(), try_=False, refvals=(), pre=()):
    return back_xform(TEMPL, refparams=(), members=MEMBERS, methods=METHODS, rewrites=CONT + list(rewrites), throwers=throwers, try_=try_, refvals=refvals, pre_rewrites=list(pre))
PEI_RW = [dict(name='helper-object', pat='handle_eventless_transitions_helper ( library_sm ) eventless_helper ( self , $*A ) ; eventless_helper . process_completion_event ( $*B ) ;',
               rep='PROCESS_COMPLETION_EVENT ( self , ( $*A ) , $*B ) ;', min=1, max=1)]
for be in BACKS:
    SM = be + '/state_machine.hpp'
    EV = 'Event const & evt' if be == 'back' else 'Event && evt'
    ET = 'EventType const & evt' if be == 'back' else 'EventType && evt'
    P = ['C04', 'C10', 'C11', 'C12', 'C13']
    UNITS.append(Unit(be + '.process_event_internal', P + ['C06'], be,
        Part(SM, [], 'execute_return process_event_internal ( %s , EventSource source = EVENT_SOURCE_DEFAULT )' % EV),
        'HandledEnum process_event_internal(fsm_t* self, event_t evt, EventSource source)', 'evloop_back.spec.h',
        xform=xf(PEI_RW, throwers=['do_process_helper', 'PROCESS_COMPLETION_EVENT', 'do_handle_prio_msg_queue_deferred_queue']),
        also_replace=['process_completion_event'], replay=['queue', 'block', 'exc', 'defer']))
    UNITS.append(Unit(be + '.do_pre_msg_queue_helper', ['C04', 'C18', 'C13'], be,
        [Part(SM, [], 'bool do_pre_msg_queue_helper ( EventType const & , true_ const & )'),
         Part(SM, [], 'bool do_pre_msg_queue_helper ( EventType const & evt , false_ const & )')],
        '_Bool do_pre_msg_queue_helper(fsm_t* self, type_t EventT, event_t evt, _Bool no_queue)', 'evloop_back.spec.h', xform=xf(),
        compose='if (no_queue) {@0} else {@1}', fire={'RW:BIND': (1, 1), 'RW:BIND-pf': (1, 1), 'RW:CONT-push': (1, 1)}, replay=['queue']))
    UNITS.append(Unit(be + '.do_allow_event_processing_after_transition', ['C04', 'C12', 'C13'], be,
        [Part(SM, [], 'void do_allow_event_processing_after_transition ( true_ const & )'),
         Part(SM, [], 'void do_allow_event_processing_after_transition ( false_ const & )')],
        'void do_allow_event_processing_after_transition(fsm_t* self, _Bool no_queue)', 'evloop_back.spec.h', xform=xf(),
        compose='if (no_queue) {@0} else {@1}', replay=['queue']))
    UNITS.append(Unit(be + '.process_message_queue', ['C04', 'C20', 'C13'], be,
        Part(SM, [], 'void process_message_queue ( StateType * , typename disable_if'),
        'void process_message_queue(fsm_t* self)', 'evloop_back.spec.h', xform=xf(), loops={0: DRAIN},
        fire={'RW:CONT-empty': (1, 1), 'RW:CONT-pop': (1, 1)}, replay=['queue']))
    UNITS.append(Unit(be + '.execute_queued_events_helper', ['C04', 'C20', 'C13'], be,
        Part(SM, [], 'void execute_queued_events_helper ( false_ const & )'),
        'void process_message_queue(fsm_t* self)', 'evloop_back.spec.h', xform=xf(), loops={0: DRAIN},
        fire={'RW:CONT-empty': (1, 1), 'RW:CONT-pop': (1, 1)}, replay=['queue']))
    UNITS.append(Unit(be + '.execute_single_queued_event_helper', ['C04', 'C20', 'C13'], be,
        Part(SM, [], 'void execute_single_queued_event_helper ( false_ const & )'),
        'void execute_single_queued_event(fsm_t* self)', 'evloop_back.spec.h', xform=xf(),
        fire={'RW:CONT-pop': (1, 1)}, replay=['queue']))
    UNITS.append(Unit(be + '.enqueue_event_helper', ['C04', 'C18', 'C13'], be,
        [Part(SM, [], 'void enqueue_event_helper ( EventType const & , true_ const & )'),
         Part(SM, [], 'void enqueue_event_helper ( EventType const & evt , false_ const & )')],
        'void enqueue_event_helper(fsm_t* self, event_t evt, _Bool no_queue)', 'evloop_back.spec.h', xform=xf(),
        compose='if (no_queue) {@0} else {@1}', fire={'RW:BIND': (1, 1), 'RW:BIND-pf': (1, 1), 'RW:CONT-push': (1, 1)}, replay=['queue']))
    # do_process_helper (C12): plain and try/catch variants
    UNITS.append(Unit(be + '.do_process_helper', ['C12', 'C04', 'C13'], be,
        [Part(SM, [], 'HandledEnum do_process_helper ( %s , true_ const & , bool is_direct_call )' % ET, xform=xf()),
         Part(SM, [], 'HandledEnum do_process_helper ( %s , false_ const & , bool is_direct_call )' % ET,
              xform=xf(rewrites=[dict(name='exception-object', pat='exception e ;', rep='int e = 0 ;', min=1, max=1),
],
                       throwers=['do_process_event'], try_=True))],
        'HandledEnum do_process_helper_unit(fsm_t* self, type_t EventT, event_t evt, _Bool no_exception_thrown, _Bool is_direct_call)', 'evloop_back.spec.h',
        compose='if (no_exception_thrown) {@0} else {@1}', fire={'TRY': (1, 1)}, replay=['exc']))

    UNITS.append(Unit(be + '.is_event_handling_blocked_helper', ['C11', 'C13'], be,
        [Part(SM, [], 'bool is_event_handling_blocked_helper ( true_ const & )'), Part(SM, [], 'bool is_event_handling_blocked_helper ( false_ const & )')],
        '_Bool blocked_helper_unit(fsm_t* self, type_t EventT, _Bool has_blocking)', 'evloop_back.spec.h',
        xform=back_xform(['is_flag_active', 'EndInterruptFlag'], refparams=(), methods=['is_flag_active']),
        compose='if (has_blocking) {@0} else {@1}', replay=['block']))

for be in BACKS:
    SM = be + '/state_machine.hpp'
    UNITS.append(Unit(be + '.process_completion_event', ['C10', 'C13'], be,
        Part(SM, ['struct handle_eventless_transitions_helper < StateType , typename enable_if < typename has_fsm_eventless_transition < StateType > :: type > :: type >'],
             'void process_completion_event ( EventSource source = EVENT_SOURCE_DEFAULT )'),
        'void pce_unit(eventless_helper_t* h, EventSource source)', 'evloop_back.spec.h', defines=['UNIT_PCE=1'],
        xform=back_xform([], refparams=(), pre_rewrites=[dict(name='TVAR-first-completion-event', pat='typedef typename deref < $*A first_completion_event ;', rep='', min=1, max=1)], rewrites=[
            dict(name='member-handled', pat='( handled )', rep='( h -> handled )', min=0, max=2), dict(name='member-handled-not', pat='! handled', rep='! h -> handled', min=0, max=2),
            dict(name='member-call', pat='self -> process_event_internal ( first_completion_event ( ) , source | EVENT_SOURCE_DIRECT ) ;', rep='pei_completion ( h -> self , source | EVENT_SOURCE_DIRECT ) ;', min=0, max=1)]), replay=['queue']))
