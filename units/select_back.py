"""candidate selection and region loop of back / back11 (C01 C06 C07 C13)"""
from .common import *

PROPS = ['C01', 'C06', 'C07', 'C13']
UNITS = []
CELL = dict(name='cell-call', pat='table :: instance ( ) . entries $$A ( * $1 ,', rep='entries_call ( $$A! , $1 ,', min=1, max=1)
ICELL = dict(name='internal-cell-call', pat='table :: instance ( ) . entries [ 0 ] ( * $1 ,', rep='internal_entries_call ( 0 , $1 ,', min=1, max=1)
DROPTABLE = dict(name='table-typedef', pat='typedef dispatch_table < library_sm , complete_table , Event , CompilePolicy > table ;', rep='', min=1, max=1)

for be in BACKS:
    DT = be + '/dispatch_table.hpp'; SM = be + '/state_machine.hpp'
    EV = 'Event const &' if be == 'back' else 'Event &'
    EVP = EV + ' evt'
    # --- chain_row::execute_helper::execute<Sequence>(..., true_/false_)   [OVL + TVAR + TARG + TCALL]
    xf_chain = back_xform(['front', 'pop_front', 'empty', 'bool_', 'execute'], {'first_row': 'row'},
        pre_rewrites=[dict(name='TVAR', pat='typedef typename front < Sequence > :: type first_row ;', rep='const type_t first_row = front ( Sequence ) ;', min=0, max=1)],
        rewrites=[dict(name='recursive-call', pat='execute (', rep='chain_execute (', min=0, max=1)])
    UNITS.append(Unit(be + '.chain_row.execute_helper', PROPS, be,
        [Part(DT, ['struct chain_row', 'struct execute_helper'], 'HandledEnum execute ( Fsm & , int , int , %s , true_ const & )' % EV),
         Part(DT, ['struct chain_row', 'struct execute_helper'], 'HandledEnum execute ( Fsm & fsm , int region_index , int state , %s , false_ const & )' % EVP)],
        'HandledEnum chain_execute(seq_t Sequence, fsm_t* fsm, int region_index, int state, event_t evt, _Bool tag)',
        'select.spec.h', xform=xf_chain, compose='if (tag) {@0} else {@1}', rec=True,
        fire={'RW:TVAR': (1, 1), 'RW:recursive-call': (1, 1), 'TCALL': (1, 1)}, replay=['sel']))
    # --- chain_row::execute : entry of the cell
    UNITS.append(Unit(be + '.chain_row.execute', PROPS, be,
        Part(DT, ['struct chain_row'], 'static HandledEnum execute ( Fsm & fsm , int region_index , int state , %s )' % EVP),
        'HandledEnum chain_entry(fsm_t* fsm, int region_index, int state, event_t evt)', 'select.spec.h',
        xform=back_xform(['empty', 'bool_', 'execute'], rewrites=[dict(name='helper-call', pat='execute_helper :: execute (', rep='chain_execute (', min=1, max=1)]), replay=['sel']))
    # --- favor_compile_time: chain_row::operator() (a real loop over a deque of cells)   [back only: back11 has no compile-time policy]
    if be == 'back':
        UNITS.append(Unit(be + '.favor_compile_time.chain_row', PROPS, be,
            Part('back/favor_compile_time.hpp', ['struct chain_row'], 'HandledEnum operator ( ) ( Fsm & fsm , int region , int state , Event const & evt ) const'),
            'HandledEnum chain_entry(fsm_t* fsm, int region, int state, event_t evt)', 'select.spec.h',
            xform=back_xform([], rewrites=[
                dict(name='CONT-begin', pat='deque < cell > :: const_iterator it = one_state . begin ( ) ;', rep='int it = 0 ;', min=1, max=1),
                dict(name='CONT-end', pat='it != one_state . end ( )', rep='it != g_n', min=1, max=1),
                dict(name='CONT-deref-call', pat='( * it ) (', rep='row_execute ( it ,', min=1, max=1)]),
            loops={0: '__CPROVER_assigns(it, res, g_chain_pos, g_consumed, g_taken, g_rejects)\n'
                      '__CPROVER_loop_invariant(0 <= it && it <= g_n && g_chain_pos == it && 0 <= (int)res && (int)res <= 7)\n'
                      '__CPROVER_loop_invariant(g_consumed == CONSUMED(res) && 0 <= g_taken && g_taken <= 1 && 0 <= g_rejects && g_rejects <= it)\n'
                      '__CPROVER_loop_invariant((((int)res & HANDLED_TRUE) != 0) == (g_taken > 0))\n'
                      '__CPROVER_loop_invariant(g_consumed || res == (g_rejects > 0 ? HANDLED_GUARD_REJECT : HANDLED_FALSE))\n'
                      '__CPROVER_loop_invariant(!g_consumed || it > 0)\n'
                      '__CPROVER_decreases(g_n - it)'},
            replay=['sel']))
    # --- process_fsm_internal_table::do_process (OVL true_/false_) and ::process
    xf_int = back_xform([], refparams=(), refvals=('result',), rewrites=[DROPTABLE, ICELL])
    UNITS.append(Unit(be + '.process_fsm_internal_table.do_process', PROPS, be,
        [Part(SM, ['struct process_fsm_internal_table'], 'static void do_process ( Event const & evt , library_sm * self_ , HandledEnum & result , true_ )', xform=xf_int),
         Part(SM, ['struct process_fsm_internal_table'], 'static void do_process ( Event const & , library_sm * , HandledEnum & , false_ )')],
        'void internal_do_process(event_t evt, fsm_t* self_, HandledEnum* result, _Bool is_event_processable)', 'select.spec.h',
        compose='if (is_event_processable) {@0} else {@1}', replay=['sel']))
    UNITS.append(Unit(be + '.process_fsm_internal_table.process', PROPS, be,
        Part(SM, ['struct process_fsm_internal_table'], 'static void process ( Event const & evt , library_sm * self_ , HandledEnum & result )'),
        'void internal_process(event_t evt, fsm_t* self_, HandledEnum* result)', 'select.spec.h',
        xform=back_xform([], refparams=(), rewrites=[dict(name='tag-forward', pat='do_process ( evt , self_ , result ,', rep='internal_do_process ( evt , self_ , result ,', min=1, max=1)]),
        replay=['sel']))
    # --- region_processing_helper<orthogonal>::In<region_id>::process  (SPEC rule: primary + nr_regions specialisation)
    RW_IN = [DROPTABLE, CELL,
             dict(name='SPEC-arg', pat='region_id :: value', rep='region_id', min=4, max=4),
             dict(name='SPEC-next', pat='In < int_ < region_id + 1 > > :: process ( evt , self_ , ( * result_ ) )', rep='region_process ( region_id + 1 , evt , self_ , result_ )', min=1, max=1)]
    RW_END = [dict(name='internal-table', pat='process_fsm_internal_table < Event > :: process ( evt , self_ , ( * result_ ) )', rep='internal_process ( evt , self_ , result_ )', min=1, max=1)]
    UNITS.append(Unit(be + '.region_processing_helper.In.process', PROPS, be,
        [Part(SM, ['struct region_processing_helper <', 'struct In {'], 'static void process ( %s , library_sm * self_ , HandledEnum & result_ )' % EVP,
              xform=back_xform([], refparams=(), refvals=('result_',), rewrites=RW_IN)),
         Part(SM, ['struct region_processing_helper <', 'struct In < int_ < nr_regions :: value > , Dummy >'], 'static void process ( %s , library_sm * self_ , HandledEnum & result_ )' % EVP,
              xform=back_xform([], refparams=(), refvals=('result_',), rewrites=RW_END))],
        'void region_process(int region_id, event_t evt, fsm_t* self_, HandledEnum* result_)', 'select.spec.h',
        compose='if (region_id == nr_regions) {@1} else {@0}', rec=True, replay=['sel']))
    # --- region_processing_helper<orthogonal>::process (entry) and <single region>::process
    UNITS.append(Unit(be + '.region_processing_helper.orthogonal.process', PROPS, be,
        Part(SM, ['struct region_processing_helper <'], 'void process ( %s )' % EVP),
        'void regions_process(fsm_t* self, HandledEnum* result, event_t evt)', 'select.spec.h',
        xform=back_xform([], refparams=(), rewrites=[dict(name='SPEC-first', pat='In < int_ < 0 > > :: process ( evt , self , result )', rep='region_process ( 0 , evt , self , result )', min=1, max=1)]),
        replay=['sel']))
    UNITS.append(Unit(be + '.region_processing_helper.single.process', PROPS, be,
        Part(SM, ['struct region_processing_helper {'], 'void process ( %s )' % EVP),
        'void regions_process(fsm_t* self, HandledEnum* result, event_t evt)', 'select.spec.h', defines=['REGIONS_SINGLE=1'],
        xform=back_xform([], refparams=(), refvals=('result',), rewrites=[DROPTABLE, CELL,
            dict(name='internal-table', pat='process_fsm_internal_table < Event > :: process ( evt , self , ( * result ) )', rep='internal_process ( evt , self , result )', min=1, max=1)]),
        replay=['sel']))
    # --- do_process_event
    UNITS.append(Unit(be + '.do_process_event', PROPS + ['C10'], be,
        Part(SM, [], 'HandledEnum do_process_event ( %s evt , bool is_direct_call )' % ('Event const &' if be == 'back' else 'Event &&')),
        'HandledEnum do_process_event(fsm_t* self, event_t evt, _Bool is_direct_call)', 'select.spec.h',
        xform=back_xform(['is_completion_event'], refparams=(), methods=['is_contained', 'no_transition'], members=['m_states'],
            rewrites=[dict(name='helper-object', pat='region_processing_helper < Derived > helper ( self , handled ) ; helper . process ( evt ) ;', rep='regions_process ( self , & handled , evt ) ;', min=1, max=1),
                      dict(name='TVAL-nr', pat='nr_regions :: value', rep='nr_regions', min=1, max=1),
                      dict(name='self-arg', pat='no_transition ( self , evt , self ,', rep='no_transition ( self , evt , self ,', min=1, max=1)]),
        loops={0: '__CPROVER_assigns(i, g_nt_next, g_exc)\n__CPROVER_loop_invariant(0 <= i && i <= nr_regions && g_nt_next == i && g_acc == 0)\n__CPROVER_decreases(nr_regions - i)'},
        replay=['sel']))
