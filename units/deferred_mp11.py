"""deferral units of backmp11 (C05)"""
from .common import *
from .rows_mp11 import ENUMS, DROP2
UNITS = []
RS = 'backmp11/detail/favor_runtime_speed.hpp'; CTY = 'backmp11/common_types.hpp'; SB = 'backmp11/detail/state_machine_base.hpp'
UNITS.append(Unit('backmp11.is_event_deferred_visitor.call', ['C05', 'C13'], 'backmp11',
    Part(RS, ['class is_event_deferred_visitor'], 'void operator ( ) ( const State & state , Fsm & fsm )'),
    'void visitor_call(vis_t* self, stref_t state, fsm_t* fsm)', 'deferred.spec.h',
    xform=back_xform([], refparams=(), members=['m_result', 'm_event'], enums=ENUMS, drop=DROP2,
        rewrites=[dict(name='member-call', pat='state . is_event_deferred (', rep='state_is_event_deferred ( state ,', min=1, max=1)]), replay=['defer']))
UNITS.append(Unit('backmp11.deferred_event.try_process_impl', ['C05', 'C18', 'C13'], 'backmp11',
    Part(CTY, ['class deferred_event'], 'try_process_impl ( StateMachine & sm , uint16_t seq_cnt )'),
    'optres_t try_process_impl(defev_t* self, fsm_t* sm, uint16_t seq_cnt)', 'deferred.spec.h',
    xform=back_xform([], refparams=(), members=['m_seq_cnt', 'm_event'], enums=ENUMS, drop=DROP2,
        rewrites=[dict(name='OPT-null', pat='return nullopt ;', rep='return nullopt_ ( ) ;', min=1, max=1),
                  dict(name='member-call-deferred', pat='sm . is_event_deferred (', rep='sm_is_event_deferred ( sm ,', min=1, max=1),
                  dict(name='OPT-some', pat='return sm . process_event_internal ( $*A ) ;', rep='return some_ ( sm_process_event_internal ( sm , $*A ) ) ;', min=1, max=1),
                  dict(name='base-member-call', pat='mark_for_deletion ( ) ;', rep='MARK_FOR_DELETION ( self ) ;', min=0, max=1)]),
    must_contain=[(CTY, 'void mark_for_deletion ( ) { m_marked_for_deletion = true ; }')], replay=['defer']))
UNITS.append(Unit('backmp11.do_defer_event', ['C05', 'C18', 'C13'], 'backmp11',
    Part(SB, [], 'void do_defer_event ( const Event & event , bool next_rtc_seq )'),
    'void do_defer_event(fsm_t* self, event_t event, _Bool next_rtc_seq)', 'deferred.spec.h',
    xform=back_xform([], refparams=(), enums=ENUMS, drop=DROP2,
        rewrites=[dict(name='pool-accessor', pat='auto & event_pool = get_event_pool ( ) ;', rep='', min=1, max=1),
                  dict(name='pool-member', pat='event_pool . cur_seq_cnt', rep='self -> event_pool . cur_seq_cnt', min=2, max=2),
                  dict(name='CONT-push-make', pat='event_pool . events . push_back ( processable_event :: make ( deferred_event < Event > { self , event , seq_cnt } ) ) ;', rep='pool_push_back_deferred ( self , event , seq_cnt ) ;', min=1, max=1)]),
    replay=['defer']))

UNITS.append(Unit('backmp11.compile_policy.is_event_deferred', ['C05', 'C13'], 'backmp11',
    Part(RS, [], 'static bool is_event_deferred ( const StateMachine & sm , const Event & event )'),
    '_Bool is_event_deferred(const fsm_t* sm, event_t event)', 'deferred.spec.h', defines=['UNIT_IS_DEFERRED=1'],
    xform=back_xform([], refparams=(), enums=ENUMS, drop=DROP2, pre_rewrites=[
        dict(name='TVAR-base-set', pat='using base_visit_set = $*A ;', rep='', min=1, max=1),
        dict(name='TVAR-visitor', pat='using visitor_t = $*A ;', rep='', min=1, max=1),
        dict(name='TVAR-minimal-set', pat='using minimal_visit_set = $*A ;', rep='', min=1, max=1),
        dict(name='TVAR-state-visitor', pat='using state_visitor = $*A ;', rep='', min=1, max=1),
        dict(name='SCOPE-needs-1', pat='base_visit_set :: needs_traversal :: value', rep='g_needs_traversal_1', min=1, max=1),
        dict(name='SCOPE-needs-2', pat='minimal_visit_set :: needs_traversal :: value', rep='g_needs_traversal_2', min=1, max=1),
        dict(name='visitor-object', pat='visitor_t visitor { event } ;', rep='vis_t visitor ; visitor . m_result = VISITOR_DEFAULT_RESULT ; visitor . m_event = event ;', min=1, max=1),
        dict(name='SCOPE-visit', pat='state_visitor :: visit ( sm , visitor ) ;', rep='event_deferral_visit ( sm , & visitor ) ;', min=0, max=1),
        dict(name='visitor-result', pat='visitor . result ( )', rep='visitor . m_result', min=0, max=1)]),
    file_scope='#define VISITOR_DEFAULT_RESULT 0   /* is_event_deferred_visitor_base: bool m_result{false} (must_contain pattern) */\n',
    must_contain=[('backmp11/detail/state_visitor.hpp', 'bool result ( ) const { return m_result ; } protected : bool m_result { false } ;')], replay=['defer']))
