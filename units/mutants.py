"""built-in mutants for the thorough-tier self-test of extractor + contracts (DESIGN 3.3): each entry is a small textual change of a
header that MUST flip the named obligation (checked on a scratch copy of /repo/include).  A mutant that still passes is a hole in the
contract or in the extraction and makes the thorough tier exit 2 (never a VIOLATION)."""
UNITS = []
MUTANTS = [
 # (property, header, python regex, replacement, unit substring, expected label substring)
 ('C01', 'back/dispatch_table.hpp', r'if \(!\(res & \(HANDLED_TRUE \| HANDLED_DEFERRED\)\)\)', 'if (!(res & HANDLED_TRUE))', 'back.chain_row.execute_helper', 'no-candidate-after-consumption'),
 ('C01', 'backmp11/detail/transition_table.hpp', r'if \(result & handled_true_or_deferred\)', 'if (result & process_result::HANDLED_TRUE)', 'backmp11.transition_chain', ''),
 ('C02', 'back/state_machine.hpp', r'(execute_exit<current_state_type>\s*\(::boost::fusion::at_key<current_state_type>\(fsm.m_substate_list\),evt,fsm\);\s*fsm.m_states\[region_index\] = active_state_switching::after_exit\(current_state,next_state\);\s*// then call the action method\s*HandledEnum res = ROW::action_call\(fsm,evt,\s*::boost::fusion::at_key<current_state_type>\(fsm.m_substate_list\),\s*::boost::fusion::at_key<next_state_type>\(fsm.m_substate_list\),\s*fsm.m_substate_list\);)', r'HandledEnum res = ROW::action_call(fsm,evt, ::boost::fusion::at_key<current_state_type>(fsm.m_substate_list), ::boost::fusion::at_key<next_state_type>(fsm.m_substate_list), fsm.m_substate_list); execute_exit<current_state_type>(::boost::fusion::at_key<current_state_type>(fsm.m_substate_list),evt,fsm); fsm.m_states[region_index] = active_state_switching::after_exit(current_state,next_state);', 'back.row_.execute', 'action-after-exit'),
 ('C04', 'back/state_machine.hpp', r'// event can be handled, processing\s*m_event_processing = true;', '// event can be handled, processing', 'back.do_pre_msg_queue_helper', 'step-marks-the-machine-busy'),
 ('C04', 'backmp11/detail/state_machine_base.hpp', r'(do_process_event\(event, info\);\s*\}\s*catch \(std::exception& e\)\s*\{\s*// give a chance to the concrete state machine to handle\s*this->exception_caught\(event, get_fsm_argument\(\), e\);\s*result = process_result::HANDLED_FALSE;\s*\}\s*\}\s*#else\s*result = do_process_event\(event, info\);\s*#endif)\s*m_event_processing = false;', r'\1', 'backmp11.process_event_internal', 'machine-not-left-busy'),
 ('C05', 'backmp11/common_types.hpp', r'if \(\(m_seq_cnt == seq_cnt\) \|\| sm.is_event_deferred\(m_event\)\)', 'if (sm.is_event_deferred(m_event))', 'deferred_event.try_process_impl', 'dispatched-iff-from-an-earlier-cycle'),
 ('C06', 'back/state_machine.hpp', r'result_ = \(HandledEnum\)\(\(int\)result_ \| \(int\)res\);', 'result_ = res;', 'back.region_processing_helper.In', ''),
 ('C08', 'back/history_policies.hpp', r'(class AlwaysHistoryImpl.*?void history_exit\(int\* const current_states\)\s*\{\s*for \(int i=0;i<NumberOfRegions;\+\+i\))', r'\1 if (i > 0)', 'back.AlwaysHistoryImpl.history_exit', ''),
 ('C09', 'back/state_machine.hpp', r'self->internal_start\(evt.m_event\);\s*// and we process the transition', 'self->internal_start(evt);\n // and we process the transition', 'back.direct_event_start_helper.3', ''),
 ('C10', 'back/state_machine.hpp', r'handle_eventless_transitions_helper<library_sm>\s*eventless_helper\(this,\(HANDLED_TRUE & handled\)\);', 'handle_eventless_transitions_helper<library_sm> eventless_helper(this,true);', 'back.process_event_internal', 'completion-event-only-after-a-taken-transition'),
 ('C11', 'back/state_machine.hpp', r'!is_flag_active< ::boost::msm::EndInterruptFlag<Event> >\(\)\)', 'is_flag_active< ::boost::msm::EndInterruptFlag<Event> >())', 'back.is_event_handling_blocked_helper', 'blocked-iff'),
 ('C12', 'back/state_machine.hpp', r'this->exception_caught\(evt,\*this,e\);\s*return ::boost::msm::back::HANDLED_FALSE;', 'this->exception_caught(evt,*this,e);\n return ::boost::msm::back::HANDLED_TRUE;', 'back.do_process_helper', 'caught-exception-means-event-not-handled'),
 ('C15', 'back/state_machine.hpp', r'm_is_included = rhs.m_is_included;\s*m_substate_list = rhs.m_substate_list;', 'm_substate_list = rhs.m_substate_list;', 'back.do_copy.queues_empty', 'processing-flags-copied'),
 ('C16', 'back/state_machine.hpp', r'ar & m_history;', 'if (Archive::is_loading::value) ar & m_history;', 'back.serialize', ''),
 ('C17', 'back/state_machine.hpp', r'for \(int i = 1; i < nr_regions::value ; \+\+i\)', 'for (int i = 1; i < nr_regions::value - 1 ; ++i)', 'back.is_flag_active.binaryop', ''),
 ('C18', 'back/dispatch_table.hpp', r'return Transition::execute\(fsm,region_index,state,forwarded\);', 'Transition::execute(fsm,region_index,state,forwarded); return Transition::execute(fsm,region_index,state,forwarded);', 'back.convert_event_and_forward', 'executed-exactly-once'),
 ('C19', 'active_state_switching_policies.hpp', r'(struct active_state_switch_after_exit.*?static int after_action\(int,int next_state\)\{return next_state;\})', lambda m: m.group(1).replace('static int after_action(int,int next_state){return next_state;}', 'static int after_action(int current_state,int){return current_state;}'), 'row_.execute', 'observes-policy-state'),
 ('C20', 'backmp11/detail/basic_polymorphic.hpp', r'if \(!m_control_block->is_inline\)\s*\{\s*m_ptr = nullptr;\s*\}', '', 'basic_polymorphic_base.destroy', 'heap-pointer-nulled'),
 ('C14', 'front/operator.hpp', r'return \(T1\(\)\(evt,fsm,src,tgt\) && T2\(\)\(evt,fsm,src,tgt\)\);', 'return (T2()(evt,fsm,src,tgt) && T1()(evt,fsm,src,tgt));', 'front.And_.call4', 'left-to-right'),
 ('C07', 'back/state_machine.hpp', r'fsm.m_states\[region_index\]=get_state_id<stt,T1>::type::value;\s*return res;', 'return res;', 'back.frow.execute', 'submachine-remains-the-active-state'),
 ('C03', 'back/state_machine.hpp', r'for \(int i=0; i<nr_regions::value;\+\+i\)\s*\{\s*m_visitors.execute\(m_states\[i\]\);', 'for (int i=1; i<nr_regions::value;++i)\n {\n m_visitors.execute(m_states[i]);', 'back.visit_current_states', ''),
 ('C13', 'backmp11/detail/favor_runtime_speed.hpp', r'const cell_t cell = cells\[state_id\];\s*if \(cell\)', 'const cell_t cell = cells[state_id];\n if (cell && region_id == 0)', 'function_pointer_array', ''),
 ('C03', 'back/state_machine.hpp', r'\(id == searched_id\)', '(id <= searched_id)', 'back.get_state_by_id', ''),
 ('C03', 'back/state_machine.hpp', r'm_initial_states\[\+\+m_index\]', 'm_initial_states[m_index++]', 'back.init_states.foreach', ''),
 ('C09', 'back/state_machine.hpp', r'(helper_self->m_states\[find_region_id<typename StateType::wrapped_entry>::region_index\]) = state_id;', r'if (!\1) \1 = state_id;', 'back.fork_helper.foreach', ''),
 ('C07', 'backmp11/favor_compile_time.hpp', r'result = m_call_process_event\(sm, event\);\s*if \(result & handled_true_or_deferred\)', 'result = m_call_process_event(sm, event);\n if (result & process_result::HANDLED_TRUE)', 'state_dispatch_table', ''),
 ('C15', 'backmp11/detail/state_machine_base.hpp', r'non_propagating& operator=\(const non_propagating&\)\s*\{', 'non_propagating& operator=(const non_propagating& rhs)\n    {\n        m_value = rhs.m_value;', 'non_propagating.copy_assign', ''),
 ('C15', 'backmp11/detail/state_machine_base.hpp', r'state_machine_base\(state_machine_base const& rhs\) : state_machine_base\(\)', 'state_machine_base(state_machine_base const& rhs)', 'state_machine_base.copy_ctor', ''),
 ('C01', 'back/favor_compile_time.hpp', r'self->entries\[state_id\+1\]\.one_state\.push_front\(&Transition::execute\);', 'self->entries[state_id+1].one_state.push_back(&Transition::execute);', 'dispatch_table.construct', ''),
 ('C07', 'back/favor_compile_time.hpp', r'tofill\[state_id\+1\]\.one_state\.push_front\(call_no_transition\);', 'tofill[state_id+1].one_state.push_back(call_no_transition);', 'dispatch_table.construct', ''),
 ('C18', 'back/favor_compile_time.hpp', r'res = self->process_event_internal\(', 'self->process_event_internal(', 'process_any_event_helper', ''),
 ('C04', 'backmp11/detail/state_machine_base.hpp', r'if \(get_event_pool\(\).events.empty\(\) \|\| m_event_processing\)', 'if (get_event_pool().events.empty())', 'backmp11.process_event_pool', ''),
 ('C03', 'backmp11/detail/state_machine_base.hpp', r'on_exit\(final_event, get_fsm_argument\(\)\);\s*m_running = false;', 'on_exit(final_event, get_fsm_argument());', 'backmp11.stop', ''),
 ('C14', 'front/functor_row.hpp', r'\(Func::some_deferring_actions::value \? ::boost::msm::back::HANDLED_DEFERRED : ::boost::msm::back::HANDLED_TRUE \)', '(Func::some_deferring_actions::value ? ::boost::msm::back::HANDLED_TRUE : ::boost::msm::back::HANDLED_DEFERRED )', 'get_functor_return_value.2', ''),
 ('C01', 'backmp11/favor_compile_time.hpp', r'm_state_dispatch_tables\[constant\.value\.state_id\]\.add_transition_cell\(constant\.value\);', 'm_state_dispatch_tables[0].add_transition_cell(constant.value);', 'backmp11.favor_compile_time.dispatch_table.construct', ''),
 ('C01', 'back/dispatch_table.hpp', r'(tofill_entries\[state_id\+1\] = call_no_transition;\s*\}\s*// case for internal transitions of this fsm)', r'tofill_entries[state_id] = call_no_transition;\n        }\n        // case for internal transitions of this fsm', 'back.dispatch_table.default_cells', ''),
]

# harmless edits (renamed local, reordered independent statements, loop style, added comment): every check of the named properties must
# stay green on them - a red check here would be a false alarm waiting to happen (brittle contract / extraction).  (header, [(regex, repl)], properties)
HARMLESS = [
 ('back/state_machine.hpp', [(r'HandledEnum handled = this->do_process_helper<Event>\(', 'HandledEnum outcome = this->do_process_helper<Event>('), (r'eventless_helper\(this,\(HANDLED_TRUE & handled\)\);', 'eventless_helper(this,(HANDLED_TRUE & outcome));'),
    (r'source,handled,\n', 'source,outcome,\n'), (r'            return handled;\n        \}\n    \}', '            return outcome;\n        }\n    }')], ['C04', 'C10', 'C11', 'C12']),
 ('back/dispatch_table.hpp', [(r'HandledEnum res = first_row::execute', '/* try the first row */ HandledEnum res = first_row::execute')], ['C01']),
 ('backmp11/detail/state_machine_base.hpp', [(r'(\n        m_running = true;\n        m_event_processing = true;\n)', '\n        m_event_processing = true;\n        m_running = true;\n')], ['C02']),
 ('back/history_policies.hpp', [(r'for \(int i=0; i<NumberOfRegions;\+\+i\)', 'for (int i = 0; i < NumberOfRegions; i++)')], ['C08']),
]
