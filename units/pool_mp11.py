"""backmp11 do_process_event_pool (C04 C05 C10 C20)"""
from .common import *
from .rows_mp11 import ENUMS, DROP2
SB = 'backmp11/detail/state_machine_base.hpp'
UNITS = [Unit('backmp11.do_process_event_pool', ['C04', 'C05', 'C10', 'C20', 'C13'], 'backmp11',
    Part(SB, [], 'size_t do_process_event_pool ( size_t max_events = SIZE_MAX )'),
    'size_t do_process_event_pool(fsm_t* self, size_t max_events)', 'pool_mp11.spec.h',
    xform=back_xform([], refparams=(), enums=ENUMS, drop=DROP2, rewrites=[
        dict(name='pool-accessor', pat='event_pool_t & event_pool = get_event_pool ( ) ;', rep='', min=1, max=1),
        dict(name='CONT-begin-decl', pat='auto it = event_pool . events . begin ( ) ;', rep='pit_t it = pool_begin ( self ) ;', min=1, max=1),
        dict(name='CONT-begin', pat='it = event_pool . events . begin ( ) ;', rep='it = pool_begin ( self ) ;', min=1, max=1),
        dict(name='CONT-deref', pat='event_occurrence & event = * * it ;', rep='occ_t event = pit_deref ( self , it ) ;', min=1, max=1),
        dict(name='member-marked', pat='event . marked_for_deletion ( )', rep='occ_marked ( event )', min=1, max=1),
        dict(name='CONT-erase', pat='it = event_pool . events . erase ( it ) ;', rep='it = pool_erase ( self , it ) ;', min=1, max=1),
        dict(name='OPT-decl', pat='optional < process_result > result = event . try_process ( self , event_pool . cur_seq_cnt ) ;', rep='optres_t result = occ_try_process ( event , self , self -> event_pool . cur_seq_cnt ) ;', min=1, max=1),
        dict(name='OPT-has', pat='result . has_value ( )', rep='result . has', min=1, max=1),
        dict(name='OPT-value', pat='* result', rep='result . v', min=2, max=2),
        dict(name='CONT-inc', pat='it ++ ;', rep='it = pit_inc ( it ) ;', min=1, max=1),
        dict(name='pool-member', pat='event_pool . cur_seq_cnt += 1 ;', rep='self -> event_pool . cur_seq_cnt += 1 ;', min=1, max=1),
        dict(name='CONT-end', pat='it != event_pool . events . end ( )', rep='pit_ne_end ( self , it )', min=1, max=1)]),
    loops={0: '__CPROVER_assigns(it, processed_events, self->event_pool.cur_seq_cnt, g_len, g_epoch, g_dispatches, g_erased, g_marked_here, g_nondef)\n'
              '__CPROVER_loop_invariant(it.epoch == g_epoch && it.pos < g_len && g_len < SIZE_CAP && processed_events <= g_dispatches && processed_events < max_events && processed_events == g_nondef)'},
    cbmc_flags=['--object-bits', '12'], replay=['queue', 'defer'])]
