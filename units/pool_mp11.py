"""backmp11 do_process_event_pool (C04 C05 C10 C20)"""
from .common import *
from .rows_mp11 import ENUMS, DROP2
SB = 'backmp11/detail/state_machine_base.hpp'
UNITS = [Unit('backmp11.do_process_event_pool', ['C04', 'C05', 'C10', 'C20', 'C13'], 'backmp11',
    Part(SB, [], 'size_t do_process_event_pool ( size_t max_events = SIZE_MAX )'),
    'size_t do_process_event_pool(fsm_t* self, size_t max_events)', 'pool_mp11.spec.h',
    xform=back_xform([], refparams=(), enums=ENUMS, drop=DROP2, rewrites=[
        dict(name='pool-accessor', pat='event_pool_t & event_pool = get_event_pool ( ) ;', rep='', min=1, max=1),
        dict(name='CONT-iter-type', pat='auto it =', rep='pit_t it =', min=1, max=1),
        dict(name='CONT-begin', pat='event_pool . events . begin ( )', rep='pool_begin ( self )', min=0, max=4),
        dict(name='CONT-deref', pat='event_occurrence & event = * * it ;', rep='occ_t event = pit_deref ( self , it ) ;', min=1, max=1),
        dict(name='member-marked', pat='event . marked_for_deletion ( )', rep='occ_marked ( event )', min=0, max=2),
        dict(name='CONT-erase', pat='event_pool . events . erase ( it )', rep='pool_erase ( self , it )', min=0, max=2),
        dict(name='OPT-type', pat='optional < process_result > result', rep='optres_t result', min=0, max=1),
        dict(name='member-try_process', pat='event . try_process ( self ,', rep='occ_try_process ( event , self ,', min=0, max=2),
        dict(name='OPT-has', pat='result . has_value ( )', rep='result . has', min=0, max=2),
        dict(name='OPT-value', pat='* result', rep='result . v', min=0, max=3),
        dict(name='CONT-inc', pat='it ++ ;', rep='it = pit_inc ( it ) ;', min=0, max=2),
        dict(name='pool-member', pat='event_pool . cur_seq_cnt', rep='self -> event_pool . cur_seq_cnt', min=0, max=4),
        dict(name='GHOST-seq0', pat='size_t processed_events = 0 ;', rep='size_t processed_events = 0 ; const uint16_t seq0 = self -> event_pool . cur_seq_cnt ;', min=1, max=1),
        dict(name='CONT-end', pat='it != event_pool . events . end ( )', rep='pit_ne_end ( self , it )', min=0, max=1),
        dict(name='CONT-end-eq', pat='it == event_pool . events . end ( )', rep='! pit_ne_end ( self , it )', min=0, max=1)]),
    loops={0: '__CPROVER_assigns(g_must_erase, it, processed_events, self->event_pool.cur_seq_cnt, g_len, g_epoch, g_dispatches, g_erased, g_marked_here, g_nondef, g_nodefbit)\n'
              '__CPROVER_loop_invariant(!g_must_erase && it.epoch == g_epoch && it.pos < g_len && g_len < SIZE_CAP && processed_events <= g_dispatches && processed_events < max_events && processed_events == g_nondef && g_nodefbit <= g_dispatches && self->event_pool.cur_seq_cnt == (uint16_t)(seq0 + g_nodefbit))'},
    cbmc_flags=['--object-bits', '12'], replay=['queue', 'defer'])]
