"""Kleene / base-class conversion and Kleene deferral (C18)"""
from .common import *
from .rows_mp11 import ENUMS, DROP2
UNITS = []
for be in BACKS:
    DT = be + '/dispatch_table.hpp'
    EV = 'Event const & evt' if be == 'back' else 'Event & evt'
    UNITS.append(Unit(be + '.convert_event_and_forward.execute', ['C18', 'C13'], be,
        Part(DT, ['struct convert_event_and_forward'], 'static HandledEnum execute ( Fsm & fsm , int region_index , int state , %s )' % EV),
        'HandledEnum convert_event_and_forward(fsm_t* fsm, int region_index, int state, event_t evt)', 'kleene.spec.h',
        xform=back_xform([], {'Transition': 'Transition'}, refparams=('fsm',), rewrites=[
            dict(name='converting-ctor', pat='Transition :: transition_event forwarded ( evt ) ;', rep='event_t forwarded = convert_to ( Transition , evt ) ;', min=1, max=1)]),
        replay=['kleene']))
RS = 'backmp11/detail/favor_runtime_speed.hpp'
UNITS.append(Unit('backmp11.convert_event_and_execute', ['C18', 'C13'], 'backmp11',
    Part(RS, [], 'static process_result convert_event_and_execute ( StateMachine & sm , uint8_t region_id , Event const & evt )'),
    'process_result convert_event_and_execute(fsm_t* sm, uint8_t region_id, event_t evt)', 'kleene.spec.h', defines=['MP11=1'],
    xform=back_xform([], refparams=('sm',), enums=ENUMS, drop=DROP2, rewrites=[
        dict(name='converting-ctor', pat='Transition :: transition_event kleene_event { evt } ;', rep='event_t kleene_event = convert_to ( Transition , evt ) ;', min=1, max=1),
        dict(name='TCALL', pat='Transition :: execute ( sm , region_id , kleene_event )', rep='Transition_execute3 ( Transition , sm , region_id , kleene_event )', min=1, max=1)]),
    also_replace=['Transition_execute'], replay=['kleene']))
def gn(_): return [X.T('g_n')]
UNITS.append(Unit('backmp11.compile_policy.defer_event', ['C18', 'C05', 'C13'], 'backmp11',
    Part(RS, [], 'static void defer_event ( StateMachine & sm , Event const & event , bool next_rtc_seq )'),
    'void policy_defer_event(fsm_t* sm, event_t event, _Bool next_rtc_seq, _Bool is_kleene)', 'kleene.spec.h', defines=['MP11=1'],
    xform=back_xform(['is_kleene_event', 'any_cast'], refparams=('sm',), enums=ENUMS, drop=DROP2, foreach=True, size_of=gn,
        pre_rewrites=[dict(name='event-set-alias', pat='using event_set = $*A ;', rep='', min=1, max=1),
                      dict(name='DECLTYPE-identity', pat='using KnownEvent = typename decltype ( event_identity ) :: type ;', rep='const type_t KnownEvent = event_identity ;', min=1, max=1),
],
        rewrites=[dict(name='TVAL-kleene', pat='is_kleene_event ( Event )', rep='is_kleene', min=1, max=1),
                  dict(name='typeid', pat='event . type ( ) == typeid ( KnownEvent )', rep='dyn_type ( event ) == KnownEvent', min=1, max=1),
                  dict(name='member-call-any', pat='sm -> do_defer_event ( * any_cast ( KnownEvent , & event ) , next_rtc_seq ) ;', rep='store_deferred ( sm , any_cast_to ( KnownEvent , event ) ) ;', min=1, max=1),
                  dict(name='member-call', pat='sm -> do_defer_event ( event , next_rtc_seq ) ;', rep='store_deferred ( sm , event ) ;', min=1, max=1),
                  dict(name='RANGEFOR', pat='for ( const auto state_id : sm -> get_active_state_ids ( ) ) {', rep='for ( int __i = 0 ; __i < nr_regions ; ++ __i ) { const uint16_t state_id = sm -> m_active_state_ids [ __i ] ;', min=1, max=1),
                  dict(name='member-call-nt', pat='sm -> no_transition ( event , sm -> get_fsm_argument ( ) , state_id ) ;', rep='no_transition ( sm , event , sm , state_id ) ;', min=1, max=1)]),
    loops={0: '__CPROVER_assigns(event_identity, found, g_dpushed)\n__CPROVER_loop_invariant(0 <= event_identity && event_identity <= g_n && !found && g_dpushed == 0 && !(0 <= g_dyn_type && g_dyn_type < event_identity))\n__CPROVER_decreases(g_n - event_identity)',
           1: '__CPROVER_assigns(__i, g_nt_next)\n__CPROVER_loop_invariant(0 <= __i && __i <= nr_regions && g_nt_next == __i)\n__CPROVER_decreases(nr_regions - __i)'},
    replay=['kleene']))
for be in BACKS:
    SM = be + '/state_machine.hpp'
    UNITS.append(Unit(be + '.defer_event_kleene_helper.call', ['C18', 'C05', 'C13'], be,
        Part(SM, ['struct defer_event_kleene_helper'], 'void operator ( ) ( Event const & ev )'),
        'void kleene_helper_call(khelper_t* self, type_t EventT)', 'kleene.spec.h',
        xform=back_xform(['any_cast', 'type_id'], refparams=(), members=['m_event', 'm_fsm', 'm_found'], rewrites=[
            dict(name='typeid', pat='self -> m_event . type ( ) == typeindex :: type_id ( decltype ( ev ) ) . type_info ( )', rep='dyn_type ( self -> m_event ) == EventT', min=1, max=1),
            dict(name='REF-found', pat='self -> m_found = true ;', rep='* self -> m_found = true ;', min=1, max=1),
            dict(name='BIND-pf', pat='execute_return ( library_sm :: * pf ) $$A = & library_sm :: process_event_internal ;', rep='', min=1, max=1),
            dict(name='CONT-push', pat='self -> m_fsm -> m_deferred_events_queue . m_deferred_events_queue . push_back (', rep='kdq_push_back ( self -> m_fsm ,', min=1, max=1),
            dict(name='BIND', pat='bind ( pf ,', rep='mk_call (', min=0, max=1),
            dict(name='TCALL-any_cast', pat='any_cast ( Event , self -> m_event )', rep='any_cast_to ( EventT , self -> m_event )', min=0),
            dict(name='member-seq', pat='self -> m_fsm -> m_deferred_events_queue . m_cur_seq', rep='g_cur_seq', min=1, max=1)]),
        compose='const event_t ev = type_carrier(EventT);   /* the element fusion::for_each hands over: a default-constructed Event */\n@0', replay=['kleene']))
    UNITS.append(Unit(be + '.defer_event.kleene', ['C18', 'C05', 'C06', 'C13'], be, Part(SM, [], 'defer_event ( Event const & e )', nth=1),
        'void defer_event_kleene(fsm_t* self, event_t e)', 'kleene.spec.h',
        xform=back_xform([], refparams=(), members=['m_states'], methods=['no_transition'], rewrites=[
            dict(name='event-set-alias', pat='typedef generate_event_set < stt > :: type event_list ;', rep='', min=1, max=1),
            dict(name='FOREACH-functor', pat='for_each ( event_list ( ) , defer_event_kleene_helper < Event , library_sm > ( e , self , found ) ) ;', rep='kleene_foreach ( self , e , & found ) ;', min=1, max=1),
            dict(name='TVAL-nr', pat='nr_regions :: value', rep='nr_regions', min=1, max=1),
            dict(name='self-arg', pat='no_transition ( self , e , self ,', rep='no_transition ( self , e , self ,', min=1, max=1)]),
        loops={0: '__CPROVER_assigns(i, g_nt_next)\n__CPROVER_loop_invariant(0 <= i && i <= nr_regions && g_nt_next == i)\n__CPROVER_decreases(nr_regions - i)'}, replay=['kleene']))
FCT = 'back/favor_compile_time.hpp'
UNITS.append(Unit('back.favor_compile_time.process_any_event_helper', ['C18', 'C07', 'C06', 'C13'], 'back',
    [Part(FCT, ['struct process_any_event_helper'], 'process_any_event_helper ( HandledEnum & res_ , Fsm * self_ , any any_event_ )', init_list=True,
          xform=back_xform([], refparams=(), rewrites=[dict(name='REF-member-init', pat='res = res_ ;', rep='', min=1, max=1)])),
     Part(FCT, ['struct process_any_event_helper'], 'void operator ( ) ( wrap < Event > const & )',
          xform=back_xform(['any_cast'], refparams=(), rewrites=[
              dict(name='TCALL-any-ptr', pat='any_cast ( Event , & any_event ) != 0', rep='any_holds ( Event , any_event )', min=0, max=1),
              dict(name='TCALL-any-val', pat='any_cast ( Event , any_event )', rep='any_cast_to ( Event , any_event )', min=0, max=1),
              dict(name='member-call', pat='self -> process_event_internal (', rep='process_event_internal_typed ( self ,', min=0, max=1)]))],
    'HandledEnum process_any_event(fsm_t* self, event_t any_event)', 'kleene.spec.h', defines=['UNIT_ANY_HELPER=1'],
    # the generated fsmname::process_any_event (a preprocessor macro body, not extractable): res = HANDLED_FALSE; for_each<all_events>(helper(res,this,any_event)); return res;
    compose='HandledEnum res = HANDLED_FALSE; fsm_t* const self_ = self; const event_t any_event_ = any_event; _Bool finished;\n{ @0 }\n'
            'for (type_t Event = 0; Event != g_n; ++Event)\n'
            '__CPROVER_assigns(Event, res, finished, g_pcalls, g_pret)\n'
            '__CPROVER_loop_invariant(0 <= Event && Event <= g_n)\n'
            '__CPROVER_loop_invariant(finished == (0 <= g_dyn_type && g_dyn_type < Event) && g_pcalls == (finished ? 1 : 0) && (int)res == (finished ? g_pret : HANDLED_FALSE))\n'
            '__CPROVER_decreases(g_n - Event)\n{ @1 }\nreturn res;',
    force_loop_contracts=True, replay=['kleene']))
