"""backmp11 favor_compile_time policy functions on any_event (C05 C11)"""
from .common import *
from .rows_mp11 import ENUMS, DROP2
CT = 'backmp11/favor_compile_time.hpp'
UNITS = []
def gn(_): return [X.T('g_n')]
UNITS.append(Unit('backmp11.favor_compile_time.is_end_interrupt_event', ['C11', 'C13'], 'backmp11',
    Part(CT, [], 'static bool is_end_interrupt_event ( const StateMachine & sm , const any_event & event )'),
    '_Bool ct_is_end_interrupt_event(const fsm_t* sm, event_t event)', 'ct_policy_mp11.spec.h', defines=['UNIT_END_INTERRUPT=1'],
    xform=back_xform([], refparams=(), enums=ENUMS, drop=DROP2, foreach=True, size_of=gn,
        pre_rewrites=[dict(name='TVAR-event-set', pat='using event_set = $*A ;', rep='', min=1, max=1),
                      dict(name='DECLTYPE-identity', pat='using Event = typename decltype ( event_identity ) :: type ;', rep='const type_t Event = event_identity ;', min=1, max=1),
                      dict(name='TVAR-flag', pat='using Flag = EndInterruptFlag < Event > ;', rep='', min=1, max=1),
                      dict(name='typeid', pat='event . type ( ) == typeid ( Event )', rep='g_dyn_type == Event', min=1, max=1),
                      dict(name='flag-query', pat='sm . template is_flag_active < Flag > ( )', rep='is_end_interrupt_flag_active ( sm , Event )', min=0, max=1),
                      dict(name='brace-init', pat='bool result { false } ;', rep='_Bool result = false ;', min=1, max=1)]),
    loops={0: '__CPROVER_assigns(event_identity, result, g_fcalls)\n'
              '__CPROVER_loop_invariant(0 <= event_identity && event_identity <= g_n)\n'
              '__CPROVER_loop_invariant((0 <= g_dyn_type && g_dyn_type < event_identity) ? (g_fcalls == 1 && (result != 0) == (g_end_flag_of_dyn_type_active != 0)) : (g_fcalls == 0 && !result))\n'
              '__CPROVER_decreases(g_n - event_identity)'}, replay=['block']))
UNITS.append(Unit('backmp11.favor_compile_time.is_event_deferred_dispatch_table.dispatch', ['C05', 'C18', 'C13'], 'backmp11',
    Part(CT, ['class is_event_deferred_dispatch_table'], 'static bool dispatch ( const State & state , const any_event & event , const Fsm & fsm )'),
    '_Bool deferral_dispatch(stref_t state, event_t event, const fsm_t* fsm)', 'ct_policy_mp11.spec.h', defines=['UNIT_DEF_DISPATCH=1'],
    xform=back_xform([], refparams=(), enums=ENUMS, drop=DROP2, pre_rewrites=[
        dict(name='STATIC-table', pat='static const is_event_deferred_dispatch_table table { state , fsm } ;', rep='', min=1, max=1),      # function-local singleton built by the constructor (not under contract)
        dict(name='CONT-find', pat='auto it = table . m_cells . find ( event . type ( ) ) ;', rep='', min=1, max=1),
        dict(name='CONT-found', pat='it != table . m_cells . end ( )', rep='cells_contains ( g_dyn_type )', min=1, max=1),
        dict(name='TVAR-cell-type', pat='using real_cell = $*A ;', rep='', min=1, max=1),
        dict(name='CAST-cell', pat='auto cell = reinterpret_cast < real_cell > ( it -> second ) ;', rep='', min=1, max=1),
        dict(name='fnptr-call', pat='( * cell ) ( state , event , fsm )', rep='call_deferral_cell ( state , event , fsm )', min=0, max=1)]), replay=['defer']))
UNITS.append(Unit('backmp11.favor_compile_time.is_event_deferred_visitor.call', ['C05', 'C13'], 'backmp11',
    Part(CT, ['class is_event_deferred_visitor'], 'void operator ( ) ( const State & state , const Fsm & fsm )'),
    'void visitor_call(vis_t* self, stref_t state, const fsm_t* fsm)', 'ct_policy_mp11.spec.h', defines=['UNIT_DEF_VISITOR=1'],
    xform=back_xform([], refparams=(), members=['m_result', 'm_event'], enums=ENUMS, drop=DROP2, pre_rewrites=[
        dict(name='TVAR-table', pat='using table = is_event_deferred_dispatch_table ;', rep='', min=1, max=1)],
        rewrites=[dict(name='SCOPE-dispatch', pat='table :: dispatch (', rep='table_dispatch (', min=0, max=1)]), replay=['defer']))
UNITS.append(Unit('backmp11.favor_compile_time.is_event_deferred', ['C05', 'C13'], 'backmp11',
    Part(CT, [], 'static bool is_event_deferred ( const StateMachine & sm , const any_event & event )'),
    '_Bool is_event_deferred(const fsm_t* sm, event_t event)', 'ct_policy_mp11.spec.h', defines=['UNIT_IS_DEFERRED=1'],
    xform=back_xform([], refparams=(), enums=ENUMS, drop=DROP2, pre_rewrites=[
        dict(name='TVAR-visitor', pat='using visitor_t = is_event_deferred_visitor ;', rep='', min=1, max=1),
        dict(name='TVAR-state-visitor', pat='using state_visitor = $*A ;', rep='', min=1, max=1),
        dict(name='SCOPE-needs', pat='state_visitor :: needs_traversal :: value', rep='g_needs_traversal', min=1, max=1),
        dict(name='visitor-object', pat='visitor_t visitor { event } ;', rep='vis_t visitor ; visitor . m_result = 0 ; visitor . m_event = event ;', min=1, max=1),
        dict(name='SCOPE-visit', pat='state_visitor :: visit ( sm , visitor ) ;', rep='event_deferral_visit ( sm , & visitor ) ;', min=0, max=1),
        dict(name='visitor-result', pat='visitor . result ( )', rep='visitor . m_result', min=0, max=1)]),
    must_contain=[('backmp11/detail/state_visitor.hpp', 'bool result ( ) const { return m_result ; } protected : bool m_result { false } ;')], replay=['defer']))

UNITS.append(Unit('backmp11.favor_compile_time.is_event_deferred_dispatch_table.construct', ['C05', 'C18', 'C13'], 'backmp11',
    Part(CT, ['class is_event_deferred_dispatch_table'], 'is_event_deferred_dispatch_table ( const State & , const Fsm & )'),
    'void deftable_construct(deftable_t* self)', 'ct_policy_mp11.spec.h', defines=['UNIT_DEF_TABLE_CTOR=1'],
    xform=back_xform([], refparams=(), enums=ENUMS, drop=DROP2, foreach=True, size_of=gn,
        pre_rewrites=[dict(name='TVAR-list', pat='using deferred_events = $*A ;', rep='', min=1, max=1),
                      dict(name='TVAR-identities', pat='using deferred_event_identities = $*A ;', rep='', min=1, max=1),
                      dict(name='DECLTYPE-identity', pat='using Event = typename decltype ( event_identity ) :: type ;', rep='const type_t Event = event_identity ;', min=1, max=1),
                      dict(name='TVAL-type-index', pat='to_type_index < $1 > ( )', rep='TYPE_INDEX ( $1 )', min=0, max=2),
                      dict(name='CAST-cell', pat='reinterpret_cast < generic_cell > ( & convert_and_execute < State , $1 , Fsm > )', rep='CELL_OF ( $1 )', min=0, max=2),
                      dict(name='CONT-map-set', pat='m_cells [ TYPE_INDEX ( $1 ) ] = CELL_OF ( $2 ) ;', rep='cells_set ( self , TYPE_INDEX ( $1 ) , CELL_OF ( $2 ) ) ;', min=0, max=2)]),
    loops={0: '__CPROVER_assigns(event_identity, g_next)\n'
              '__CPROVER_loop_invariant(0 <= event_identity && event_identity <= g_n && g_next == event_identity)\n'
              '__CPROVER_decreases(g_n - event_identity)'}, replay=['defer']))
UNITS.append(Unit('backmp11.favor_compile_time.is_event_deferred_dispatch_table.convert_and_execute', ['C05', 'C18', 'C13'], 'backmp11',
    Part(CT, ['class is_event_deferred_dispatch_table'], 'static bool convert_and_execute ( const State & state , const any_event & event , const Fsm & fsm )'),
    '_Bool convert_and_execute(type_t Event, stref_t state, event_t event, const fsm_t* fsm)', 'ct_policy_mp11.spec.h', defines=['UNIT_DEF_CONVERT=1'],
    xform=back_xform([], refparams=(), enums=ENUMS, drop=DROP2, pre_rewrites=[
        dict(name='ANY-cast', pat='* any_cast < Event > ( & event )', rep='any_cast_ptr_deref ( Event , event )', min=0, max=1),
        dict(name='member-call', pat='state . is_event_deferred (', rep='state_is_event_deferred ( state ,', min=0, max=1)]), replay=['defer']))
