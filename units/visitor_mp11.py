"""backmp11 visitors: active traversal, accept, predefined visitors, is_state_active / is_flag_active (C03 C17 C05)"""
from .common import *
from .rows_mp11 import ENUMS, DROP2
SV = 'backmp11/detail/state_visitor.hpp'; SB = 'backmp11/detail/state_machine_base.hpp'
UNITS = []
def gm(_): return [X.T('g_m')]
PRE = [dict(name='TVAR-identities', pat='using state_identities = $*A ;', rep='', min=1, max=1),
       dict(name='DECLTYPE-identity', pat='using State = typename decltype ( state_identity ) :: type ;', rep='const type_t State = state_identity ;', min=1, max=1)]
RW = [dict(name='TVAL-needs', pat='base :: needs_traversal :: value', rep='NEEDS_TRAVERSAL', min=0, max=1),
      dict(name='RANGEFOR', pat='for ( const auto active_state_id : sm -> m_active_state_ids ) {', rep='for ( size_t __r = 0 ; __r < nr_regions ; ++ __r ) { const uint16_t active_state_id = sm -> m_active_state_ids [ __r ] ; NEXT_REGION ( __r ) ;', min=1, max=1),
      dict(name='TVAL-id', pat='auto state_id = StateMachine :: get_state_id ( State ) ;', rep='const int state_id = sid_of ( sm , State ) ;', min=1, max=1),
      dict(name='accept-base', pat='base :: accept ( Mode , State , sm , visitor ) ;', rep='accept_state ( State , sm ) ;', min=0, max=1),
      dict(name='accept-own', pat='accept ( State , sm , visitor ) ;', rep='accept_state ( State , sm ) ;', min=0, max=1)]
LOOPS = {0: '__CPROVER_assigns(__r, g_cur_region, __CPROVER_object_whole(g_acc))\n'
            '__CPROVER_loop_invariant(__r <= nr_regions && sm->m_running)\n'
            '__CPROVER_loop_invariant(g_k < __r ? g_acc[g_k] == (IN_LIST(g_k) ? 1 : 0) : g_acc[g_k] == 0)\n'
            '__CPROVER_loop_invariant(ZERO_FROM(__r))\n'
            '__CPROVER_decreases(nr_regions - __r)',
         1: '__CPROVER_assigns(state_identity, g_acc[__r])\n'
            '__CPROVER_loop_invariant(0 <= state_identity && state_identity <= g_m && g_cur_region == (int)__r && __r < nr_regions)\n'
            '__CPROVER_loop_invariant(g_acc[__r] == ((0 <= g_wit[__r] && g_wit[__r] < state_identity) ? 1 : 0))\n'
            '__CPROVER_decreases(g_m - state_identity)'}
xfv = back_xform(['get_state_id', 'accept'], refparams=('sm',), enums=ENUMS, drop=DROP2, foreach=True, size_of=gm, pre_rewrites=PRE, rewrites=RW)
UNITS.append(Unit('backmp11.state_visitor_impl.active.visit', ['C03', 'C17', 'C02', 'C13'], 'backmp11',
    Part(SV, ['class state_visitor_impl <'], 'static void visit ( StateMachine & sm , Visitor & visitor )', nth=0),
    'void visit_active(fsm_t* sm)', 'visitor_mp11.spec.h', xform=xfv, loops=LOOPS, replay=['order', 'block']))
UNITS.append(Unit('backmp11.event_deferral_visitor.visit', ['C05', 'C03', 'C13'], 'backmp11',
    Part(SV, ['class event_deferral_visitor'], 'static void visit ( StateMachine & sm , Visitor & visitor )'),
    'void visit_active(fsm_t* sm)', 'visitor_mp11.spec.h', xform=xfv, loops=LOOPS, defines=['NEEDS_TRAVERSAL=1'], replay=['defer']))
ARW = [dict(name='state-object', pat='auto & state = sm -> get_state ( State ) ;', rep='const stref_t state = __CPROVER_uninterpreted_get_state ( State ) ;', min=1, max=1),
       dict(name='TVAL-visit', pat='mp_contains ( visit_set :: states_to_visit , State )', rep='mp_contains ( LIST_VISIT , State )', min=0, max=1),
       dict(name='TVAL-subs', pat='mp_contains ( visit_set :: submachines_to_traverse , State )', rep='mp_contains ( LIST_SUBS , State )', min=0, max=1),
       dict(name='visitor-call', pat='visitor ( state ) ;', rep='visitor_call ( state ) ;', min=0, max=1),
       dict(name='recursion', pat='state . visit_if ( Mode , Predicates ... , visitor ) ;', rep='submachine_visit_if ( state ) ;', min=0, max=1),
       dict(name='recursion2', pat='state . visit_if < Mode , Predicates ... > ( visitor ) ;', rep='submachine_visit_if ( state ) ;', min=0, max=1)]
for rec, sc in ((0, 'class state_visitor_base_impl < StateMachine , false , Predicates ... >'), (1, 'class state_visitor_base_impl < StateMachine , true , Predicates ... >')):
    UNITS.append(Unit('backmp11.state_visitor_base_impl.accept.%s' % ('recursive' if rec else 'flat'), ['C03', 'C17', 'C13'], 'backmp11',
        Part(SV, [sc], 'static void accept ( StateMachine & sm , Visitor & visitor )'), 'void accept_unit(fsm_t* sm, type_t State)', 'visitor_mp11.spec.h',
        xform=back_xform(['get_state', 'mp_contains'], refparams=('sm',), enums=ENUMS, drop=DROP2, rewrites=ARW),
        defines=['RECURSIVE=%d' % rec] + ([] if rec else ['IN_VISIT=1']), replay=['order']))
for nm, sc, sets in (('is_state_active_visitor', 'class is_state_active_visitor', 1), ('is_flag_active_visitor.or', 'class is_flag_active_visitor < Flag , flag_or >', 1), ('is_flag_active_visitor.and', 'class is_flag_active_visitor < Flag , flag_and >', 0)):
    UNITS.append(Unit('backmp11.' + nm + '.call', ['C17', 'C03', 'C13'], 'backmp11', Part(SV, [sc], 'void operator ( ) ( const State & )'),
        'void bool_visitor_call(bvis_t* self)', 'visitor_mp11.spec.h', xform=back_xform([], refparams=(), members=['m_result'], enums=ENUMS, drop=DROP2), defines=['VIS_SETS=%d' % sets], replay=['block']))
QRW = [dict(name='visitor-alias', pat='using visitor_t = $*A ;', rep='', min=1, max=1),
       dict(name='visitor-object', pat='visitor_t visitor ;', rep='bvis_t visitor ; visitor . m_result = ! VIS_SETS ;', min=1, max=1),
       dict(name='visit-if', pat='visit_if < visit_mode :: active_recursive , visitor_t :: predicate > ( visitor ) ;', rep='visit_if_stub ( self , & visitor ) ;', min=1, max=1),
       dict(name='visitor-result', pat='visitor . result ( )', rep='visitor . m_result', min=1, max=1)]
for nm, anchor, sets in (('is_state_active', 'bool is_state_active ( ) const', 1), ('is_flag_active.or', 'bool is_flag_active ( ) const', 1), ('is_flag_active.and', 'bool is_flag_active ( ) const', 0)):
    UNITS.append(Unit('backmp11.' + nm, ['C17', 'C03', 'C11', 'C13'], 'backmp11', Part(SB, [], anchor), '_Bool query_active(fsm_t* self)', 'visitor_mp11.spec.h',
        xform=back_xform([], refparams=(), enums=ENUMS, drop=DROP2, rewrites=QRW), defines=['VIS_SETS=%d' % sets],
        must_contain=[(SV, 'bool m_result { false } ;'), (SV, 'bool m_result { true } ;')], replay=['block']))
UNITS.append(Unit('backmp11.get_active_state_ids', ['C03', 'C13'], 'backmp11', Part(SB, [], 'const active_state_ids_t & get_active_state_ids ( ) const'),
    'const uint16_t* get_active_state_ids(const fsm_t* self)', 'visitor_mp11.spec.h',
    xform=back_xform([], refparams=(), members=['m_active_state_ids'], enums=ENUMS, drop=DROP2), replay=['order']))
UNITS.append(Unit('backmp11.state_visitor_impl.all.visit', ['C03', 'C13'], 'backmp11',
    Part(SV, ['class state_visitor_impl < StateMachine , Visitor , Mode , true , Predicates ... >'], 'static void visit ( StateMachine & sm , Visitor & visitor )'),
    'void visit_all(fsm_t* sm)', 'visitor_mp11.spec.h', defines=['UNIT_VISIT_ALL=1'],
    xform=back_xform(['accept'], refparams=('sm',), enums=ENUMS, drop=DROP2, foreach=True, size_of=gm, pre_rewrites=PRE,
        rewrites=[dict(name='TVAL-needs', pat='base :: needs_traversal :: value', rep='NEEDS_TRAVERSAL', min=0, max=1),
                  dict(name='SCOPE-accept', pat='base :: accept ( Mode , State , sm , visitor ) ;', rep='accept_all ( State , sm ) ;', min=0, max=1),
                  dict(name='SCOPE-accept2', pat='base :: template accept < Mode , State > ( sm , visitor ) ;', rep='accept_all ( State , sm ) ;', min=0, max=1)]),
    loops={0: '__CPROVER_assigns(state_identity, g_all_next)\n__CPROVER_loop_invariant(0 <= state_identity && state_identity <= g_m && g_all_next == state_identity)\n__CPROVER_decreases(g_m - state_identity)'},
    replay=['order']))
UNITS.append(Unit('backmp11.event_deferral_visitor.accept', ['C05', 'C03', 'C13'], 'backmp11',
    Part(SV, ['class event_deferral_visitor'], 'static void accept ( StateMachine & sm , Visitor & visitor )'), 'void accept_unit(fsm_t* sm, type_t State)', 'visitor_mp11.spec.h',
    xform=back_xform(['get_state', 'mp_contains'], refparams=('sm',), enums=ENUMS, drop=DROP2, rewrites=ARW + [
        dict(name='visitor-call-fsm', pat='visitor ( state , sm -> get_fsm_argument ( ) ) ;', rep='visitor_call ( state ) ;', min=0, max=1),
        dict(name='TVAR-subvisitor', pat='using submachine_visitor = $*A ;', rep='', min=0, max=1),
        dict(name='recursion-deferral', pat='submachine_visitor :: visit ( state , visitor ) ;', rep='submachine_visit_if ( state ) ;', min=0, max=1)]),
    defines=['RECURSIVE=1'], replay=['defer']))
UNITS.append(Unit('backmp11.init_state_visitor.call', ['C07', 'C15', 'C09', 'C13'], 'backmp11',
    Part(SV, ['class init_state_visitor'], 'void operator ( ) ( State & state )'), 'void init_visitor_call(initvis_t* self, stref_t state)', 'visitor_mp11.spec.h', defines=['UNIT_INIT_VISITOR=1'],
    xform=back_xform([], refparams=(), members=['m_root_sm'], enums=ENUMS, drop=DROP2, pre_rewrites=[
        dict(name='SCOPE-exit', pat='has_exit_pseudostate_be_tag < State > :: value', rep='g_is_exit_pseudo', min=1, max=1),
        dict(name='SCOPE-sm', pat='has_state_machine_tag < State > :: value', rep='g_is_submachine', min=1, max=1),
        dict(name='member-init', pat='state . template init < RootSm > ( ) ;', rep='exit_state_init ( state ) ;', min=0, max=1),
        dict(name='root-pointer', pat='* state . m_root_sm = & m_root_sm ;', rep='set_root_of ( state , m_root_sm ) ;', min=0, max=1)]), replay=['copy']))
