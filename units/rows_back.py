"""transition rows of back / back11: row_, g_row_, a_row_, _row_, irow_ ..., internal_ ... (C02 C19 C09 C03 C12 C01)"""
from .common import *

SIG  = "static HandledEnum execute ( library_sm & fsm , int region_index , int state , transition_event"
SIGI = "static HandledEnum execute ( library_sm & fsm , int , int state , transition_event const & evt )"
TEMPL = ['get_state_id', 'has_pseudo_exit', 'is_exit_state_active', 'get_owner', 'execute_exit', 'at_key',
         'convert_event_and_execute_entry', 'execute_entry']
TV = {'ROW': 'ROW', 'active_state_switching': 'active_state_switching!'}
THROW = ['check_guard', 'ROW_guard_call', 'execute_exit', 'ROW_action_call', 'convert_event_and_execute_entry', 'execute_entry']
xf = back_xform(TEMPL, TV, throwers=THROW)
PROPS = ['C02', 'C19', 'C09', 'C03', 'C12', 'C01', 'C13']

UNITS = []
for be in BACKS:
    H = be + '/state_machine.hpp'
    for (st, g, a) in (('row_', 1, 1), ('g_row_', 1, 0), ('a_row_', 0, 1), ('_row_', 0, 0)):
        UNITS.append(Unit('%s.%s.execute' % (be, st), PROPS, be,
            Part(H, ['struct ' + st], SIG, expect_anchors=1),
            'HandledEnum row_execute(fsm_t* fsm, int region_index, int state, event_t evt)',
            'rows_back.spec.h', xform=xf, aux=policy_aux(),
            defines=['HAS_GUARD=%d' % g, 'HAS_ACTION=%d' % a],
            fire={'SCONST': (2, 2), 'ASSERT': (1, 1), 'AUX': (16, 16)},
            replay=['order', 'hist']))
        if g:
            UNITS.append(Unit('%s.%s.check_guard' % (be, st), ['C02', 'C19', 'C09', 'C01'], be,
                Part(H, ['struct ' + st], "static bool check_guard ( library_sm & fsm , transition_event", expect_anchors=1),
                '_Bool check_guard(fsm_t* fsm, event_t evt)', 'rows_back.spec.h',
                xform=back_xform(TEMPL, TV, throwers=['ROW_guard_call'], exc_ret='0'),
                defines=['HAS_GUARD=1', 'HAS_ACTION=%d' % a], replay=['order']))

    # internal rows: irow_ family (state-internal, in the transition table) and internal_ family (internal tables)
    IPROPS = ['C02', 'C01', 'C03', 'C13']
    CG = "static bool check_guard ( library_sm & fsm , transition_event"
    fams = []
    for (st, g, a) in (('irow_', 1, 1), ('g_irow_', 1, 0), ('a_irow_', 0, 1), ('_irow_', 0, 0)):
        sig = "static HandledEnum execute ( library_sm & %s , int , int state , transition_event" % ('fsm' if (g or a) else '')
        fams.append((st, ['struct ' + st], sig, g, a, 0))
    for (st, g, a) in (('internal_', 1, 1), ('g_internal_', 1, 0), ('a_internal_', 0, 1), ('_internal_', 0, 0)):
        sig = "static HandledEnum execute ( library_sm & %s , int , int , transition_event" % ('fsm' if (g or a) else '')
        fams.append((st + '.state', ['struct ' + st + ' {'], sig, g, a, 0))
        fams.append((st + '.sm', ['struct ' + st + ' < ROW , library_sm >'], sig, g, a, 1))
    for (nm, scope, sig, g, a, smi) in fams:
        D = ['HAS_GUARD=%d' % g, 'HAS_ACTION=%d' % a, 'ROW_INTERNAL=1', 'ROW_SM_INTERNAL=%d' % smi]
        UNITS.append(Unit('%s.%s.execute' % (be, nm), IPROPS, be, Part(H, scope, sig, expect_anchors=1),
            'HandledEnum irow_execute(fsm_t* fsm, int region_index, int state, event_t evt)', 'rows_back.spec.h', xform=xf,
            defines=D, replay=['order']))
        if g:
            UNITS.append(Unit('%s.%s.check_guard' % (be, nm), ['C02', 'C01'], be, Part(H, scope, CG, expect_anchors=1),
                '_Bool check_guard(fsm_t* fsm, event_t evt)', 'rows_back.spec.h',
                xform=back_xform(TEMPL, TV, throwers=['ROW_guard_call'], exc_ret='0'), defines=D, replay=['order']))
