"""is_exit_state_active (C09) of back / back11"""
from .common import *
UNITS = []
for be in BACKS:
    MF = be + '/metafunctions.hpp'
    UNITS.append(Unit(be + '.is_exit_state_active', ['C09', 'C13'], be, Part(MF, [], 'is_exit_state_active ( FSM & fsm )'),
        '_Bool is_exit_state_active(fsm_t* fsm)', 'exitpt.spec.h',
        xform=back_xform(['get_state_id'], refparams=('fsm',), rewrites=[
            dict(name='TVAR-owner', pat='typedef OwnerFct :: type Composite ;', rep='', min=1, max=1),
            dict(name='TVAR-stt', pat='typedef Composite :: stt stt ;', rep='', min=1, max=1),
            dict(name='owner-object', pat='Composite & comp = fsm -> get_state < Composite & > ( ) ;', rep='fsm_t * comp = owner_of ( fsm ) ;', min=1, max=1),
            dict(name='member-call', pat='comp . current_state ( )', rep='comp -> m_states', min=0),
            dict(name='TVAL-owner-regions', pat='Composite :: nr_regions :: value', rep='g_comp_regions', min=0),
            dict(name='TVAL-fsm-regions', pat='FSM :: nr_regions :: value', rep='g_fsm_regions', min=0),
            dict(name='STL-find', pat='find (', rep='std_find_int (', min=0, max=1)]),
        replay=['hist']))
