"""back favor_compile_time: run-time construction of the candidate lists (dispatch_table constructor: init_cell / default_init_cell) - C01 C05 C07"""
from .common import *
UNITS = []
FCT = 'back/favor_compile_time.hpp'
DT = ['struct dispatch_table < Fsm , Stt , Event , favor_compile_time >']
IC = DT + ['struct init_cell']
DC = DT + ['struct default_init_cell {']
RWR = [dict(name='TVAL-src-id', pat='get_state_id ( stt , Transition :: current_state_type )', rep='g_src_id [ Transition ]', min=0, max=1),
       dict(name='TVAR-stt', pat='typedef create_stt ( Fsm ) stt ;', rep='', min=0, max=1),
       dict(name='CONT-row-front-cast', pat='self -> entries [ $*I ] . one_state . push_front ( ( ( cell ) ( & Transition :: execute ) ) ) ;', rep='cell_push_front ( $*I , ROW ( Transition ) ) ;', min=0, max=1),
       dict(name='CONT-row-front', pat='self -> entries [ $*I ] . one_state . push_front ( & Transition :: execute ) ;', rep='cell_push_front ( $*I , ROW ( Transition ) ) ;', min=0, max=1),
       dict(name='CONT-row-back-cast', pat='self -> entries [ $*I ] . one_state . push_back ( ( ( cell ) ( & Transition :: execute ) ) ) ;', rep='cell_push_back ( $*I , ROW ( Transition ) ) ;', min=0, max=1),
       dict(name='CONT-row-back', pat='self -> entries [ $*I ] . one_state . push_back ( & Transition :: execute ) ;', rep='cell_push_back ( $*I , ROW ( Transition ) ) ;', min=0, max=1)]
RWD = [dict(name='TVAL-state-id', pat='get_state_id ( stt , State )', rep='g_state_id [ State ]', min=0, max=1),
       dict(name='TVAR-stt', pat='typedef create_stt ( Fsm ) stt ;', rep='', min=0, max=1),
       dict(name='FN-defer', pat='cell call_no_transition = & Fsm :: defer_transition ;', rep='const int call_no_transition = FN_DEFER ;', min=0, max=1),
       dict(name='FN-nt', pat='cell call_no_transition = & Fsm :: call_no_transition ;', rep='const int call_no_transition = FN_NT ;', min=0, max=1),
       dict(name='FN-nt-internal', pat='cell call_no_transition_internal = & Fsm :: call_no_transition ;', rep='const int call_no_transition_internal = FN_NT_INTERNAL ;', min=0, max=1),
       dict(name='FN-sub', pat='cell call_no_transition = & call_submachine < State > ;', rep='const int call_no_transition = FN_SUB ;', min=0, max=1),
       dict(name='CONT-back', pat='tofill [ $*I ] . one_state . push_back ( $x ) ;', rep='cell_push_back ( $*I , $x ) ;', min=0, max=1),
       dict(name='CONT-front', pat='tofill [ $*I ] . one_state . push_front ( $x ) ;', rep='cell_push_front ( $*I , $x ) ;', min=0, max=1)]
xr = back_xform(['get_state_id', 'create_stt'], refparams=(), rewrites=RWR)
xd = back_xform(['get_state_id', 'create_stt'], refparams=(), rewrites=RWD)
def H(sel): return DC + ['struct helper < %s , some_dummy >' % sel]
UNITS.append(Unit('back.favor_compile_time.dispatch_table.construct', ['C01', 'C05', 'C07', 'C13'], 'back',
    [Part(FCT, IC, 'init_event_base_case ( Transition const & , true_ const & ) const', nth=0, xform=xr),      # @0 base, source is a state
     Part(FCT, IC, 'init_event_base_case ( Transition const & , true_ const & ) const', nth=1, xform=xr),      # @1 base, source is the machine itself
     Part(FCT, IC, 'init_event_base_case ( Transition const & , false_ const & ) const', nth=0, xform=xr),     # @2
     Part(FCT, IC, 'init_event_base_case ( Transition const & , false_ const & ) const', nth=1, xform=xr),     # @3
     Part(FCT, H('true , false'), 'static void execute ( wrap < State > const & , chain_row * tofill )', xform=xd),   # @4 deferred, simple
     Part(FCT, H('true , true'), 'static void execute ( wrap < State > const & , chain_row * tofill )', xform=xd),    # @5 deferred, composite
     Part(FCT, H('false , true'), 'execute ( wrap < State > const & , chain_row * tofill , dummy < 0 > = 0 )', xform=xd),   # @6 composite == Fsm (internal table)
     Part(FCT, H('false , true'), 'execute ( wrap < State > const & , chain_row * tofill , dummy < 1 > = 0 )', xform=xd),   # @7 composite: forwarding
     Part(FCT, H('false , false'), 'static void execute ( wrap < State > const & , chain_row * tofill )', xform=xd)], # @8 simple
    'void build_table(void)', 'fct_table.spec.h',
    # dispatch_table(): for_each<filter_view<Stt, is_base_of<...>>>(init_cell(this)); for_each<state set>(default_init_cell<Event>(this, entries));
    # overload / specialisation selection (compile time) is written out as `if` over the symbolic per-row / per-state facts
    compose='for (type_t Transition = 0; Transition != g_nt; ++Transition)\n'
            '__CPROVER_assigns(Transition, g_lo, g_hi, g_pos_i, g_pos_j, g_pos_sub, g_pos_def)\n'
            '__CPROVER_loop_invariant(0 <= Transition && Transition <= g_nt && g_hi == 0 && -Transition <= g_lo && g_lo <= 0 && g_pos_sub == NONE && g_pos_def == NONE)\n'
            '__CPROVER_loop_invariant((g_i < Transition) ? (g_lo <= g_pos_i && g_pos_i <= -1) : g_pos_i == NONE)\n'
            '__CPROVER_loop_invariant((g_j < Transition) ? (g_lo <= g_pos_j && g_pos_j < g_pos_i) : g_pos_j == NONE)\n'
            '__CPROVER_decreases(g_nt - Transition)\n'
            '{ if (!g_not_real[Transition]) { if (g_is_base[Transition]) { if (g_src_is_fsm[Transition]) {@1} else {@0} } else { if (g_src_is_fsm[Transition]) {@3} else {@2} } } }\n'
            'const int pi = g_pos_i, pj = g_pos_j, lo1 = g_lo;\n'
            'for (type_t State = 0; State != g_ns; ++State)\n'
            '__CPROVER_assigns(State, g_lo, g_hi, g_pos_i, g_pos_j, g_pos_sub, g_pos_def)\n'
            '__CPROVER_loop_invariant(0 <= State && State <= g_ns && g_pos_i == pi && g_pos_j == pj && lo1 - 1 <= g_lo && g_lo <= lo1 && 0 <= g_hi && g_hi <= 1)\n'
            '__CPROVER_loop_invariant(!(g_s < State) ==> (g_pos_sub == NONE && g_pos_def == NONE && g_lo == lo1 && g_hi == 0))\n'
            '__CPROVER_loop_invariant((g_s < State && g_composite[g_s] && !g_deferred[g_s] && !g_state_is_fsm[g_s]) ==> g_pos_sub == lo1 - 1)\n'
            '__CPROVER_loop_invariant((g_s < State && !(g_composite[g_s] && !g_deferred[g_s])) ==> g_pos_def == 0)\n'
            '__CPROVER_decreases(g_ns - State)\n'
            '{ chain_row_t* const tofill = 0;\n'
            '  if (g_deferred[State]) { if (g_composite[State]) {@5} else {@4} } else if (g_composite[State]) { if (g_state_is_fsm[State]) {@6} else {@7} } else {@8} }',
    file_scope='typedef int chain_row_t;\n', force_loop_contracts=True, cbmc_flags=['--object-bits', '12'], replay=['sel']))

UNITS.append(Unit('back.favor_compile_time.dispatch_table.ctor_order', ['C01', 'C07', 'C13'], 'back',
    Part(FCT, DT, 'dispatch_table ( )', xform=back_xform([], refparams=(), pre_rewrites=[
        dict(name='FOREACH-rows', pat='for_each < filter_view < Stt , is_base_of < transition_event < _ > , Event > > > ( init_cell ( this ) ) ;', rep='rows_phase ( ) ;', min=0, max=1),
        dict(name='FOREACH-states', pat='for_each < typename generate_state_set < Stt > :: type , wrap < _1 > > ( default_init_cell < Event > ( this , entries ) ) ;', rep='states_phase ( ) ;', min=0, max=1)])),
    'void fct_ctor(void)', 'fct_table.spec.h', defines=['UNIT_FCT_CTOR=1'], replay=['sel']))
