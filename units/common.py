"""shared xform pipelines for the back-ends"""
from vlib import cxx2c as X
from vlib.pipeline import Unit, Part, Aux

BACKS = ('back', 'back11')
POLICY_HDR = 'active_state_switching_policies.hpp'
POLICIES = ['active_state_switch_after_entry', 'active_state_switch_before_transition',
            'active_state_switch_after_exit', 'active_state_switch_after_transition_action']
def policy_aux():
    a = []
    for k, p in enumerate(POLICIES):
        for f in ('after_guard', 'after_exit', 'after_action', 'after_entry'):
            a.append(Aux('pol%d_%s' % (k, f), 'int', POLICY_HDR, ['struct ' + p], 'static int ' + f))
    return a

DROP_KW = {'typename', 'template', 'inline', 'BOOST_NOINLINE', 'BOOST_FORCEINLINE'}
EXC_RET = '( HandledEnum ) 0'

def back_xform(templates, typevars=None, refparams=('fsm',), throwers=(), members=(), methods=(),
               rewrites=(), exc_ret=EXC_RET, enums=None, pre_rewrites=(), try_=False, drop=DROP_KW, refvals=(), post=None, foreach=False, size_of=None, guards=None, pp_defined=()):
    def xf(tk, F):
        tk = X.rule_pp(tk, F, pp_defined)
        tk = X.rule_ns(tk, F)
        tk = X.rule_parens(tk, F)
        if pre_rewrites: tk = X.rule_rewrites(tk, F, pre_rewrites)
        tk = X.rule_drop(tk, F, drop)
        tk = X.rule_constexpr_if(tk, F)
        if foreach:
            tk = X.rule_foreach(tk, F, size_of); tk = X.rule_decltype(tk, F)
        tk = X.rule_stmt_macros(tk, F)
        tk = X.rule_casts(tk, F)
        if enums: tk = X.rule_enumq(tk, F, enums)
        tk = X.rule_targ(tk, F, set(templates), dict(typevars or {}))
        tk = X.rule_ref(tk, F, set(refparams), set(refvals))
        if members or methods: tk = X.rule_this(tk, F, set(members), set(methods))
        else: tk = X.rule_this(tk, F)
        if rewrites: tk = X.rule_rewrites(tk, F, rewrites)
        if throwers: tk = X.rule_exc(tk, F, set(throwers), exc_ret)
        if try_: tk = X.rule_try(tk, F)
        if guards: tk = X.rule_scope_guard(tk, F, guards)
        if post: tk = post(tk, F)
        return tk
    return xf
