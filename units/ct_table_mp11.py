"""backmp11 favor_compile_time: run-time construction of the dispatch tables (C01 C07)"""
from .common import *
from .rows_mp11 import ENUMS, DROP2
CT = 'backmp11/favor_compile_time.hpp'
UNITS = []
def n(name): return lambda _: [X.T(name)]
SZ = {'identities': 'g_nsub'}
def size_of(lst):   # FOREACH: which symbolic size belongs to the iterated type list
    txt = ' '.join(lst)
    return [X.T('g_nsub' if 'submachines' in txt else 'g_nic' if 'internal' in txt else 'g_nc')]
UNITS.append(Unit('backmp11.favor_compile_time.dispatch_table.construct', ['C01', 'C07', 'C13'], 'backmp11',
    Part(CT, ['class dispatch_table < StateMachine , any_event >'], 'dispatch_table ( )'),
    'void build_tables(void)', 'ct_table_mp11.spec.h', defines=['UNIT_CTOR=1', 'HAS_TRANSITIONS=g_has_transitions', 'HAS_INTERNAL=g_has_internal'],
    xform=back_xform(['get_state_id'], refparams=(), enums=ENUMS, drop=DROP2, foreach=True, size_of=size_of, pp_defined=('__GNUC__',),
        pre_rewrites=[dict(name='TVAR-submachines', pat='using submachines = $*A ;', rep='', min=1, max=1),
                      dict(name='TVAR-constants', pat='using init_cell_constants = $*A ;', rep='', min=1, max=1),
                      dict(name='TVAR-internal-constants', pat='using init_internal_cell_constants = $*A ;', rep='', min=1, max=1),
                      dict(name='DECLTYPE-identity', pat='using Submachine = typename decltype ( state_identity ) :: type ;', rep='const type_t Submachine = state_identity ;', min=1, max=1),
                      dict(name='TVAL-state-id', pat='static constexpr auto state_id = StateMachine :: template get_state_id < Submachine > ( ) ;', rep='const int state_id = g_sub_state [ Submachine ] ;', min=1, max=1),
                      dict(name='SCOPE-has-transitions', pat='has_transitions :: value', rep='g_has_transitions', min=1, max=1),
                      dict(name='SCOPE-has-internal', pat='has_internal_transitions :: value', rep='g_has_internal', min=1, max=1)],
        rewrites=[dict(name='table-init-composite', pat='self -> m_state_dispatch_tables [ state_id ] . template init_composite_state < Submachine > ( ) ;', rep='init_composite_state ( state_id , Submachine ) ;', min=0, max=1),
                  dict(name='table-init-composite2', pat='m_state_dispatch_tables [ state_id ] . init_composite_state < Submachine > ( ) ;', rep='init_composite_state ( state_id , Submachine ) ;', min=0, max=1),
                  dict(name='TVAL-constant-state', pat='constant . value . state_id', rep='g_c_state [ constant ]', min=0),
                  dict(name='table-add', pat='m_state_dispatch_tables [ $*I ] . add_transition_cell ( constant . value ) ;', rep='chain_emplace_back ( $*I , g_c_event [ constant ] , constant ) ;', min=0, max=1),
                  dict(name='itable-add', pat='m_internal_dispatch_table . add_transition_cell ( constant . value ) ;', rep='ADD_INTERNAL_CELL ( constant ) ;', min=0, max=1),
                  dict(name='itable-add2', pat='self -> m_internal_dispatch_table . add_transition_cell ( constant . value ) ;', rep='ADD_INTERNAL_CELL ( constant ) ;', min=0, max=1)]),
    file_scope='/* constant.value = {typeid(Event), state id, cell} of the constant-th transition [A: compile time]; add_transition_cell -> m_transition_chains[type].add_transition_cell(cell) -> emplace_back (units below) */\n'
               '#define ADD_INTERNAL_CELL(c) internal_chain_emplace_back(g_ic_event[c], c)\n',
    loops={0: '__CPROVER_assigns(state_identity, g_composite_set)\n__CPROVER_loop_invariant(0 <= state_identity && state_identity <= g_nsub && g_composite_set == ((0 <= g_w && g_w < state_identity) ? 1 : 0))\n__CPROVER_decreases(g_nsub - state_identity)',
           1: '__CPROVER_assigns(constant, g_hi, g_pos_i, g_pos_j)\n__CPROVER_loop_invariant(0 <= constant && constant <= g_nc && 0 <= g_hi && g_hi <= constant)\n'
              '__CPROVER_loop_invariant((g_i < constant && g_c_state[g_i] == g_s && g_c_event[g_i] == g_e) ? (0 <= g_pos_i && g_pos_i < g_hi) : g_pos_i == NONE)\n'
              '__CPROVER_loop_invariant((g_j < constant && g_c_state[g_j] == g_s && g_c_event[g_j] == g_e) ? (g_pos_j < g_hi && (g_pos_i == NONE || g_pos_i < g_pos_j)) : g_pos_j == NONE)\n'
              '__CPROVER_decreases(g_nc - constant)',
           2: '__CPROVER_assigns(constant, g_ihi, g_ipos_i, g_ipos_j)\n__CPROVER_loop_invariant(0 <= constant && constant <= g_nic && 0 <= g_ihi && g_ihi <= constant)\n'
              '__CPROVER_loop_invariant((g_i < constant && g_ic_event[g_i] == g_e) ? (0 <= g_ipos_i && g_ipos_i < g_ihi) : g_ipos_i == NONE)\n'
              '__CPROVER_loop_invariant((g_j < constant && g_ic_event[g_j] == g_e) ? (g_ipos_j < g_ihi && (g_ipos_i == NONE || g_ipos_i < g_ipos_j)) : g_ipos_j == NONE)\n'
              '__CPROVER_decreases(g_nic - constant)'},
    also_replace=['internal_chain_emplace_back'], replay=['sel']))
for nm, sc in (('state_dispatch_table', ['class state_dispatch_table']), ('internal_dispatch_table', ['class internal_dispatch_table'])):
    UNITS.append(Unit('backmp11.favor_compile_time.%s.add_transition_cell' % nm, ['C01', 'C13'], 'backmp11',
        Part(CT, ['class dispatch_table < StateMachine , any_event >'] + sc, 'void add_transition_cell ( const init_cell_value & value )' if nm.startswith('state') else 'void add_transition_cell ( const init_internal_cell_value & value )'),
        'void add_transition_cell(const init_cell_value_t* value)', 'ct_table_mp11.spec.h', defines=['UNIT_ADD_CELL=1'],
        xform=back_xform([], refparams=('value',), members=['m_transition_chains'], enums=ENUMS, drop=DROP2, rewrites=[
            dict(name='CONT-map-ref', pat='$1 & chain = self -> m_transition_chains [ value -> event_type_index ] ;', rep='const int chain = value -> event_type_index ;', min=1, max=1),
            dict(name='member-call', pat='chain . add_transition_cell ( value -> cell ) ;', rep='chain_add_transition_cell ( chain , value -> cell ) ;', min=0, max=1)]), replay=['sel']))
for nm, sc in (('transition_chain', ['class transition_chain']), ('internal_transition_chain', ['class internal_transition_chain'])):
    UNITS.append(Unit('backmp11.favor_compile_time.%s.add_transition_cell' % nm, ['C01', 'C13'], 'backmp11',
        Part(CT, sc, 'void add_transition_cell ( process_result ( * cell ) ('),
        'void chain_add(int cell)', 'ct_table_mp11.spec.h', defines=['UNIT_CHAIN_ADD=1'],
        xform=back_xform([], refparams=(), members=['m_transition_cells'], enums=ENUMS, drop=DROP2, rewrites=[
            dict(name='CONT-emplace-back', pat='self -> m_transition_cells . emplace_back ( ( ( generic_cell ) ( cell ) ) ) ;', rep='cells_emplace_back ( cell ) ;', min=0, max=1),
            dict(name='CONT-push-back', pat='self -> m_transition_cells . push_back ( ( ( generic_cell ) ( cell ) ) ) ;', rep='cells_emplace_back ( cell ) ;', min=0, max=1)]), replay=['sel']))
