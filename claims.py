"""per-property claim texts for MANIFEST.json (tools/gen_manifest.py)"""
NOT_BUILT = "check not built yet (work in progress in this session); not claimed"
CLAIMS = {
 'C19': dict(text="Unbounded proof, for all four switch policies at once (symbolic policy), all guard/behaviour outcomes and all four row kinds of back and back11, that every behaviour stub is called with m_states[region] equal to the value the documented policy table prescribes for that phase, and that the final state/result do not depend on the policy. The policy table is typed from the property statement; the four policy structs are extracted from the header.",
             note="assumed: selection of the policy type by get_active_state_switch_policy (compile time); behaviours are nondeterministic stubs; cxx2c rule table; CBMC"),
 'C02': dict(text="Unbounded proof per row kind that guard, source exit, action, target entry are called at most once each in that order (phase ghost), that a rejected guard changes nothing, that internal rows assign nothing but the phase ghost (frame), and that afterwards the target is the region's active state.",
             note="assumed: composite-ness selection of execute_entry/exit overloads is compile time; behaviours are stubs; cxx2c rule table; CBMC"),
}
NOT_APPLICABLE = {p: NOT_BUILT for p in ['C%02d' % i for i in range(1, 21)]}
FIX_COMMITS = ['c257ff1']
