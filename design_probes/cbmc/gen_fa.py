#!/usr/bin/env python3
# generates fa.h (expanded bounded quantifier macro) for p8.c:  python3 gen_fa.py 24 > fa.h
import sys
LEN=int(sys.argv[1]) if len(sys.argv)>1 else 24
print("#define LEN %d"%LEN)
print("#define ALL_IN(s,lo,hi,PRED) (" + " && ".join("(!(%d>=(lo) && %d<(hi)) || PRED((s).p[%d]))"%(i,i,i) for i in range(LEN)) + ")")
