/* cost probe for C05(c): do_handle_deferred, hand-reflected from back/state_machine.hpp:1956-2015 (approximation of what cxx2c will emit) */
#include <stddef.h>
typedef enum { HANDLED_FALSE=0, HANDLED_TRUE=1, HANDLED_GUARD_REJECT=2, HANDLED_DEFERRED=4 } execute_return;
#ifndef N
#define N 4
#endif
#define CAP (2*N+2)
typedef struct { int first; /* ticket = arrival order */ char second; } pair_t;
typedef struct { pair_t a[CAP]; int n; } dq_t;
typedef struct { dq_t m_deferred_events_queue; char m_cur_seq; } helper_t;
static _Bool dq_empty(dq_t* q){ return q->n==0; }
static pair_t* dq_front(dq_t* q){ __CPROVER_assert(q->n>0,"front on non-empty"); return &q->a[0]; }
static void dq_pop_front(dq_t* q){ __CPROVER_assert(q->n>0,"pop on non-empty"); for(int i=1;i<q->n;i++) q->a[i-1]=q->a[i]; q->n--; }
static void dq_push_back(dq_t* q, pair_t p){ __CPROVER_assert(q->n<CAP,"capacity"); q->a[q->n++]=p; }
/* std::stable_sort stand-in: insertion sort (stable) with the real comparator */
static _Bool sort_greater(pair_t const* d1, pair_t const* d2){ return d1->second > d2->second; }
static void std_stable_sort(dq_t* q){ for(int i=1;i<q->n;i++){ pair_t k=q->a[i]; int j=i-1; while(j>=0 && sort_greater(&k,&q->a[j])){ q->a[j+1]=q->a[j]; j--; } q->a[j+1]=k; } }
static void set_all_seq(dq_t* q, char s){ for(int i=0;i<q->n;i++) q->a[i].second=s; }
/* ghost: dispatch log */
int g_log[4*N+4]; int g_nlog; int g_budget;
int nondet_int(void);
helper_t* g_h;
/* invoking a deferred call: may re-defer itself (push_back with seq cur+1) or be handled / unhandled */
static execute_return invoke(int ticket){
  __CPROVER_assert(g_nlog < 4*N+4, "log cap"); g_log[g_nlog++]=ticket;
  int r=nondet_int(); __CPROVER_assume(r==HANDLED_FALSE||r==HANDLED_TRUE||r==HANDLED_DEFERRED||r==HANDLED_GUARD_REJECT);
  if (r==HANDLED_TRUE) { __CPROVER_assume(g_budget>0); g_budget--; }   /* bound number of handled events => recursion depth */
  if (r==HANDLED_DEFERRED){ pair_t p; p.first=ticket; p.second=(char)(g_h->m_cur_seq+1); dq_push_back(&g_h->m_deferred_events_queue,p); }
  return (execute_return)r;
}
void do_handle_deferred(helper_t* m_events_queue, _Bool new_seq)
{
            if (new_seq)
            {
                ++m_events_queue->m_cur_seq;
            }
            char* cur_seq = &m_events_queue->m_cur_seq;
            _Bool not_only_deferred = 0;
            while (!dq_empty(&m_events_queue->m_deferred_events_queue))
            {
                pair_t* pair = dq_front(&m_events_queue->m_deferred_events_queue);
                if (*cur_seq != pair->second)
                {
                    break;
                }
                int next = pair->first;
                dq_pop_front(&m_events_queue->m_deferred_events_queue);
                execute_return res = invoke(next);
                if (res != HANDLED_FALSE && res != HANDLED_DEFERRED)
                {
                    not_only_deferred = 1;
                }
                if (not_only_deferred)
                {
                    break;
                }
            }
            if (not_only_deferred)
            {
                std_stable_sort(&m_events_queue->m_deferred_events_queue);
                set_all_seq(&m_events_queue->m_deferred_events_queue, m_events_queue->m_cur_seq + 1);
                do_handle_deferred(m_events_queue, 1);
            }
}
int main(void){
  helper_t h; g_h=&h; int n=nondet_int(); __CPROVER_assume(0<=n && n<=N); h.m_deferred_events_queue.n=n;
  char s; h.m_cur_seq=s; g_budget=1;
  for(int i=0;i<N;i++){ h.m_deferred_events_queue.a[i].first=i; h.m_deferred_events_queue.a[i].second=(char)(s+1); }  /* all deferred earlier, arrival order = ticket */
  g_nlog=0;
  do_handle_deferred(&h,1);
  /* property (c): after the pass the queue is in arrival order (tickets increasing) */
  for(int i=1;i<h.m_deferred_events_queue.n;i++) __CPROVER_assert(h.m_deferred_events_queue.a[i-1].first < h.m_deferred_events_queue.a[i].first, "C05.c queue back in arrival order");
  return 0; }
