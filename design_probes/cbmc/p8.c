#include <stddef.h>
#include "fa.h"
#define npos ((size_t)-1)
typedef struct { const char* p; size_t n; } sv_t;
static _Bool is_trim(char c){ return c=='-'||c==' '||c=='\t'; }
static _Bool not_trim(char c){ return !is_trim(c); }
static size_t sv_find_first_not_of(sv_t s,const char* set){ for(size_t i=0;i<s.n;i++) if(!is_trim(s.p[i])) return i; return npos; }
static size_t sv_find_last_not_of(sv_t s,const char* set){ for(size_t i=s.n;i>0;i--) if(!is_trim(s.p[i-1])) return i-1; return npos; }
static sv_t sv_substr(sv_t s,size_t pos,size_t cnt){ __CPROVER_assert(pos<=s.n,"substr pos"); sv_t r; r.p=s.p+pos; size_t rem=s.n-pos; r.n = cnt<rem?cnt:rem; return r; }
static sv_t sv_empty(void){ sv_t r; r.p=0; r.n=0; return r; }
/* contract of cleanup_token with ghost offsets b,e: if str = trim* X trim*, X = [b,e) non-empty with first and last char non-trim, result is exactly X */
size_t gb, ge;
sv_t cleanup_token(sv_t str)
__CPROVER_requires(str.n<=LEN && __CPROVER_is_fresh(str.p, LEN))
__CPROVER_requires(gb<=ge && ge<=str.n)
__CPROVER_requires(ALL_IN(str,0,gb,is_trim) && ALL_IN(str,ge,str.n,is_trim))
__CPROVER_requires(gb==ge || (not_trim(str.p[gb]) && not_trim(str.p[ge-1])))
__CPROVER_assigns()
__CPROVER_ensures(gb<ge ==> (__CPROVER_return_value.p==str.p+gb && __CPROVER_return_value.n==ge-gb))
__CPROVER_ensures(gb==ge ==> __CPROVER_return_value.n==0)
{
            size_t first_not_whitespace = sv_find_first_not_of(str,"- \t");
            size_t last_not_whitespace = sv_find_last_not_of(str,"- \t");
            if (first_not_whitespace != npos && last_not_whitespace != npos)
            {
                return sv_substr(str,first_not_whitespace, last_not_whitespace - first_not_whitespace + 1);
            }
            else
            {
                return sv_empty();
            }
}
void harness(void){ sv_t s; cleanup_token(s); }
