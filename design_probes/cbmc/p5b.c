#include <stddef.h>
#include <stdint.h>
#include <string.h>
typedef void (*copy_construct_fn_t)(void* dest, const void* src);
typedef void (*move_construct_fn_t)(void* dest, void* src);
typedef void (*delete_fn_t)(void* obj);
struct control_block { copy_construct_fn_t copy_construct_fn; move_construct_fn_t move_construct_fn; delete_fn_t delete_fn; uint8_t size; _Bool is_inline; };
int g_copies; int g_destroyed;
int __CPROVER_uninterpreted_region_of(int state);
void copy_contract(void* dest, const void* src)
__CPROVER_requires(1)
__CPROVER_assigns(g_copies)
__CPROVER_ensures(g_copies==__CPROVER_old(g_copies)+1);

void cb_copy(const struct control_block* self, void* dest, const void* src)
__CPROVER_requires(__CPROVER_is_fresh(self,sizeof(*self)))
__CPROVER_requires(self->size<=56 && __CPROVER_is_fresh(dest,56) && __CPROVER_is_fresh(src,56))
__CPROVER_requires( (self->is_inline && !self->copy_construct_fn) || __CPROVER_obeys_contract(self->copy_construct_fn, copy_contract))
__CPROVER_assigns(g_copies, __CPROVER_object_whole(dest))
__CPROVER_ensures( (self->is_inline && !self->copy_construct_fn) ==> g_copies==__CPROVER_old(g_copies))
__CPROVER_ensures(!(self->is_inline && !self->copy_construct_fn) ==> g_copies==__CPROVER_old(g_copies)+1)
{
        // No copy function implies trivially copyable.
        if (self->is_inline && !self->copy_construct_fn)
        {
            memcpy(dest, src, self->size);
        }
        else
        {
            self->copy_construct_fn(dest, src);
        }
}
copy_construct_fn_t dummy_addr_taken = copy_contract;
void harness(void){ const struct control_block* s; void* d; const void* sr; 
  int a,b; __CPROVER_assume(a==b); __CPROVER_assert(__CPROVER_uninterpreted_region_of(a)==__CPROVER_uninterpreted_region_of(b),"UF congruence");
  cb_copy(s,d,sr); }
