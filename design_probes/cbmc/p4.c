#include <stddef.h>
#include <stdint.h>
typedef enum { HANDLED_FALSE=0, HANDLED_TRUE=1, HANDLED_GUARD_REJECT=2, HANDLED_DEFERRED=4 } process_result;
#define MAXR 64
typedef struct sm { uint16_t m_active_state_ids[MAXR]; } sm_t;
typedef int event_t;
extern size_t nr_regions;
int g_next_region; int g_acc; int g_internal_called; int g_no_transition_calls; int g_nt_next;
static const int handled_true_or_deferred = 5;

process_result dispatch(sm_t* sm, size_t region_id, event_t event)
__CPROVER_requires(region_id == g_next_region && region_id < nr_regions)
__CPROVER_assigns(g_next_region, g_acc)
__CPROVER_ensures(g_next_region == __CPROVER_old(g_next_region)+1)
__CPROVER_ensures(__CPROVER_return_value>=0 && __CPROVER_return_value<=7)
__CPROVER_ensures(g_acc == (__CPROVER_old(g_acc) | __CPROVER_return_value));

process_result internal_dispatch(sm_t* sm, event_t event)
__CPROVER_requires(g_next_region == nr_regions && (g_acc & 5)==0 && !g_internal_called)
__CPROVER_assigns(g_internal_called, g_acc)
__CPROVER_ensures(g_internal_called==1)
__CPROVER_ensures(__CPROVER_return_value>=0 && __CPROVER_return_value<=7)
__CPROVER_ensures(g_acc == (__CPROVER_old(g_acc) | __CPROVER_return_value));

void no_transition(event_t event, sm_t* fsm, uint16_t state_id)
__CPROVER_requires(g_acc==0 && g_nt_next < nr_regions && state_id == fsm->m_active_state_ids[g_nt_next])
__CPROVER_assigns(g_nt_next)
__CPROVER_ensures(g_nt_next == __CPROVER_old(g_nt_next)+1);

process_result do_process_event(sm_t* self, event_t event, int info_is_submachine_call)
__CPROVER_requires(__CPROVER_is_fresh(self,sizeof(*self)) && nr_regions>=1 && nr_regions<=MAXR)
__CPROVER_requires(g_next_region==0 && g_acc==0 && !g_internal_called && g_nt_next==0)
__CPROVER_assigns(g_next_region,g_acc,g_internal_called,g_nt_next)
__CPROVER_ensures(g_next_region==nr_regions)
__CPROVER_ensures(__CPROVER_return_value==g_acc)
__CPROVER_ensures(g_nt_next == ((g_acc==0 && !info_is_submachine_call) ? nr_regions : 0))
{
        process_result result = HANDLED_FALSE;
        // Dispatch the event to every region.
        for (size_t region_id = 0; region_id < nr_regions; region_id++)
        __CPROVER_assigns(region_id, result, g_next_region, g_acc)
        __CPROVER_loop_invariant(region_id <= nr_regions && g_next_region==region_id && result==g_acc && g_acc>=0 && g_acc<=7)
        __CPROVER_decreases(nr_regions-region_id)
        {
            result |= dispatch(self, region_id, event);
        }
        // Dispatch the event to the SM-internal table if it hasn't been consumed yet.
        if (!(result & handled_true_or_deferred))
        {
            result |= internal_dispatch(self, event);
        }
        if (!result && !(info_is_submachine_call))
        {
            for (size_t i=0;i<nr_regions;i++)
            __CPROVER_assigns(i, g_nt_next)
            __CPROVER_loop_invariant(i<=nr_regions && g_nt_next==i)
            __CPROVER_decreases(nr_regions-i)
            {
                const uint16_t state_id = self->m_active_state_ids[i];
                no_transition(event, self, state_id);
            }
        }
        return result;
}
void harness(void){ sm_t* s; event_t e; int i; do_process_event(s,e,i); }
