#include <stddef.h>
#include <stdint.h>
#include <string.h>
#define BUF 56
typedef void (*copy_construct_fn_t)(void* dest, const void* src);
struct control_block { copy_construct_fn_t copy_construct_fn; void* mv; void* del; uint8_t size; _Bool is_inline; };
size_t k;  /* ghost index */
void cb_copy(const struct control_block* self, void* dest, const void* src)
__CPROVER_requires(__CPROVER_is_fresh(self,sizeof(*self)))
__CPROVER_requires(self->size<=BUF && __CPROVER_is_fresh(dest,BUF) && __CPROVER_is_fresh(src,BUF))
__CPROVER_requires(self->is_inline && !self->copy_construct_fn)
__CPROVER_requires(k < self->size)
__CPROVER_assigns(__CPROVER_object_whole(dest))
__CPROVER_ensures(((const unsigned char*)dest)[k] == ((const unsigned char*)src)[k])
{
        if (self->is_inline && !self->copy_construct_fn)
        {
            memcpy(dest, src, self->size);
        }
        else
        {
            self->copy_construct_fn(dest, src);
        }
}
void harness(void){ const struct control_block* s; void* d; const void* sr; cb_copy(s,d,sr); }
