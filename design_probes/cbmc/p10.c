/* probe: loop contract on backmp11 do_process_event_pool (state_machine_base.hpp:900-948), hand-reflected */
#include <stddef.h>
#include <stdint.h>
typedef enum { HANDLED_FALSE=0, HANDLED_TRUE=1, HANDLED_GUARD_REJECT=2, HANDLED_DEFERRED=4 } process_result;
typedef struct { _Bool has; process_result v; } opt_t;
/* abstract deque: only sizes and an iterator model with epochs (assumed contract of std::deque) */
typedef struct { size_t pos; unsigned epoch; } it_t;
typedef struct { size_t n; unsigned epoch; } dq_t;          /* n = number of elements, epoch bumped by insertions */
typedef struct { dq_t events; uint16_t cur_seq_cnt; } pool_t;
unsigned g_dispatches;           /* ghost: number of dispatched occurrences */
size_t   g_erased;               /* ghost */
#define SIZE_CAP 1000000
it_t dq_begin(dq_t* q)
__CPROVER_requires(__CPROVER_r_ok(q,sizeof(*q)))
__CPROVER_assigns()
__CPROVER_ensures(__CPROVER_return_value.pos==0 && __CPROVER_return_value.epoch==q->epoch);
it_t dq_end(dq_t* q)
__CPROVER_assigns()
__CPROVER_ensures(__CPROVER_return_value.pos==q->n && __CPROVER_return_value.epoch==q->epoch);
it_t dq_erase(dq_t* q, it_t it)
__CPROVER_requires(it.epoch==q->epoch && it.pos<q->n)             /*@ob C20.erase-valid-iterator */
__CPROVER_assigns(q->n, g_erased)
__CPROVER_ensures(q->n==__CPROVER_old(q->n)-1 && g_erased==__CPROVER_old(g_erased)+1)
__CPROVER_ensures(__CPROVER_return_value.pos==it.pos && __CPROVER_return_value.epoch==q->epoch);
_Bool marked_for_deletion(dq_t* q, it_t it)
__CPROVER_requires(it.epoch==q->epoch && it.pos<q->n)             /*@ob C20.deref-valid-iterator */
__CPROVER_assigns();
/* try_process of the element at it: may push (front/back) iff it dispatches */
opt_t try_process(pool_t* pool, it_t it, uint16_t seq)
__CPROVER_requires(it.epoch==pool->events.epoch && it.pos<pool->events.n)   /*@ob C20.deref-valid-iterator */
__CPROVER_requires(seq==pool->cur_seq_cnt)
__CPROVER_assigns(pool->events.n, pool->events.epoch, g_dispatches)
__CPROVER_ensures(__CPROVER_return_value.has ==> (g_dispatches==__CPROVER_old(g_dispatches)+1 && pool->events.n>=__CPROVER_old(pool->events.n) && pool->events.n<SIZE_CAP))
__CPROVER_ensures(!__CPROVER_return_value.has ==> (g_dispatches==__CPROVER_old(g_dispatches) && pool->events.n==__CPROVER_old(pool->events.n) && pool->events.epoch==__CPROVER_old(pool->events.epoch)))
__CPROVER_ensures(__CPROVER_return_value.v>=0 && __CPROVER_return_value.v<=7);

size_t do_process_event_pool(pool_t* event_pool, size_t max_events)
__CPROVER_requires(__CPROVER_is_fresh(event_pool,sizeof(*event_pool)) && event_pool->events.n>=1 && event_pool->events.n<SIZE_CAP && max_events>=1)
__CPROVER_requires(g_dispatches==0 && g_erased==0)
__CPROVER_assigns(event_pool->events.n, event_pool->events.epoch, event_pool->cur_seq_cnt, g_dispatches, g_erased)
__CPROVER_ensures(__CPROVER_return_value<=g_dispatches)                       /* processed counts only dispatched, non-"only deferred" */
__CPROVER_ensures(__CPROVER_return_value<=max_events)
{
        it_t it = dq_begin(&event_pool->events);
        size_t processed_events = 0;
        do
        __CPROVER_assigns(it, processed_events, event_pool->events.n, event_pool->events.epoch, event_pool->cur_seq_cnt, g_dispatches, g_erased)
        __CPROVER_loop_invariant(it.epoch==event_pool->events.epoch && it.pos<event_pool->events.n && event_pool->events.n<SIZE_CAP && processed_events<=g_dispatches && processed_events<max_events)
        {
            if (marked_for_deletion(&event_pool->events, it))
            {
                it = dq_erase(&event_pool->events, it);
                continue;
            }
            opt_t result = try_process(event_pool, it, event_pool->cur_seq_cnt);
            if (!result.has)
            {
                it.pos++;
                continue;
            }
            if (result.v != HANDLED_DEFERRED)
            {
                processed_events++;
                if (processed_events == max_events)
                {
                    break;
                }
            }
            it = dq_begin(&event_pool->events);
            if (!(result.v & HANDLED_DEFERRED))
            {
                event_pool->cur_seq_cnt += 1;
            }
        } while (!(it.pos == event_pool->events.n && it.epoch==event_pool->events.epoch));
        return processed_events;
}
void harness(void){ pool_t* p; size_t m; do_process_event_pool(p,m); }
