#include <stddef.h>
typedef enum { HANDLED_FALSE=0, HANDLED_TRUE=1, HANDLED_GUARD_REJECT=2, HANDLED_DEFERRED=4 } HandledEnum;

/* ghost state */
int g_next;       /* index of next row expected to be tried */
int g_consumed;   /* set once some row returned with TRUE or DEFERRED bit */
int g_n;          /* chain length */

/* abstract row: contract only */
HandledEnum row_execute(int idx, int region_index, int state)
__CPROVER_requires(idx == g_next && idx < g_n)
__CPROVER_requires(!g_consumed)
__CPROVER_assigns(g_next, g_consumed)
__CPROVER_ensures(g_next == __CPROVER_old(g_next) + 1)
__CPROVER_ensures(__CPROVER_return_value >= 0 && __CPROVER_return_value <= 7)
__CPROVER_ensures(g_consumed == ((__CPROVER_return_value & 5) != 0))
;

HandledEnum chain_execute(int seq, int region_index, int state)
__CPROVER_requires(0 <= seq && seq <= g_n && g_n <= 1000 && g_next == seq && !g_consumed)
__CPROVER_assigns(g_next, g_consumed)
__CPROVER_ensures(g_consumed == ((__CPROVER_return_value & 5) != 0))
__CPROVER_ensures(g_next <= g_n)
{
  if (seq == g_n) return HANDLED_FALSE;
  HandledEnum res = row_execute(seq, region_index, state);
  if (HANDLED_TRUE!=res && HANDLED_DEFERRED!=res)
  {
    HandledEnum sub_res = chain_execute(seq+1, region_index, state);
    if ((HANDLED_FALSE==sub_res) && (HANDLED_GUARD_REJECT==res) )
      return HANDLED_GUARD_REJECT;
    else
      return sub_res;
  }
  return res;
}
void harness(void){ int s,r,st; chain_execute(s,r,st); }
