#include <stddef.h>
typedef enum { HANDLED_FALSE=0, HANDLED_TRUE=1, HANDLED_GUARD_REJECT=2, HANDLED_DEFERRED=4 } HandledEnum;
#define MAXR 8
typedef struct fsm { int m_states[MAXR]; int nr_regions; } fsm_t;
typedef int event_t; typedef int type_t;

/* ---- staging-erased compile-time constants (symbolic => all instantiations at once) */
extern int policy;                 /* 0..3 */
/* real policy functions, extracted verbatim (here typed by hand for the probe) */
static int p0_after_guard(int c,int n){return c;} static int p0_after_exit(int c,int n){return c;}
static int p0_after_action(int c,int n){return c;} static int p0_after_entry(int c,int n){return n;}
static int p1_after_guard(int c,int n){return n;} static int p1_after_exit(int c,int n){return n;}
static int p1_after_action(int c,int n){return n;} static int p1_after_entry(int c,int n){return n;}
static int p2_after_guard(int c,int n){return c;} static int p2_after_exit(int c,int n){return n;}
static int p2_after_action(int c,int n){return n;} static int p2_after_entry(int c,int n){return n;}
static int p3_after_guard(int c,int n){return c;} static int p3_after_exit(int c,int n){return c;}
static int p3_after_action(int c,int n){return n;} static int p3_after_entry(int c,int n){return n;}
static int after_guard(int c,int n){ return policy==0?p0_after_guard(c,n):policy==1?p1_after_guard(c,n):policy==2?p2_after_guard(c,n):p3_after_guard(c,n);}
static int after_exit(int c,int n){ return policy==0?p0_after_exit(c,n):policy==1?p1_after_exit(c,n):policy==2?p2_after_exit(c,n):p3_after_exit(c,n);}
static int after_action(int c,int n){ return policy==0?p0_after_action(c,n):policy==1?p1_after_action(c,n):policy==2?p2_after_action(c,n):p3_after_action(c,n);}
static int after_entry(int c,int n){ return policy==0?p0_after_entry(c,n):policy==1?p1_after_entry(c,n):policy==2?p2_after_entry(c,n):p3_after_entry(c,n);}

/* ---- ghost */
int g_phase;      /* 0 start,1 guard done,2 exit done,3 action done,4 entry done */
int g_region, g_cur, g_next;
/* spec table taken from the property statement, independent of the code */
#define SPEC_DURING_EXIT   ((policy==1) ? g_next : g_cur)
#define SPEC_DURING_ACTION ((policy==1||policy==2) ? g_next : g_cur)
#define SPEC_DURING_ENTRY  ((policy==0) ? g_cur : g_next)

_Bool check_guard(fsm_t* fsm, event_t evt)
__CPROVER_requires(g_phase==0 && fsm->m_states[g_region]==g_cur)
__CPROVER_assigns(g_phase)
__CPROVER_ensures(g_phase==1);

void execute_exit(type_t st, fsm_t* fsm, event_t evt)
__CPROVER_requires(g_phase==1 && st==g_cur && fsm->m_states[g_region]==SPEC_DURING_EXIT)
__CPROVER_assigns(g_phase)
__CPROVER_ensures(g_phase==2);

HandledEnum action_call(fsm_t* fsm, event_t evt)
__CPROVER_requires(g_phase==2 && fsm->m_states[g_region]==SPEC_DURING_ACTION)
__CPROVER_assigns(g_phase)
__CPROVER_ensures(g_phase==3 && (__CPROVER_return_value==HANDLED_TRUE || __CPROVER_return_value==HANDLED_DEFERRED));

void execute_entry(type_t st, fsm_t* fsm, event_t evt)
__CPROVER_requires(g_phase==3 && st==g_next && fsm->m_states[g_region]==SPEC_DURING_ENTRY)
__CPROVER_assigns(g_phase)
__CPROVER_ensures(g_phase==4);

HandledEnum row_execute(fsm_t* fsm, int region_index, int state, event_t evt, int current_state, int next_state)
__CPROVER_requires(__CPROVER_is_fresh(fsm, sizeof(*fsm)))
__CPROVER_requires(0<=policy && policy<=3)
__CPROVER_requires(0<=region_index && region_index<MAXR && fsm->m_states[region_index]==current_state && state==current_state)
__CPROVER_requires(g_phase==0 && g_region==region_index && g_cur==current_state && g_next==next_state)
__CPROVER_assigns(g_phase, fsm->m_states[region_index])
__CPROVER_ensures(__CPROVER_return_value==HANDLED_GUARD_REJECT ==> (g_phase==1 && fsm->m_states[region_index]==current_state))
__CPROVER_ensures(__CPROVER_return_value!=HANDLED_GUARD_REJECT ==> (g_phase==4 && fsm->m_states[region_index]==next_state))
{
            if (!check_guard(fsm,evt))
            {
                // guard rejected the event, we stay in the current one
                return HANDLED_GUARD_REJECT;
            }
            fsm->m_states[region_index] = after_guard(current_state,next_state);

            // the guard condition has already been checked
            execute_exit(current_state,fsm,evt);
            fsm->m_states[region_index] = after_exit(current_state,next_state);

            // then call the action method
            HandledEnum res = action_call(fsm,evt);
            fsm->m_states[region_index] = after_action(current_state,next_state);

            // and finally the entry method of the new current state
            execute_entry(next_state,fsm,evt);
            fsm->m_states[region_index] = after_entry(current_state,next_state);
            return res;
}
void harness(void){ fsm_t* f; int r,s,c,n; event_t e; row_execute(f,r,s,e,c,n); }
