typedef enum { HANDLED_FALSE=0, HANDLED_TRUE=1, HANDLED_GUARD_REJECT=2, HANDLED_DEFERRED=4 } HandledEnum;
namespace boost { namespace mpl {
template<bool B> struct bool_ { static const bool value = B; typedef bool_<B> type; };
typedef bool_<true> true_; typedef bool_<false> false_;
struct nil { static const bool is_empty = true; typedef nil tail; typedef nil head; };
template<class H, class T> struct cons { static const bool is_empty=false; typedef H head; typedef T tail; };
template<class S> struct front { typedef typename S::head type; };
template<class S> struct pop_front { typedef typename S::tail type; };
template<class S> struct empty { typedef bool_<S::is_empty> type; };
}}
int nondet_int();
int g_next; int g_consumed;
struct Fsm { int m_states[2]; };
struct Event {};
template<int I> struct stub_row {
  static HandledEnum execute(Fsm&, int, int, Event const&) {
    __CPROVER_assert(g_next == I, "rows tried in order, once");
    __CPROVER_assert(!g_consumed, "no row tried after consumption");
    g_next = I+1;
    int r = nondet_int(); __CPROVER_assume(r>=0 && r<=7);
    g_consumed = (r & 5) != 0;
    return (HandledEnum)r;
  }
};
    template< typename Seq,typename AnEvent,typename State >
    struct chain_row
    {
        typedef State   current_state_type;
        typedef AnEvent transition_event;

        // helper for building a disable/enable_if-controlled execute function
        struct execute_helper
        {
            template <class Sequence>
            static
            HandledEnum
            execute(Fsm& , int, int, Event const& , ::boost::mpl::true_ const & )
            {
                // if at least one guard rejected, this will be ignored, otherwise will generate an error
                return HANDLED_FALSE;
            }

            template <class Sequence>
            static
            HandledEnum
            execute(Fsm& fsm, int region_index , int state, Event const& evt,
                    ::boost::mpl::false_ const & )
            {
                 // try the first guard
                 typedef typename ::boost::mpl::front<Sequence>::type first_row;
                 HandledEnum res = first_row::execute(fsm,region_index,state,evt);
                 if (HANDLED_TRUE!=res && HANDLED_DEFERRED!=res)
                 {
                    // if the first rejected, move on to the next one
                    HandledEnum sub_res = 
                         execute<typename ::boost::mpl::pop_front<Sequence>::type>(fsm,region_index,state,evt,
                            ::boost::mpl::bool_<
                                ::boost::mpl::empty<typename ::boost::mpl::pop_front<Sequence>::type>::type::value>());
                    // if at least one guards rejects, the event will not generate a call to no_transition
                    if ((HANDLED_FALSE==sub_res) && (HANDLED_GUARD_REJECT==res) )
                        return HANDLED_GUARD_REJECT;
                    else
                        return sub_res;
                 }
                 return res;
            }
        };
        // Take the transition action and return the next state.
        static HandledEnum execute(Fsm& fsm, int region_index, int state, Event const& evt)
        {
            // forward to helper
            return execute_helper::template execute<Seq>(fsm,region_index,state,evt,
                ::boost::mpl::bool_< ::boost::mpl::empty<Seq>::type::value>());
        }
    };
using namespace boost::mpl;
int main() {
  Fsm f; Event e; g_next=0; g_consumed=0;
  typedef cons<stub_row<0>, cons<stub_row<1>, cons<stub_row<2>, nil> > > seq;
  HandledEnum r = chain_row<seq,Event,int>::execute(f,0,0,e);
  __CPROVER_assert(g_consumed == ((r&5)!=0), "result consumed bit");
  return 0;
}
