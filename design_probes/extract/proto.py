#!/usr/bin/env python3
# THROW-AWAY feasibility prototype of cxx2c (not framework code)
import re, sys, json
TOK = re.compile(r'\s+|//[^\n]*|/\*.*?\*/|(::|->|\+\+|--|<<|>>|<=|>=|==|!=|&&|\|\||[-+*/%&|^]=|[A-Za-z_]\w*|\d[\w.]*|"(?:\\.|[^"\\])*"|\'(?:\\.|[^\'\\])*\'|.)', re.S)
def tokenize(s):
    return [m.group(1) for m in TOK.finditer(s) if m.group(1)]
def find_seq(toks, pat, start=0):
    n=len(pat)
    for i in range(start, len(toks)-n+1):
        if toks[i:i+n]==pat: return i
    return -1
def match_brace(toks, i, o='{', c='}'):
    d=0
    for j in range(i,len(toks)):
        if toks[j]==o: d+=1
        elif toks[j]==c:
            d-=1
            if d==0: return j
    raise SystemExit("unbalanced")
def parse_targs(toks, i):
    # toks[i]=='<' ; return (list of arg token lists, index after '>')
    d=0; args=[[]]; j=i
    while True:
        t=toks[j]
        if t=='<': d+=1; 
        if t=='>': d-=1
        if t=='>>': d-=2
        if d<=0: 
            return args, j+1
        if t==',' and d==1: args.append([])
        elif not (t=='<' and d==1 and j==i): args[-1].append(t)
        j+=1
class Rules:
    def __init__(s): s.fired={}
    def hit(s,n): s.fired[n]=s.fired.get(n,0)+1
R=Rules()
NS=[['::','boost','::','msm','::','back','::'],['boost','::','msm','::','back','::'],['::','boost','::','fusion','::'],['::','boost','::','mpl','::'],['boost','::']]
def strip_ns(toks):
    out=[];i=0
    while i<len(toks):
        for p in NS:
            if toks[i:i+len(p)]==p: i+=len(p); R.hit('NS'); break
        else:
            out.append(toks[i]); i+=1
    return out
def xlate_expr(toks, templates, typevars):
    """TARG/TVAL/TCALL on a token list"""
    out=[]; i=0
    while i<len(toks):
        t=toks[i]
        if t in templates and i+1<len(toks) and toks[i+1]=='<':
            args,j=parse_targs(toks,i+1)
            args=[xlate_expr(a,templates,typevars) for a in args]
            # trailing ::type / ::value / ::type::value
            k=j
            while toks[k:k+2] in (['::','type'],['::','value']): k+=2; R.hit('TVAL')
            if k<len(toks) and toks[k]=='(':      # call: f<T..>(a..) -> f(T.., a..)
                e=match_brace(toks,k,'(',')')
                inner=xlate_expr(toks[k+1:e],templates,typevars)
                out += [t,'(']
                first=True
                for a in args:
                    if not first: out.append(',')
                    out+=a; first=False
                if inner: out+=[',']+inner
                out.append(')'); R.hit('TARG'); i=e+1
            else:                                   # value: M<A>::type::value -> M(A)
                out += [t,'(']
                for n,a in enumerate(args):
                    if n: out.append(',')
                    out+=a
                out.append(')'); R.hit('TVALUE'); i=k
            continue
        if t in typevars and toks[i+1:i+2]==['::'] and i+3<len(toks) and toks[i+3]=='(':   # T::f(a..) -> T_f... via map
            f=toks[i+2]; e=match_brace(toks,i+3,'(',')')
            inner=xlate_expr(toks[i+4:e],templates,typevars)
            out += [typevars[t]+'_'+f,'(']+inner+[')']; R.hit('TCALL'); i=e+1; continue
        out.append(t); i+=1
    return out
def main():
    hdr=open(sys.argv[1]).read(); recipe=json.load(open(sys.argv[2]))
    toks=tokenize(hdr)
    # scope: struct <name>
    s=find_seq(toks,['struct',recipe['struct']])
    assert s>=0,"anchor struct"
    b=toks.index('{',s); e=match_brace(toks,b)
    scope=toks[b:e]
    a=find_seq(scope, tokenize(recipe['anchor']))
    assert a>=0,"anchor sig"
    assert find_seq(scope, tokenize(recipe['anchor']), a+1)<0,"anchor unique"
    fb=scope.index('{',a); fe=match_brace(scope,fb)
    body=scope[fb+1:fe]; nbody=len(body)
    body=strip_ns(body)
    # SCONST
    out=[];i=0
    while i<len(body):
        if body[i]=='BOOST_STATIC_CONSTANT':
            e2=match_brace(body,i+1,'(',')'); inner=body[i+2:e2]   # int , name = ( expr )
            out+=['const']+inner[0:1]+inner[2:]; R.hit('SCONST'); i=e2+1; continue
        if body[i:i+3]==['ignore_unused','(' ,'state'] or body[i]=='ignore_unused':
            e2=match_brace(body,i+1,'(',')'); R.hit('DROP'); i=e2+2; continue
        if body[i]=='BOOST_ASSERT':
            e2=match_brace(body,i+1,'(',')'); out+=['__CPROVER_assert','(']+body[i+2:e2]+[',','"BOOST_ASSERT"',')']; R.hit('ASSERT'); i=e2+1; continue
        out.append(body[i]); i+=1
    body=out
    body=xlate_expr(body, set(recipe['templates']), recipe['typevars'])
    # REF: fsm. -> fsm->
    out=[]
    for i,t in enumerate(body):
        if t=='.' and body[i-1] in recipe['refparams']: out.append('->'); R.hit('REF')
        else: out.append(t)
    body=out
    # emit
    txt=' '.join(body)
    txt=re.sub(r'\s*;\s*','; \n    ',txt); txt=txt.replace('{','{\n    ').replace('}','}\n    ')
    print(recipe['csig']); print(recipe.get('contract','')); print('{\n    '+txt+'\n}')
    sys.stderr.write(json.dumps({'body_tokens':nbody,'fired':R.fired})+'\n')
main()
