typedef enum { HANDLED_FALSE=0, HANDLED_TRUE=1, HANDLED_GUARD_REJECT=2, HANDLED_DEFERRED=4 } HandledEnum;
typedef int type_t; typedef int event_t; typedef int stref_t; typedef int slist_t;
#define MAXR 8
typedef struct fsm { int m_states[MAXR]; slist_t m_substate_list; } fsm_t;
extern const type_t stt, current_state_type, next_state_type, T1, T2, library_sm;
extern const int policy;
int __CPROVER_uninterpreted_get_state_id(type_t, type_t);
#define get_state_id __CPROVER_uninterpreted_get_state_id
_Bool __CPROVER_uninterpreted_has_pseudo_exit(type_t);
#define has_pseudo_exit __CPROVER_uninterpreted_has_pseudo_exit
type_t __CPROVER_uninterpreted_get_owner(type_t,type_t);
#define get_owner __CPROVER_uninterpreted_get_owner
stref_t __CPROVER_uninterpreted_at_key(type_t, slist_t);
#define at_key __CPROVER_uninterpreted_at_key
/* the four real policies (would be extracted verbatim too) */
static int policy_after_guard(int c,int n){ return policy==1? n : c; }
static int policy_after_exit(int c,int n){ return (policy==1||policy==2)? n : c; }
static int policy_after_action(int c,int n){ return policy==0? c : n; }
static int policy_after_entry(int c,int n){ return n; }
int g_phase, g_region, g_cur, g_next; _Bool g_exit_active;
#define CUR get_state_id(stt,current_state_type)
#define NXT get_state_id(stt,next_state_type)
#define ORACLE_EXIT   ((policy==1)?NXT:CUR)
#define ORACLE_ACTION ((policy==1||policy==2)?NXT:CUR)
#define ORACLE_ENTRY  ((policy==0)?CUR:NXT)
_Bool is_exit_state_active(type_t t, type_t owner, fsm_t* fsm)
__CPROVER_requires(g_phase==0)
__CPROVER_assigns()
__CPROVER_ensures(__CPROVER_return_value==g_exit_active);
_Bool check_guard(fsm_t* fsm, event_t evt)
__CPROVER_requires(g_phase==0 && fsm->m_states[g_region]==CUR)
__CPROVER_requires(!has_pseudo_exit(T1) || g_exit_active)   /*@ob C09.outer-row-only-while-exit-point-active */
__CPROVER_assigns(g_phase) __CPROVER_ensures(g_phase==1);
void execute_exit(type_t st, stref_t s, event_t evt, fsm_t* fsm)
__CPROVER_requires(g_phase==1 && st==current_state_type && fsm->m_states[g_region]==ORACLE_EXIT)
__CPROVER_assigns(g_phase) __CPROVER_ensures(g_phase==2);
HandledEnum ROW_action_call(fsm_t* fsm, event_t evt, stref_t s, stref_t t, slist_t all)
__CPROVER_requires(g_phase==2 && fsm->m_states[g_region]==ORACLE_ACTION)
__CPROVER_assigns(g_phase) __CPROVER_ensures(g_phase==3 && (__CPROVER_return_value==HANDLED_TRUE||__CPROVER_return_value==HANDLED_DEFERRED));
void convert_event_and_execute_entry(type_t st, type_t tgt, stref_t s, event_t evt, fsm_t* fsm)
__CPROVER_requires(g_phase==3 && st==next_state_type && fsm->m_states[g_region]==ORACLE_ENTRY)
__CPROVER_assigns(g_phase) __CPROVER_ensures(g_phase==4);

HandledEnum row_execute(fsm_t* fsm, int region_index, int state, event_t evt)
__CPROVER_requires(__CPROVER_is_fresh(fsm,sizeof(*fsm)) && 0<=policy && policy<=3)
__CPROVER_requires(0<=region_index && region_index<MAXR && fsm->m_states[region_index]==CUR && state==CUR)
__CPROVER_requires(g_phase==0 && g_region==region_index)
__CPROVER_assigns(g_phase, fsm->m_states[region_index])
__CPROVER_ensures((has_pseudo_exit(T1) && !g_exit_active) ==> (__CPROVER_return_value==HANDLED_FALSE && g_phase==0 && fsm->m_states[region_index]==CUR))
__CPROVER_ensures(__CPROVER_return_value==HANDLED_GUARD_REJECT ==> (g_phase==1 && fsm->m_states[region_index]==CUR))
__CPROVER_ensures((__CPROVER_return_value==HANDLED_TRUE||__CPROVER_return_value==HANDLED_DEFERRED) ==> (g_phase==4 && fsm->m_states[region_index]==NXT))
#include "body.inc"
void harness(void){ fsm_t* f; int r,s; event_t e; row_execute(f,r,s,e); }
