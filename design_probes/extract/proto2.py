#!/usr/bin/env python3
# THROW-AWAY feasibility prototype #2: OVL + TVAR + nested TARG on the real chain_row (not framework code)
import re, sys, json
exec(open('proto.py').read().split("def main():")[0])   # reuse tokenizer/helpers
def drop(toks, names):
    return [t for t in toks if t not in names]
def tvar_rule(body):
    # typedef M<A..>::type name ;  ->  const type_t name = M(A..) ;
    out=[]; i=0
    while i<len(body):
        if body[i]=='typedef':
            j=body.index(';',i); decl=body[i+1:j]; name=decl[-1]; expr=decl[:-1]
            out += ['const','type_t',name,'=']+expr+[';']; R.hit('TVAR'); i=j+1; continue
        out.append(body[i]); i+=1
    return out
def bool_rule(toks):
    # bool_ ( E ) ( )  -> E      [after TVALUE turned bool_<E>() into bool_(E)()]
    out=[];i=0
    while i<len(toks):
        if toks[i]=='bool_' and toks[i+1]=='(':
            e=match_brace(toks,i+1,'(',')')
            if toks[e+1:e+3]==['(',')']:
                out+=['(']+bool_rule(toks[i+2:e])+[')']; R.hit('OVL-tag'); i=e+3; continue
        out.append(toks[i]); i+=1
    return out
def get_body(scope, anchor, nth=0):
    a=-1
    for _ in range(nth+1):
        a=find_seq(scope, anchor, a+1)
        assert a>=0, "anchor"
    fb=scope.index('{',a); fe=match_brace(scope,fb)
    return scope[fb+1:fe]
hdr=open(sys.argv[1]).read(); toks=strip_ns(tokenize(hdr))
s=find_seq(toks,['struct','execute_helper']); b=toks.index('{',s); e=match_brace(toks,b); scope=toks[b:e]
sig_true = tokenize("execute(Fsm& , int, int, Event const& , true_ const & )")
sig_false= tokenize("execute(Fsm& fsm, int region_index , int state, Event const& evt, false_ const & )")
templates={'front','pop_front','empty','bool_','execute'}
def xl(body):
    body=drop(body,{'typename','template'})
    body=tvar_rule(body)
    body=xlate_expr(body,templates,{'first_row':'row'})
    body=bool_rule(body)
    # T::f where T is a type var -> row_execute(first_row, ...)
    txt=' '.join(body).replace('row_execute (','row_execute ( first_row ,')
    return txt
bt=xl(get_body(scope,sig_true)); bf=xl(get_body(scope,sig_false))
def pretty(t): 
    t=re.sub(r'\s*;\s*',';\n      ',t); return t.replace('{','{\n      ').replace('}','}\n      ')
print("HandledEnum execute(seq_t Sequence, fsm_t* fsm, int region_index, int state, event_t evt, _Bool tag)\nCONTRACT_execute\n{\n  if (tag) {\n      "+pretty(bt)+"\n  } else {\n      "+pretty(bf)+"\n  }\n}")
sys.stderr.write(json.dumps(R.fired)+"\n")
