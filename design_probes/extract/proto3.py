#!/usr/bin/env python3
# THROW-AWAY feasibility prototype #3: backmp11 process_event_internal (PP, CONSTEXPR-IF, MEMBER, METHOD, THIS, ENUMQ, TRY/EXC)
import re, sys, json
src=open('proto.py').read().split("def main():")[0]
exec(src)
hdr=open(sys.argv[1]).read()
# ---- PP rule: resolve #if/#ifndef/#else/#endif inside with a fixed macro environment
DEFINED=set()   # BOOST_NO_EXCEPTIONS undefined
def pp(text):
    out=[]; stack=[]
    for line in text.split('\n'):
        m=re.match(r'\s*#\s*(ifndef|ifdef|else|endif|if)\b\s*(.*)',line)
        if m:
            d,a=m.group(1),m.group(2).strip()
            if d=='ifndef': stack.append(a not in DEFINED); R.hit('PP')
            elif d=='ifdef': stack.append(a in DEFINED); R.hit('PP')
            elif d=='if': stack.append(None)      # unknown: keep both?  (not inside our unit)
            elif d=='else': stack[-1]= (not stack[-1]) if stack[-1] is not None else None
            elif d=='endif': stack.pop()
            continue
        if all(x is not False for x in stack): out.append(line)
    return '\n'.join(out)
a=hdr.index('BOOST_NOINLINE process_result process_event_internal'); b=hdr.index('{',a)
# brace match on text
d=0
for j in range(b,len(hdr)):
    if hdr[j]=='{': d+=1
    elif hdr[j]=='}':
        d-=1
        if d==0: break
body_txt=pp(hdr[b+1:j])
body=strip_ns(tokenize(body_txt))
MEMBERS={'m_event_processing','m_active_state_ids','m_running','m_history'}
METHODS={'is_flag_active','is_end_interrupt_event','get_event_pool','do_process_event','process_event_pool','get_fsm_argument','exception_caught'}
TEMPLATES={'is_flag_active','mp_any_of','has_no_exception_thrown'}
out=[];i=0
while i<len(body):
    t=body[i]
    if t=='if' and body[i+1]=='constexpr': out.append('if'); i+=2; R.hit('CONSTEXPR-IF'); continue
    if t=='self' and body[i+1:i+3]==['(',')']: out.append('self'); i+=3; R.hit('SELF'); continue
    if t=='this' and body[i+1]=='->': i+=2; R.hit('THIS'); continue
    if t in ('process_result','process_info') and body[i+1]=='::': 
        out.append(body[i+2] if t=='process_result' else 'process_info_'+body[i+2]); i+=3; R.hit('ENUMQ'); continue
    if t in ('compile_policy_impl','event_pool_member') and body[i+1]=='::':
        out.append(t+'_'+body[i+2]); i+=3; R.hit('SCOPE'); continue
    if t in MEMBERS and (not out or out[-1] not in ('.','->')): out+=['self','->',t]; i+=1; R.hit('MEMBER'); continue
    out.append(t); i+=1
body=xlate_expr(out,TEMPLATES,{})
# METHOD: f( -> f(self,   (after TARG)
out=[];i=0
while i<len(body):
    t=body[i]
    if t in METHODS and body[i+1]=='(' and (not out or out[-1] not in ('.','->','_')):
        out+=[t,'(','self']; 
        if body[i+2]!=')': out.append(',')
        i+=2; R.hit('METHOD'); continue
    out.append(t); i+=1
body=out
# TRY rule
txt=' '.join(body)
m=re.search(r'try \{(.*?)\} catch \( exception & e \) \{(.*?)\}',txt,re.S)
if m:
    txt=txt[:m.start()]+'{'+m.group(1)+' if ( g_exc ) { g_exc = 0 ; '+m.group(2)+' } }'+txt[m.end():]; R.hit('TRY')
txt=re.sub(r'\s*;\s*',';\n    ',txt); txt=txt.replace('{','{\n    ').replace('}','}\n    ')
print(txt); sys.stderr.write(json.dumps(R.fired)+'\n')
