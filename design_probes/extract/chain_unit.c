typedef enum { HANDLED_FALSE=0, HANDLED_TRUE=1, HANDLED_GUARD_REJECT=2, HANDLED_DEFERRED=4 } HandledEnum;
typedef int type_t; typedef int seq_t; typedef int event_t; typedef struct fsm { int m_states[8]; } fsm_t;
/* mpl list reflected: a list is a position in the (abstract) row sequence of length g_n */
extern const int g_n; extern const _Bool g_first_is_frow;
#define front(s) (s)
#define pop_front(s) ((s)+1)
#define empty(s) ((s)==g_n)
#define bool_(x) (x)
int g_chain_pos; _Bool g_consumed; int g_taken;
HandledEnum row_execute(type_t row, fsm_t* fsm, int region_index, int state, event_t evt)
__CPROVER_requires(row == g_chain_pos && row < g_n)           /*@ob C01.rows-tried-in-list-order-once */
__CPROVER_requires(!g_consumed)                                /*@ob C01.no-candidate-after-consumption */
__CPROVER_assigns(g_chain_pos, g_consumed, g_taken)
__CPROVER_ensures(g_chain_pos == __CPROVER_old(g_chain_pos)+1)
__CPROVER_ensures(__CPROVER_return_value>=0 && __CPROVER_return_value<=7)
__CPROVER_ensures((row==0 && g_first_is_frow) || __CPROVER_return_value==0 || __CPROVER_return_value==1 || __CPROVER_return_value==2 || __CPROVER_return_value==4)
__CPROVER_ensures(g_consumed == ((__CPROVER_return_value & 5)!=0))
__CPROVER_ensures(g_taken == __CPROVER_old(g_taken) + ((__CPROVER_return_value & 1)!=0));
#define CONTRACT_execute \
__CPROVER_requires(0<=Sequence && Sequence<=g_n && g_n<=100000 && g_chain_pos==Sequence && !g_consumed && tag==empty(Sequence) && g_taken>=0 && g_taken<1000) \
__CPROVER_assigns(g_chain_pos,g_consumed,g_taken) \
__CPROVER_ensures(g_consumed == ((__CPROVER_return_value & 5)!=0))                 /*@ob C01.result-consumed-bit */ \
__CPROVER_ensures(((__CPROVER_return_value & 1)!=0) == (g_taken > __CPROVER_old(g_taken)))  /*@ob C06.handled-bit-iff-taken */ \
__CPROVER_ensures(g_taken <= __CPROVER_old(g_taken)+1)                            /*@ob C01.at-most-one-taken */ \
__CPROVER_ensures(!g_consumed ==> g_chain_pos==g_n)                                /*@ob C01.all-candidates-tried-if-none-consumed */
#include "chain_body.inc"
void harness(void){ seq_t s; fsm_t* f; int r,st; event_t e; _Bool t; execute(s,f,r,st,e,t); }
