#include <boost/msm/back/state_machine.hpp>
#include <boost/msm/backmp11/state_machine.hpp>
#include <boost/msm/front/state_machine_def.hpp>
#include <boost/msm/front/functor_row.hpp>
#include <cstdio>
#include <string>
namespace msm = boost::msm; namespace mpl = boost::mpl; using namespace msm::front;
struct ev {}; struct enter {};
std::string g_log;
template<char C> struct Lg { template<class E,class F,class S,class T> void operator()(E const&,F&,S&,T&){ g_log+=C; g_log+=' '; } };
template<template<class...> class BE> struct Mk {
  struct Sub_ : state_machine_def<Sub_> {
    struct I : state<> { template<class E,class F> void on_entry(E const&,F& f){ g_log+="I.entry{ "; f.process_event(ev()); g_log+="} "; } };
    struct J : state<> {}; struct K : state<> {}; struct L : state<> {};
    typedef I initial_state;
    struct transition_table : mpl::vector<
      Row<I,none,J,Lg<'c'>,none>,     // completion
      Row<I,ev,K,Lg<'k'>,none>,
      Row<J,ev,L,Lg<'l'>,none> > {};
    template<class F,class Ev> void no_transition(Ev const&,F&,int){ g_log+="NTsub "; }
  };
  typedef BE<Sub_> Sub;
  struct Top_ : state_machine_def<Top_> {
    struct O : state<> {};
    typedef O initial_state;
    struct transition_table : mpl::vector< Row<O,enter,Sub,none,none> > {};
    template<class F,class Ev> void no_transition(Ev const&,F&,int){ g_log+="NT "; }
  };
  typedef BE<Top_> Top;
};
int main(){
  { g_log.clear(); Mk<msm::back::state_machine>::Top m; m.start(); m.process_event(enter()); printf("back     sub entry: %s\n", g_log.c_str()); }
  { g_log.clear(); Mk<msm::backmp11::state_machine>::Top m; m.start(); m.process_event(enter()); printf("backmp11 sub entry: %s\n", g_log.c_str()); }
  // same machine as ROOT (start())
  { g_log.clear(); Mk<msm::back::state_machine>::Sub m; m.start(); printf("back     root start: %s\n", g_log.c_str()); }
  { g_log.clear(); Mk<msm::backmp11::state_machine>::Sub m; m.start(); printf("backmp11 root start: %s\n", g_log.c_str()); }
}
