#include <boost/msm/backmp11/detail/basic_polymorphic.hpp>
#include <boost/msm/backmp11/common_types.hpp>
#include <cstdio>
#include <string>
#include <deque>
#include <vector>
using namespace boost::msm::backmp11::detail;
struct Base { virtual ~Base(){} int tag=0; };
static int live=0;
template<int N,bool NothrowMove> struct Ev : Base { char pad[N]; std::string s; Ev():s("hello world, long enough to allocate......."){ live++; for(int i=0;i<N;i++) pad[i]=(char)i; }
  Ev(const Ev& o):Base(o),s(o.s){ live++; for(int i=0;i<N;i++) pad[i]=o.pad[i]; } Ev(Ev&& o) noexcept(NothrowMove):Base(o),s(std::move(o.s)){ live++; for(int i=0;i<N;i++) pad[i]=o.pad[i]; } ~Ev(){ live--; }
  bool ok() const { for(int i=0;i<N;i++) if(pad[i]!=(char)i) return false; return true; } };
struct Triv : Base { int v[4]; };
template<class T> void cycle(){
  using P = basic_polymorphic<Base>;
  { std::deque<P> d; d.push_back(P::make(T{})); d.push_front(P::make(T{})); d.push_back(P::make<T>());
    std::deque<P> c(d); c.erase(c.begin()); c = d; P moved = std::move(d.front()); d.pop_front(); P p2; p2 = moved; p2 = std::move(moved); moved = p2; 
    std::vector<P> v; for(auto& x: c) v.push_back(x); v.erase(v.begin()); }
}
int main(){ cycle<Ev<1,true>>(); cycle<Ev<40,true>>(); cycle<Ev<200,true>>(); cycle<Ev<8,false>>(); cycle<Triv>(); printf("live=%d\n",live); }
