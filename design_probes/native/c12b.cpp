#include <boost/msm/backmp11/state_machine.hpp>
#include <boost/msm/front/state_machine_def.hpp>
#include <boost/msm/front/functor_row.hpp>
#include <cstdio>
#include <stdexcept>
namespace msm = boost::msm; namespace mpl = boost::mpl; using namespace msm::front;
struct Thrower { template<class E,class F,class S,class T> void operator()(E const&,F&,S&,T&){ throw std::runtime_error("x"); } };
struct M_ : state_machine_def<M_> {
  struct I : state<> {}; struct J : state<> {};
  typedef I initial_state;
  struct transition_table : mpl::vector< Row<I,none,J,Thrower,none> > {};
  template<class F,class Ev> void no_transition(Ev const&,F&,int){ }
  template<class F,class Ev> void exception_caught(Ev const&,F&,std::exception&){ puts("caught"); }
};
int main(){ msm::backmp11::state_machine<M_> m; m.start(); printf("state=%d\n",(int)m.get_active_state_ids()[0]); }
