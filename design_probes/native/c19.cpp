#include <boost/msm/back/state_machine.hpp>
#include <boost/msm/back11/state_machine.hpp>
#include <boost/msm/backmp11/state_machine.hpp>
#include <boost/msm/front/state_machine_def.hpp>
#include <boost/msm/front/functor_row.hpp>
#include <cstdio>
#include <string>
namespace msm = boost::msm; namespace mpl = boost::mpl; using namespace msm::front;
struct go {};
std::string g_log;
template<class F> int cur(F& f);
template<class F> auto cur_impl(F& f,int) -> decltype(f.current_state()[0]) { return f.current_state()[0]; }
template<class F> auto cur_impl(F& f,long) -> int { return (int)f.get_active_state_ids()[0]; }
template<class F> int cur(F& f){ return cur_impl(f,0); }
template<class Policy> struct M_ : state_machine_def<M_<Policy>> {
  typedef Policy active_state_switch_policy;
  struct S : state<> { template<class E,class F> void on_exit(E const&,F& f){ g_log+="exit:"+std::to_string(cur(f))+" "; } };
  struct T : state<> { template<class E,class F> void on_entry(E const&,F& f){ g_log+="entry:"+std::to_string(cur(f))+" "; } };
  struct G { template<class E,class F,class A,class B> bool operator()(E const&,F& f,A&,B&){ g_log+="guard:"+std::to_string(cur(f))+" "; return true; } };
  struct Act { template<class E,class F,class A,class B> void operator()(E const&,F& f,A&,B&){ g_log+="action:"+std::to_string(cur(f))+" "; } };
  typedef S initial_state;
  struct transition_table : mpl::vector< Row<S,go,T,Act,G> > {};
  template<class F,class Ev> void no_transition(Ev const&,F&,int){}
};
template<template<class...> class BE, class P> void run(const char* be,const char* pn){ g_log.clear(); BE<M_<P>> m; m.start(); m.process_event(go()); printf("%-8s %-24s %s after:%d\n",be,pn,g_log.c_str(),cur(m)); }
#define ALL(BE,name) run<BE,msm::active_state_switch_after_entry>(name,"after_entry"); run<BE,msm::active_state_switch_after_transition_action>(name,"after_transition_action"); run<BE,msm::active_state_switch_after_exit>(name,"after_exit"); run<BE,msm::active_state_switch_before_transition>(name,"before_transition");
int main(){ ALL(msm::back::state_machine,"back") ALL(msm::back11::state_machine,"back11") ALL(msm::backmp11::state_machine,"backmp11") }
