#include <boost/msm/back/state_machine.hpp>
#include <boost/msm/front/state_machine_def.hpp>
#include <boost/msm/front/functor_row.hpp>
#include <cstdio>
namespace msm = boost::msm; namespace mpl = boost::mpl; using namespace msm::front;
struct nb {}; struct leave {}; struct resume {}; struct resume_plain {};
struct Sub_ : msm::front::state_machine_def<Sub_> {
  struct A1 : state<> {}; struct A3 : state<>, explicit_entry<0> {};
  struct B1 : state<> {}; struct B2 : state<> {};
  typedef mpl::vector<A1,B1> initial_state;
  struct transition_table : mpl::vector<
    Row<B1,nb,B2,none,none>,
    Row<A3,nb,A1,none,none> > {};
  typedef mpl::vector<A3> explicit_creation;
  template<class F,class Ev> void no_transition(Ev const&,F&,int){}
};
typedef msm::back::state_machine<Sub_, msm::back::ShallowHistory<mpl::vector<resume,resume_plain> > > Sub;
struct Top_ : msm::front::state_machine_def<Top_> {
  struct Out : state<> {};
  typedef Sub initial_state;
  struct transition_table : mpl::vector<
    Row<Sub,leave,Out,none,none>,
    Row<Out,resume,Sub::direct<Sub_::A3>,none,none>,
    Row<Out,resume_plain,Sub,none,none> > {};
  template<class F,class Ev> void no_transition(Ev const&,F&,int){}
};
typedef msm::back::state_machine<Top_> Top;
int main(){
  { Top m; m.start(); m.process_event(nb()); // B1->B2
    Sub& s = m.get_state<Sub&>(); printf("before leave: A=%d B=%d\n", s.current_state()[0], s.current_state()[1]);
    m.process_event(leave()); m.process_event(resume_plain());
    printf("plain resume (history event): A=%d B=%d\n", s.current_state()[0], s.current_state()[1]);
    m.process_event(leave()); m.process_event(resume());
    printf("explicit entry A3 with history event: A=%d B=%d  (B should be the remembered B2)\n", s.current_state()[0], s.current_state()[1]); }
}
