#include <boost/msm/back/state_machine.hpp>
#include <boost/msm/backmp11/state_machine.hpp>
#include <boost/msm/front/state_machine_def.hpp>
#include <boost/msm/front/functor_row.hpp>
#include <cstdio>
#include <string>
#include <stdexcept>
namespace msm = boost::msm; namespace mpl = boost::mpl; using namespace msm::front;
struct ev {}; struct enter {};
std::string g_log; bool g_throw=true;
template<char C> struct Lg { template<class E,class F,class S,class T> void operator()(E const&,F&,S&,T&){ g_log+=C; g_log+=' '; } };
template<template<class...> class BE, class Policy> struct Mk {
  struct Sub_ : state_machine_def<Sub_> {
    struct I : state<> { template<class E,class F> void on_entry(E const&,F&){ g_log+="I.entry "; if(g_throw){ g_throw=false; throw std::runtime_error("x"); } } };
    struct J : state<> {};
    typedef I initial_state;
    struct transition_table : mpl::vector< Row<I,ev,J,Lg<'j'>,none> > {};
    template<class F,class Ev> void no_transition(Ev const&,F&,int){ g_log+="NTsub "; }
    template<class F,class Ev> void exception_caught(Ev const&,F&,std::exception&){ g_log+="CAUGHTsub "; }
  };
  typedef BE<Sub_> Sub;
  struct Top_ : state_machine_def<Top_> {
    typedef Policy active_state_switch_policy;
    struct O : state<> {};
    typedef O initial_state;
    struct transition_table : mpl::vector< Row<O,enter,Sub,none,none> > {};
    template<class F,class Ev> void no_transition(Ev const&,F&,int){ g_log+="NT "; }
    template<class F,class Ev> void exception_caught(Ev const&,F&,std::exception&){ g_log+="CAUGHT "; }
  };
  typedef BE<Top_> Top;
};
template<class T> int top_state(T& m);
int main(){
  { typedef Mk<msm::back::state_machine, msm::active_state_switch_before_transition> K; g_throw=true; g_log.clear(); K::Top m; m.start();
    int r=m.process_event(enter()); g_log+="| "; int r2=m.process_event(ev()); int r3=m.process_event(ev());
    printf("back     before_transition: r=%d top=%d sub=%d r2=%d r3=%d subq=%zu : %s\n", r, m.current_state()[0], m.template get_state<K::Sub&>().current_state()[0], r2, r3, m.template get_state<K::Sub&>().get_message_queue_size(), g_log.c_str()); }
  { typedef Mk<msm::backmp11::state_machine, msm::active_state_switch_before_transition> K; g_throw=true; g_log.clear(); K::Top m; m.start();
    int r=m.process_event(enter()); g_log+="| "; int r2=m.process_event(ev()); int r3=m.process_event(ev());
    printf("backmp11 before_transition: r=%d top=%d sub=%d r2=%d r3=%d : %s\n", r, (int)m.get_active_state_ids()[0], (int)m.template get_state<K::Sub>().get_active_state_ids()[0], r2, r3, g_log.c_str()); }
}
