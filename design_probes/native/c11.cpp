#include <boost/msm/back/state_machine.hpp>
#include <boost/msm/backmp11/state_machine.hpp>
#include <boost/msm/front/state_machine_def.hpp>
#include <boost/msm/front/functor_row.hpp>
#include <cstdio>
#include <string>
namespace msm = boost::msm; namespace mpl = boost::mpl; using namespace msm::front;
struct e1 { int id; }; struct kill {}; struct intr {}; struct resume {}; struct go {};
struct FlagX {};
std::string g_log;
template<char C> struct Lg { template<class E,class F,class S,class T> void operator()(E const&,F&,S&,T&){ g_log+=C; g_log+=' '; } };
struct M_ : state_machine_def<M_> {
  struct A : state<> { typedef mpl::vector<e1> deferred_events; typedef mpl::vector<FlagX> flag_list; };
  struct B : state<> {};
  struct R0 : state<> {};
  struct Dead : terminate_state<> {};
  struct Int : interrupt_state<resume> {};
  typedef mpl::vector<A,R0> initial_state;
  struct transition_table : mpl::vector<
    Row<A,go,B,Lg<'g'>,none>, Row<B,e1,none,Lg<'h'>,none>, Row<B,go,A,Lg<'G'>,none>,
    Row<R0,kill,Dead,Lg<'k'>,none>, Row<R0,intr,Int,Lg<'i'>,none>, Row<Int,resume,R0,Lg<'r'>,none> > {};
  template<class F,class Ev> void no_transition(Ev const&,F&,int){ g_log+="NT "; }
};
template<class T> void run(const char* n){
  { g_log.clear(); T m; m.start(); m.process_event(e1{1}); m.process_event(kill()); g_log+="| "; int r=m.process_event(go()); int r2=m.process_event(e1{2}); m.process_event(resume());
    printf("%-8s terminate: %s ret(go)=%d ret(e1)=%d flagX=%d\n",n,g_log.c_str(),r,r2,(int)m.template is_flag_active<FlagX>()); }
  { g_log.clear(); T m; m.start(); m.process_event(e1{1}); m.process_event(intr()); g_log+="| "; m.process_event(go()); g_log+="| "; m.process_event(resume()); g_log+="| "; m.process_event(go());
    printf("%-8s interrupt: %s\n",n,g_log.c_str()); }
}
int main(){ run<msm::back::state_machine<M_>>("back"); run<msm::backmp11::state_machine<M_>>("backmp11"); }
