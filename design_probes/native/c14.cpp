#include <boost/msm/front/puml/puml.hpp>
#include <cstdio>
#include <string>
using namespace boost::msm::front::puml::detail;
void show(const char* s){ auto t = parse_row(s);
  printf("%-48s| src='%.*s' tgt='%.*s' ev='%.*s' guard='%.*s' action='%.*s'\n", s,
   (int)t.source.size(), t.source.data(), (int)t.target.size(), t.target.data(), (int)t.event.size(), t.event.data(),
   (int)t.guard.size(), t.guard.data(), (int)t.action.size(), t.action.data()); }
int main(){
  show("A -> B : e / act [g]");
  show("A -> B : e [g] / act");
  show("A --> B : e / a1, a2 [g1 && g2]");
  show("A ---> B:e/a[g]");
  show("  A  ---->  B  :  e  ");
  show("A -> B");
  show("A -> B : e [g]");
  show("A -> B : e / a");
  show("A : -e / a [g]");
  show("A -> B : e [!(g1||g2)] / a1,a2,a3");
  show("A->B:e");
  show("A -> B : / a");
  show("A -> B : [g]");
  show("A_1 -> B-2 : e");
}
