#include <boost/msm/front/puml/puml.hpp>
#include <boost/core/demangle.hpp>
#include <cstdio>
#include <string>
#include <regex>
using namespace boost::msm::front::puml;
template<class T> std::string nm(){ std::string s=boost::core::demangle(typeid(T).name());
  s=std::regex_replace(s,std::regex("boost::msm::front::puml::"),""); s=std::regex_replace(s,std::regex("boost::msm::front::"),""); return s; }
#define SHOW(str) { auto g = detail::parse_guard([](){ return std::string_view(str); }); printf("%-28s => %s\n", str, nm<decltype(g)>().c_str()); }
int main(){
  printf("G1=%u G2=%u G3=%u G4=%u\n", by_name("G1"),by_name("G2"),by_name("G3"),by_name("G4"));
  SHOW("G1 && G2 || G3");
  SHOW("G1 || G2 && G3");
  SHOW("!G1 && G2");
  SHOW("!(G1 || G2) && G3");
  SHOW("G1 && (G2 || G3)");
  SHOW("(G1 || G2) && G3");
  SHOW("(G1 || G2) && (G3 || G4)");
  SHOW("(G1 && G2) || (G3 && G4)");
  SHOW("G1 || (G2 && G3) || G4");
  SHOW("!G1 || !G2");
  SHOW("G1 && !(G2 && G3)");
}
