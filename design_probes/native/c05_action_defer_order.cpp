#include "common.hpp"
struct E { int v; E(int x=0):v(x){} }; struct go {};
static std::string g_log;
struct Log { template<class F,class S,class T> void operator()(E const& e,F&,S&,T&){ g_log += std::to_string(e.v) + " "; } };
struct M_ : state_machine_def<M_> {
  typedef int activate_deferred_events;
  struct Busy : state<> {}; struct Idle : state<> {};
  typedef Busy initial_state;
  struct transition_table : mpl::vector<
    Row<Busy, E, none, Defer, none>,
    Row<Busy, go, Idle>,
    Row<Idle, E, none, Log, none> > {};
  template<class F,class Ev> void no_transition(Ev const&,F&,int){ g_log += "NT "; }
};
typedef BE<M_> M;
int main(){ M m; m.start(); m.process_event(E(1)); m.process_event(E(2)); m.process_event(E(3)); m.process_event(go()); printf("[%s]\n", g_log.c_str()); return g_log=="1 2 3 " ? 0 : 1; }
