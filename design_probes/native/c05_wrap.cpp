#include <boost/msm/back/state_machine.hpp>
#include <boost/msm/front/state_machine_def.hpp>
#include <boost/msm/front/functor_row.hpp>
#include <vector>
#include <cstdio>
namespace msm = boost::msm; namespace mpl = boost::mpl; using namespace msm::front;
struct E { int id; }; struct F {}; struct N {}; struct G {};
std::vector<int> g_log;
struct LogE { template<class Ev,class Fsm,class S,class T> void operator()(Ev const& e,Fsm&,S&,T&){ g_log.push_back(e.id);} };
struct M_ : msm::front::state_machine_def<M_> {
  struct S0 : msm::front::state<> { typedef mpl::vector<E,F> deferred_events; };
  struct S1 : msm::front::state<> { typedef mpl::vector<E> deferred_events; };
  struct S2 : msm::front::state<> {};
  typedef S0 initial_state;
  struct transition_table : mpl::vector<
    Row<S0,N,S0,none,none>,
    Row<S0,G,S1,none,none>,
    Row<S1,F,S2,none,none>,
    Row<S2,E,none,LogE,none>
  > {};
  template<class Fsm,class Ev> void no_transition(Ev const&,Fsm&,int){ g_log.push_back(-1); }
};
typedef msm::back::state_machine<M_> M;
int main(){
  int bad=0;
  for (int k=0;k<300;k++){
    g_log.clear();
    M m; m.start();
    m.process_event(E{1}); m.process_event(F{}); m.process_event(E{2});
    for(int i=0;i<k;i++) m.process_event(N{});
    m.process_event(G{});
    bool ok = g_log.size()==2 && g_log[0]==1 && g_log[1]==2;
    if(!ok){ bad++; printf("k=%d log:",k); for(int x:g_log) printf(" %d",x); printf("\n"); }
  }
  printf("bad=%d\n",bad);
}
