#include <boost/msm/backmp11/state_machine.hpp>
#include <boost/msm/front/state_machine_def.hpp>
#include <boost/msm/front/functor_row.hpp>
#include <boost/msm/front/states.hpp>
#include <cstdio>
#include <string>
namespace mp11 = boost::mp11; using namespace boost::msm::front; using namespace boost::msm::backmp11;
struct Enter {}; struct GoExit {}; struct Out { Out(){} template<class E> Out(E const&){} };
std::string g_log;
struct AOut { template<class Ev,class F,class S,class T> void operator()(Ev const&,F&,S&,T&){ g_log+="outer-exit-row-action "; } };
struct Sub_ : state_machine_def<Sub_> {
  struct S0 : state<> {}; struct S1 : state<> {};
  struct PExit : exit_pseudo_state<Out> {};
  using initial_state = S0;
  using transition_table = mp11::mp_list<
    Row<S0,GoExit,PExit>,
    Row<S0,Enter,S1> >;
  template<class F,class Ev> void no_transition(Ev const&,F&,int){ g_log+="NTsub "; }
};
using Sub = state_machine<Sub_>;
struct Top_ : state_machine_def<Top_> {
  struct X : state<> {};
  using initial_state = Sub;
  using transition_table = mp11::mp_list<
     Row< Sub::exit_pt<Sub_::PExit>, Out, X, AOut > >;
  template<class F,class Ev> void no_transition(Ev const&,F&,int s){ g_log+="NT("+std::to_string(s)+") "; }
};
using Top = state_machine<Top_>;
int main(){
  Top m; m.start();
  printf("start: top=%d sub=%d\n",(int)m.get_active_state_ids()[0], (int)m.get_state<Sub>().get_active_state_ids()[0]);
  g_log.clear(); auto r = m.process_event(Out());   // exit point NOT active
  printf("Out from outside while exit pt inactive: ret=%d top=%d log=%s\n",(int)r,(int)m.get_active_state_ids()[0], g_log.c_str());
}
