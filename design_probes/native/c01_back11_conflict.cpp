#include <boost/msm/back11/state_machine.hpp>
#include <boost/msm/front/state_machine_def.hpp>
#include <boost/msm/front/functor_row.hpp>
#include <string>
#include <cstdio>
namespace msm = boost::msm; namespace mpl = boost::mpl; using namespace msm::front;
struct e {};
std::string g_log;
template<int K> struct G { template<class Ev,class F,class S,class T> bool operator()(Ev const&,F&,S&,T&){ g_log += "g" + std::to_string(K) + " "; return false; } };
struct Sub_ : state_machine_def<Sub_> {
  struct SA : state<> {}; struct SA2 : state<> {}; struct SB : state<> {}; struct SB2 : state<> {};
  typedef mpl::vector<SA,SB> initial_state;
  struct SA3 : state<> {}; struct transition_table : mpl::vector< Row<SA, e, SA2, none, G<0>>, Row<SA, e, SA3, none, G<1>>, Row<SB, e, SB2, none, G<2>> > {};
  template<class F,class Ev> void no_transition(Ev const&,F&,int){ g_log += "NTsub "; }
};
typedef msm::back11::state_machine<Sub_> Sub;
struct Top_ : state_machine_def<Top_> {
  struct X : state<> {};
  typedef Sub initial_state;
  struct transition_table : mpl::vector< Row<Sub, e, X, none, G<5>> > {};
  template<class F,class Ev> void no_transition(Ev const&,F&,int){ g_log += "NT "; }
};
typedef msm::back11::state_machine<Top_> Top;
int main(){ { Sub s; s.start(); g_log.clear(); e ev; s.process_event(ev); printf("root sub: %s\n", g_log.c_str()); }
            { Top m; m.start(); g_log.clear(); e ev; m.process_event(ev); printf("nested: %s regions=%d,%d\n", g_log.c_str(), m.get_state<Sub&>().current_state()[0], m.get_state<Sub&>().current_state()[1]); } }
