#include <boost/msm/back/state_machine.hpp>
#include <boost/msm/backmp11/state_machine.hpp>
#include <boost/msm/front/state_machine_def.hpp>
#include <boost/msm/front/functor_row.hpp>
#include <cstdio>
#include <string>
namespace msm = boost::msm; namespace mpl = boost::mpl; using namespace msm::front;
struct go {};
std::string g_log;
struct M_ : state_machine_def<M_> {
  struct S0 : state<> { template<class E,class F> void on_entry(E const&,F& f){ g_log+="S0.entry{ "; f.process_event(go()); g_log+="} "; }
                        template<class E,class F> void on_exit(E const&,F&){ g_log+="S0.exit "; } };
  struct S1 : state<> { template<class E,class F> void on_entry(E const&,F&){ g_log+="S1.entry "; } };
  struct T0 : state<> { template<class E,class F> void on_entry(E const&,F&){ g_log+="T0.entry "; } };
  typedef mpl::vector<S0,T0> initial_state;
  struct transition_table : mpl::vector< Row<S0,go,S1,none,none> > {};
  template<class F,class Ev> void no_transition(Ev const&,F&,int){ g_log+="NT "; }
};
int main(){
  { g_log.clear(); msm::back::state_machine<M_> m; m.start(); printf("back    : %s\n", g_log.c_str()); }
  { g_log.clear(); msm::backmp11::state_machine<M_> m; m.start(); printf("backmp11: %s\n", g_log.c_str()); }
}
