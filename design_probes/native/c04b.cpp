#include <boost/msm/back/state_machine.hpp>
#include <boost/msm/backmp11/state_machine.hpp>
#include <boost/msm/front/state_machine_def.hpp>
#include <boost/msm/front/functor_row.hpp>
#include <cstdio>
#include <string>
namespace msm = boost::msm; namespace mpl = boost::mpl; using namespace msm::front;
struct ev {}; struct enter {}; struct leave {};
std::string g_log;
template<char C> struct Lg { template<class E,class F,class S,class T> void operator()(E const&,F&,S&,T&){ g_log+=C; g_log+=' '; } };
template<template<class...> class BE> struct Mk {
  struct Sub_ : state_machine_def<Sub_> {
    template<class E,class F> void on_entry(E const&,F& f){ g_log+="Sub.entry{ "; f.process_event(ev()); g_log+="} "; }
    struct I : state<> {}; struct J : state<> {};
    typedef I initial_state;
    struct transition_table : mpl::vector< Row<I,ev,J,Lg<'j'>,none> > {};
    template<class F,class Ev> void no_transition(Ev const&,F&,int){ g_log+="NTsub "; }
  };
  typedef BE<Sub_> Sub;
  struct Top_ : state_machine_def<Top_> {
    struct O : state<> {};
    typedef O initial_state;
    struct transition_table : mpl::vector< Row<O,enter,Sub,none,none>, Row<Sub,leave,O,none,none> > {};
    template<class F,class Ev> void no_transition(Ev const&,F&,int){ g_log+="NT "; }
  };
  typedef BE<Top_> Top;
};
int main(){
  { g_log.clear(); Mk<msm::back::state_machine>::Sub m; m.start(); printf("back     root own on_entry raises ev: %s state=%d\n", g_log.c_str(), m.current_state()[0]); }
  { g_log.clear(); Mk<msm::backmp11::state_machine>::Sub m; m.start(); printf("backmp11 root own on_entry raises ev: %s state=%d\n", g_log.c_str(), (int)m.get_active_state_ids()[0]); }
  { g_log.clear(); Mk<msm::back::state_machine>::Top m; m.start(); m.process_event(enter()); printf("back     sub own on_entry raises ev (Fsm=Top): %s\n", g_log.c_str()); }
  { g_log.clear(); Mk<msm::backmp11::state_machine>::Top m; m.start(); m.process_event(enter()); printf("backmp11 sub own on_entry raises ev (Fsm=Top): %s\n", g_log.c_str()); }
}
