// inner submachine: region A handles e, region B guard-rejects e; outer row on (Sub,e)
#include <boost/msm/back/state_machine.hpp>
#include <boost/msm/back11/state_machine.hpp>
#include <boost/msm/front/state_machine_def.hpp>
#include <boost/msm/front/functor_row.hpp>
#include <string>
#include <cstdio>
namespace msm = boost::msm; namespace mpl = boost::mpl; using namespace msm::front;
struct e {};
std::string g_log; bool gA=true, gB=false, gO=true;
struct GA { template<class Ev,class F,class S,class T> bool operator()(Ev const&,F&,S&,T&){ g_log+="gA "; return gA;} };
struct GB { template<class Ev,class F,class S,class T> bool operator()(Ev const&,F&,S&,T&){ g_log+="gB "; return gB;} };
struct GO { template<class Ev,class F,class S,class T> bool operator()(Ev const&,F&,S&,T&){ g_log+="gO "; return gO;} };
struct AA { template<class Ev,class F,class S,class T> void operator()(Ev const&,F&,S&,T&){ g_log+="aA ";} };
struct AB { template<class Ev,class F,class S,class T> void operator()(Ev const&,F&,S&,T&){ g_log+="aB ";} };
struct AO { template<class Ev,class F,class S,class T> void operator()(Ev const&,F&,S&,T&){ g_log+="aO ";} };
struct Sub_ : msm::front::state_machine_def<Sub_> {
  struct A1 : state<> {}; struct A2 : state<> {}; struct B1 : state<> {}; struct B2 : state<> {};
  typedef mpl::vector<A1,B1> initial_state;
  struct transition_table : mpl::vector<
    Row<A1,e,A2,AA,GA>,
    Row<B1,e,B2,AB,GB> > {};
  template<class F,class Ev> void no_transition(Ev const&,F&,int){ g_log+="NTsub "; }
};
template<template<class...> class BE> struct Mk {
  typedef BE<Sub_> Sub;
  struct Top_ : msm::front::state_machine_def<Top_> {
    struct X : state<> {};
    typedef Sub initial_state;
    struct transition_table : mpl::vector< Row<Sub,e,X,AO,GO> > {};
    template<class F,class Ev> void no_transition(Ev const&,F&,int){ g_log+="NT "; }
  };
  typedef BE<Top_> Top;
};
template<class T> void run(const char* name){
  for(int v=0; v<8; v++){ gA=v&1; gB=v&2; gO=v&4; g_log.clear();
    T m; m.start(); int r = m.process_event(e());
    printf("%s gA=%d gB=%d gO=%d ret=%d top=%d : %s\n",name,gA,gB,gO,r,m.current_state()[0],g_log.c_str()); }
}
int main(){ run<Mk<msm::back::state_machine>::Top>("back  "); run<Mk<msm::back11::state_machine>::Top>("back11"); }
