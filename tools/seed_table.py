#!/usr/bin/env python3
"""tools/seed_table.py : prints the markdown table of DESIGN.md section 12 from seeded/<id>/meta.json (written by tools/seed_matrix.py)"""
import os, json, glob
V = os.path.dirname(os.path.dirname(os.path.abspath(__file__)))
print("| id | property | change | what it needs to manifest | caught by | confirmed |")
print("|---|---|---|---|---|---|")
for d in sorted(glob.glob(os.path.join(V, 'seeded', '*'))):
    sid = os.path.basename(d)
    try: m = json.load(open(os.path.join(d, 'meta.json')))
    except OSError: print("| %s | ? | (no meta.json) | | | |" % sid); continue
    t = m.get('caught_by_tier')
    det = m['detection'].get(t, {}) if t else {}
    obs = [o.split('.', 1)[1] if '.' in o else o for o in det.get('obligations', [])]
    obs = [o for o in obs if 'car_create' not in o and 'write_set' not in o][:2] or obs[:1]
    nat = det.get('native', [])[:1]
    how = ('%s tier: ' % t) + ('; '.join('`%s`' % o for o in obs) if obs else '') + ((' native ' + '; '.join('`%s`' % n for n in nat)) if nat else '') if t else '**missed**'
    if t and not obs and nat: how = '%s tier, native family only (unit undecided or type-level change): `%s`' % (t, nat[0])
    try: conf = open(os.path.join(d, 'confirm.txt')).read().splitlines()
    except OSError: conf = m.get('confirmed', {}).get('result', [])
    c = 'yes' if any('demo on patched tree: exit=1' in l for l in conf) and any('SUITE: ctest exit=0' in l for l in conf) else ('agent only' if not conf else 'partly')
    print("| %s | %s | %s | %s | %s | %s |" % (sid, m['property_broken'], m['change'].replace('|', '\\|'), m['needs_to_manifest'].replace('|', '\\|'), how, c))
