#!/usr/bin/env python3
"""tools/harmless_sweep.py <header-substr> [--unit U] [--per-unit N] [--jobs J]: the false-alarm side of tools/mutation_sweep.py.
For every unit whose extracted source lies in a matching header, semantics-preserving edits of the REAL code inside the unit's line
range are generated (redundant parentheses, an empty statement, a trailing comment, `return (x);`, swapped operands of ==/!=,
pre/post increment in statement position, a blank line that shifts every following line number); each is applied to a scratch copy
of /repo/include and the unit is re-checked under each of its properties WITHOUT the native families.
green = exit 0 everywhere; undecided = some exit 2 (extraction drift - tolerated, never an alarm); FALSE-ALARM = some exit 1.
Any FALSE-ALARM line is a defect of the machinery.  Nothing in /repo is touched."""
import os, re, sys, json, glob, shutil, subprocess, tempfile, argparse, random
from concurrent.futures import ThreadPoolExecutor
V = os.path.dirname(os.path.dirname(os.path.abspath(__file__)))
sys.path.insert(0, V)
ap = argparse.ArgumentParser(); ap.add_argument('header'); ap.add_argument('--jobs', type=int, default=8); ap.add_argument('--per-unit', type=int, default=6)
ap.add_argument('--unit', default=''); ap.add_argument('--seed', type=int, default=1)
a = ap.parse_args()
import units as U
props = {u.name: u.props for u in U.all_units()}
src = {}
for f in glob.glob(os.path.join(V, 'evidence', 'C*.json')):
    for u in json.load(open(f))['coverage'].get('units', []):
        for s in u.get('source', []):
            m = re.match(r'(\d+)-(\d+)', str(s.get('lines', '')))
            if m and a.header in s['header'] and a.unit in u['unit']: src.setdefault(u['unit'], set()).add((s['header'].replace('include/boost/msm/', ''), int(m.group(1)), int(m.group(2))))
SIMPLE = r'[A-Za-z_][\w]*(?:(?:\.|->|::)[A-Za-z_]\w*)*'
def edits_of(L, ln):
    line = L[ln - 1]; st = line.strip(); out = []
    if not st or st.startswith('//') or st.startswith('#') or '//' in line or '\\' in line: return out
    nxt = next((x.strip() for x in L[ln:] if x.strip()), '')
    m = re.match(r'^(\s*)if \((.*)\)\s*$', line)
    if m and m.group(2).count('(') == m.group(2).count(')') and 'constexpr' not in line: out.append(('redundant parentheses', '%sif ((%s))' % (m.group(1), m.group(2))))
    if st.endswith(';') and not st.startswith(('for', 'if', 'else', 'using', 'typedef', 'template', 'static_assert', 'BOOST_', 'friend', 'public', 'private', 'case', 'default')) \
       and not nxt.startswith('else') and line.count('(') == line.count(')') and re.search(r'[\w\)\]]\s*;$', st) and re.match(r'^\s{8,}', line):
        out.append(('trailing comment', line + ' /* reviewed */'))
        m = re.match(r'^(\s*)return ([^;{}]+);$', line)
        if m and not m.group(2).startswith(('{', '(')): out.append(('return (x)', '%sreturn (%s);' % (m.group(1), m.group(2))))
        m = re.match(r'^(\s*)\+\+(' + SIMPLE + r');$', line)
        if m: out.append(('post-increment statement', '%s%s++;' % (m.group(1), m.group(2))))
        m = re.match(r'^(\s*)(' + SIMPLE + r')\+\+;$', line)
        if m: out.append(('pre-increment statement', '%s++%s;' % (m.group(1), m.group(2))))
    m = re.search(r'\((' + SIMPLE + r') (==|!=) (' + SIMPLE + r')\)', line)
    if m and 'template' not in line: out.append(('swapped operands', line[:m.start()] + '(%s %s %s)' % (m.group(3), m.group(2), m.group(1)) + line[m.end():]))
    return out
rnd = random.Random(a.seed); muts = []
for unit, ranges in sorted(src.items()):
    cand = []
    for (hdr, lo, hi) in sorted(ranges):
        L = open(os.path.join('/repo/include/boost/msm', hdr)).read().split('\n')
        for ln in range(lo, hi + 1):
            for what, new in edits_of(L, ln): cand.append((unit, hdr, ln, what, new))
        cand.append((unit, hdr, lo, 'blank line inserted before (line numbers shift)', '\n' + L[lo - 1]))
    rnd.shuffle(cand); muts += cand[:a.per_unit]
print('%d harmless edits over %d units' % (len(muts), len(src)), flush=True)
def run(mu):
    unit, hdr, ln, what, newline = mu
    tmp = tempfile.mkdtemp(prefix='msm_harmless_')
    try:
        shutil.copytree('/repo/include', os.path.join(tmp, 'include'))
        f = os.path.join(tmp, 'include/boost/msm', hdr); L = open(f).read().split('\n'); old = L[ln - 1]; L[ln - 1] = newline; open(f, 'w').write('\n'.join(L))
        verdicts = []; why = ''
        for p in props.get(unit, []):
            if p == 'C13': continue
            env = dict(os.environ, VERIF_REPO=tmp, VERIF_EVIDENCE_DIR=os.path.join(tmp, 'ev'), VERIF_BUILD_TAG='harmless_' + os.path.basename(tmp), VERIF_NO_NATIVE='1')
            r = subprocess.run([os.path.join(V, 'check'), p, '--unit', unit, '--tier', 'quick', '--jobs', '2'], env=env, stdout=subprocess.PIPE, stderr=subprocess.STDOUT)
            verdicts.append(r.returncode)
            if r.returncode != 0:
                w = [l for l in r.stdout.decode(errors='replace').split('\n') if l.startswith(('UNDECIDED', 'VIOLATION', '  obligation')) and ('reason=' in l or 'obligation' in l)]
                if w: why = w[0][:200]
            if r.returncode == 1: break
        v = 'FALSE-ALARM' if 1 in verdicts else ('undecided' if 2 in verdicts else 'green')
        return (v, unit, hdr, ln, what, old.strip()[:90] + ('   <' + why + '>' if v != 'green' else ''))
    finally:
        shutil.rmtree(tmp, ignore_errors=True); shutil.rmtree(os.path.join(V, 'build', 'harmless_' + os.path.basename(tmp)), ignore_errors=True)
cnt = {}
with ThreadPoolExecutor(max_workers=a.jobs) as ex:
    for res in ex.map(run, muts):
        cnt[res[0]] = cnt.get(res[0], 0) + 1
        if res[0] != 'green': print('%-11s %-55s %s:%d  %-28s | %s' % res, flush=True)
print('SUMMARY', cnt)
