#!/bin/bash
# usage: run_suite.sh <source-tree> [build-dir]
# Configures, builds and runs the msm test-suite of <source-tree> out of tree (never inside /repo or /verif).
# Prints "SUITE: passed=<n> failed=<n>" ; exit 0 iff all four ctest targets pass.
set -u
SRC=${1:?source tree}
BLD=${2:-$SRC/_build_verif}
LOG=$BLD.log
cmake -G Ninja -S "$SRC" -B "$BLD" -DCMAKE_BUILD_TYPE=RelWithDebInfo -DCMAKE_CXX_FLAGS=-Wno-error -DBUILD_TESTING=ON >"$LOG" 2>&1 || { echo "SUITE: configure failed (see $LOG)"; exit 3; }
cmake --build "$BLD" --target tests -j"${JOBS:-16}" >>"$LOG" 2>&1 || { echo "SUITE: build failed (see $LOG)"; tail -30 "$LOG"; exit 3; }
ctest --test-dir "$BLD" -j8 --timeout 900 >>"$LOG" 2>&1
rc=$?
grep -E "tests passed|tests failed|Failed|\*\*\*" "$LOG" | tail -8
echo "SUITE: ctest exit=$rc"
exit $rc
