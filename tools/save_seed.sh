#!/bin/bash
# tools/save_seed.sh <id>  : copy deliverables of /tmp/seed_<id>/out to /verif/seeded/<id> and remove the scratch worktree
id=$1; mkdir -p /verif/seeded/$id && cp /tmp/seed_$id/out/patch.diff /tmp/seed_$id/out/demo.cpp /tmp/seed_$id/out/notes.md /verif/seeded/$id/ 2>/dev/null
git -C /repo worktree remove --force /tmp/seed_$id/wt 2>/dev/null; rm -rf /tmp/seed_$id; ls /verif/seeded/$id
