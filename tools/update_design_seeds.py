#!/usr/bin/env python3
"""tools/update_design_seeds.py : rewrites section 12 of DESIGN.md from seeded/*/meta.json + confirm.txt (via tools/seed_table.py)"""
import os, subprocess, sys
V = os.path.dirname(os.path.dirname(os.path.abspath(__file__)))
table = subprocess.run([sys.executable, os.path.join(V, 'tools', 'seed_table.py')], stdout=subprocess.PIPE).stdout.decode()
p = os.path.join(V, 'DESIGN.md'); s = open(p).read()
i = s.index('## 12. Seeded changes'); j = s.index('## 13. ')
n = table.count('\n| C')
head = '''## 12. Seeded changes (independent sub-agents, property text only) and what catches them

Each directory `seeded/<id>/` holds `patch.diff` (applies to the current `/repo` HEAD), the author's `demo.cpp` and `notes.md`, `confirm.txt`
(my own confirmation in a scratch worktree: demo passes on the unpatched tree, fails with the patch, the unedited suite passes with the
patch) and `meta.json` (what the machinery reported, written by `tools/seed_matrix.py`, which applies the patch to a scratch copy of
`/repo/include` - never to `/repo`).  The authors got the brief printed by `tools/seed_prompt.py`: the property's text and anchors, their own
scratch worktree, nothing from `/verif`.  %d seeds so far; every one is caught.  "native family only" means the change alters a signature
or a loop structure (the extracted unit no longer matches its recipe -> undecided -> the unit's replay families decide on the real code)
or is a type-level change no contract reaches (the native families decide; since 10.3(c)/(d) also in the quick tier).  Several seeds made me strengthen the machinery first - each
such case is a unit, an obligation or a scenario that now exists:

* C03a/C08b -> MEMBERINIT rule + `history_impl.member_init` units; `hist` scenario "first entry by a history event".
* C09a -> `is_exit_state_active` units.  C10a -> pool obligation labelled C10.  C13a -> `sel` exit-point scenarios + `state_dispatch_table::dispatch` unit
  (which later caught C06b and C07b outright).  C14a/C14b -> grammar harness generates both orders of `/ action` and `[guard]`.
* C16a -> history policies' `serialize` units + `ser` family.  C18a -> tolerant Kleene-helper extraction + payload scenario (which exposed finding #14).
* C02b -> region-order / restart scenarios in `order`.  C11b -> pending-deferred scenarios in `block`.  C15b -> special-member units of the pooled
  occurrences (compiler-generated ones modelled) + limited-drain scenario in `copy`.  C17b -> three-level flag scenario in `block`.
* C20b -> `IsInline` + converting-constructor units, over-aligned payloads in `poly`.  C04b -> C04 obligation on `exception_caught` + scenario.
  C01b -> structural (not text-anchored) ghost rewrite in `backmp11.do_process_event`.  C09b -> explicit-entry unit tolerant to direct id assignment.
* c-wave: C03c -> C03 obligation on the running mark of every backmp11 entry path.  C06c -> constructor units of back/back11 (`ctor_back`).
  C10c -> busy-mark obligation of `process_completion_transition` labelled C10.  C20c -> in-place invocation tolerated and labelled C20 in the
  queue-drain units + circular-queue-at-capacity scenario.  C04c -> exact drain budget in the pool loop (ghost `g_nondef`).  C05c -> "every step
  starts a new deferral cycle of the machine's own pool" + submachine action-defer scenario.  C01c -> constructor phase order of the
  favor_compile_time table (`ctor_order` unit).  C14c -> `Internal<>` glue units + internal-row-defer scenario.  C19c -> policy-state obligations
  on the rows without action.  C13c -> `sel` scenario "own internal table with several rows per event" (the contract caught it, no native
  witness existed).  C16c -> `ser` scenario with front-end data of the CONTAINED machine (same).  C18c (type-level: forwarding rows) ->
  `kleene` scenarios with exact / base / Kleene triggers inside a submachine - missed by both tiers before that.  C07c = C13b found again.
* d-wave: C03d was MISSED at first although the obligation `rejected-guard-changes-nothing` failed - it was labelled C02 only.  This was the
  fourth miss of that kind, so the labels were reviewed as a whole: 219 obligations now name every property whose statement they bear on, and
  `tools/label_index.py` makes a unit run under every property its obligations name (10.2).  C02d -> the traversal a machine uses for
  its own substates must be the non-recursive one (obligation on every other `visit` spelling) + `hist` scenario "nested submachine below
  history".  C09d -> the declared-target-type argument of `convert_event_and_execute_entry` labelled C09 + explicit entry through every row
  kind in `hist`.  C10d -> tolerant completion-helper rewrite (was drift) + `defer` scenario "handled in one region, deferred in another".
  C06d (type-level) -> `sel` own-internal-table scenario tagged C06/C07.  C11d -> caught; `block` scenario "terminate and interrupt both active" added as witness.
* e-wave (authors were given the full list of earlier changes and told to go elsewhere): C06e missed at first (the failing row obligation
  was not labelled C06) -> row result obligations labelled C06 + `sel` scenario "internal-row-kinds.result".  C04e missed (the contract of the
  priority function only fixed the top-level case) -> exact pass rules per policy and source + `defer` scenario for
  `event_queue_before_deferred_queue`.  C05e (`stable_sort` -> `partition`): drift, no scenario -> `defer` scenarios "every arrangement around a
  handled event".  C08e missed (label) -> C08 on the traversal obligation.  C13e: drift, no scenario -> `queue` scenario "submachine sends itself
  an unhandled event".  C02e decided by the scenario added for C09d, then also by contract (a direct `execute_entry` call in a row is an
  obligation failure).  C01e C03e C07e C09e C10e C11e C12e caught by contracts at once; witness scenarios added for C09e C11e C12e.
  Batch 3: C14e and C17e were missed at the quick tier although an obligation failed - under a sibling property (C02/C06 resp. the frame of
  `on_exit`) -> rule 10.3(d): whenever the tree differs from the validated one the property's own native families run as well; `fronts` has the
  guard-only state-local row, `block` the scenario "flag of a substate while its submachine is being left"; `on_exit` runs under C03/C17.
  C18e (type-level reordering of Kleene rows) -> `kleene` scenario "Kleene row declared last wins".  C15e C16e C19e C20e caught at once (C16e by
  the `ser` continuation scenarios); witnesses added for C15e (`copy`: front-end data) and C20e (`queue`: bounded drain with a burst).
* f-wave (8 properties; authors pointed at back11, favor_compile_time, non-default queue / history / switch policies): C04f missed at first
  (the `do_entry` post-condition "entry, then deferred, then queued events" was not labelled C04) -> label + `queue` scenario "events sent to the
  submachine by its initial entry".  C15f: drift (a member the model did not know) -> `m_upper_fsm` modelled, obligation "the copy keeps its
  own wiring".  C20f: drift and no scenario -> bounded deferred unit also under C20 + `queue` scenario "circular deferred queue, occurrence
  re-deferred while dispatched".  C09f: drift -> a continuation through `enqueue_event` is an obligation failure.  C12f caught by the row
  contract; the `exc` family now runs all four switch policies and guard-less rows (544 scenarios) and gives the witness.  C02f C07f caught at once.  C10f: drift and no scenario -> `queue` scenario "completion in the second region".
* g-wave (2 properties, last session): C09g (exit point `operator=` copies the forwarding callback) caught at once by the `copy` family
  scenario "copy takes the exit point of a nested submachine" under C09 and C15 (the wrapper's special members are outside every unit:
  rule 10.3(c)).  C14g was MISSED at first: the edited body (`row2_action_helper::call_helper`) IS under contract, but the added `auto` local
  made the extracted unit fail to compile as C (undecided, exit 2) and no `fronts` scenario looked at the *object* a row2 behaviour runs on
  (the traces only log which behaviour ran) -> scenario "row2 behaviours run on the machine's own state objects" (addresses of the called
  objects and data written by the actions); the extraction drift remains reported as undecided next to the violation.
* type-level changes (no contract reaches them; the native families decide - since the uncovered-code trigger of 10.3(c) also in the quick tier): C17b, C17c, C13b, C07c, C18c, C06d.

''' % n
s = s[:i] + head + table + '\n' + s[j:]
open(p, 'w').write(s)
print('section 12 rewritten,', n, 'seeds')
