#!/usr/bin/env python3
"""tools/label_index.py [--jobs N]: runs every unit once (quick tier, no native families) and records, per unit, the properties named in
the labels of the checks CBMC actually generated for it (`units/label_index.json`).  `units.all_units()` adds these properties to the
unit's own list, so that a unit is run under every property one of its obligations speaks to (an obligation counts for a property only
when the unit is checked under that property).  Re-run after labels or units change; a stale index only affects which units a property
runs, never a verdict."""
import os, sys, json, re, argparse, tempfile, shutil
from concurrent.futures import ThreadPoolExecutor
V = os.path.dirname(os.path.dirname(os.path.abspath(__file__))); sys.path.insert(0, V)
ap = argparse.ArgumentParser(); ap.add_argument('--jobs', type=int, default=12); a = ap.parse_args()
import units as U
from vlib import pipeline
us = U.all_units(raw=True)
wd0 = tempfile.mkdtemp(prefix='label_index_', dir=os.path.join(V, 'build'))
def one(u):
    r = pipeline.verify_unit(u, os.path.join(wd0, re.sub(r'\W', '_', u.name)), 'quick')
    ps = set()
    for c in r.get('checks', []):
        if c.get('label'):
            ps.update(p for p in c['label'].split('.', 1)[0].split(',') if re.fullmatch(r'C\d\d', p))
    return u.name, sorted(ps), r.get('undecided')
idx = {}
with ThreadPoolExecutor(max_workers=a.jobs) as ex:
    for name, ps, und in ex.map(one, us):
        if und: print('undecided', name, und[:100]); continue
        idx[name] = ps
shutil.rmtree(wd0, ignore_errors=True)
json.dump(idx, open(os.path.join(V, 'units', 'label_index.json'), 'w'), indent=0, sort_keys=True)
add = sum(1 for u in us for p in idx.get(u.name, []) if p not in u.props)
print('%d units indexed, %d (unit, property) pairs beyond the units\' own lists' % (len(idx), add))
