#!/bin/bash
# [LIBS="-lboost_serialization"] tools/confirm_seed.sh <id> <patch.diff> <demo.cpp> [std]
# Independently confirms a seeded change: demo passes on the pinned tree, fails with the patch, and the unedited
# test-suite still passes with the patch.  Works in a scratch worktree under /tmp which is removed afterwards.
set -u
ID=$1; PATCH=$(readlink -f $2); DEMO=$(readlink -f $3); STD=${4:-c++17}
OUT=/verif/seeded/$ID; mkdir -p $OUT
WT=/tmp/confirm_$ID
git -C /repo worktree remove --force $WT >/dev/null 2>&1; rm -rf $WT ${WT}_build
git -C /repo worktree add --detach $WT HEAD >/dev/null 2>&1 || { echo "worktree failed"; exit 3; }
{
echo "confirm $ID at $(date -u +%FT%TZ) on $(git -C /repo rev-parse --short HEAD)"
g++ -std=$STD -w -I $WT/include $DEMO -o /tmp/confirm_${ID}_demo0 ${LIBS:-} && /tmp/confirm_${ID}_demo0 >/tmp/confirm_${ID}_o0.txt 2>&1; echo "demo on unpatched tree: exit=$? ($(tail -1 /tmp/confirm_${ID}_o0.txt))"
git -C $WT apply $PATCH || { echo "PATCH DOES NOT APPLY"; }
g++ -std=$STD -w -I $WT/include $DEMO -o /tmp/confirm_${ID}_demo1 ${LIBS:-} && /tmp/confirm_${ID}_demo1 >/tmp/confirm_${ID}_o1.txt 2>&1; echo "demo on patched tree: exit=$? ($(tail -1 /tmp/confirm_${ID}_o1.txt))"
JOBS=${JOBS:-6} /verif/tools/run_suite.sh $WT ${WT}_build | tail -3
} > $OUT/confirm.txt 2>&1
git -C /repo worktree remove --force $WT >/dev/null 2>&1; rm -rf $WT ${WT}_build ${WT}_build.log /tmp/confirm_${ID}_*
cat $OUT/confirm.txt
