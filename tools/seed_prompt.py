import json,sys
pid, sid = sys.argv[1], sys.argv[2]
extra = sys.argv[3] if len(sys.argv)>3 else ''
d=[json.loads(l) for l in open('/verif/properties.jsonl')]
d=[x for x in d if x['id']==pid][0]
print(f"""You are a mutation author for the C++ header-only library Boost.MSM (boostorg/msm). Your job: produce ONE realistic code change (the kind of slip or well-meant clean-up a maintainer could make) to the library headers under include/boost/msm that BREAKS the semantic property stated below, while the library still compiles and its complete, unedited existing test suite still passes. The change must need something specific to manifest (a particular configuration, input, history or policy) - not something every run trips over.

PROPERTY {d['id']}: {d['title']}
Statement: {d['statement']}
Quantifier: {d['quantifier']['text']}
Why tests cannot settle it: {d['why_tests_cant']}
Anchors (files / mechanisms the property lives in): {json.dumps(d['anchors'])}
{extra}
RULES
* Work ONLY in your own scratch git worktree. Create it with:  mkdir -p /tmp/seed_{sid} && git -C /repo worktree add --detach /tmp/seed_{sid}/wt HEAD
  Never edit anything in /repo itself. Do NOT read or use anything under /verif (it is off limits - you are an independent author). No network.
* Edit run-time code of the library headers in /tmp/seed_{sid}/wt/include/boost/msm (any back-end: back, back11, backmp11; any policy). Do not edit tests, docs or build files. Keep the change small (a few lines), plausible, and compiling.
* Write a small stand-alone demo program /tmp/seed_{sid}/out/demo.cpp that uses only the library's public API, prints what it observes, and exits 0 with last line "PASS" on the ORIGINAL tree and exits 1 with a last line starting "FAIL" on the CHANGED tree (build: g++ -std=c++17 -w -I /tmp/seed_{sid}/wt/include demo.cpp -o demo ; use c++20 only if unavoidable and say so). Check it on both trees (use `git -C /tmp/seed_{sid}/wt stash` / `stash pop`, or `git diff > patch; git apply -R`).
* The existing test suite must still pass with your change. Build and run it out of tree like this (takes ~15-25 min; use exactly 4 jobs, the machine is shared):
    cmake -G Ninja -S /tmp/seed_{sid}/wt -B /tmp/seed_{sid}/build -DCMAKE_BUILD_TYPE=RelWithDebInfo -DCMAKE_CXX_FLAGS=-Wno-error -DBUILD_TESTING=ON > /tmp/seed_{sid}/build.log 2>&1
    cmake --build /tmp/seed_{sid}/build --target tests -j4 >> /tmp/seed_{sid}/build.log 2>&1
    ctest --test-dir /tmp/seed_{sid}/build -j4 --timeout 900
  All 4 ctest targets (237 test cases inside) must pass. If a test fails, your change is too blunt: pick another one. Think before you build - choose a change the tests plausibly do not exercise (read the tests under /tmp/seed_{sid}/wt/test to see what they cover), because each suite run is expensive.
* Deliverables in /tmp/seed_{sid}/out/ :  patch.diff (output of `git -C /tmp/seed_{sid}/wt diff`, must apply with `git apply` to /repo HEAD), demo.cpp, notes.md (what you changed and the plausible rationale, which clause of the property it breaks, exactly what is needed for it to manifest, and the transcript lines showing: demo PASS on original, demo FAIL on changed, suite result on changed).
* When done: delete /tmp/seed_{sid}/build and remove the worktree (git -C /repo worktree remove --force /tmp/seed_{sid}/wt); keep only /tmp/seed_{sid}/out. Your final answer: one paragraph naming the change, what it needs to manifest, and confirming the three facts (demo passes on original, fails on changed, suite passes on changed).""")
