#!/usr/bin/env python3
"""tools/uncovered_baseline.py : record, for the CURRENT /repo tree, the hash of the code of every header that lies outside every unit
(units/uncovered_baseline.json).  Run after the tree under /repo changed on purpose (a `fix:` commit) or after units were added
(their bodies leave the uncovered part).  See vlib/uncovered.py."""
import os, sys, json, subprocess
V = os.path.dirname(os.path.dirname(os.path.abspath(__file__))); sys.path.insert(0, V)
from vlib import uncovered
repo = os.environ.get('VERIF_REPO', '/repo')
h = uncovered.hashes(repo)
head = subprocess.run(['git', '-C', repo, 'rev-parse', '--short', 'HEAD'], stdout=subprocess.PIPE).stdout.decode().strip()
json.dump(dict(repo_head=head, hashes=h), open(uncovered.BASELINE, 'w'), indent=0, sort_keys=True)
print('%d headers hashed at %s' % (len(h), head))
