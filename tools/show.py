#!/usr/bin/env python3
"""dev helper: tools/show.py <unit-substring> [-c] : run units, print failing checks (and -c the extracted C)"""
import sys, os
VERIF = os.path.dirname(os.path.dirname(os.path.abspath(__file__))); sys.path.insert(0, VERIF); os.chdir(VERIF)
from vlib import pipeline
import units
pat = sys.argv[1]; showc = '-c' in sys.argv; trace = '-t' in sys.argv
for u in units.all_units():
    if pat not in u.name: continue
    wd = os.path.join(VERIF, 'build', 'show', u.name)
    r = pipeline.verify_unit(u, wd, 'thorough' if '-T' in sys.argv else 'quick')
    fails = [c for c in r['checks'] if c['status'] != 'SUCCESS']
    print('==', u.name, 'undecided=%s' % r['undecided'], 'canary=%s' % r.get('canary'), 'checks=%d fails=%d t=%.1fs' % (len(r['checks']), len(fails), r['solver_time_s']), 'replaced=%s' % r.get('replaced'))
    print('   fired:', r.get('rules_fired'))
    for c in fails:
        print('   FAIL', c['id'], '|', c['label'], '|', c['desc'][:90], '| %s:%s' % (os.path.basename(c['file']), c['line']))
        if trace:
            for s in [x for x in c.get('trace', []) if 'failure' in x or (str(x.get('lhs', '')).startswith('g_') or x.get('lhs') in ('res', 'result', 'sub_res'))][-25:]: print('        ', s.get('lhs', s.get('failure')), '=', s.get('value'), '@', s.get('line'))
    if showc:
        p = os.path.join(wd, 'unit.c')
        if os.path.exists(p):
            txt = open(p).read(); k = txt.rfind(u.csig.split('(')[0].strip().split()[-1] + '(')
            k = txt.find(u.csig[:30]); print(txt[k:] if k >= 0 else txt[-3000:])
        lg = os.path.join(wd, 'log.txt')
        if r['undecided'] and os.path.exists(lg): print(open(lg).read()[-1500:])
