#!/usr/bin/env python3
"""writes /verif/MANIFEST.json from the table below + the registered units"""
import json, os, sys
VERIF = os.path.dirname(os.path.dirname(os.path.abspath(__file__)))
sys.path.insert(0, VERIF)
import units as U
from claims import CLAIMS, NOT_APPLICABLE, FIX_COMMITS
props = [json.loads(l) for l in open(os.path.join(VERIF, 'properties.jsonl'))]
ids = [p['id'] for p in props]
us = U.all_units()
checks = []
for pid in ids:
    if pid not in CLAIMS: continue
    c = CLAIMS[pid]
    n = len([u for u in us if pid in u.props])
    assert n > 0, pid
    checks.append(dict(property_id=pid, quick_cmd="./check %s --tier quick" % pid, thorough_cmd="./check %s --tier thorough" % pid,
        evidence_file="evidence/%s.json" % pid, replay_cmd_template="./check %s --replay {path}" % pid, engine="cbmc-contracts",
        level_claimed=dict(category="proof", text=c['text'], design_ref=c.get('ref', 'DESIGN.md section 5 ' + pid)),
        level_note=c['note'], technique="contract-based deductive verification: CBMC 6.11 code contracts (goto-instrument --dfcc enforce/replace, loop and recursion contracts) on function bodies extracted mechanically from /repo on every run"))
na = [dict(property_id=p, reason=NOT_APPLICABLE[p]) for p in ids if p not in CLAIMS]
assert all(p in NOT_APPLICABLE for p in ids if p not in CLAIMS)
m = dict(version=1, setup_cmd="python3 -m compileall -q vlib units tools claims.py check >/dev/null 2>&1; true",
    hooks=dict(guard="BOOSTORG_MSM_VERIF", enable="no source hook is needed: units are extracted from the headers, replay programs use the public API", 
               baseline_off_cmd="ctest --test-dir /repo/_build -j8 --timeout 900", source_commits=[], add_only=True),      # no hook / instrumentation commit exists in /repo: nothing is guarded, nothing is added
    engines=[dict(name="cbmc-contracts", path="check", serves_properties=[c['property_id'] for c in checks],
                  kind_free_text="cxx2c token-level extractor (vlib/cxx2c.py) + contracts (contracts/*.spec.h) + goto-cc/goto-instrument --dfcc/cbmc; native replay families (replay/*.cpp) for witnesses and assumption monitors")],
    checks=checks, not_applicable=na,
    notes="Exit codes: 0 all obligations discharged (KNOWN-FINDING lines allowed), 1 VIOLATION, 2 undecided (timeout, extraction drift, unmodelled callee) - never printed as a violation. No hooks: /repo carries no instrumentation commit (hooks.source_commits is empty). Commits of this work in /repo are repairs of genuine defects only, each an unguarded 'fix:' commit validated with the unedited test-suite: " + ", ".join(FIX_COMMITS) + " (recorded as 'fixed:' lines in known_findings.txt; DESIGN.md section 11). See DESIGN.md.")
json.dump(m, open(os.path.join(VERIF, 'MANIFEST.json'), 'w'), indent=1)
print("MANIFEST.json: %d checks, %d not_applicable" % (len(checks), len(na)))
