#!/usr/bin/env python3
"""tools/coverage_map.py [header-substr]: which function bodies of the anchored headers are under a unit.
Covered line ranges come from the evidence files (units[].source[].lines); function bodies are found with a crude scan
(`)` [const|noexcept|...] `{` ... matching `}` at class/namespace level).  Prints the uncovered bodies with their size, largest first."""
import os, re, sys, json, glob
V = os.path.dirname(os.path.dirname(os.path.abspath(__file__)))
INC = os.path.join(os.environ.get('VERIF_REPO', '/repo'), 'include/boost/msm')
cov = {}
for f in glob.glob(os.path.join(V, 'evidence', 'C*.json')):
    d = json.load(open(f))
    for u in d['coverage'].get('units', []):
        for s in u.get('source', []):
            m = re.match(r'(\d+)-(\d+)', str(s.get('lines', '')))
            if m: cov.setdefault(s['header'].replace('include/boost/msm/', ''), set()).update(range(int(m.group(1)), int(m.group(2)) + 1))
HEADERS = ['back/state_machine.hpp', 'back/dispatch_table.hpp', 'back/favor_compile_time.hpp', 'back/history_policies.hpp', 'back11/state_machine.hpp', 'back11/dispatch_table.hpp',
           'backmp11/detail/state_machine_base.hpp', 'backmp11/detail/transition_table.hpp', 'backmp11/detail/favor_runtime_speed.hpp', 'backmp11/favor_compile_time.hpp',
           'backmp11/detail/history_impl.hpp', 'backmp11/detail/state_visitor.hpp', 'backmp11/detail/basic_polymorphic.hpp', 'backmp11/common_types.hpp', 'backmp11/detail/dispatch_table.hpp',
           'front/functor_row.hpp', 'front/state_machine_def.hpp', 'front/operator.hpp', 'front/puml/puml.hpp', 'active_state_switching_policies.hpp']
flt = sys.argv[1] if len(sys.argv) > 1 else ''
rows = []
for h in HEADERS:
    if flt not in h: continue
    p = os.path.join(INC, h)
    if not os.path.exists(p): continue
    L = open(p).read().split('\n')
    txt = '\n'.join(L)
    # positions of '{' that follow a ')' (optionally const/noexcept/override/-> type) : function bodies
    for m in re.finditer(r'\)\s*(?:const\s*)?(?:noexcept(?:\([^)]*\))?\s*)?(?:->\s*[\w:<> ,]+\s*)?\{', txt):
        o = m.end() - 1
        # skip control statements: look back for keyword before the matching '('
        depth = 0; k = m.start()
        while k >= 0:
            if txt[k] == ')': depth += 1
            elif txt[k] == '(':
                depth -= 1
                if depth == 0: break
            k -= 1
        pre = txt[max(0, k - 40):k]
        w = re.findall(r'[A-Za-z_~][\w:~]*\s*(?:<[^;{}()]*>)?\s*$', pre)
        name = w[0].strip() if w else '?'
        if re.match(r'(if|for|while|switch|catch|constexpr|BOOST_CATCH|decltype|sizeof|alignof|noexcept|static_assert|defined|mp_for_each\w*|typeid)\b', name.split('<')[0].split('::')[-1]): continue
        d = 0; c = o
        while c < len(txt):
            if txt[c] == '{': d += 1
            elif txt[c] == '}':
                d -= 1
                if d == 0: break
            c += 1
        l0 = txt.count('\n', 0, o) + 1; l1 = txt.count('\n', 0, c) + 1
        body = txt[o + 1:c]
        stmts = body.count(';')
        if stmts == 0: continue
        lines = set(range(l0, l1 + 1))
        covered = len(lines & cov.get(h, set())) > 0
        rows.append((covered, h, l0, l1, name, stmts))
unc = [r for r in rows if not r[0]]
print('function-like bodies: %d, with a unit: %d, without: %d' % (len(rows), len(rows) - len(unc), len(unc)))
for r in sorted(unc, key=lambda r: -r[5])[:int(os.environ.get('TOP', '60'))]:
    print('%-48s %5d-%-5d %-40s %d statements' % (r[1], r[2], r[3], r[4][:40], r[5]))
