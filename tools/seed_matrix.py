#!/usr/bin/env python3
"""tools/seed_matrix.py [ids...]: applies every seeded change (scratch copy, never /repo) and runs the quick check of its property
(and the thorough tier if quick misses); writes seeded/<id>/meta.json and prints a table."""
import os, sys, json, subprocess, re
VERIF = os.path.dirname(os.path.dirname(os.path.abspath(__file__)))
SEEDS = {
 'C01a': ('C01', 'back chain_row: a DEFERRED result no longer stops the chain', 'an earlier-tried row (or the forwarding row of a deferring submachine) answers DEFERRED while a later row of the same cell is enabled'),
 'C01b': ('C01', 'backmp11 do_process_event: the sm-internal table is consulted only if the region result is exactly 0 (was: not TRUE/DEFERRED)', 'machine with an sm-level internal row for E while an active region state has a row for E whose guard rejects'),
 'C01c': ('C01', 'back favor_compile_time dispatch_table constructor: the per-state (default_init_cell) pass moved before the rows (init_cell) pass', 'active composite state and an outer row on it for the same event: the outer row is tried before the submachine'),
 'C02a': ('C08', 'back do_entry: region initialisation from history moved into the plain-entry variant only', 'explicit entry / fork / entry point into a multi-region submachine after a previous visit moved an untargeted region'),
 'C02c': ('C02', 'back11 region_entry_exit_helper::do_exit: recursion to the next region moved before the exit of this region (regions left in reverse order)', 'multi-region back11 submachine left by an external transition, or stop() of a multi-region root'),
 'C03a': ('C08', 'backmp11 history_impl: remembered configuration starts as all zeros instead of the initial state ids', 'first-ever entry taken under history in a machine with >= 2 regions'),
 'C03c': ('C03', 'backmp11: m_running = true moved from preprocess_entry (all entry paths) into on_entry only', 'first activation of a submachine through an explicit / fork / entry-point entry (never entered plainly before)'),
 'C04a': ('C04', 'backmp11 process_event_internal: the event pool is drained only after a direct call', 'event forwarded to a submachine whose behaviour raises an event on the submachine'),
 'C04b': ('C04', 'back/back11 do_process_helper: the catch handler clears m_event_processing before calling exception_caught', 'exception_caught submits an event (and the failing step queued one before): dispatched re-entrantly inside the handler, order inverted'),
 'C04c': ('C04', 'backmp11 do_process_event_pool: only HANDLED_TRUE results count against max_events (was: everything but DEFERRED)', 'bounded drain (process_event_pool(1)) with a pending event that is not handled (no transition / guard reject) and more events behind it'),
 'C05a': ('C05', 'backmp11 is_event_deferred_visitor: |= became =', 'two active deferring states, the later-visited one with a conditional is_event_deferred returning false'),
 'C05b': ('C05', 'back/back11 do_handle_prio_msg_queue_deferred_queue: new deferral cycle only if handled == HANDLED_TRUE (was: TRUE bit set)', 'two regions: one takes the event and leaves the deferring state while the sibling guard-rejects it (result 3)'),
 'C05c': ('C05', 'backmp11 process_event_internal: the deferral cycle counter advances only for direct calls ("a submachine call belongs to the parent\'s sequence")', 'Defer action row inside a submachine driven through its parent: the deferred occurrence is never re-offered'),
 'C06a': ('C06', 'back do_process_event: wrong De Morgan on the no_transition guard', 'process_event called directly on a contained submachine (or an enqueued unmatched event)'),
 'C06c': ('C06', 'back constructors taking a states expression: fill_states(this) moved before set_states(expr)', 'outer machine constructed with states_ << Sub(): the user instance overwrites the containment mark, the submachine reports no_transition itself'),
 'C07a': ('C07', 'back chain_row: bit test replaced by equality tests again', 'two-region submachine, one region takes while the sibling guard-rejects, outer row on the same event'),
 'C07b': ('C07', 'backmp11 favor_compile_time state_dispatch_table::dispatch: early return only if the submachine result equals TRUE or DEFERRED', 'submachine answers TRUE|GUARD_REJECT (one region takes, a sibling rejects) and the enclosing machine has a row on the submachine for the event'),
 'C08a': ('C08', 'ShallowHistoryImpl::history_exit: store guarded by a comparison against the wrong array', 'three entries of the submachine, region back in its initial state at the second exit'),
 'C09a': ('C09', 'back is_exit_state_active: scans nr_regions of the OUTER machine', 'exit point in the 2nd/3rd region of a submachine whose outer machine has fewer regions'),
 'C08b': ('C08', 'backmp11 history_impl<shallow_history>: the memory array is value-initialised instead of starting at the initial state ids (same idea as C03a, found independently)', 'first-ever entry through an event of the history list with a region whose initial state is not id 0'),
 'C09b': ('C09', 'backmp11 on_explicit_entry: untargeted regions are set to the initial state ids instead of asking the history policy', 'explicit entry / entry point / partial fork into a multi-region submachine with (always_)shallow_history after a previous visit'),
 'C09c': ('C09', 'back/back11 is_exit_state_active: the scan ends at the ENCLOSING machine\'s region count (same idea as C09a, found independently)', 'exit point in a region of the submachine whose index is >= the outer machine\'s region count'),
 'C10a': ('C10', 'backmp11 process_event_internal: the event pool is drained only after a direct call', 'completion-source state inside a submachine reached by a forwarded event'),
 'C10c': ('C10', 'backmp11 process_completion_transition: the busy mark is no longer SET (a reset-only scope guard replaces the set/clear pair)', 'a behaviour inside a completion transition calls process_event: dispatched mid-chain against a state being left'),
 'C11a': ('C11', 'backmp11 process_event_internal: blocking test moved after the event-pool block', 'interrupt state active while another region defers the event / event raised by the end-interrupt action'),
 'C11c': ('C11', 'backmp11 process_event_internal: blocking test moved behind the event-pool section (same idea as C11a, found independently)', 'interrupt state active while another region defers the submitted event'),
 'C12a': ('C12', 'backmp11: result pre-initialised and OR-ed through a reference, handler assignment dropped', 'exception in a region dispatched after a region that already handled the event'),
 'C12b': ('C12', 'backmp11 process_completion_transition: the catch handler returns HANDLED_FALSE at once, skipping m_event_processing = false', 'throw from a behaviour of a completion transition reached through process_event, nothing else pending'),
 'C12c': ('C12', 'back do_process_helper: the catch handler restores a snapshot of m_states ("make a failed event atomic")', 'throw after m_states was already switched: a later region of an orthogonal machine, or a non-default switch policy'),
 'C13a': ('C13', 'backmp11 favor_compile_time: transition_chain::execute starts from FALSE and its caller overwrites the submachine result', 'submachine answers GUARD_REJECT and the composite state has no enabled outgoing row for the event (favor_compile_time only)'),
 'C07c': ('C07', 'backmp11 favor_runtime_speed needs_forward_transition: no longer looks into sub-submachines (the same type-level edit as C13b, found independently)', 'three-level hierarchy, event only the innermost machine has rows for, middle machine does not mention it'),
 'C08c': ('C08', 'backmp11 on_explicit_entry: untargeted regions restart at their initial states instead of asking the history policy ("UML: regions not targeted are entered by default")', 'two-region submachine with always_shallow_history / shallow_history<E>, re-entered through direct<> / entry_pt<> after the untargeted region had moved'),
 'C13c': ('C13', 'back favor_compile_time init_event_base_case: rows of the machine\'s own internal table are added with push_back instead of push_front', 'fsm-level internal_transition_table with two or more rows for one event under back favor_compile_time: guards tried first-declared-first'),
 'C16c': ('C16', 'back serialize: the front-end (base class) is archived only when the machine is not contained ("serialise the front-end only once")', 'a submachine whose front-end declares do_serialize and holds non-default data at the save point'),
 'C18c': ('C18', 'back dispatch_table make_chain_row_from_map_entry: erase_first_rows<..., number_frows> instead of number_frows-1 (a type computation: every forwarding row for the event is removed)', 'active submachine whose table has two or more trigger types matching one event (exact + base class + Kleene): the event is never forwarded'),
 'C02d': ('C02', 'backmp11 history_impl (both shallow variants): on_entry visits with the default sm.visit(visitor) - the recursive mode - instead of visit<active_non_recursive>', 'history submachine entered by a plain transition whose active substate is itself a submachine: leaf entry behaviours run twice'),
 'C03d': ('C03', 'backmp11 transition::execute: the after_guard assignment of the active id hoisted before the guard check (a rejected guard leaves the target id behind)', 'active_state_switch_before_transition + a guarded external transition whose guard is false'),
 'C06d': ('C06', 'backmp11 favor_runtime_speed needs_forward_transition: has_internal_transitions dropped from the mp_or (a type computation)', 'submachine whose OWN internal_transition_table reacts to an event mentioned nowhere else: never offered the event, outer no_transition fires'),
 'C09d': ('C09', 'back row_::execute (action+guard rows): convert_event_and_execute_entry<next_state_type, next_state_type> instead of <next_state_type, T2>', 'outer row with action AND guard into direct<> / fork / entry_pt: the submachine is entered through its initial states'),
 'C10d': ('C10', 'back/back11 process_event_internal: completion step only when the event was handled and NOT also deferred', 'two regions: one takes the event into a state with a completion transition, the other defers the same event (result TRUE|DEFERRED)'),
 'C11d': ('C11', 'back11 is_event_handling_blocked_helper: the end-interrupt exemption is tested first and wins over the terminate check', 'terminate state and interrupt state active at once in two regions, then the end-interrupt event'),
 'C12d': ('C12', 'backmp11 process_event_internal: a submachine called by its parent no longer has its own try/catch ("the parent already dispatches from within its try block")', 'a behaviour of a transition inside an active submachine throws while the parent dispatches: wrong level catches, outer rows never tried, submachine stays busy'),
 'C15d': ('C15', 'backmp11 exit_pt caches the root machine address in a plain member set by init(RootSm&) (copied by the defaulted copy/move)', 'copy / assign / move a machine with a connected exit point in a nested submachine, then the copy takes the exit point: the event lands in the original'),
 'C17d': ('C17', 'back11 is_flag_active: the region loop stops as soon as the flag was found ("no need to ask the remaining regions") - also for Flag_AND', 'Flag_AND, two or more regions, region 0 carries the flag and another does not'),
 'C19d': ('C19', 'active_state_switch_after_exit::after_exit returns the current state (copy-paste from the neighbouring policy)', 'active_state_switch_after_exit and an observation from inside the transition action'),
 'C20d': ('C20', 'basic_polymorphic_base copy assignment: destroy() skipped when both sides hold the same dynamic type (storage "reused", but copy() copy-constructs)', 'copy-assign a backmp11 machine onto one that has a pending event of the same non-trivial / heap-stored type at the same pool index'),
 'C01d': ('C01', 'backmp11 favor_runtime_speed needs_forward_transition_impl: "simplified" to has_transitions || has_forward_transitions - the has_internal_transitions term disappears (type-level; same hole as C06d)', 'active submachine that knows an event only through its own internal_transition_table'),
 'C04d': ('C04', 'back/back11 enqueue_event_helper: the stored occurrence is bound with EVENT_SOURCE_DIRECT instead of EVENT_SOURCE_MSG_QUEUE', 'enqueue_event then execute_single_queued_event with two or more pending events: the whole queue is drained'),
 'C05d': ('C05', 'back/back11 do_entry: do_handle_deferred(false) - no new deferral cycle when a submachine is entered', 'events deferred inside a submachine, kept across its exit by the history policy, submachine re-entered in a non-deferring configuration'),
 'C08d': ('C08', 'ShallowHistoryImpl::history_entry: exact-type test replaced by "is or derives from a listed event" (find_if<is_base_of>)', 'ShallowHistory<E>, entering event D : E that is not itself listed'),
 'C14d': ('C14', 'basic front-end a_irow declares row_type_tag = a_row_tag (one-letter slip): an action-only internal row becomes an external self-transition', 'basic front-end machine with an a_irow row; exit/entry of the state observable'),
 'C07d': ('C07', 'backmp11 on_exit: substates exited with the short form visit(...) - the recursive mode - instead of visit<active_non_recursive>', 'a machine left while a sub-submachine is active (depth 3) or stop() with an active submachine: the innermost states are exited twice'),
 'C13d': ('C13', 'backmp11 function_pointer_array dispatch: early `if constexpr (!has_transitions::value) return HANDLED_FALSE` ("every cell is empty")', 'opt-in function_pointer_array strategy, an event that is a trigger only inside a submachine: never forwarded (the forwarding cells are exactly the non-null ones)'),
 'C18d': ('C18', 'back dispatch_table init_event_base_case: non-Kleene rows are stored through the converting wrapper convert_event_and_forward (a sliced copy of the event)', 'a derived event taken by the only matching row whose trigger is its base class; observer looks at the dynamic type / derived payload'),
 'C16d': ('C16', 'back/back11 serialize_state: a submachine is archived only if its front-end has do_serialize or its history policy is not NoHistory ("reset on entry anyway")', 'nested submachine with NoHistory and no do_serialize, saved while active in a non-initial inner state / with opt-in state data inside'),
 'C01e': ('C01', 'backmp11 favor_compile_time state_dispatch_table::dispatch: consumed-test on the submachine result rewritten as equality with TRUE or DEFERRED (mixed codes such as 3 no longer stop the dispatch)', 'favor_compile_time, active submachine consuming with a mixed result (one region takes, a sibling rejects) and an outer row on the submachine'),
 'C04e': ('C04', 'back/back11 do_handle_prio_msg_queue_deferred_queue(true_): the two source checks merged - no queue drain after a re-offered deferred event', 'event_queue_before_deferred_queue policy; a deferred event whose handling submits an event, then a further external event'),
 'C05e': ('C05', 'back/back11 do_handle_deferred: std::stable_sort replaced by std::partition (not stable)', 'three or more deferred events, two on one side of the event that is handled in the re-offering pass'),
 'C06e': ('C06', 'back11 _irow_::execute returns HANDLED_GUARD_REJECT instead of HANDLED_TRUE ("only swallowed")', 'back11, internal row without action and guard: process_event answers without the handled bit'),
 'C02e': ('C02', 'back g_row_::execute: the entry step calls execute_entry<next_state_type> instead of convert_event_and_execute_entry<next_state_type,T2>', 'guard-only row into direct<> / fork / entry_pt: every region enters its initial substate'),
 'C03e': ('C03', 'the three non-default switch policies: after_entry returns current_state ("the switch already happened") - the already exited source is written back', 'any non-default active_state_switch_policy and one external transition'),
 'C07e': ('C07', 'back frow::execute ends with return res ? HANDLED_TRUE : HANDLED_FALSE', 'inner guards all false and an outer row on the submachine state: the rejected event is reported as handled, the outer row never tried'),
 'C08e': ('C08', 'backmp11 history_impl (both shallow variants): entry visit with visit_mode::active_recursive ("deep history")', 'history submachine re-entered with a region coming up in a substate that is itself a machine: its entry behaviours run twice'),
 'C09e': ('C09', 'backmp11 transition::execute: the exit-point-active test moved below the guard and the after_guard assignment', 'active_state_switch_before_transition; the exit point event sent from outside while the exit point is not active: the region id is overwritten'),
 'C10e': ('C10', 'back11 start() / start(Event): the message queue is drained before the completion event of the initial states', 'back11, an initial state with a completion transition, an event raised by an initial entry behaviour (or enqueued before start)'),
 'C11e': ('C11', 'backmp11 process_completion_transition: the interrupted half of the blocking test dropped', 'one event sends a region into an interrupt state and another region into a state with a completion transition'),
 'C12e': ('C12', 'backmp11 transition::execute: on_state_entry_completed (queues the completion occurrence) moved before the target entry behaviour', 'target state owns a completion transition and its entry throws: the stale completion occurrence fires after exception_caught'),
 'C13e': ('C13', 'back11 do_pre_msg_queue_helper: re-uses enqueue_event_helper - the queued call loses EVENT_SOURCE_DIRECT', 'a submachine behaviour sends its own machine an event nothing handles when dequeued: back11 no longer calls no_transition'),
 'C13b': ('C13', 'backmp11 favor_runtime_speed needs_forward_transition: no longer looks into sub-submachines (a type computation)', 'three-level hierarchy, event only the innermost machine has rows for, middle machine does not mention it'),
 'C14a': ('C14', 'puml parse_row_right: action length clamped to 0 when the guard is written before the action list', 'a transition line of the form  A -> B : ev [guard] / action'),
 'C14c': ('C14', 'functor Internal<> rows with an action always answer HANDLED_TRUE (instead of get_functor_return_value<Action>)', 'state-local internal row whose action defers (Defer or a deferring sequence): answers TRUE, the back-end re-dispatches the deferred event at once'),
 'C15a': ('C15', 'ShallowHistoryImpl::operator=: remembered states loaded from the source\'s initial states', 'copy of a machine whose history region was left in a non-initial state, followed by a history re-entry'),
 'C15c': ('C15', 'back/back11 do_copy: the copy_helper pass (re-pointing the copied substates to the copy) removed as redundant', 'state using the sm_ptr policy in a copied machine: its fsm pointer designates the source'),
 'C16a': ('C16', 'history policies: serialize no longer archives m_initialStates (the memory of AlwaysHistory)', 'AlwaysHistory submachine left in a non-initial state, saved, restored, re-entered'),
 'C06b': ('C06', 'backmp11 favor_compile_time state_dispatch_table::dispatch: the submachine result is kept in a separate local, the outer result restarts from FALSE', 'event matching only guard-rejected rows inside an active composite (favor_compile_time)'),
 'C10b': ('C10', 'back process_event_internal: completion event issued before the busy mark is cleared', 'completion-source state entered by an event while another event is pending (queued, nested or deferred)'),
 'C11b': ('C11', 'back process_event_internal: blocking test skipped for events re-dispatched from the deferred queue', 'deferred event pending when a terminate / interrupt state becomes active'),
 'C14b': ('C14', 'puml parse_row_right: action length clamped to 0 when the guard precedes the action list (same edit as C14a, found independently)', 'a transition line of the form  A -> B : ev [guard] / action'),
 'C15b': ('C15', 'backmp11 event_occurrence: user-provided copy constructor that forgets m_marked_for_deletion', 'machine copied right after a LIMITED pool drain (process_event_pool(n)) - the copy replays the processed occurrence'),
 'C16b': ('C16', 'back11 serialize: m_states archived only when the machine is not contained ("the history policy has it")', 'nested back11 machine saved while the submachine is active and past its initial state'),
 'C17a': ('C17', 'back is_flag_active fold: wrong early break', '>= 3 regions where regions 0 and 1 agree and a later one differs'),
 'C17b': ('C17', 'backmp11 recursive_visit_set: submachine_needs_traversal computed from the submachine\'s DIRECT states only (a type computation)', 'flag carried only by a state two or more submachine levels below the queried machine'),
 'C17c': ('C17', 'back init_flags: a submachine gets the forwarding flag handler only if one of its DIRECT states carries the flag (new type-level test)', 'flag carried only by a state two or more levels below the queried machine (back)'),
 'C18a': ('C18', 'back defer_event_kleene_helper: binds the functor argument ev (default-constructed type carrier) instead of any_cast<Event>(m_event)', 'Kleene row that defers (front::Defer) an event whose payload differs from a default-constructed one'),
 'C02b': ('C02', 'backmp11 state_visitor_impl active visit: loops interchanged (state list outer, regions inner)', 'exit of a multi-region machine while an earlier region is in a state with a larger id than a later region'),
 'C03b': ('C03', 'back start(): re-initialisation of m_states from the initial states removed ("the constructor did it")', 'stop() and start() again with a region off its initial state'),
 'C18b': ('C18', 'back defer_event_kleene_helper binds the type carrier ev instead of any_cast<Event>(m_event) (the same edit as C18a, found independently)', 'Kleene row that defers an event with a non-default payload'),
 'C19a': ('C19', 'back g_row_: the after_action store was dropped', 'policy after_transition_action, guard-only row, observation from the target entry'),
 'C19b': ('C19', 'backmp11 transition::execute: the after_action state switch moved inside `if constexpr (HasAction)`', 'active_state_switch_after_transition_action, external row without an action, observation from the target entry'),
 'C19c': ('C19', 'back11 g_row_ / _row_: the after_action state store dropped ("no action, nothing to switch")', 'back11, active_state_switch_after_transition_action, action-less external row, observation from the target entry'),
 'C20a': ('C20', 'basic_polymorphic_base move assignment: control block replaced before destroy()', 'deque erase in the middle with a neighbour of another storage class / destructor'),
 'C20b': ('C20', 'backmp11 basic_polymorphic IsInline: alignment test relaxed to alignof(max_align_t) although the inline buffer is only pointer-aligned', 'stored event with 8 < alignof <= 16 (long double, __int128, alignas(16)) that fits the buffer'),
 'C20c': ('C20', 'back/back11 process_message_queue: the stored functor is called in place (front()()) and popped afterwards', 'queue_container_circular at capacity while the dispatched event\'s action submits one more: the event under dispatch is overwritten, a pending one is lost'),
}
ids = sys.argv[1:] or sorted(SEEDS)
rows = []
for sid in ids:
    prop, what, needs = SEEDS[sid]
    d = os.path.join(VERIF, 'seeded', sid)
    res = {}
    for tier in ('quick', 'thorough'):
        r = subprocess.run([sys.executable, os.path.join(VERIF, 'tools', 'mutant.py'), '--patch', os.path.join(d, 'patch.diff'), '--', '%s:%s' % (prop, tier)],
                           stdout=subprocess.PIPE, stderr=subprocess.STDOUT)
        out = r.stdout.decode('utf-8', 'replace')
        obs = sorted(set(re.findall(r'obligation=(\S+)', out)))[:6]
        nat = sorted(set(re.findall(r'found-by=\S+ family=(\S+) (\S+)', out)))[:4]
        res[tier] = dict(exit=r.returncode, obligations=obs, native=[' '.join(x) for x in nat])
        if r.returncode == 1: break
    caught = next((t for t in ('quick', 'thorough') if res.get(t, {}).get('exit') == 1), None)
    conf = ''
    try: conf = open(os.path.join(d, 'confirm.txt')).read().strip().splitlines()
    except OSError: conf = []
    meta = dict(id=sid, property_broken=prop, change=what, needs_to_manifest=needs,
                confirmed=dict(by='tools/confirm_seed.sh (scratch worktree of /repo, removed afterwards)', result=conf),
                ran='tools/mutant.py --patch seeded/%s/patch.diff -- %s:<tier>  (patch applied to a scratch copy of /repo/include; /repo untouched)' % (sid, prop),
                detection=res, caught_by_tier=caught)
    json.dump(meta, open(os.path.join(d, 'meta.json'), 'w'), indent=1)
    rows.append((sid, prop, caught, (res[caught]['obligations'] or res[caught]['native'])[:2] if caught else '-'))
    print(sid, prop, caught, rows[-1][3], flush=True)
