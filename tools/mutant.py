#!/usr/bin/env python3
"""tools/mutant.py <header-relative-to-include/boost/msm> <python-regex> <replacement> [--count N] -- <PROP>...
Applies one regex substitution to a scratch copy of /repo/include (under $TMPDIR, removed afterwards) and runs the
given checks against it (VERIF_REPO).  Evidence of these runs goes to build/mutant_evidence, never to evidence/.
Also: tools/mutant.py --patch <file.diff> -- <PROP>...  (git-apply style patch against a scratch copy)."""
import sys, os, re, shutil, subprocess, tempfile
VERIF = os.path.dirname(os.path.dirname(os.path.abspath(__file__)))
args = sys.argv[1:]
i = args.index('--'); spec, props = args[:i], args[i + 1:]
tmp = tempfile.mkdtemp(prefix='msm_mut_')
try:
    shutil.copytree('/repo/include', os.path.join(tmp, 'include'))
    if spec[0] == '--patch':
        r = subprocess.run(['patch', '-p1', '-d', tmp, '-i', os.path.abspath(spec[1])], stdout=subprocess.PIPE, stderr=subprocess.STDOUT)
        if r.returncode != 0: print(r.stdout.decode()); sys.exit(3)
    else:
        f = os.path.join(tmp, 'include/boost/msm', spec[0])
        s = open(f).read()
        cnt = int(spec[spec.index('--count') + 1]) if '--count' in spec else 0
        s2, n = re.subn(spec[1], spec[2], s, count=cnt, flags=re.S)
        print("mutant: %d substitution(s) in %s" % (n, spec[0]))
        if n == 0: sys.exit(3)
        open(f, 'w').write(s2)
    env = dict(os.environ, VERIF_REPO=tmp, VERIF_EVIDENCE_DIR=os.path.join(VERIF, 'build', 'mutant_evidence'), VERIF_BUILD_TAG='mut_' + os.path.basename(tmp))
    rc_all = 0
    for p in props:
        extra = []
        if ':' in p: p, t = p.split(':'); extra = ['--tier', t]
        r = subprocess.run([os.path.join(VERIF, 'check'), p] + extra, env=env)
        print("-> check %s exit %d" % (p, r.returncode))
        rc_all = max(rc_all, r.returncode)
    sys.exit(rc_all)
finally:
    shutil.rmtree(tmp, ignore_errors=True)
    shutil.rmtree(os.path.join(VERIF, 'build', 'mut_' + os.path.basename(tmp)), ignore_errors=True)
