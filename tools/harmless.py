import re,sys,subprocess,shutil,os,tempfile
# harmless edits: must keep every check green (exit 0)
edits = [
 ('back/state_machine.hpp', [(r'HandledEnum handled = this->do_process_helper<Event>\(', 'HandledEnum outcome = this->do_process_helper<Event>('), (r'eventless_helper\(this,\(HANDLED_TRUE & handled\)\);', 'eventless_helper(this,(HANDLED_TRUE & outcome));'),
    (r'source,handled,\n', 'source,outcome,\n'), (r'            return handled;\n        \}\n    \}', '            return outcome;\n        }\n    }')], ['C04','C10','C11','C12']),
 ('back/dispatch_table.hpp', [(r'HandledEnum res = first_row::execute', '/* try the first row */ HandledEnum res = first_row::execute')], ['C01']),
 ('backmp11/detail/state_machine_base.hpp', [(r'(\n        m_running = true;\n        m_event_processing = true;\n)', r'\n        m_event_processing = true;\n        m_running = true;\n')], ['C04','C02']),
 ('back/history_policies.hpp', [(r'for \(int i=0; i<NumberOfRegions;\+\+i\)', 'for (int i = 0; i < NumberOfRegions; i++)')], ['C08']),
]
for hdr, subs, props in edits:
    tmp = tempfile.mkdtemp(prefix='harmless_')
    shutil.copytree('/repo/include', tmp + '/include')
    f = tmp + '/include/boost/msm/' + hdr; s = open(f).read(); tot = 0
    for rx, rep in subs:
        s, n = re.subn(rx, rep, s); tot += n
    open(f, 'w').write(s)
    print(hdr, 'substitutions:', tot, flush=True)
    for p in props:
        env = dict(os.environ, VERIF_REPO=tmp, VERIF_EVIDENCE_DIR=tmp + '/ev', VERIF_BUILD_TAG='harmless')
        r = subprocess.run(['/verif/check', p], env=env, stdout=subprocess.PIPE, stderr=subprocess.STDOUT)
        tail = [l for l in r.stdout.decode().splitlines() if not l.startswith(('KNOWN', '  '))][-2:]
        print('  ', p, 'exit', r.returncode, ' | '.join(t[:160] for t in tail), flush=True)
    shutil.rmtree(tmp); shutil.rmtree('/verif/build/harmless', ignore_errors=True)
