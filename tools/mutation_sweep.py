#!/usr/bin/env python3
"""tools/mutation_sweep.py <header-substr> [--jobs N] [--max M]: systematic self-assessment of the contracts.
For every unit whose extracted source lies in a matching header, small syntactic mutants of the REAL code inside the unit's line
range are generated (operator flips, constant flips, statement deletion); each is applied to a scratch copy of /repo/include and the
unit is re-checked under each of its properties.  killed = some property's check exits 1; undecided = exit 2 everywhere (extraction
drift: a real change of that shape would fall back to the native families); SURVIVED = every check stays green -> either an
equivalent mutant or a hole in a contract (to be triaged by hand).  Nothing in /repo is touched."""
import os, re, sys, json, glob, shutil, subprocess, tempfile, argparse
from concurrent.futures import ThreadPoolExecutor
V = os.path.dirname(os.path.dirname(os.path.abspath(__file__)))
sys.path.insert(0, V)
ap = argparse.ArgumentParser(); ap.add_argument('header'); ap.add_argument('--jobs', type=int, default=8); ap.add_argument('--max', type=int, default=100000); ap.add_argument('--unit', default=''); ap.add_argument('--lines', default='', help='only these line numbers, comma separated'); ap.add_argument('--only-delete', action='store_true'); ap.add_argument('--native', action='store_true', help='let undecided units fall back on the native families, as a real quick-tier run does')
a = ap.parse_args()
import units as U
props = {u.name: u.props for u in U.all_units()}
src = {}
for f in glob.glob(os.path.join(V, 'evidence', 'C*.json')):
    for u in json.load(open(f))['coverage'].get('units', []):
        for s in u.get('source', []):
            m = re.match(r'(\d+)-(\d+)', str(s.get('lines', '')))
            if m and a.header in s['header'] and a.unit in u['unit']: src.setdefault(u['unit'], set()).add((s['header'].replace('include/boost/msm/', ''), int(m.group(1)), int(m.group(2))))
OPS = [(r'==', '!='), (r'!=', '=='), (r'&&', '||'), (r'\|\|', '&&'), (r'\|=', '='), (r'(?<![<>=!\w:]) < (?![<=])', ' <= '), (r'\btrue\b', 'false'), (r'\bfalse\b', 'true'),
       (r'\+ 1\b', '+ 0'), (r'\+= 1\b', '+= 0'), (r'!\(', '('), (r'\bif \(!', 'if ('), (r'\bif \((?!!)', 'if (!'), (r'\+\+', '--'), (r'& ', '| '), (r'HANDLED_TRUE', 'HANDLED_FALSE'), (r'HANDLED_DEFERRED', 'HANDLED_TRUE')]
muts = []
for unit, ranges in sorted(src.items()):
    for (hdr, lo, hi) in sorted(ranges):
        L = open(os.path.join('/repo/include/boost/msm', hdr)).read().split('\n')
        for ln in range(lo, hi + 1):
            line = L[ln - 1]; st = line.strip()
            if not st or st.startswith('//') or st.startswith('#') or st in ('{', '}', '};', 'else') or 'static_assert' in st or 'BOOST_STATIC' in st or st.startswith('using ') or st.startswith('typedef '): continue
            code = line.split('//')[0]
            for rx, rep in OPS:
                for m in re.finditer(rx, code):
                    new = code[:m.start()] + rep + code[m.end():]
                    muts.append((unit, hdr, ln, 'op %s->%s' % (m.group(0), rep), new))
            if st.endswith(';') and not re.match(r'(return|break|continue|const |auto |int |bool |size_t |uint\d+_t |process_result |HandledEnum |typename )', st) and '(' in st or re.match(r'[\w>\-\.\[\]\*]+ *[\|]?= *[^=]', st):
                muts.append((unit, hdr, ln, 'delete statement', '/* deleted */'))
if a.lines: muts = [m for m in muts if str(m[2]) in a.lines.split(',')]
if a.only_delete: muts = [m for m in muts if m[3] == 'delete statement']
muts = muts[:a.max]
print('%d mutants over %d units' % (len(muts), len(src)), flush=True)
def run(mu):
    unit, hdr, ln, what, newline = mu
    tmp = tempfile.mkdtemp(prefix='msm_sweep_')
    try:
        shutil.copytree('/repo/include', os.path.join(tmp, 'include'))
        f = os.path.join(tmp, 'include/boost/msm', hdr); L = open(f).read().split('\n'); old = L[ln - 1]; L[ln - 1] = newline; open(f, 'w').write('\n'.join(L))
        verdicts = []; why = ''
        for p in props.get(unit, []):
            if p == 'C13': continue
            env = dict(os.environ, VERIF_REPO=tmp, VERIF_EVIDENCE_DIR=os.path.join(tmp, 'ev'), VERIF_BUILD_TAG='sweep_' + os.path.basename(tmp), **({} if a.native else {'VERIF_NO_NATIVE': '1'}))
            r = subprocess.run([os.path.join(V, 'check'), p, '--unit', unit, '--tier', 'quick', '--jobs', '2'], env=env, stdout=subprocess.PIPE, stderr=subprocess.STDOUT)
            verdicts.append(r.returncode)
            if r.returncode == 2:
                w = [l for l in r.stdout.decode(errors='replace').split('\n') if l.startswith('UNDECIDED') and 'reason=' in l]
                if w: why = w[0].split('reason=', 1)[1][:160]
            if r.returncode == 1: break
        v = 'killed' if 1 in verdicts else ('undecided' if verdicts and all(x == 2 for x in verdicts) else 'SURVIVED')
        return (v, unit, hdr, ln, what, old.strip()[:110] + ('   <' + why + '>' if v == 'undecided' else ''))
    finally:
        shutil.rmtree(tmp, ignore_errors=True); shutil.rmtree(os.path.join(V, 'build', 'sweep_' + os.path.basename(tmp)), ignore_errors=True)
cnt = {}
with ThreadPoolExecutor(max_workers=a.jobs) as ex:
    for res in ex.map(run, muts):
        cnt[res[0]] = cnt.get(res[0], 0) + 1
        if res[0] != 'killed': print('%-9s %-55s %s:%d  %-22s | %s' % res, flush=True)
print('SUMMARY', cnt)
