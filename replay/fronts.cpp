// CONFIGS: back back11 backmp11
// family `fronts` (C14): ONE machine description written with four front-ends - functor rows (Row / Internal with none), the basic
// member-function rows (row a_row g_row _row irow), the row2 family (members of states and of the machine: row2 a_row2 g_row2 _row2
// irow2) and a state-local / machine-level internal_transition_table (functor Internal<> vs internal_row.hpp's internal<>).
// Oracle: a small interpreter of the description written from the statement of C14 (same states, triggers, targets, guards, actions
// -> same observable behaviour on every event sequence and guard valuation); every variant is compared with the interpreter.
#include "common.hpp"
#include <boost/msm/front/row2.hpp>
#include <boost/msm/front/internal_row.hpp>
struct ea {}; struct eb {}; struct ec {}; struct ed {}; struct ei {}; struct ef {}; struct ej {}; struct ek {};
static std::string g_log; static unsigned g_bits = 0;
enum { GA = 0, GC = 1, GI = 2, GF = 3 };   /* the guard-only internal row on ek shares bit GI */
// states log their entry / exit: an internal transition must show neither (C02), whichever front-end spells it
template<int N> struct LS : state<> { template<class E,class F> void on_entry(E const&,F&){ g_log += "+" + std::to_string(N) + " "; } template<class E,class F> void on_exit(E const&,F&){ g_log += "-" + std::to_string(N) + " "; } };
static bool gd(int k, const char* n) { g_log += n; g_log += ' '; return (g_bits >> k) & 1; }
static void ac(const char* n) { g_log += n; g_log += ' '; }
#if defined(CFG_back11)
#define HAS_SM_INTERNAL 0     /* back11 does not compile a machine-level internal table (see family sel) */
#else
#define HAS_SM_INTERNAL 1
#endif
// ---- variant F: functor rows
struct ActA { template<class E,class F,class S,class T> void operator()(E const&,F&,S&,T&){ ac("aA"); } };
struct ActB { template<class E,class F,class S,class T> void operator()(E const&,F&,S&,T&){ ac("aB"); } };
struct ActI { template<class E,class F,class S,class T> void operator()(E const&,F&,S&,T&){ ac("aI"); } };
struct ActJ { template<class E,class F,class S,class T> void operator()(E const&,F&,S&,T&){ ac("aJ"); } };
struct GuK { template<class E,class F,class S,class T> bool operator()(E const&,F&,S&,T&){ return gd(GI, "gK"); } };
struct ActF { template<class E,class F,class S,class T> void operator()(E const&,F&,S&,T&){ ac("aF"); } };
struct GuA { template<class E,class F,class S,class T> bool operator()(E const&,F&,S&,T&){ return gd(GA, "gA"); } };
struct GuC { template<class E,class F,class S,class T> bool operator()(E const&,F&,S&,T&){ return gd(GC, "gC"); } };
struct GuI { template<class E,class F,class S,class T> bool operator()(E const&,F&,S&,T&){ return gd(GI, "gI"); } };
struct GuF { template<class E,class F,class S,class T> bool operator()(E const&,F&,S&,T&){ return gd(GF, "gF"); } };
struct F_ : state_machine_def<F_> {
  struct S0 : LS<0> {}; struct S1 : LS<1> {}; struct S2 : LS<2> {};
  typedef S0 initial_state;
  struct transition_table : mpl::vector<
    Row<S0, ea, S1, ActA, GuA>, Row<S1, eb, S2, ActB, none>, Row<S2, ec, S0, none, GuC>, Row<S0, ed, S2, none, none>, Row<S1, ei, none, ActI, GuI>,
    Row<S1, ej, none, ActJ, none>, Row<S1, ek, none, none, GuK> > {};
#if HAS_SM_INTERNAL
  struct internal_transition_table : mpl::vector< Internal<ef, ActF, GuF> > {};
#endif
  template<class M,class Ev> void no_transition(Ev const&,M&,int){ g_log += "NT "; }
};
// ---- variant B: basic member-function rows of state_machine_def
struct B_ : state_machine_def<B_> {
  struct S0 : LS<0> {}; struct S1 : LS<1> {}; struct S2 : LS<2> {};
  typedef S0 initial_state;
  void actA(ea const&){ ac("aA"); } void actB(eb const&){ ac("aB"); } void actI(ei const&){ ac("aI"); } void actF(ef const&){ ac("aF"); } void actJ(ej const&){ ac("aJ"); } bool guK(ek const&){ return gd(GI, "gK"); }
  bool guA(ea const&){ return gd(GA, "gA"); } bool guC(ec const&){ return gd(GC, "gC"); } bool guI(ei const&){ return gd(GI, "gI"); } bool guF(ef const&){ return gd(GF, "gF"); }
  typedef B_ p;
  struct transition_table : mpl::vector<
    row<S0, ea, S1, &p::actA, &p::guA>, a_row<S1, eb, S2, &p::actB>, g_row<S2, ec, S0, &p::guC>, _row<S0, ed, S2>, irow<S1, ei, &p::actI, &p::guI>,
    a_irow<S1, ej, &p::actJ>, g_irow<S1, ek, &p::guK> > {};
#if HAS_SM_INTERNAL
  struct internal_transition_table : mpl::vector< boost::msm::front::internal<ef, p, &p::actF, p, &p::guF> > {};
#endif
  template<class M,class Ev> void no_transition(Ev const&,M&,int){ g_log += "NT "; }
};
// ---- variant R: the row2 family, behaviours are members of STATES (and one guard a member of the machine)
// (not under backmp11: row2_helper reaches the state through fusion::at_key on the state set, which is a std::tuple there - does not compile)
#if !IS_MP11
static const void* g_obj[8];
struct R_ : state_machine_def<R_> {
  // (g_obj / n: the object a behaviour is called on must be the machine's own state instance - scenario row2-family.behaviours-run-on-the-machines-own-state-objects)
  struct S0 : LS<0> { int n = 0; void actA(ea const&){ g_obj[0] = this; ++n; ac("aA"); } bool guA(ea const&){ g_obj[1] = this; return gd(GA, "gA"); } };
  struct S1 : LS<1> { int n = 0; void actB(eb const&){ g_obj[2] = this; ++n; ac("aB"); } void actI(ei const&){ g_obj[3] = this; ++n; ac("aI"); } bool guI(ei const&){ g_obj[4] = this; return gd(GI, "gI"); } void actJ(ej const&){ g_obj[5] = this; ++n; ac("aJ"); } bool guK(ek const&){ g_obj[6] = this; return gd(GI, "gK"); } };
  struct S2 : LS<2> {};
  typedef S0 initial_state;
  bool guC(ec const&){ g_obj[7] = this; return gd(GC, "gC"); } void actF(ef const&){ ac("aF"); } bool guF(ef const&){ return gd(GF, "gF"); }
  typedef R_ p;
  struct transition_table : mpl::vector<
    row2<S0, ea, S1, S0, &S0::actA, S0, &S0::guA>, a_row2<S1, eb, S2, S1, &S1::actB>, g_row2<S2, ec, S0, p, &p::guC>, _row2<S0, ed, S2>,
    irow2<S1, ei, S1, &S1::actI, S1, &S1::guI>, a_irow2<S1, ej, S1, &S1::actJ>, g_irow2<S1, ek, S1, &S1::guK> > {};
#if HAS_SM_INTERNAL
  struct internal_transition_table : mpl::vector< boost::msm::front::internal<ef, p, &p::actF, p, &p::guF> > {};
#endif
  template<class M,class Ev> void no_transition(Ev const&,M&,int){ g_log += "NT "; }
};
#endif
// ---- variant L: the internal row of S1 written as a state-LOCAL internal_transition_table
struct L_ : state_machine_def<L_> {
  struct S0 : LS<0> {}; struct S2 : LS<2> {};
  struct S1 : LS<1> { struct internal_transition_table : mpl::vector< Internal<ei, ActI, GuI>, Internal<ej, ActJ, none>, Internal<ek, none, GuK> > {}; };
  typedef S0 initial_state;
  struct transition_table : mpl::vector<
    Row<S0, ea, S1, ActA, GuA>, Row<S1, eb, S2, ActB, none>, Row<S2, ec, S0, none, GuC>, Row<S0, ed, S2, none, none> > {};
#if HAS_SM_INTERNAL
  struct internal_transition_table : mpl::vector< Internal<ef, ActF, GuF> > {};
#endif
  template<class M,class Ev> void no_transition(Ev const&,M&,int){ g_log += "NT "; }
};
// ---- the description, interpreted (state index 0..2; returns the expected log of one step and the new state)
static std::string step(int& s, int ev) {
  auto b = [](int k){ return (g_bits >> k) & 1; };
  switch (ev) {
    case 0: if (s == 0) { if (b(GA)) { s = 1; return "gA -0 aA +1 "; } return "gA "; } break;
    case 1: if (s == 1) { s = 2; return "-1 aB +2 "; } break;
    case 2: if (s == 2) { if (b(GC)) { s = 0; return "gC -2 +0 "; } return "gC "; } break;
    case 3: if (s == 0) { s = 2; return "-0 +2 "; } break;
    case 4: if (s == 1) { return b(GI) ? "gI aI " : "gI "; } break;
    case 5: if (HAS_SM_INTERNAL) return b(GF) ? "gF aF " : "gF "; break;
    case 6: if (s == 1) return "aJ "; break;                       // action-only internal row: no exit, no entry
    case 7: if (s == 1) return "gK "; break;                       // guard-only internal row
  }
  return "NT ";
}
template<class M> static void fire(M& m, int ev) {
  switch (ev) { case 0: m.process_event(ea()); break; case 1: m.process_event(eb()); break; case 2: m.process_event(ec()); break;
                case 3: m.process_event(ed()); break; case 4: m.process_event(ei()); break; case 5: m.process_event(ef()); break; case 6: m.process_event(ej()); break; default: m.process_event(ek()); } }
template<class Front> static void variant(const char* name) {
  typedef BE<Front> M;
  const int NEV = 8, LEN = 4; int bad = 0, runs = 0; std::string first;
  for (unsigned v = 0; v < 16; ++v) {
    int idx[LEN] = {0, 0, 0, 0};
    for (;;) {
      g_bits = v; M m; m.start(); g_log.clear(); std::string exp; int s = 0;     // (the initial entry +0 is cleared)
      for (int k = 0; k < LEN; ++k) { fire(m, idx[k]); exp += step(s, idx[k]); exp += "| "; g_log += "| "; }
      ++runs;
      if (g_log != exp) { if (!bad++) first = "guards=" + std::to_string(v) + " events=" + std::to_string(idx[0]) + std::to_string(idx[1]) + std::to_string(idx[2]) + std::to_string(idx[3]) + " log=[" + g_log + "] expected=[" + exp + "]"; }
      int k = LEN - 1; while (k >= 0 && ++idx[k] == NEV) { idx[k] = 0; --k; }
      if (k < 0) break;
    }
  }
  report(std::string(name) + ".all-sequences-of-4-events-all-guard-valuations", bad == 0, "C14,C02,C01",
         std::to_string(runs) + " runs, " + std::to_string(bad) + " differ from the description" + (bad ? "; first: " + first : ""));
}
int main(int argc, char** argv) {
  if (argc > 1) g_only = argv[1];
  variant<F_>("functor-rows");
  variant<B_>("basic-member-rows");
#if !IS_MP11
  variant<R_>("row2-family");
  { typedef BE<R_> M; g_bits = ~0u; for (auto& o : g_obj) o = nullptr; M m; m.start();
    m.process_event(ea()); m.process_event(ei()); m.process_event(ej()); m.process_event(ek()); m.process_event(ei()); m.process_event(eb()); m.process_event(ec());
    const void* s0 = &m.template get_state<R_::S0&>(); const void* s1 = &m.template get_state<R_::S1&>(); const void* me = static_cast<R_*>(&m);
    bool same = g_obj[0] == s0 && g_obj[1] == s0 && g_obj[2] == s1 && g_obj[3] == s1 && g_obj[4] == s1 && g_obj[5] == s1 && g_obj[6] == s1 && g_obj[7] == me;
    int n0 = m.template get_state<R_::S0&>().n, n1 = m.template get_state<R_::S1&>().n;
    report("row2-family.behaviours-run-on-the-machines-own-state-objects", same && n0 == 1 && n1 == 4, "C14,C02",
           std::string("row2 actions / guards that are members of a state are called on the state instance the machine owns (not on a copy): addresses ") + (same ? "agree" : "DIFFER")
           + ", data written by the actions: S0.n=" + std::to_string(n0) + " (expected 1) S1.n=" + std::to_string(n1) + " (expected 4)"); }
#endif
  variant<L_>("state-local-internal-table");
  return finish();
}
