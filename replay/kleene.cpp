// CONFIGS: back backmp11
// family `kleene` (C18): exact, base-class and Kleene (boost::any / std::any) triggers in one state; payload integrity; deferral of
// a Kleene event.
#include "common.hpp"
#include <boost/any.hpp>
#include <any>
#include <boost/msm/event_traits.hpp>
struct base_ev { int v; base_ev(int x=0):v(x){} }; struct derived_ev : base_ev { derived_ev(int x=0):base_ev(x){} }; struct other_ev { int v; other_ev(int x=0):v(x){} };
struct nxt {};
static std::string g_log;
struct ActExact { template<class F,class S,class T> void operator()(derived_ev const& e,F&,S&,T&){ g_log += "exact:" + std::to_string(e.v) + " "; } };
struct ActBase  { template<class F,class S,class T> void operator()(base_ev const& e,F&,S&,T&){ g_log += "base:" + std::to_string(e.v) + " "; } };
struct ActAny   { template<class F,class S,class T> void operator()(boost::any const& e,F&,S&,T&){ g_log += "any:"; if (auto p = boost::any_cast<other_ev>(&e)) g_log += std::to_string(p->v); else if (auto q = boost::any_cast<derived_ev>(&e)) g_log += "d" + std::to_string(q->v); else g_log += "?"; g_log += " "; } };
struct M_ : state_machine_def<M_> {
  struct S0 : state<> {}; struct S1 : state<> {}; struct S2 : state<> {}; struct S3 : state<> {};
  typedef S0 initial_state;
  struct transition_table : mpl::vector<
    Row<S0, boost::any, S1, ActAny, none>,        // declared first: lowest priority
    Row<S0, base_ev,   S2, ActBase, none>,
    Row<S0, derived_ev,S3, ActExact, none>,       // declared last: tried first
    Row<S1, nxt, S0>, Row<S2, nxt, S0>, Row<S3, nxt, S0> > {};
  template<class F,class Ev> void no_transition(Ev const&,F&,int){ g_log += "NT "; }
};
typedef BE<M_> M;
// second machine: a Kleene row defers (front::Defer) every other_ev while Busy; after `nxt` the deferred occurrences come back: the first
// to an exact-type row, the second to a Kleene row - both must see the payload that was posted (C18 payload integrity through deferral)
struct ActOther { template<class F,class S,class T> void operator()(other_ev const& e,F&,S&,T&){ g_log += "exact-other:" + std::to_string(e.v) + " "; } };
struct IsOther { template<class E,class F,class S,class T> bool operator()(E const& e,F&,S&,T&){ return boost::any_cast<other_ev>(&e) != 0; } };
struct D_ : state_machine_def<D_> {
  typedef int activate_deferred_events;
  struct Busy : state<> {}; struct Idle : state<> {};
  struct Ready : state<> { template<class E,class F> void on_entry(E const&,F&){} template<class F> void on_entry(other_ev const& e,F&){ g_log += "entry-other:" + std::to_string(e.v) + " "; } };
  typedef Busy initial_state;
  struct transition_table : mpl::vector<
    Row<Busy, boost::any, none, Defer, IsOther>,
    Row<Busy, nxt, Idle>,
    Row<Idle, other_ev, Ready, ActOther, none>,
    Row<Ready, boost::any, none, ActAny, none> > {};
  template<class F,class Ev> void no_transition(Ev const&,F&,int){ g_log += "NT "; }
};
typedef BE<D_> D;
// the first machine used as a SUBMACHINE: the enclosing machine has no row of its own for these events; each must be forwarded to the
// submachine exactly once (the submachine has several trigger types - exact, base class, Kleene - that match one event; how many
// forwarding rows result is a compile-time computation of the back-end) and handled there as if it were the root (C18, C07)
struct TopM_ : state_machine_def<TopM_> {
  typedef M initial_state;
  struct transition_table : mpl::vector<> {};
  template<class F,class Ev> void no_transition(Ev const&,F&,int){ g_log += "NTtop "; }
};
typedef BE<TopM_> TopM;
// a derived event taken by the ONLY matching row, whose trigger is its base class: guard, exit, action and entry must see the event object
// itself (dynamic type and derived payload intact), not a copy sliced to the trigger type (C18 payload integrity)
struct pbase { int v; pbase(int x = 0) : v(x) {} virtual ~pbase() {} virtual int weight() const { return 1; } };
struct pderived : pbase { pderived(int x = 0) : pbase(x) {} int weight() const override { return 700 + v; } };
struct GW { template<class F,class S,class T> bool operator()(pbase const& e,F&,S&,T&){ g_log += "g" + std::to_string(e.weight()) + " "; return true; } };
struct AW { template<class F,class S,class T> void operator()(pbase const& e,F&,S&,T&){ g_log += "a" + std::to_string(e.weight()) + " "; } };
struct SB_ : state_machine_def<SB_> {
  struct Q0 : state<> { template<class E,class F> void on_exit(E const&,F&){} template<class F> void on_exit(pbase const& e,F&){ g_log += "x" + std::to_string(e.weight()) + " "; } };
  struct Q1 : state<> { template<class E,class F> void on_entry(E const&,F&){} template<class F> void on_entry(pbase const& e,F&){ g_log += "n" + std::to_string(e.weight()) + " "; } };
  typedef Q0 initial_state;
  struct transition_table : mpl::vector< Row<Q0, pbase, Q1, AW, GW> > {};
  template<class F,class Ev> void no_transition(Ev const&,F&,int){ g_log += "NT "; }
};
typedef BE<SB_> SB;
#if !IS_MP11
// back: a Kleene row with a Defer action, hit by an event whose type is mentioned NOWHERE in the machine: defer_event(any) finds no event
// type of the machine's event set to store it as, so the event is reported through no_transition - once per region - and nothing is stored
struct stranger { int v; stranger(int x = 0) : v(x) {} };
struct DK_ : state_machine_def<DK_> {
  typedef int activate_deferred_events;
  struct Busy : state<> {}; struct Idle : state<> {};
  typedef Busy initial_state;
  struct transition_table : mpl::vector< Row<Busy, boost::any, none, Defer, none>, Row<Busy, nxt, Idle>, Row<Idle, other_ev, none, ActOther, none> > {};
  template<class F,class Ev> void no_transition(Ev const&,F&,int){ g_log += "NT "; }
};
typedef BE<DK_> DK;
#endif
// "exact-type, base-class and Kleene transitions for the same state compete purely by table position": here the Kleene row is declared LAST,
// so it is tried first and - its guard holding - wins over the base-class and exact rows (C18, C01)
struct ActAnyWins { template<class F,class S,class T> void operator()(boost::any const& e,F&,S&,T&){ g_log += std::string("kleene:") + (boost::any_cast<derived_ev>(&e) ? "derived" : boost::any_cast<base_ev>(&e) ? "base" : "other") + " "; } };
struct KP_ : state_machine_def<KP_> {
  struct S0 : state<> {}; struct S1 : state<> {}; struct S2 : state<> {}; struct S3 : state<> {};
  typedef S0 initial_state;
  struct transition_table : mpl::vector<
    Row<S0, derived_ev, S3, ActExact, none>,      // declared first: lowest priority
    Row<S0, base_ev,    S2, ActBase, none>,
    Row<S0, boost::any, S1, ActAnyWins, none> > {};   // declared last: tried first
  template<class F,class Ev> void no_transition(Ev const&,F&,int){ g_log += "NT "; }
};
typedef BE<KP_> KP;
int main(int argc, char** argv) {
  if (argc > 1) g_only = argv[1];
  { KP m; m.start(); g_log.clear(); m.process_event(derived_ev(11)); const std::string a1 = g_log;
    KP n; n.start(); g_log.clear(); n.process_event(base_ev(22));
    report("kleene-row-declared-last-wins-over-typed-rows", a1 == "kleene:derived " && g_log == "kleene:base ", "C18,C01,C13", "derived event log=[" + a1 + "] base event log=[" + g_log + "]"); }
#if !IS_MP11
  { DK m; m.start(); g_log.clear(); m.process_event(stranger(5)); const std::string first = g_log;
    m.process_event(other_ev(9)); m.process_event(nxt());
    report("kleene-defer.event-outside-the-event-set-is-reported-not-stored", first == "NT " && g_log == "NT exact-other:9 ", "C18,C05,C06", "after stranger=[" + first + "] in the end=[" + g_log + "]"); }
#endif
  { SB m; m.start(); g_log.clear(); m.process_event(pderived(7));
    report("derived-event.single-base-class-row.behaviours-see-the-object-itself", g_log == "g707 x707 a707 n707 ", "C18,C13", "log=[" + g_log + "]"); }
  { TopM m; m.start(); g_log.clear(); m.process_event(derived_ev(11));
    report("in-submachine.derived.exact-wins", g_log == "exact:11 ", "C18,C07,C13", "log=[" + g_log + "]"); }
  { TopM m; m.start(); g_log.clear(); m.process_event(base_ev(22));
    report("in-submachine.base.base-row", g_log == "base:22 ", "C18,C07,C13", "log=[" + g_log + "]"); }
  { TopM m; m.start(); g_log.clear(); m.process_event(other_ev(33));
    report("in-submachine.other.kleene-row-with-payload", g_log == "any:33 ", "C18,C07,C13", "log=[" + g_log + "]"); }
  { M m; m.start(); g_log.clear(); m.process_event(derived_ev(11));
    report("derived.exact-wins", g_log == "exact:11 ", "C18,C13", "log=[" + g_log + "]"); }
  { M m; m.start(); g_log.clear(); m.process_event(base_ev(22));
    report("base.base-row", g_log == "base:22 ", "C18,C13", "log=[" + g_log + "]"); }
  { M m; m.start(); g_log.clear(); m.process_event(other_ev(33));
    report("other.kleene-row-with-payload", g_log == "any:33 ", "C18,C13", "log=[" + g_log + "]"); }
  { D m; m.start(); g_log.clear(); m.process_event(other_ev(7)); m.process_event(other_ev(42)); m.process_event(nxt());
    // payload only: which of the two occurrences comes back first is C05's business (family `defer`, action-defer.order)
    report("kleene-deferred.payload-intact", g_log == "exact-other:7 entry-other:7 any:42 " || g_log == "exact-other:42 entry-other:42 any:7 ", "C18", "log=[" + g_log + "]"); }
  return finish();
}
