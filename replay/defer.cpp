// CONFIGS: back back11 backmp11 backmp11_ct
// family `defer` (C05): deferring states, re-offer in arrival order after the configuration changes, exactly once, across the
// wrap of the sequence counters (k filler events), deferral in one of two regions (deferred for all), Defer action row.
#include "common.hpp"
struct E { int id; E(int i=0):id(i){} }; struct F {}; struct N {}; struct G {}; struct H {};
static std::vector<int> g_seen; static int g_nt = 0;
struct LogE { template<class Ev,class Fsm,class S,class T> void operator()(Ev const& e,Fsm&,S&,T&){ g_seen.push_back(e.id);} };
struct M_ : state_machine_def<M_> {
  struct S0 : state<> { typedef mpl::vector<E,F> deferred_events; };
  struct S1 : state<> { typedef mpl::vector<E> deferred_events; };
  struct S2 : state<> {};
  typedef S0 initial_state;
  struct transition_table : mpl::vector<
    Row<S0,N,S0,none,none>, Row<S0,G,S1,none,none>, Row<S1,F,S2,none,none>, Row<S2,E,none,LogE,none> > {};
  template<class Fsm,class Ev> void no_transition(Ev const&,Fsm&,int){ ++g_nt; }
};
typedef BE<M_> M;
// two regions: region B defers E while region A could not handle it -> E is retained, not reported, re-offered when B leaves
struct R_ : state_machine_def<R_> {
  struct A0 : state<> {}; struct A1 : state<> {};
  struct B0 : state<> { typedef mpl::vector<E> deferred_events; }; struct B1 : state<> {};
  typedef mpl::vector<A0,B0> initial_state;
  struct transition_table : mpl::vector< Row<A0,H,A1,none,none>, Row<B0,G,B1,none,none>, Row<A1,E,none,LogE,none>, Row<A0,E,none,LogE,none> > {};
  template<class Fsm,class Ev> void no_transition(Ev const&,Fsm&,int){ ++g_nt; }
};
typedef BE<R_> R;
// action deferral: a Defer action row (no deferred_events list) retains E while Busy; after `G` the occurrences must come back in arrival order
struct A_ : state_machine_def<A_> {
  typedef int activate_deferred_events;
  struct Busy : state<> {}; struct Idle : state<> {};
  typedef Busy initial_state;
  struct transition_table : mpl::vector< Row<Busy,E,none,Defer,none>, Row<Busy,G,Idle,none,none>, Row<Idle,E,none,LogE,none> > {};
  template<class Fsm,class Ev> void no_transition(Ev const&,Fsm&,int){ ++g_nt; }
};
typedef BE<A_> A;
// the same deferral written as a state-local internal row (functor Internal<E, Defer>): must behave like the Row<Busy,E,none,Defer> above (C14)
#if !defined(CFG_back11)
struct AI_ : state_machine_def<AI_> {
  typedef int activate_deferred_events;
  struct Busy : state<> { struct internal_transition_table : mpl::vector< Internal<E,Defer,none> > {}; }; struct Idle : state<> {};
  typedef Busy initial_state;
  struct transition_table : mpl::vector< Row<Busy,G,Idle,none,none>, Row<Idle,E,none,LogE,none> > {};
  template<class Fsm,class Ev> void no_transition(Ev const&,Fsm&,int){ ++g_nt; }
};
typedef BE<AI_> AI;
#endif
// a Defer action INSIDE a submachine that is only ever driven through its parent: the occurrence lives in the submachine's own pool and must
// be re-offered once the submachine reaches a state that handles it (C05, backmp11: every machine has its own deferral cycle counter)
#if IS_MP11
struct T {};
struct DS_ : state_machine_def<DS_> {
  struct SA : state<> {}; struct SB : state<> {};
  typedef SA initial_state;
  struct transition_table : mpl::vector< Row<SA,E,none,Defer,none>, Row<SA,T,none,none,none>, Row<SA,G,SB,none,none>, Row<SB,E,none,LogE,none> > {};
  template<class Fsm,class Ev> void no_transition(Ev const&,Fsm&,int){ ++g_nt; }
};
typedef BE<DS_> DS;
struct DR_ : state_machine_def<DR_> {
  typedef DS initial_state;
  struct transition_table : mpl::vector<> {};
  template<class Fsm,class Ev> void no_transition(Ev const&,Fsm&,int){ ++g_nt; }
};
typedef BE<DR_> DR;
#endif
static std::string vs(const std::vector<int>& v){ std::string s; for (int x : v) s += std::to_string(x) + " "; return s; }
// handled in one region and deferred in another by the SAME event (result TRUE|DEFERRED): the state entered in the first region has a
// completion transition, which must fire at once - before the deferred copy of the event is offered again (C10, C05).  back / back11 only:
// backmp11 documents that an event one region defers is deferred for ALL regions instead of being processed (tutorial, "Deferring events in
// orthogonal regions"), so the situation does not arise there; and the state reached must not handle the event again (back documents that
// re-evaluation per region can recurse without end).
#if !IS_MP11
static std::string g_clog;
struct CLog { template<class Ev,class Fsm,class S,class T> void operator()(Ev const&,Fsm&,S&,T&){ g_clog += "overrun "; } };
struct CFire { template<class Ev,class Fsm,class S,class T> void operator()(Ev const&,Fsm&,S&,T&){ g_clog += "fired "; } };
struct CD_ : state_machine_def<CD_> {
  struct Idle : state<> {}; struct Armed : state<> {}; struct Fired : state<> {}; struct Overrun : state<> {};
  struct Hold : state<> { typedef mpl::vector<G> deferred_events; }; struct Free : state<> {};
  typedef mpl::vector<Idle,Hold> initial_state;
  struct transition_table : mpl::vector<
    Row<Idle,G,Armed,none,none>, Row<Armed,none,Fired,CFire,none>, Row<Armed,G,Overrun,CLog,none>, Row<Hold,N,Free,none,none>, Row<Free,G,none,none,none> > {};
  template<class Fsm,class Ev> void no_transition(Ev const&,Fsm&,int){ ++g_nt; }
};
typedef BE<CD_> CD;
#endif
// events deferred INSIDE a submachine and kept across its exit by the history policy: when the submachine is re-entered in a
// configuration that does not defer them they are re-offered at once, before any later event (C05).  back / back11 (history is a
// back-end policy there; backmp11 clears / keeps its pool by other rules, monitored by `hist` / `queue`).
#if !IS_MP11
#include <boost/msm/back/history_policies.hpp>
struct out_ {}; struct in_hist {}; struct in_plain {};
struct DS_ : state_machine_def<DS_> {
  struct Calm : state<> {}; struct Hold : state<> { typedef mpl::vector<E> deferred_events; };
  typedef Calm initial_state;
  struct transition_table : mpl::vector< Row<Calm,N,Hold,none,none>, Row<Calm,E,none,LogE,none> > {};
  template<class Fsm,class Ev> void no_transition(Ev const&,Fsm&,int){ ++g_nt; }
};
#if defined(CFG_back11)
struct DT_;
typedef msm::back11::state_machine<DS_, msm::back11::state_machine<DT_>, msm::back::ShallowHistory<mpl::vector<in_hist, out_>>> DS;
#else
typedef msm::back::state_machine<DS_, msm::back::ShallowHistory<mpl::vector<in_hist, out_>>> DS;
#endif
struct DT_ : state_machine_def<DT_> {
  struct Outside : state<> {};
  typedef DS initial_state;
  struct transition_table : mpl::vector< Row<DS,out_,Outside,none,none>, Row<Outside,in_hist,DS,none,none>, Row<Outside,in_plain,DS,none,none> > {};
  template<class Fsm,class Ev> void no_transition(Ev const&,Fsm&,int){ ++g_nt; }
};
typedef BE<DT_> DT;
#endif
#if !IS_MP11
// the non-default policy event_queue_before_deferred_queue (back / back11): an event submitted by the behaviour of a RE-OFFERED deferred
// event is dispatched right after that step - before any later event (C04 "stored and dispatched only after the current transition ... in
// submission order")
struct X1 {}; struct Y1 {};
static std::string g_qlog;
struct RaiseX { template<class Ev,class Fsm,class S,class T> void operator()(Ev const& e,Fsm& f,S&,T&){ g_qlog += "D" + std::to_string(e.id) + " "; f.process_event(X1()); } };
struct LogX { template<class Ev,class Fsm,class S,class T> void operator()(Ev const&,Fsm&,S&,T&){ g_qlog += "X "; } };
struct LogY { template<class Ev,class Fsm,class S,class T> void operator()(Ev const&,Fsm&,S&,T&){ g_qlog += "Y "; } };
struct QF_ : state_machine_def<QF_> {
  typedef int event_queue_before_deferred_queue;
  struct W : state<> { typedef mpl::vector<E> deferred_events; }; struct R : state<> {};
  typedef W initial_state;
  struct transition_table : mpl::vector< Row<W,N,R,none,none>, Row<R,E,none,RaiseX,none>, Row<R,X1,none,LogX,none>, Row<R,Y1,none,LogY,none> > {};
  template<class Fsm,class Ev> void no_transition(Ev const&,Fsm&,int){ ++g_nt; }
};
typedef BE<QF_> QF;
#endif
int main(int argc, char** argv) {
  if (argc > 1) g_only = argv[1];
#if !IS_MP11
  { g_qlog.clear(); g_nt = 0; QF m; m.start(); m.process_event(E(1)); m.process_event(N()); const std::string after_n = g_qlog;
    m.process_event(Y1());
    report("queue-before-deferred.event-raised-by-a-re-offered-deferred-event-runs-right-after-it", after_n == "D1 X " && g_qlog == "D1 X Y " && g_nt == 0, "C04,C05",
           "after N=[" + after_n + "] in the end=[" + g_qlog + "] nt=" + std::to_string(g_nt)); }
#endif
#if !IS_MP11
  { g_seen.clear(); g_nt = 0; DT m; m.start();
    m.process_event(N());                                   // inner: Calm -> Hold (defers E)
    m.process_event(E(1)); m.process_event(E(2));           // deferred inside the submachine
    const bool held = g_seen.empty() && g_nt == 0;
    m.process_event(out_());                                // leave by an event of the history list: shallow history remembers Hold AND keeps the pending events (process_deferred_events)
    m.process_event(in_plain());                            // re-enter by a NON-history event: initial state Calm, which does not defer E
    const bool at_once = g_seen.size() == 2 && g_seen[0] == 1 && g_seen[1] == 2;
    m.process_event(E(3));
    report("deferred-inside-submachine.re-offered-on-re-entry-before-later-events", held && at_once && g_seen.size() == 3 && g_seen[2] == 3 && g_nt == 0, "C05,C08",
           "held=" + std::to_string(held) + " seen=" + [&]{ std::string t; for (int x : g_seen) t += std::to_string(x) + " "; return t; }() + "nt=" + std::to_string(g_nt)); }
#endif
#if !IS_MP11
  { g_clog.clear(); g_nt = 0; CD m; m.start(); m.process_event(G());          // region A: Idle -> Armed (-> Fired by completion); region B defers G
    const bool fired_now = g_clog == "fired ";
    m.process_event(N());                                                        // region B stops deferring: the pending G is re-offered (Fired ignores it internally)
    report("handled-and-deferred.completion-fires-before-the-deferred-copy", fired_now && g_clog == "fired " && g_nt == 0, "C10,C05", "log=[" + g_clog + "] nt=" + std::to_string(g_nt)); }
#endif
  int ks[] = {0,1,2,60,124,125,126,127,128,129,253,254,255,256,257};
  for (int k : ks) {
    g_seen.clear(); g_nt = 0; M m; m.start();
    m.process_event(E(1)); m.process_event(F()); m.process_event(E(2));     // all deferred in S0
    bool quiet = g_seen.empty() && g_nt == 0;
    for (int i = 0; i < k; ++i) m.process_event(N());                        // k handled events: the deferred ones are re-offered and deferred again
    m.process_event(G());                                                     // S1 still defers E, handles F -> S2 handles E(1), E(2) in arrival order
    bool ok = quiet && g_seen.size() == 2 && g_seen[0] == 1 && g_seen[1] == 2 && g_nt == 0;
    report("order.k" + std::to_string(k), ok, "C05,C13", "seen=[" + vs(g_seen) + "] nt=" + std::to_string(g_nt));
  }
  // every arrangement of up to four deferred E around one F: the pass after G re-defers the E before F, handles F, and must re-offer ALL E in
  // arrival order - also when two or more of them sit on the same side of F (the order must be restored stably)
  for (int before = 0; before <= 3; ++before) for (int after = 0; after <= 3 - before; ++after) {
    g_seen.clear(); g_nt = 0; M m; m.start(); int id = 0;
    for (int i = 0; i < before; ++i) m.process_event(E(++id));
    m.process_event(F());
    for (int i = 0; i < after; ++i) m.process_event(E(++id));
    m.process_event(G());
    bool ok = (int)g_seen.size() == id && g_nt == 0; for (int i = 0; i < (int)g_seen.size(); ++i) ok = ok && g_seen[i] == i + 1;
    report("order.around-a-handled-event." + std::to_string(before) + "-before." + std::to_string(after) + "-after", ok, "C05,C13", "seen=[" + vs(g_seen) + "] nt=" + std::to_string(g_nt));
  }
#if IS_MP11   /* back/back11: deferral contradicted by a sibling region's transition is a documented limitation (outside C05's quantifier) */
  { g_seen.clear(); g_nt = 0; R m; m.start();
    m.process_event(E(5));                                   // deferred by B0 although A0 could handle it: deferred for all regions
    bool held = g_seen.empty() && g_nt == 0;
    m.process_event(H());                                    // configuration changes but B0 still defers
    bool still = g_seen.empty();
    m.process_event(G());                                    // B0 left: E re-offered exactly once
    m.process_event(N());                                    // unrelated: must not re-deliver
    report("regions.deferred-for-all", held && still && g_seen.size() == 1 && g_seen[0] == 5, "C05", "seen=[" + vs(g_seen) + "] nt=" + std::to_string(g_nt)); }
#endif
  for (int n = 1; n <= 3; ++n) {
    A m; m.start(); g_seen.clear(); g_nt = 0;
    for (int i = 1; i <= n; ++i) m.process_event(E(i));
    bool held = g_seen.empty() && g_nt == 0;
    m.process_event(G());
    bool ok = held && g_nt == 0 && (int)g_seen.size() == n; for (int i = 0; ok && i < n; ++i) ok = g_seen[i] == i + 1;
    report("action-defer.order.n" + std::to_string(n), ok, "C05,C13", "seen=[" + vs(g_seen) + "] nt=" + std::to_string(g_nt));
  }
#if !defined(CFG_back11)
  { AI m; m.start(); g_seen.clear(); g_nt = 0; int r = (int)m.process_event(E(1));
    bool held = g_seen.empty() && g_nt == 0;
    m.process_event(G());
    report("internal-row-defer.retained-and-re-offered", held && g_nt == 0 && g_seen.size() == 1 && g_seen[0] == 1 && (r & 4), "C14,C05", "ret=" + std::to_string(r) + " seen=[" + vs(g_seen) + "] nt=" + std::to_string(g_nt)); }
#endif
#if IS_MP11
  { DR m; m.start(); g_seen.clear(); g_nt = 0; m.process_event(E(1)); m.process_event(T()); bool held = g_seen.empty();
    m.process_event(G()); bool reoffered = g_seen.size() == 1 && g_seen[0] == 1;
    m.process_event(E(2));
    report("submachine-action-defer.re-offered-when-handled-there", held && reoffered && g_seen.size() == 2 && g_seen[1] == 2 && g_nt == 0, "C05,C07", "seen=[" + vs(g_seen) + "] nt=" + std::to_string(g_nt)); }
#endif
  return finish();
}
