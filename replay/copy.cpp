// CONFIGS: back back11 backmp11 backmp11_ct
// family `copy` (C15): copy construction (from a const reference) and assignment at several configurations, with and without
// pending events; the copy and the original continue independently.
#include "common.hpp"
struct go {}; struct back_ {};
static int g_actions = 0;
struct Cnt { template<class E,class F,class S,class T> void operator()(E const&,F&,S&,T&){ ++g_actions; } };
struct M_ : state_machine_def<M_> {
  int tag = 0;                      // front-end data (C15: "state and front-end data")
  struct S0 : state<> {}; struct S1 : state<> {}; struct S2 : state<> {};
  typedef S0 initial_state;
  struct transition_table : mpl::vector< Row<S0,go,S1,Cnt,none>, Row<S1,go,S2,Cnt,none>, Row<S2,back_,S0,Cnt,none> > {};
  template<class F,class Ev> void no_transition(Ev const&,F&,int){}
};
typedef BE<M_> M;
template<class T> void drain(T& m) {
#if IS_MP11
  m.process_event_pool();
#else
  m.execute_queued_events();
#endif
}
// a nested submachine whose exit pseudo state is connected in the parent: the copy takes the exit point - the original must neither move
// nor be handed the forwarded event ("taking exit points of nested submachines never changes the other", C15); and vice versa afterwards
#include <boost/msm/front/states.hpp>
struct leave { leave() {} template<class E> leave(E const&) {} }; struct tick {};
static int g_nt = 0;
struct XS_ : state_machine_def<XS_> {
  int sub_tag = 0;                  // front-end data of a CONTAINED machine
  struct In : state<> {}; struct Out : exit_pseudo_state<leave> {};
  typedef In initial_state;
  struct transition_table : mpl::vector< Row<In, leave, Out, none, none> > {};
  template<class F,class Ev> void no_transition(Ev const&,F&,int){ ++g_nt; }
};
typedef BE<XS_> XS;
struct XT_ : state_machine_def<XT_> {
  struct Done : state<> {};
  typedef XS initial_state;
  struct transition_table : mpl::vector< Row<XS::exit_pt<XS_::Out>, leave, Done, Cnt, none>, Row<XS, tick, none, none, none>, Row<Done, tick, none, none, none> > {};
  template<class F,class Ev> void no_transition(Ev const&,F&,int){ ++g_nt; }
};
typedef BE<XT_> XT;
static void exit_point_scenario(const char* how, XT& a, XT& b) {
  const int in_sub = cur(a); g_actions = 0; g_nt = 0;
  b.process_event(leave());                              // the copy leaves through the exit point
  const bool copy_left = cur(b) != in_sub && g_actions == 1;
  const bool orig_untouched = cur(a) == in_sub;
  a.process_event(tick());                               // an unrelated event on the original: handled by the row on the submachine state, nothing else happens
  const bool orig_quiet = cur(a) == in_sub && g_actions == 1 && g_nt == 0;
  a.process_event(leave());                              // and the original can still take its own exit point
  const bool orig_leaves_itself = cur(a) != in_sub && g_actions == 2 && g_nt == 0;
  report(std::string(how) + ".copy-takes-the-exit-point-of-a-nested-submachine", copy_left && orig_untouched && orig_quiet && orig_leaves_itself, "C15,C09",
         "copy_left=" + std::to_string(copy_left) + " orig_untouched=" + std::to_string(orig_untouched) + " orig_quiet=" + std::to_string(orig_quiet) + " orig_leaves_itself=" + std::to_string(orig_leaves_itself) +
         " actions=" + std::to_string(g_actions) + " no_transition=" + std::to_string(g_nt));
}
int main(int argc, char** argv) {
  if (argc > 1) g_only = argv[1];
  { M a; a.start(); a.tag = 7; const M& ca = a; M b(ca); M c; c.start(); c.tag = 1; c = ca;
    report("front-end-data.copied-and-assigned", b.tag == 7 && c.tag == 7 && a.tag == 7, "C15", "copy=" + std::to_string(b.tag) + " assigned=" + std::to_string(c.tag)); }
  { XT a; a.start(); a.get_state<XS&>().sub_tag = 9; const XT& ca = a; XT b(ca); XT c; c.start(); c = ca;
    report("front-end-data.of-a-contained-machine-copied-and-assigned", b.get_state<XS&>().sub_tag == 9 && c.get_state<XS&>().sub_tag == 9, "C15",
           "copy=" + std::to_string(b.get_state<XS&>().sub_tag) + " assigned=" + std::to_string(c.get_state<XS&>().sub_tag)); }
  { XT a; a.start(); const XT& ca = a; XT b(ca); exit_point_scenario("copy", a, b); }
  { XT a; a.start(); const XT& ca = a; XT b; b.start(); b = ca; exit_point_scenario("assign", a, b); }
#if IS_MP11
  { XT a; a.start(); const XT& ca = a; XT t(ca); XT b(std::move(t)); exit_point_scenario("move", a, b); }
  { XT a; a.start(); const XT& ca = a; XT t(ca); XT b; b.start(); b = std::move(t); exit_point_scenario("move-assign", a, b); }
#endif
  for (int steps = 0; steps < 3; ++steps) for (int assign = 0; assign < 2; ++assign) {
    M a; a.start(); for (int i = 0; i < steps; ++i) a.process_event(go());
    const M& ca = a; M b(ca); M c; c.start(); if (assign) { c = ca; }
    M& copy = assign ? c : b;
    bool same = cur(copy) == cur(a);
    int sa = cur(a); copy.process_event(steps == 2 ? (void)0, go() : go());        // continuation on the copy only
    if (steps == 2) copy.process_event(back_());
    bool indep = cur(a) == sa;
    report(std::string(assign ? "assign" : "copy") + ".steps" + std::to_string(steps), same && indep, "C15,C13", "a=" + std::to_string(cur(a)) + " copy=" + std::to_string(cur(copy)));
  }
  { // pending event at copy time: it must belong to the copy afterwards (and still to the original)
    M a; a.start(); a.enqueue_event(go()); const M& ca = a; M b(ca);
    int a0 = cur(a); drain(b);
    bool copy_moved = cur(b) != a0; bool orig_untouched = cur(a) == a0;
    drain(a); bool orig_moves_itself = cur(a) != a0;
    report("copy.pending-event", copy_moved && orig_untouched && orig_moves_itself, "C15", "a=" + std::to_string(cur(a)) + " b=" + std::to_string(cur(b)) + " copy_moved=" + std::to_string(copy_moved) + " orig_untouched=" + std::to_string(orig_untouched)); }
#if IS_MP11
  // copy taken after a LIMITED drain (the processed occurrence is still in the pool, marked): the copy must not replay it
  for (int assign = 0; assign < 2; ++assign) {
    M a; a.start(); a.enqueue_event(go()); a.enqueue_event(go()); a.enqueue_event(back_());
    g_actions = 0; size_t n1 = a.process_event_pool(1);           // S0 -> S1, two occurrences pending
    const M& ca = a; M b(ca); M c; c.start(); if (assign) c = ca; M& copy = assign ? c : b;
    g_actions = 0; size_t nc = copy.process_event_pool(); int copy_actions = g_actions, copy_state = cur(copy);
    g_actions = 0; size_t na = a.process_event_pool(); int orig_actions = g_actions;
    report(std::string(assign ? "assign" : "copy") + ".after-limited-drain", n1 == 1 && nc == na && copy_actions == orig_actions && copy_state == cur(a) && na == 2, "C15,C20",
           "copy drained " + std::to_string(nc) + " (" + std::to_string(copy_actions) + " actions), original " + std::to_string(na) + " (" + std::to_string(orig_actions) + " actions)");
  }
#endif
  return finish();
}
