// CONFIGS: back back11 backmp11 backmp11_ct
// family `copy` (C15): copy construction (from a const reference) and assignment at several configurations, with and without
// pending events; the copy and the original continue independently.
#include "common.hpp"
struct go {}; struct back_ {};
static int g_actions = 0;
struct Cnt { template<class E,class F,class S,class T> void operator()(E const&,F&,S&,T&){ ++g_actions; } };
struct M_ : state_machine_def<M_> {
  struct S0 : state<> {}; struct S1 : state<> {}; struct S2 : state<> {};
  typedef S0 initial_state;
  struct transition_table : mpl::vector< Row<S0,go,S1,Cnt,none>, Row<S1,go,S2,Cnt,none>, Row<S2,back_,S0,Cnt,none> > {};
  template<class F,class Ev> void no_transition(Ev const&,F&,int){}
};
typedef BE<M_> M;
template<class T> void drain(T& m) {
#if IS_MP11
  m.process_event_pool();
#else
  m.execute_queued_events();
#endif
}
int main(int argc, char** argv) {
  if (argc > 1) g_only = argv[1];
  for (int steps = 0; steps < 3; ++steps) for (int assign = 0; assign < 2; ++assign) {
    M a; a.start(); for (int i = 0; i < steps; ++i) a.process_event(go());
    const M& ca = a; M b(ca); M c; c.start(); if (assign) { c = ca; }
    M& copy = assign ? c : b;
    bool same = cur(copy) == cur(a);
    int sa = cur(a); copy.process_event(steps == 2 ? (void)0, go() : go());        // continuation on the copy only
    if (steps == 2) copy.process_event(back_());
    bool indep = cur(a) == sa;
    report(std::string(assign ? "assign" : "copy") + ".steps" + std::to_string(steps), same && indep, "C15,C13", "a=" + std::to_string(cur(a)) + " copy=" + std::to_string(cur(copy)));
  }
  { // pending event at copy time: it must belong to the copy afterwards (and still to the original)
    M a; a.start(); a.enqueue_event(go()); const M& ca = a; M b(ca);
    int a0 = cur(a); drain(b);
    bool copy_moved = cur(b) != a0; bool orig_untouched = cur(a) == a0;
    drain(a); bool orig_moves_itself = cur(a) != a0;
    report("copy.pending-event", copy_moved && orig_untouched && orig_moves_itself, "C15", "a=" + std::to_string(cur(a)) + " b=" + std::to_string(cur(b)) + " copy_moved=" + std::to_string(copy_moved) + " orig_untouched=" + std::to_string(orig_untouched)); }
#if IS_MP11
  // copy taken after a LIMITED drain (the processed occurrence is still in the pool, marked): the copy must not replay it
  for (int assign = 0; assign < 2; ++assign) {
    M a; a.start(); a.enqueue_event(go()); a.enqueue_event(go()); a.enqueue_event(back_());
    g_actions = 0; size_t n1 = a.process_event_pool(1);           // S0 -> S1, two occurrences pending
    const M& ca = a; M b(ca); M c; c.start(); if (assign) c = ca; M& copy = assign ? c : b;
    g_actions = 0; size_t nc = copy.process_event_pool(); int copy_actions = g_actions, copy_state = cur(copy);
    g_actions = 0; size_t na = a.process_event_pool(); int orig_actions = g_actions;
    report(std::string(assign ? "assign" : "copy") + ".after-limited-drain", n1 == 1 && nc == na && copy_actions == orig_actions && copy_state == cur(a) && na == 2, "C15,C20",
           "copy drained " + std::to_string(nc) + " (" + std::to_string(copy_actions) + " actions), original " + std::to_string(na) + " (" + std::to_string(orig_actions) + " actions)");
  }
#endif
  return finish();
}
