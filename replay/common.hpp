// replay/common.hpp -- shared by the native replay families (real msm machines, oracles written from the property statements)
#pragma once
#include <boost/msm/back/state_machine.hpp>
#include <boost/msm/back/favor_compile_time.hpp>
#include <boost/msm/back11/state_machine.hpp>
#include <boost/msm/backmp11/state_machine.hpp>
#include <boost/msm/backmp11/favor_compile_time.hpp>
#include <boost/msm/front/state_machine_def.hpp>
#include <boost/msm/front/functor_row.hpp>
#include <string>
#include <vector>
#include <cstdio>
#include <cstring>
namespace msm = boost::msm; namespace mpl = boost::mpl; using namespace msm::front;

namespace boost { namespace msm { namespace backmp11 {
struct ct_config : state_machine_config { using compile_policy = favor_compile_time; };
// favor_runtime_speed with the opt-in function_pointer_array dispatch strategy (default: flat_fold)
struct fpa_policy : favor_runtime_speed { using dispatch_strategy = ::boost::msm::backmp11::dispatch_strategy::function_pointer_array; };
struct fpa_config : state_machine_config { using compile_policy = fpa_policy; };
}}}
// back-end selectors: BE<Front>  (one configuration per binary, chosen by -DCFG_<name>)
#if defined(CFG_back)
template<class F> using BE = msm::back::state_machine<F>;
#define IS_MP11 0
#elif defined(CFG_back_ct)
template<class F> using BE = msm::back::state_machine<F, msm::back::favor_compile_time>;
#define IS_MP11 0
#define IS_BACK_CT 1
#elif defined(CFG_back11)
template<class F> using BE = msm::back11::state_machine<F>;
#define IS_MP11 0
#elif defined(CFG_backmp11)
template<class F> using BE = msm::backmp11::state_machine<F>;
#define IS_MP11 1
#elif defined(CFG_backmp11_fpa)
template<class F> using BE = msm::backmp11::state_machine<F, msm::backmp11::fpa_config>;
#define IS_MP11 1
#elif defined(CFG_backmp11_ct)
template<class F> using BE = msm::backmp11::state_machine<F, msm::backmp11::ct_config>;
#define IS_MP11 1
#else
#error "no CFG_ selected"
#endif
#ifndef IS_BACK_CT
#define IS_BACK_CT 0
#endif

template<class F> auto cur_impl(F& f, int r, int) -> decltype(f.current_state()[0]) { return f.current_state()[r]; }
template<class F> auto cur_impl(F& f, int r, long) -> int { return (int)f.get_active_state_ids()[r]; }
template<class F> int cur(F& f, int r = 0) { return cur_impl(f, r, 0); }

static int g_scn = 0, g_fail = 0;
static const char* g_only = nullptr;
inline void report(const std::string& id, bool ok, const char* props, const std::string& text) {
  ++g_scn; if (!ok) ++g_fail;
  if (g_only && id != g_only) return;
  printf("SCN %s %s %s %s\n", id.c_str(), ok ? "OK" : "FAIL", props, text.c_str());
}
inline int finish() { printf("DONE %d scenarios %d failed\n", g_scn, g_fail); return 0; }
