// CONFIGS: default
// family `poly` (C20, C15): basic_polymorphic<Base> over inline / heap / throwing-move / trivially copyable types; copy, move,
// assignment (incl. across storage classes), deque erase in the middle; instance counting and payload check.
#include <boost/msm/backmp11/detail/basic_polymorphic.hpp>
#include <cstdio>
#include <cstdint>
#include <string>
#include <deque>
#include <vector>
using namespace boost::msm::backmp11::detail;
static int g_scn = 0, g_fail = 0; static const char* g_only = nullptr;
static void report(const std::string& id, bool ok, const char* props, const std::string& text) { ++g_scn; if (!ok) ++g_fail; if (g_only && id != g_only) return; printf("SCN %s %s %s %s\n", id.c_str(), ok ? "OK" : "FAIL", props, text.c_str()); }
struct Base { virtual ~Base() {} virtual bool ok() const = 0; virtual int kind() const = 0; };
static int live[8]; static int made[8], died[8];
template<int K, int N, bool NothrowMove> struct Ev : Base { char pad[N]; std::string s; const Ev* self;
  Ev() : s("hello world, long enough to allocate ........"), self(this) { ++live[K]; ++made[K]; for (int i = 0; i < N; ++i) pad[i] = (char)(i + K); }
  Ev(const Ev& o) : Base(o), s(o.s), self(this) { ++live[K]; ++made[K]; for (int i = 0; i < N; ++i) pad[i] = o.pad[i]; }
  Ev(Ev&& o) noexcept(NothrowMove) : Base(o), s(o.s), self(this) { ++live[K]; ++made[K]; for (int i = 0; i < N; ++i) pad[i] = o.pad[i]; }
  ~Ev() { --live[K]; ++died[K]; }
  bool ok() const override { if (self != this) return false; for (int i = 0; i < N; ++i) if (pad[i] != (char)(i + K)) return false; return s.size() == 45; }
  int kind() const override { return K; } };
struct Triv : Base { int v[4]; Triv() { for (int i = 0; i < 4; ++i) v[i] = 40 + i; } bool ok() const override { return v[0] == 40 && v[3] == 43; } int kind() const override { return 7; } };
using P = basic_polymorphic<Base>;
template<class A, class B> void mix(const char* name) {
  for (int k = 0; k < 8; ++k) live[k] = made[k] = died[k] = 0;
  bool ok = true;
  { std::deque<P> d; d.push_back(P::make<A>()); d.push_back(P::make<B>()); d.push_back(P::make<A>()); d.push_back(P::make<B>());
    d.erase(d.begin() + 1);                              // move-assigns neighbours across types / storage classes
    for (auto& x : d) ok = ok && x->ok();
    std::deque<P> c(d); for (auto& x : c) ok = ok && x->ok();
    c[0] = d[1]; c[1] = std::move(d[0]); ok = ok && c[0]->ok() && c[1]->ok() && c[0]->kind() == d[1]->kind();
    P e; e = c[0]; e = e; P f(std::move(e)); ok = ok && f->ok();
    c.clear(); }
  bool balanced = true; for (int k = 0; k < 8; ++k) balanced = balanced && live[k] == 0 && made[k] == died[k];
  report(name, ok && balanced, "C20,C15", std::string("values_ok=") + (ok ? "1" : "0") + " balanced=" + (balanced ? "1" : "0"));
}
// over-aligned payloads (C20 "regardless of ... alignment"): wherever the object is stored, its address must suit alignof(T)
template<int A> struct alignas(A) Al : Base { long v; Al() : v(A) {} bool ok() const override { return reinterpret_cast<uintptr_t>(this) % A == 0 && v == A; } int kind() const override { return 100 + A; } };
template<int A> void aligned(const char* name) {
  bool ok = true;
  { std::deque<P> d; for (int i = 0; i < 5; ++i) d.push_back(P::make<Al<A>>());
    for (auto& x : d) ok = ok && x->ok();
    std::deque<P> c(d); d.erase(d.begin() + 1); for (auto& x : c) ok = ok && x->ok(); for (auto& x : d) ok = ok && x->ok(); }
  report(name, ok, "C20", std::string("every stored object sits at an address that is a multiple of its alignment: ") + (ok ? "yes" : "NO"));
}
int main(int argc, char** argv) {
  if (argc > 1) g_only = argv[1];
  mix<Ev<0,1,true>, Ev<1,200,true>>("inline-vs-heap");
  mix<Ev<1,200,true>, Ev<0,1,true>>("heap-vs-inline");
  mix<Ev<2,8,false>, Ev<3,16,true>>("throwing-move-vs-inline");
  mix<Triv, Ev<1,200,true>>("trivial-vs-heap");
  mix<Ev<4,24,true>, Triv>("inline-vs-trivial");
  mix<Triv, Triv>("trivial-vs-trivial");
  aligned<8>("aligned-8"); aligned<16>("aligned-16"); aligned<32>("aligned-32");
  printf("DONE %d scenarios %d failed\n", g_scn, g_fail); return 0;
}
