// CONFIGS: default
// family `puml` (C14, C++20): the TYPE-building half of the PlantUML front-end, which no contract reaches (constexpr type construction):
// (a) the guard tree built by detail::parse_guard from a guard text evaluates like the C++ expression, for all 16 valuations of G1..G4;
// (c) the line counters that size the generated table and the region list (count_inits / count_terminates / parse_inits) give the same
//     answer whatever the order of the '[*] -> X' and 'X -> [*]' lines (PlantUML does not prescribe an order), and a whole machine keeps all its regions;
// (b) both documented orders of `/ actions` and `[guard]` and action lists yield a machine that behaves like its functor-front-end twin.
#include <boost/msm/front/puml/puml.hpp>
#include <boost/msm/front/state_machine_def.hpp>
#include <boost/msm/front/functor_row.hpp>
#include <boost/msm/back/state_machine.hpp>
#include <cstdio>
#include <string>
namespace msm = boost::msm; namespace mpl = boost::mpl; using namespace boost::msm::front; using namespace boost::msm::front::puml;
static int g_scn = 0, g_fail = 0; static const char* g_only = nullptr;
static void report(const std::string& id, bool ok, const char* props, const std::string& text) { ++g_scn; if (!ok) ++g_fail; if (g_only && id != g_only) return; printf("SCN %s %s %s %s\n", id.c_str(), ok ? "OK" : "FAIL", props, text.c_str()); }
static bool G[5]; static std::string g_log;
namespace boost::msm::front::puml {
#define DEFG(n) template<> struct Guard<by_name("G" #n)> { template<class E,class F,class S,class T> bool operator()(E const&,F&,S&,T&) const { return G[n]; } };
DEFG(1) DEFG(2) DEFG(3) DEFG(4)
#define DEFA(n) template<> struct Action<by_name("a" #n)> { template<class E,class F,class S,class T> void operator()(E const&,F&,S&,T&) const { g_log += "a" #n " "; } };
DEFA(1) DEFA(2) DEFA(3)
template<> struct Event<by_name("go")> {};
template<> struct State<by_name("S1")> : msm::front::state<> {}; template<> struct State<by_name("S2")> : msm::front::state<> {};
}
struct Dummy {};
// the tree may only name guards that exist in the text (a mis-split produces names like "(G3" or "G4)": calling those would not compile)
template<class T> struct leaves_ok : std::false_type {};
template<std::uint32_t h> struct leaves_ok<Guard<h>> : std::bool_constant<h == by_name("G1") || h == by_name("G2") || h == by_name("G3") || h == by_name("G4")> {};
template<class A, class B> struct leaves_ok<And_<A,B>> : std::bool_constant<leaves_ok<A>::value && leaves_ok<B>::value> {};
template<class A, class B> struct leaves_ok<Or_<A,B>> : std::bool_constant<leaves_ok<A>::value && leaves_ok<B>::value> {};
template<class A> struct leaves_ok<Not_<A>> : leaves_ok<A> {};
template<class Gd> bool eval_guard(Gd g) { if constexpr (leaves_ok<Gd>::value) { Dummy d; return g(d, d, d, d); } else return false; }
#define GUARD_CASE(id, text, expr) { bool all = true; std::string bad; \
    auto g = boost::msm::front::puml::detail::parse_guard([](){ return std::string_view(text); }); \
    if (!leaves_ok<decltype(g)>::value) { all = false; bad = "the guard tree names a guard that does not occur in the text (mis-split)"; } \
    else for (int v = 0; v < 16; ++v) { G[1] = v & 1; G[2] = v & 2; G[3] = v & 4; G[4] = v & 8; \
      bool got = eval_guard(g); bool G1 = G[1], G2 = G[2], G3 = G[3], G4 = G[4]; bool want = (expr); \
      if (got != want) { all = false; if (bad.empty()) bad = "G1..G4=" + std::to_string(G1) + std::to_string(G2) + std::to_string(G3) + std::to_string(G4) + " got " + std::to_string(got) + " want " + std::to_string(want); } } \
    report(std::string("guard.") + id, all, "C14", std::string("[") + text + "] " + (all ? "evaluates like C++ for all 16 valuations" : bad)); }
// ---- whole machines: puml text vs functor front-end twin ----
template<class Table> struct PM_ : msm::front::state_machine_def<PM_<Table>> {
  typedef State<by_name("S1")> initial_state; typedef Table transition_table;
  template<class F,class Ev> void no_transition(Ev const&,F&,int){ g_log += "NT "; }
};
#define PUML_MACHINE(NAME, TEXT) struct NAME##_ : msm::front::state_machine_def<NAME##_> { \
  BOOST_MSM_PUML_DECLARE_TABLE(TEXT) \
  template<class F,class Ev> void no_transition(Ev const&,F&,int){ g_log += "NT "; } }; typedef msm::back::state_machine<NAME##_> NAME;
PUML_MACHINE(MAfterGuard, R"(@startuml Player
[*] --> S1
S1 -> S2 : go / a1, a2 [G1]
@enduml)")
PUML_MACHINE(MGuardFirst, R"(@startuml Player
[*] --> S1
S1 -> S2 : go [G1] / a1, a2
@enduml)")
PUML_MACHINE(MThree, R"(@startuml Player
[*] --> S1
S1 -> S2 : go / a1, a2, a3
@enduml)")
PUML_MACHINE(MInitsFirst, R"(@startuml Player
[*] --> S1
[*] --> S2
S1 -> S2 : go
S2 --> [*]
@enduml)")
PUML_MACHINE(MInitAfterTerminate, R"(@startuml Player
[*] --> S1
S1 -> S2 : go
S2 --> [*]
[*] --> S2
@enduml)")
// oracle of (c): per line, '[*]' before '->' is an initial line, '->' before '[*]' a terminate line
static void count_lines(const std::string& t, int& inits, int& terms, std::string& names) { inits = terms = 0; names.clear(); size_t b = 0;
  while (b <= t.size()) { size_t e = t.find('\n', b); if (e == std::string::npos) e = t.size(); std::string l = t.substr(b, e - b); size_t s = l.find("[*]"), a = l.find("->");
    if (s != std::string::npos && a != std::string::npos) { if (s < a) { ++inits; std::string n = l.substr(a + 2); n.erase(0, n.find_first_not_of(" \t")); n.erase(n.find_last_not_of(" \t") + 1); names += n + " "; } else ++terms; }
    b = e + 1; } }
static void lines_case(const char* id, const char* text) { namespace d = boost::msm::front::puml::detail; int wi, wt; std::string wn; count_lines(text, wi, wt, wn);
  int gi = d::count_inits(text), gt = d::count_terminates(text); std::string gn; 
  { auto n0 = d::parse_inits<0>(text), n1 = d::parse_inits<1>(text); if (!n0.empty()) gn += std::string(n0) + " "; if (!n1.empty()) gn += std::string(n1) + " "; }
  std::string shown = text; for (auto& c : shown) if (c == '\n') c = '|';
  report(std::string("lines.inits.") + id, gi == wi, "C14", "[" + shown + "] count_inits=" + std::to_string(gi) + " expected " + std::to_string(wi));
  report(std::string("lines.terminates.") + id, gt == wt, "C14", "[" + shown + "] count_terminates=" + std::to_string(gt) + " expected " + std::to_string(wt));
  report(std::string("lines.init-names.") + id, gn == wn, "C14", "[" + shown + "] parse_inits<0,1>=[" + gn + "] expected [" + wn + "]"); }
template<class M> std::string run_machine(bool g1) { G[1] = g1; g_log.clear(); M m; m.start(); m.process_event(Event<by_name("go")>{}); g_log += "state=" + std::to_string(m.current_state()[0]); return g_log; }
int main(int argc, char** argv) {
  if (argc > 1) g_only = argv[1];
  GUARD_CASE("single", "G1", G1)
  GUARD_CASE("not", "!G1", !G1)
  GUARD_CASE("and", "G1 && G2", G1 && G2)
  GUARD_CASE("or", "G1 || G2", G1 || G2)
  GUARD_CASE("and-or", "G1 && G2 || G3", (G1 && G2) || G3)
  GUARD_CASE("or-and", "G1 || G2 && G3", G1 || (G2 && G3))
  GUARD_CASE("not-and", "!G1 && G2", !G1 && G2)
  GUARD_CASE("not-or-not", "!G1 || !G2", !G1 || !G2)
  GUARD_CASE("and-paren-or", "G1 && (G2 || G3)", G1 && (G2 || G3))
  GUARD_CASE("paren-or-and", "(G1 || G2) && G3", (G1 || G2) && G3)
  GUARD_CASE("not-paren-and", "!(G1 || G2) && G3", !(G1 || G2) && G3)
  GUARD_CASE("two-groups-and", "(G1 || G2) && (G3 || G4)", (G1 || G2) && (G3 || G4))
  GUARD_CASE("two-groups-or", "(G1 && G2) || (G3 && G4)", (G1 && G2) || (G3 && G4))
  GUARD_CASE("advanced-and", "And(G1,G2)", G1 && G2)
  GUARD_CASE("advanced-or-not", "Or(G1,Not(G2))", G1 || !G2)
  for (int g1 = 0; g1 < 2; ++g1) {
    std::string want = g1 ? "a1 a2 state=1" : "state=0";      // a rejected guard is not "no transition"
    std::string a = run_machine<MAfterGuard>(g1), b = run_machine<MGuardFirst>(g1);
    report("machine.action-then-guard.g" + std::to_string(g1), a == want, "C14", "trace=[" + a + "] expected=[" + want + "]");
    report("machine.guard-then-action.g" + std::to_string(g1), b == want, "C14", "trace=[" + b + "] expected=[" + want + "]");
  }
  { std::string t = run_machine<MThree>(true); report("machine.three-actions-in-order", t == "a1 a2 a3 state=1", "C14,C02", "trace=[" + t + "]"); }
  lines_case("documented-order", "@startuml P\n[*] --> S1\nS1 -> S2 : go\nS2 --> [*]\n@enduml");
  lines_case("two-inits-first", "@startuml P\n[*] --> S1\n[*] --> S2\nS1 -> S2 : go\nS2 --> [*]\n@enduml");
  lines_case("no-terminate", "@startuml P\n[*] -> S1\nS1 -> S2 : go\n@enduml");
  lines_case("two-terminates", "@startuml P\n[*] -> S1\nS1 -> S2 : go\nS1 -> [*]\nS2 --> [*]\n@enduml");
  lines_case("init-after-terminate", "@startuml P\n[*] --> S1\nS1 -> S2 : go\nS2 --> [*]\n[*] --> S2\n@enduml");
  lines_case("terminate-before-every-init", "@startuml P\nS2 --> [*]\n[*] --> S1\nS1 -> S2 : go\n@enduml");
  report("machine.regions.inits-first", (int)MInitsFirst::nr_regions::value == 2, "C14", "two '[*] -->' lines before the terminate line: nr_regions=" + std::to_string((int)MInitsFirst::nr_regions::value) + " expected 2");
  report("machine.regions.init-after-terminate", (int)MInitAfterTerminate::nr_regions::value == 2, "C14", "the same lines with the second '[*] -->' after the terminate line: nr_regions=" + std::to_string((int)MInitAfterTerminate::nr_regions::value) + " expected 2");
  printf("DONE %d scenarios %d failed\n", g_scn, g_fail); return 0;
}
