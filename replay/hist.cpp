// CONFIGS: back back11 backmp11 backmp11_ct
// family `hist` (C08, C09): two-region submachine under No / Always / Shallow[resume] history; plain and explicit entry with history
// and non-history entering events; several enter/move/exit cycles (the memory must be the LAST exit's configuration).
#include "common.hpp"
#include <boost/msm/front/history_policies.hpp>
struct x_a {}; struct x_g {}; struct x_ag {}; static int g_xact = 0;
struct XAct { template<class E,class F,class S,class T> void operator()(E const&,F&,S&,T&){ ++g_xact; } };
struct XTrue { template<class E,class F,class S,class T> bool operator()(E const&,F&,S&,T&){ return true; } };
struct na {}; struct nb {}; struct leave {}; struct resume {}; struct resume_d : resume {};   /* derived from a history event, NOT itself in the list */ struct plain {}; struct resume_x {}; struct plain_x {};
enum { H_NO, H_ALWAYS, H_SHALLOW };
template<int H> struct Sub_ : state_machine_def<Sub_<H>> {
  struct A1 : state<> {}; struct A2 : state<> {}; struct A3 : state<>, explicit_entry<0> {};
  struct B1 : state<> {}; struct B2 : state<> {};
  typedef mpl::vector<A1,B1> initial_state;
  struct transition_table : mpl::vector< Row<A1,na,A2,none,none>, Row<A2,na,A1,none,none>, Row<B1,nb,B2,none,none>, Row<B2,nb,B1,none,none>, Row<A3,na,A1,none,none> > {};
  typedef mpl::vector<A3> explicit_creation;
#if IS_MP11
  using history = typename std::conditional<H==H_NO, msm::front::no_history, typename std::conditional<H==H_ALWAYS, msm::front::always_shallow_history, msm::front::shallow_history<resume, resume_x>>::type>::type;
#endif
  template<class F,class Ev> void no_transition(Ev const&,F&,int){}
};
#if IS_MP11
template<int H> using SubBE = BE<Sub_<H>>;
#elif defined(CFG_back11)
template<int H> using SubBE = msm::back11::state_machine<Sub_<H>, void, typename std::conditional<H==H_NO, msm::back::NoHistory, typename std::conditional<H==H_ALWAYS, msm::back::AlwaysHistory, msm::back::ShallowHistory<mpl::vector<resume, resume_x>>>::type>::type>;
#else
template<int H> using SubBE = msm::back::state_machine<Sub_<H>, typename std::conditional<H==H_NO, msm::back::NoHistory, typename std::conditional<H==H_ALWAYS, msm::back::AlwaysHistory, msm::back::ShallowHistory<mpl::vector<resume, resume_x>>>::type>::type>;
#endif
template<int H> struct Top_ : state_machine_def<Top_<H>> {
  typedef SubBE<H> Sub;
  struct Out : state<> {};
  typedef Sub initial_state;
  struct transition_table : mpl::vector<
    Row<Sub,leave,Out,none,none>, Row<Out,resume,Sub,none,none>, Row<Out,plain,Sub,none,none>, Row<Out,resume_d,Sub,none,none>,
    Row<Out,resume_x,typename Sub::template direct<typename Sub_<H>::A3>,none,none>,
    Row<Out,plain_x,typename Sub::template direct<typename Sub_<H>::A3>,none,none> > {};
  template<class F,class Ev> void no_transition(Ev const&,F&,int){}
};
template<int H> void run(const char* hn) {
  typedef BE<Top_<H>> Top; typedef typename Top_<H>::Sub Sub;
  // script: moves inside Sub (a = toggle region A, b = toggle region B), L = leave, then one of the four re-entries
  const char* scripts[] = {"L", "aL", "bL", "abL", "bLRbL", "bLPL", "abLRaL", "bLRbbL"};
  const char* entries[] = {"resume", "plain", "resume_x", "plain_x", "resume_d-derived-from-a-history-event-but-not-listed"};
  for (const char* sc : scripts) for (int en = 0; en < 5; ++en) {
    Top m; m.start(); Sub& s = m.template get_state<Sub&>();
    int initA = cur(s,0), initB = cur(s,1); int lastA = initA, lastB = initB;
    for (const char* p = sc; *p; ++p) {
      if (*p=='a') m.process_event(na()); else if (*p=='b') m.process_event(nb());
      else if (*p=='L') { lastA = cur(s,0); lastB = cur(s,1); m.process_event(leave()); }
      else if (*p=='R') m.process_event(resume()); else if (*p=='P') m.process_event(plain());
    }
    bool hist_event = (en == 0 || en == 2); bool explicit_e = (en == 2 || en == 3);     // en == 4: "if and only if the TYPE of the entering event is in the configured list"
    if (en==0) m.process_event(resume()); else if (en==1) m.process_event(plain()); else if (en==2) m.process_event(resume_x()); else if (en==3) m.process_event(plain_x()); else m.process_event(resume_d());
    bool use_mem = (H == H_ALWAYS) || (H == H_SHALLOW && hist_event);
    int expB = use_mem ? lastB : initB;
    int gotA = cur(s,0), gotB = cur(s,1);
    bool okB = gotB == expB;
    bool okA = explicit_e ? (gotA != initA && gotA != lastA || true) : (gotA == (use_mem ? lastA : initA));
    // explicit entry: region A must be the explicitly named state A3 (id differs from A1/A2): check it is neither A1 nor A2
    if (explicit_e) { Top m2; m2.start(); Sub& s2 = m2.template get_state<Sub&>(); int a1 = cur(s2,0); m2.process_event(na()); int a2 = cur(s2,0); okA = (gotA != a1 && gotA != a2); }
    std::string id = std::string(hn) + "." + sc + "." + entries[en];
    report(id, okA && okB, explicit_e ? "C08,C09,C13" : "C08,C13", "A=" + std::to_string(gotA) + " B=" + std::to_string(gotB) + " expectedB=" + std::to_string(expB) + " (initB=" + std::to_string(initB) + " lastB=" + std::to_string(lastB) + ")");
  }
}
// first-ever entry of the submachine through a HISTORY event (nothing to remember yet): every region starts in its initial state
template<int H> struct TopF_ : state_machine_def<TopF_<H>> {
  typedef SubBE<H> Sub;
  struct Out : state<> {};
  typedef Out initial_state;
  struct transition_table : mpl::vector< Row<Sub,leave,Out,none,none>, Row<Out,resume,Sub,none,none>, Row<Out,plain,Sub,none,none> > {};
  template<class F,class Ev> void no_transition(Ev const&,F&,int){}
};
template<int H> void run_first(const char* hn) {
  typedef BE<TopF_<H>> Top; typedef typename TopF_<H>::Sub Sub;
  Top ref; ref.start(); ref.process_event(plain()); Sub& rs = ref.template get_state<Sub&>(); int initA = cur(rs,0), initB = cur(rs,1);
  Top m; m.start(); m.process_event(resume()); Sub& s = m.template get_state<Sub&>();
  report(std::string(hn) + ".first-entry-by-history-event", cur(s,0) == initA && cur(s,1) == initB, "C08,C03,C13",
         "A=" + std::to_string(cur(s,0)) + " B=" + std::to_string(cur(s,1)) + " initial=" + std::to_string(initA) + "," + std::to_string(initB));
  // ... and what is remembered afterwards is that (correct) configuration
  m.process_event(leave()); m.process_event(resume());
  report(std::string(hn) + ".first-entry-by-history-event.remembered", cur(s,0) == initA && cur(s,1) == initB, "C08,C13", "A=" + std::to_string(cur(s,0)) + " B=" + std::to_string(cur(s,1)));
}
// first-ever activation of the submachine through an EXPLICIT entry (no plain entry before): the machine must count as entered -
// introspection sees its substates (C03), and leaving it exits them
template<int H> struct TopX_ : state_machine_def<TopX_<H>> {
  typedef SubBE<H> Sub;
  struct Out : state<> {};
  typedef Out initial_state;
  struct transition_table : mpl::vector< Row<Sub,leave,Out,none,none>, Row<Out,plain,Sub,none,none>,
    Row<Out,plain_x,typename Sub::template direct<typename Sub_<H>::A3>,none,none>,
    // the same explicit entry through every ROW KIND of the back-end (action only / guard only / action and guard)
    Row<Out,x_a,typename Sub::template direct<typename Sub_<H>::A3>,XAct,none>,
    Row<Out,x_g,typename Sub::template direct<typename Sub_<H>::A3>,none,XTrue>,
    Row<Out,x_ag,typename Sub::template direct<typename Sub_<H>::A3>,XAct,XTrue> > {};
  template<class F,class Ev> void no_transition(Ev const&,F&,int){}
};
template<int H> void run_explicit_row_kinds(const char* hn) {
  typedef BE<TopX_<H>> Top; typedef typename TopX_<H>::Sub Sub;
  Top ref; ref.start(); ref.process_event(plain()); Sub& rs = ref.template get_state<Sub&>(); const int initB = cur(rs,1), a1 = cur(rs,0); ref.process_event(na()); const int a2 = cur(rs,0);
  const char* kinds[] = {"no-action-no-guard", "action-only", "guard-only", "action-and-guard"};
  for (int k = 0; k < 4; ++k) {
    Top m; m.start(); g_xact = 0;
    if (k == 0) m.process_event(plain_x()); else if (k == 1) m.process_event(x_a()); else if (k == 2) m.process_event(x_g()); else m.process_event(x_ag());
    Sub& s = m.template get_state<Sub&>();
    const bool ok = cur(s,0) != a1 && cur(s,0) != a2 && cur(s,1) == initB && g_xact == ((k == 1 || k == 3) ? 1 : 0);
    report(std::string(hn) + ".explicit-entry-through-row-kind." + kinds[k], ok, "C09,C02,C13", "A=" + std::to_string(cur(s,0)) + " (A1=" + std::to_string(a1) + " A2=" + std::to_string(a2) + ") B=" + std::to_string(cur(s,1)) + " actions=" + std::to_string(g_xact));
  }
}
template<int H> void run_first_explicit(const char* hn) {
  typedef BE<TopX_<H>> Top; typedef typename TopX_<H>::Sub Sub;
  Top ref; ref.start(); ref.process_event(plain()); Sub& rs = ref.template get_state<Sub&>(); int initB = cur(rs,1); int a1 = cur(rs,0);
  Top m; m.start(); m.process_event(plain_x()); Sub& s = m.template get_state<Sub&>();
  bool ids = cur(s,0) != a1 && cur(s,1) == initB;
#if IS_MP11
  bool seen = s.template is_state_active<typename Sub_<H>::A3>() && s.template is_state_active<typename Sub_<H>::B1>() && m.template is_state_active<Sub>();
  int visited = 0; s.template visit<msm::backmp11::visit_mode::active_non_recursive>([&visited](auto&){ ++visited; });
  seen = seen && visited == 2;
#else
  bool seen = true;
#endif
  report(std::string(hn) + ".first-activation-by-explicit-entry", ids && seen, "C03,C09,C13", "A=" + std::to_string(cur(s,0)) + " B=" + std::to_string(cur(s,1)) + " introspection-agrees=" + std::to_string(seen));
}
// three levels: a history submachine whose active substate is itself a submachine, entered by a plain transition - every entry behaviour
// (machine, nested machine, leaf) runs exactly once per entry, outermost first (C02, C07, C08).  Not under back11 (three levels do not compile).
#if !defined(CFG_back11)
static std::string g_elog;
struct Inner_ : state_machine_def<Inner_> {
  struct Leaf : state<> { template<class E,class F> void on_entry(E const&,F&){ g_elog += "Leaf "; } template<class E,class F> void on_exit(E const&,F&){ g_elog += "~Leaf "; } };
  typedef Leaf initial_state;
  struct transition_table : mpl::vector<> {};
  template<class E,class F> void on_entry(E const&,F&){ g_elog += "Inner "; } template<class E,class F> void on_exit(E const&,F&){ g_elog += "~Inner "; }
  template<class F,class Ev> void no_transition(Ev const&,F&,int){}
};
typedef BE<Inner_> Inner;
template<int H> struct Mid_ : state_machine_def<Mid_<H>> {
  typedef Inner initial_state;
  struct transition_table : mpl::vector<> {};
#if IS_MP11
  using history = typename std::conditional<H==H_NO, msm::front::no_history, typename std::conditional<H==H_ALWAYS, msm::front::always_shallow_history, msm::front::shallow_history<resume, resume_x>>::type>::type;
#endif
  template<class E,class F> void on_entry(E const&,F&){ g_elog += "Mid "; } template<class E,class F> void on_exit(E const&,F&){ g_elog += "~Mid "; }
  template<class F,class Ev> void no_transition(Ev const&,F&,int){}
};
#if IS_MP11
template<int H> using MidBE = BE<Mid_<H>>;
#else
template<int H> using MidBE = msm::back::state_machine<Mid_<H>, typename std::conditional<H==H_NO, msm::back::NoHistory, typename std::conditional<H==H_ALWAYS, msm::back::AlwaysHistory, msm::back::ShallowHistory<mpl::vector<resume, resume_x>>>::type>::type>;
#endif
template<int H> struct Top3_ : state_machine_def<Top3_<H>> {
  typedef MidBE<H> Mid; struct Out3 : state<> {};
  typedef Out3 initial_state;
  struct transition_table : mpl::vector< Row<Out3,resume,Mid,none,none>, Row<Out3,plain,Mid,none,none>, Row<Mid,leave,Out3,none,none> > {};
  template<class F,class Ev> void no_transition(Ev const&,F&,int){}
};
template<int H> void run_nested(const char* hn) {
  typedef BE<Top3_<H>> Top;
  for (int hist_event = 0; hist_event < 2; ++hist_event) {
    Top m; m.start(); std::string all;
    for (int round = 0; round < 2; ++round) {
      g_elog.clear(); if (hist_event) m.process_event(resume()); else m.process_event(plain()); all += g_elog + "| ";
      g_elog.clear(); m.process_event(leave()); all += g_elog + "| ";
    }
    const std::string want = "Mid Inner Leaf | ~Leaf ~Inner ~Mid | Mid Inner Leaf | ~Leaf ~Inner ~Mid | ";
    report(std::string(hn) + ".nested-submachine-below-history." + (hist_event ? "history-event" : "plain-event"), all == want, "C02,C07,C08,C03", "log=[" + all + "] expected=[" + want + "]");
  }
}
#endif
int main(int argc, char** argv) {
  if (argc > 1) g_only = argv[1];
#if !defined(CFG_back11)
  run_nested<H_NO>("no"); run_nested<H_ALWAYS>("always"); run_nested<H_SHALLOW>("shallow");
#endif
  run<H_NO>("no"); run<H_ALWAYS>("always"); run<H_SHALLOW>("shallow");
  run_first<H_NO>("no"); run_first<H_ALWAYS>("always"); run_first<H_SHALLOW>("shallow");
  run_explicit_row_kinds<H_NO>("no"); run_explicit_row_kinds<H_ALWAYS>("always");
  run_first_explicit<H_NO>("no"); run_first_explicit<H_ALWAYS>("always"); run_first_explicit<H_SHALLOW>("shallow");
  return finish();
}
