// CONFIGS: back back11
// family `euml` (C14): the description of family `fronts`, extended by a row whose guard is a composite expression, written (a) as an eUML
// transition-table expression (operators ==, +, [], /, &&, ||, ! on eUML terminals - converted to rows by Boost.Proto at compile time,
// which no contract reaches) and (b) with functor rows using And_ / Or_ / Not_ and ActionSequence_.  Both are compared with an
// interpreter of the description written from the statement of C14: same triggers, targets, guard expressions with the C++ precedence
// of !, &&, || (and short-circuit evaluation), action sequences in written order.
#include "common.hpp"
#include <boost/msm/front/euml/euml.hpp>
#include <boost/msm/front/euml/operator.hpp>
using namespace boost::msm::front::euml;
static std::string g_log; static unsigned g_bits = 0;
enum { GA = 0, GC = 1, GI = 2, GX = 3 };
static bool gd(int k, const char* n) { g_log += n; g_log += ' '; return (g_bits >> k) & 1; }
static void ac(const char* n) { g_log += n; g_log += ' '; }
BOOST_MSM_EUML_EVENT(ea) BOOST_MSM_EUML_EVENT(eb) BOOST_MSM_EUML_EVENT(ec) BOOST_MSM_EUML_EVENT(ed) BOOST_MSM_EUML_EVENT(ei) BOOST_MSM_EUML_EVENT(eg)
#define ACTION(N, L) BOOST_MSM_EUML_ACTION(N) { template<class E,class F,class S,class T> void operator()(E const&,F&,S&,T&){ ac(L); } };
#define GUARD(N, K, L) BOOST_MSM_EUML_ACTION(N) { template<class E,class F,class S,class T> bool operator()(E const&,F&,S&,T&){ return gd(K, L); } };
ACTION(actA, "aA") ACTION(actB, "aB") ACTION(actI, "aI") ACTION(actX, "aX") ACTION(actY, "aY")
GUARD(guA, GA, "gA") GUARD(guC, GC, "gC") GUARD(guI, GI, "gI") GUARD(guX, GX, "gX")
BOOST_MSM_EUML_ACTION(NoTr) { template<class F,class E> void operator()(E const&,F&,int){ g_log += "NT "; } };
BOOST_MSM_EUML_STATE((), S0) BOOST_MSM_EUML_STATE((), S1) BOOST_MSM_EUML_STATE((), S2)
BOOST_MSM_EUML_TRANSITION_TABLE((
  S1 == S0 + ea [guA] / actA,
  S2 == S1 + eb / actB,
  S0 == S2 + ec [guC],
  S2 == S0 + ed,
  S1 + ei [guI] / actI,
  S0 + eg [guA && !guC || guI && guX] / (actX, actY, actA),          // internal row in S0: composite guard, action sequence
  S2 + eg [!(guA || guC) && guX] / (actY, actX)
), ttable)
BOOST_MSM_EUML_DECLARE_STATE_MACHINE((ttable, init_ << S0, no_action, no_action, attributes_ << no_attributes_, configure_ << no_configure_, NoTr), E_)
// the same with functor rows
typedef BOOST_MSM_EUML_STATE_NAME(S0) S0t; typedef BOOST_MSM_EUML_STATE_NAME(S1) S1t; typedef BOOST_MSM_EUML_STATE_NAME(S2) S2t;
struct F_ : state_machine_def<F_> {
  struct T0 : state<> {}; struct T1 : state<> {}; struct T2 : state<> {};
  typedef T0 initial_state;
  typedef BOOST_MSM_EUML_EVENT_NAME(ea) EA; typedef BOOST_MSM_EUML_EVENT_NAME(eb) EB; typedef BOOST_MSM_EUML_EVENT_NAME(ec) EC;
  typedef BOOST_MSM_EUML_EVENT_NAME(ed) ED; typedef BOOST_MSM_EUML_EVENT_NAME(ei) EI; typedef BOOST_MSM_EUML_EVENT_NAME(eg) EG;
  typedef actA_impl AA; typedef actB_impl AB; typedef actI_impl AI; typedef actX_impl AX; typedef actY_impl AY;
  typedef guA_impl GA_; typedef guC_impl GC_; typedef guI_impl GI_; typedef guX_impl GX_;
  struct transition_table : mpl::vector<
    Row<T0, EA, T1, AA, GA_>, Row<T1, EB, T2, AB, none>, Row<T2, EC, T0, none, GC_>, Row<T0, ED, T2, none, none>, Row<T1, EI, none, AI, GI_>,
    Row<T0, EG, none, ActionSequence_<mpl::vector<AX, AY, AA> >, Or_<And_<GA_, Not_<GC_> >, And_<GI_, GX_> > >,
    Row<T2, EG, none, ActionSequence_<mpl::vector<AY, AX> >, And_<Not_<Or_<GA_, GC_> >, GX_> > > {};
  template<class M,class Ev> void no_transition(Ev const&,M&,int){ g_log += "NT "; }
};
static std::string step(int& s, int ev) {
  std::string l; auto g = [&](int k, const char* n){ l += n; l += ' '; return (bool)((g_bits >> k) & 1); };
  switch (ev) {
    case 0: if (s == 0) { if (g(GA, "gA")) { s = 1; l += "aA "; } return l; } break;
    case 1: if (s == 1) { s = 2; return "aB "; } break;
    case 2: if (s == 2) { if (g(GC, "gC")) s = 0; return l; } break;
    case 3: if (s == 0) { s = 2; return ""; } break;
    case 4: if (s == 1) { if (g(GI, "gI")) l += "aI "; return l; } break;
    case 5: if (s == 0) { if ((g(GA, "gA") && !g(GC, "gC")) || (g(GI, "gI") && g(GX, "gX"))) l += "aX aY aA "; return l; }
            if (s == 2) { if (!(g(GA, "gA") || g(GC, "gC")) && g(GX, "gX")) l += "aY aX "; return l; } break;
  }
  return "NT ";
}
template<class M> static void fire(M& m, int ev) {
  switch (ev) { case 0: m.process_event(ea); break; case 1: m.process_event(eb); break; case 2: m.process_event(ec); break;
                case 3: m.process_event(ed); break; case 4: m.process_event(ei); break; default: m.process_event(eg); } }
template<class Front> static void variant(const char* name) {
  typedef BE<Front> M;
  const int NEV = 6, LEN = 4; int bad = 0, runs = 0; std::string first;
  for (unsigned v = 0; v < 16; ++v) {
    int idx[LEN] = {0, 0, 0, 0};
    for (;;) {
      g_bits = v; M m; m.start(); g_log.clear(); std::string exp; int s = 0;
      for (int k = 0; k < LEN; ++k) { fire(m, idx[k]); exp += step(s, idx[k]); exp += "| "; g_log += "| "; }
      ++runs;
      if (g_log != exp) { if (!bad++) first = "guards=" + std::to_string(v) + " events=" + std::to_string(idx[0]) + std::to_string(idx[1]) + std::to_string(idx[2]) + std::to_string(idx[3]) + " log=[" + g_log + "] expected=[" + exp + "]"; }
      int k = LEN - 1; while (k >= 0 && ++idx[k] == NEV) { idx[k] = 0; --k; }
      if (k < 0) break;
    }
  }
  report(std::string(name) + ".all-sequences-of-4-events-all-guard-valuations", bad == 0, "C14,C02,C01",
         std::to_string(runs) + " runs, " + std::to_string(bad) + " differ from the description" + (bad ? "; first: " + first : ""));
}
int main(int argc, char** argv) {
  if (argc > 1) g_only = argv[1];
  variant<E_>("euml-expression");
  variant<F_>("functor-rows-with-operators");
  return finish();
}
