// CONFIGS: back back11
// LIBS: -lboost_serialization
// family `ser` (C16): save a quiescent machine (two-region submachine under each history policy, front-end and state data), load it
// into a freshly constructed machine, and compare: active configuration at both levels, history memory (observed through re-entry),
// state / front-end data, and the reaction to a common continuation.  Oracle typed from the statement of C16.
#include "common.hpp"
#include <sstream>
#include <boost/archive/text_oarchive.hpp>
#include <boost/archive/text_iarchive.hpp>
#include <boost/archive/binary_oarchive.hpp>
#include <boost/archive/binary_iarchive.hpp>
struct enter {}; struct enter_h {}; struct leave {}; struct nxt {}; struct stp {};
#if defined(CFG_back11)
#define SUBBE(F, ROOT, H) msm::back11::state_machine<F, msm::back11::state_machine<ROOT>, H>
#else
#define SUBBE(F, ROOT, H) msm::back::state_machine<F, H>
#endif
template<class History> struct Root_ : state_machine_def<Root_<History>> {
  typedef int do_serialize; int front_data = 0;
  template<class Ar> void serialize(Ar& ar, const unsigned int){ ar & front_data; }
  struct Idle : state<> { typedef int do_serialize; int idle_data = 0; template<class Ar> void serialize(Ar& ar, const unsigned int){ ar & idle_data; } };
  struct Work_ : state_machine_def<Work_> {
    typedef int do_serialize; int work_data = 0;                 // front-end data of a CONTAINED machine
    template<class Ar> void serialize(Ar& ar, const unsigned int){ ar & work_data; }
    struct A1 : state<> {}; struct B1 : state<> {}; struct B2 : state<> {};
    struct A2 : state<> { typedef int do_serialize; int a2_data = 0; template<class Ar> void serialize(Ar& ar, const unsigned int){ ar & a2_data; } };
    typedef mpl::vector<A1,B1> initial_state;
    struct transition_table : mpl::vector< Row<A1,nxt,A2>, Row<A2,nxt,A1>, Row<B1,stp,B2>, Row<B2,stp,B1> > {};
    template<class F,class Ev> void no_transition(Ev const&,F&,int){}
  };
  typedef SUBBE(Work_, Root_, History) Work;
  typedef Idle initial_state;
  struct transition_table : mpl::vector< Row<Idle,enter,Work>, Row<Idle,enter_h,Work>, Row<Work,leave,Idle> > {};
  template<class F,class Ev> void no_transition(Ev const&,F&,int){}
};
template<class M> static std::string conf(M& m) {
  typedef typename M::Work W; W& w = m.template get_state<W&>();
  return std::to_string(m.current_state()[0]) + "/" + std::to_string(w.current_state()[0]) + "," + std::to_string(w.current_state()[1]);
}
template<class M> static void drive(M& m, int k) {   // k: 0..5 prefixes of one script
  const int n = k;
  if (n > 0) m.process_event(enter());
  if (n > 1) m.process_event(nxt());
  if (n > 2) m.process_event(stp());
  if (n > 3) m.process_event(leave());      // the configuration A2,B2 now survives only in the history memory
  if (n > 4) m.process_event(enter_h());
}
template<class History, class OA, class IA> static void run(const char* hn, const char* an) {
  typedef BE<Root_<History>> M;
  for (int k = 0; k <= 5; ++k) {
    M a; a.start(); a.front_data = 40 + k; a.template get_state<typename M::Idle&>().idle_data = 7 * k; drive(a, k);
    typedef typename M::Work W; typedef typename W::A2 A2;
    a.template get_state<W&>().work_data = 100 + k; a.template get_state<W&>().template get_state<A2&>().a2_data = 200 + k;
    std::stringstream ss; { OA oa(ss); oa << a; }
    M b; { IA ia(ss); ia >> b; }
    std::string id = std::string(hn) + "." + an + ".k" + std::to_string(k);
    bool same = conf(a) == conf(b) && b.front_data == a.front_data && b.template get_state<typename M::Idle&>().idle_data == 7 * k;
    report(id + ".configuration-and-data", same, "C16", "saved=" + conf(a) + " loaded=" + conf(b) + " front=" + std::to_string(b.front_data));
    const int wd = b.template get_state<W&>().work_data, sd = b.template get_state<W&>().template get_state<A2&>().a2_data;
    report(id + ".contained-machine-data", wd == 100 + k && sd == 200 + k, "C16", "submachine front-end data saved=" + std::to_string(100 + k) + " loaded=" + std::to_string(wd) +
           "; substate data saved=" + std::to_string(200 + k) + " loaded=" + std::to_string(sd));
    // common continuation: leave (if inside), re-enter with the history event, move one region, leave, re-enter plainly
    std::string ta, tb;
    auto cont = [](M& m, std::string& t){ m.process_event(leave()); t += conf(m) + " "; m.process_event(enter_h()); t += conf(m) + " "; m.process_event(nxt()); t += conf(m) + " ";
                                          m.process_event(leave()); m.process_event(enter()); t += conf(m) + " "; };
    cont(a, ta); cont(b, tb);
    report(id + ".continuation", ta == tb, "C16,C08", "original=[" + ta + "] restored=[" + tb + "]");
  }
}
// a contained machine WITHOUT history and WITHOUT front-end data of its own: its active inner state, the data of its opt-in states and
// whatever is nested below it must still round-trip ("the active state ids of every region at every nesting level", C16)
struct PlainSub_ : state_machine_def<PlainSub_> {
  struct P1 : state<> {};
  struct P2 : state<> { typedef int do_serialize; int visits = 0; template<class Ar> void serialize(Ar& ar, const unsigned int){ ar & visits; }
                        template<class E,class F> void on_entry(E const&,F&){ ++visits; } };
  struct P3 : state<> {};
  typedef P1 initial_state;
  struct transition_table : mpl::vector< Row<P1,nxt,P2>, Row<P2,nxt,P3>, Row<P3,nxt,P1> > {};
  template<class F,class Ev> void no_transition(Ev const&,F&,int){}
};
struct PlainRoot_;
#if defined(CFG_back11)
typedef msm::back11::state_machine<PlainSub_, msm::back11::state_machine<PlainRoot_>> PlainSub;
#else
typedef msm::back::state_machine<PlainSub_> PlainSub;
#endif
struct PlainRoot_ : state_machine_def<PlainRoot_> {
  struct Idle : state<> {};
  typedef Idle initial_state;
  struct transition_table : mpl::vector< Row<Idle,enter,PlainSub>, Row<PlainSub,leave,Idle> > {};
  template<class F,class Ev> void no_transition(Ev const&,F&,int){}
};
template<class OA, class IA> static void run_plain(const char* an) {
  typedef BE<PlainRoot_> M;
  for (int k = 0; k <= 3; ++k) {
    M a; a.start(); a.process_event(enter()); for (int i = 0; i < k; ++i) a.process_event(nxt());
    std::stringstream ss; { OA oa(ss); oa << a; }
    M b; { IA ia(ss); ia >> b; }
    PlainSub& sa = a.template get_state<PlainSub&>(); PlainSub& sb = b.template get_state<PlainSub&>();
    const int va = sa.template get_state<PlainSub_::P2&>().visits, vb = sb.template get_state<PlainSub_::P2&>().visits;
    bool same = a.current_state()[0] == b.current_state()[0] && sa.current_state()[0] == sb.current_state()[0] && va == vb;
    a.process_event(nxt()); b.process_event(nxt());
    same = same && sa.current_state()[0] == sb.current_state()[0];
    report(std::string("plain-submachine-without-history.") + an + ".k" + std::to_string(k), same, "C16",
           "inner saved=" + std::to_string(sa.current_state()[0]) + " loaded=" + std::to_string(sb.current_state()[0]) + " P2.visits " + std::to_string(va) + "/" + std::to_string(vb));
  }
}
int main(int argc, char** argv) {
  if (argc > 1) g_only = argv[1];
  run_plain<boost::archive::text_oarchive, boost::archive::text_iarchive>("text"); run_plain<boost::archive::binary_oarchive, boost::archive::binary_iarchive>("binary");
  typedef boost::archive::text_oarchive TO; typedef boost::archive::text_iarchive TI; typedef boost::archive::binary_oarchive BO; typedef boost::archive::binary_iarchive BI;
  run<msm::back::NoHistory, TO, TI>("nohistory", "text"); run<msm::back::AlwaysHistory, TO, TI>("always", "text");
  run<msm::back::ShallowHistory<mpl::vector<enter_h>>, TO, TI>("shallow", "text");
  run<msm::back::AlwaysHistory, BO, BI>("always", "binary"); run<msm::back::ShallowHistory<mpl::vector<enter_h>>, BO, BI>("shallow", "binary");
  return finish();
}
