// CONFIGS: back back11 backmp11 backmp11_ct
// family `exc` (C12): two orthogonal regions both reacting to `e`; a guard / exit / action / entry of region 0 or 1 throws;
// default and before_transition switch policies; continuation events afterwards.  Oracle typed from the statement of C12.
#include "common.hpp"
#include <stdexcept>
struct e {}; struct f {};
static std::string g_log; static int g_throw_phase = -1, g_throw_region = -1; static int g_caught = 0, g_nt = 0; static bool g_caught_right_event = false;
enum { PH_GUARD, PH_EXIT, PH_ACTION, PH_ENTRY };
#include <any>
// the event handed to exception_caught is `e` itself, or - under favor_compile_time - the any_event that carries it
template<class Ev> bool is_event_e(Ev const&) { return std::is_same<Ev, struct e>::value; }
inline bool is_event_e(std::any const& a) { return a.type() == typeid(struct e); }
static void maybe_throw(int phase, int region) { if (phase == g_throw_phase && region == g_throw_region) { g_log += "THROW "; throw std::runtime_error("boom"); } }
template<int R> struct Src : state<> { template<class E,class F> void on_exit(E const&,F&){ g_log += "x" + std::to_string(R) + " "; maybe_throw(PH_EXIT, R); } };
template<int R> struct Tgt : state<> { template<class E,class F> void on_entry(E const&,F&){ g_log += "n" + std::to_string(R) + " "; maybe_throw(PH_ENTRY, R); } };
template<int R> struct G { template<class E,class F,class S,class T> bool operator()(E const&,F&,S&,T&){ g_log += "g" + std::to_string(R) + " "; maybe_throw(PH_GUARD, R); return true; } };
template<int R> struct A { template<class E,class F,class S,class T> void operator()(E const&,F&,S&,T&){ g_log += "a" + std::to_string(R) + " "; maybe_throw(PH_ACTION, R); } };
template<class Policy, bool WG = true> struct M_ : state_machine_def<M_<Policy, WG>> {       // WG = false: the rows carry no guard (a_row_ kind)
  typedef Policy active_state_switch_policy;
  typedef Src<0> S0; typedef Tgt<0> T0; typedef Src<1> S1; typedef Tgt<1> T1;
  typedef mpl::vector<S0,S1> initial_state;
  struct transition_table : mpl::vector<
    Row<S0, e, T0, A<0>, typename std::conditional<WG, G<0>, none>::type>, Row<S1, e, T1, A<1>, typename std::conditional<WG, G<1>, none>::type>,
    Row<T0, f, S0, none, none>, Row<T1, f, S1, none, none> > {};
  template<class F,class Ev> void no_transition(Ev const&,F&,int){ ++g_nt; }
  template<class F,class Ev> void exception_caught(Ev const& ev,F&,std::exception&){ ++g_caught; g_caught_right_event = is_event_e(ev); g_log += "CAUGHT "; }
};
// kind: 0 switch after entry (default), 1 before the transition (right after the guard), 2 after the source's exit, 3 after the action
template<class P, bool WG = true> void run(const char* pn, int kind) {
  typedef BE<M_<P, WG>> M;
  const char* ph[] = {"guard","exit","action","entry"};
  for (int region = 0; region < 2; ++region) for (int phase = WG ? 0 : 1; phase < 4; ++phase) {
    M m; m.start();
    int s0 = cur(m,0), s1 = cur(m,1);
    g_throw_phase = phase; g_throw_region = region; g_log.clear(); g_caught = 0; g_nt = 0; g_caught_right_event = false;
    bool escaped = false; int r = -1;
    try { r = (int)m.process_event(e()); } catch (...) { escaped = true; }
    g_throw_phase = -1;
    std::string id = std::string(pn) + (WG ? "" : ".no-guard") + ".r" + std::to_string(region) + "." + ph[phase];
    // nothing of the aborted transition after the throw; exactly one exception_caught; no no_transition; not handled
    size_t t = g_log.find("THROW "); std::string after = t == std::string::npos ? "" : g_log.substr(t + 6);
    bool ok = !escaped && g_caught == 1 && g_caught_right_event && g_nt == 0 && after == "CAUGHT " && r == 0;
    // state prescribed by the policy for the phase of the throw: default: source in every phase; before_transition: target from the exit on
    int a0 = cur(m,0), a1 = cur(m,1);
    int thrower_before = region == 0 ? s0 : s1; int thrower_after = region == 0 ? a0 : a1;
    bool moved = thrower_after != thrower_before;
    // the id is switched when the phase named by the policy has COMPLETED; a throw inside that phase leaves the previous id
    const bool want_moved = kind == 0 ? false : kind == 1 ? (phase != PH_GUARD) : kind == 2 ? (phase == PH_ACTION || phase == PH_ENTRY) : (phase == PH_ENTRY);
    bool ok_state = moved == want_moved;
    report(id, ok, "C12,C13", "ret=" + std::to_string(r) + " escaped=" + std::to_string(escaped) + " caught=" + std::to_string(g_caught) + " nt=" + std::to_string(g_nt) + " log=[" + g_log + "]");
    report(id + ".state", ok_state, "C12,C19", "policy=" + std::string(pn) + " thrower moved=" + std::to_string(moved));
    // the machine is not wedged: a later event is processed normally in the region that did not throw (if it completed) or from where it stands
    g_log.clear(); g_caught = 0;
    m.process_event(f());                       // regions that reached their target go back to the source
    bool back_home = cur(m,0) == s0 && cur(m,1) == s1;
    g_log.clear(); int r2 = (int)m.process_event(e());   // and a complete, fault-free step works again
    bool full = g_log == (WG ? "g0 x0 a0 n0 g1 x1 a1 n1 " : "x0 a0 n0 x1 a1 n1 ") && (r2 & 1) && cur(m,0) != s0 && cur(m,1) != s1;
    report(id + ".usable", back_home && full && g_caught == 0, "C12", "after f home=" + std::to_string(back_home) + " second e log=[" + g_log + "] ret=" + std::to_string(r2));
  }
}
// ---- a substate entry of a SUBMACHINE throws while the submachine is being entered (C12 "not wedged", C04): under
// active_state_switch_before_transition the submachine is the active state afterwards and must handle later events normally ----
struct enter {}; struct ev2 {};
static bool g_sub_throw = false;
struct SubW_ : state_machine_def<SubW_> {
  struct I : state<> { template<class E,class F> void on_entry(E const&,F&){ g_log += "I.entry "; if (g_sub_throw) { g_sub_throw = false; throw std::runtime_error("x"); } } };
  struct J : state<> {};
  typedef I initial_state;
  struct ActJ { template<class E,class F,class S,class T> void operator()(E const&,F&,S&,T&){ g_log += "j "; } };
  struct transition_table : mpl::vector< Row<I,ev2,J,ActJ,none> > {};
  template<class F,class Ev> void no_transition(Ev const&,F&,int){ g_log += "NTsub "; }
  template<class F,class Ev> void exception_caught(Ev const&,F&,std::exception&){ g_log += "CAUGHTsub "; }
};
typedef BE<SubW_> SubW;
struct TopW_ : state_machine_def<TopW_> {
  typedef msm::active_state_switch_before_transition active_state_switch_policy;
  struct O : state<> {};
  typedef O initial_state;
  struct transition_table : mpl::vector< Row<O,enter,SubW,none,none> > {};
  template<class F,class Ev> void no_transition(Ev const&,F&,int){ g_log += "NT "; }
  template<class F,class Ev> void exception_caught(Ev const&,F&,std::exception&){ g_log += "CAUGHT "; }
};
typedef BE<TopW_> TopW;
static void run_sub_entry_throws() {
  TopW m; m.start(); g_log.clear(); g_sub_throw = true;
  bool escaped = false; int r = -1; try { r = (int)m.process_event(enter()); } catch (...) { escaped = true; }
  g_log += "| "; int r2 = -1, r3 = -1;
  try { r2 = (int)m.process_event(ev2()); r3 = (int)m.process_event(ev2()); } catch (...) { escaped = true; }
  // the fault is caught once by the machine that processed `enter`; afterwards the (active) submachine handles ev2 at once, the second ev2 is unhandled in J (reported by the root machine)
  report("sub-entry-throws.not-wedged", !escaped && r == 0 && g_log == "I.entry CAUGHT | j NT " && (r2 & 1) && !(r3 & 1), "C12,C04",
         "r=" + std::to_string(r) + " r2=" + std::to_string(r2) + " r3=" + std::to_string(r3) + " log=[" + g_log + "]");
}
// ---- a transition INSIDE an active submachine throws while the parent is dispatching the event: the submachine (the level that
// processed the transition) catches it, its exception_caught runs once, the enclosing machine may still react with its own row, and the
// submachine is not wedged afterwards (C12) ----
struct boom {};
struct SubT_ : state_machine_def<SubT_> {
  struct I : state<> {}; struct J : state<> {};
  typedef I initial_state;
  struct ActThrow { template<class E,class F,class S,class T> void operator()(E const&,F&,S&,T&){ g_log += "THROW "; throw std::runtime_error("inner"); } };
  struct ActJ { template<class E,class F,class S,class T> void operator()(E const&,F&,S&,T&){ g_log += "j "; } };
  struct transition_table : mpl::vector< Row<I,boom,J,ActThrow,none>, Row<I,ev2,J,ActJ,none> > {};
  template<class F,class Ev> void no_transition(Ev const&,F&,int){ g_log += "NTsub "; }
  template<class F,class Ev> void exception_caught(Ev const&,F&,std::exception&){ g_log += "CAUGHTsub "; }
};
typedef BE<SubT_> SubT;
struct TopT_ : state_machine_def<TopT_> {
  struct ActOuter { template<class E,class F,class S,class T> void operator()(E const&,F&,S&,T&){ g_log += "outer "; } };
  typedef SubT initial_state;
  struct transition_table : mpl::vector< Row<SubT,boom,none,ActOuter,none> > {};
  template<class F,class Ev> void no_transition(Ev const&,F&,int){ g_log += "NT "; }
  template<class F,class Ev> void exception_caught(Ev const&,F&,std::exception&){ g_log += "CAUGHT "; }
};
typedef BE<TopT_> TopT;
static void run_throw_inside_submachine() {
  TopT m; m.start(); g_log.clear();
  bool escaped = false; int r = -1, r2 = -1; try { r = (int)m.process_event(boom()); } catch (...) { escaped = true; }
  g_log += "| "; try { r2 = (int)m.process_event(ev2()); } catch (...) { escaped = true; }
  report("throw-inside-submachine.caught-at-its-level-outer-may-react-not-wedged", !escaped && g_log == "THROW CAUGHTsub outer | j " && (r & 1) && (r2 & 1), "C12,C07,C13",
         "r=" + std::to_string(r) + " r2=" + std::to_string(r2) + " escaped=" + std::to_string(escaped) + " log=[" + g_log + "]");
}
// ---- the entry behaviour of a target that owns a COMPLETION transition throws: the transition is aborted - "no further behaviour of the
// aborted transition runs" - so the completion transition of the never-entered target must not fire either (C12, C10) ----
struct CE_ : state_machine_def<CE_> {
  struct S0 : state<> {};
  struct S1 : state<> { template<class E,class F> void on_entry(E const&,F&){ g_log += "S1.entry THROW "; throw std::runtime_error("entry"); } template<class E,class F> void on_exit(E const&,F&){ g_log += "S1.exit "; } };
  struct S2 : state<> { template<class E,class F> void on_entry(E const&,F&){ g_log += "S2.entry "; } };
  struct ActC { template<class E,class F,class S,class T> void operator()(E const&,F&,S&,T&){ g_log += "completion "; } };
  typedef S0 initial_state;
  struct transition_table : mpl::vector< Row<S0,e,S1,none,none>, Row<S1,none,S2,ActC,none> > {};
  template<class F,class Ev> void no_transition(Ev const&,F&,int){ g_log += "NT "; }
  template<class F,class Ev> void exception_caught(Ev const&,F&,std::exception&){ g_log += "CAUGHT "; }
};
typedef BE<CE_> CE;
static void run_entry_of_completion_source_throws() {
  CE m; m.start(); g_log.clear();
  bool escaped = false; int r = -1; try { r = (int)m.process_event(e()); } catch (...) { escaped = true; }
  report("entry-of-a-state-with-a-completion-transition-throws.no-completion-afterwards", !escaped && g_log == "S1.entry THROW CAUGHT " && !(r & 1), "C12,C10",
         "r=" + std::to_string(r) + " escaped=" + std::to_string(escaped) + " log=[" + g_log + "]");
}
int main(int argc, char** argv) {
  if (argc > 1) g_only = argv[1];
  run_entry_of_completion_source_throws();
  run_throw_inside_submachine();
  run<msm::active_state_switch_after_entry>("after_entry", 0);
  run<msm::active_state_switch_before_transition>("before_transition", 1);
  run<msm::active_state_switch_after_exit>("after_exit", 2);
  run<msm::active_state_switch_after_transition_action>("after_transition_action", 3);
  run<msm::active_state_switch_after_exit, false>("after_exit", 2);
  run<msm::active_state_switch_after_transition_action, false>("after_transition_action", 3);
  run_sub_entry_throws();
  return finish();
}
