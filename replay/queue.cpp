// CONFIGS: back back11 backmp11 backmp11_ct
// family `queue` (C04, C10): behaviours submit numbered events from every callback position (guard, exit, action, entry,
// initial entries during start(), submachine behaviours); enqueue_event + execute_queued_events; completion transitions with
// pending events.  Oracle from the statements: a submitted event never interrupts the running step, stored events are
// dispatched exactly once each in submission order; completion transitions fire before any pending event.
#include "common.hpp"
struct go {}; struct ev { int n; ev(int n_=0):n(n_){} }; struct enter {};
static std::string g_log; static int g_submit_at = -1; static int g_count = 0; static int g_depth = 0; static bool g_reentered = false;
enum { AT_GUARD, AT_EXIT, AT_ACTION, AT_ENTRY, AT_NONE };
template<class F> void submit(F& f, int at) { if (at != g_submit_at) return; for (int i = 1; i <= g_count; ++i) { g_log += "sub" + std::to_string(i) + " "; f.process_event(ev(i)); } }
struct Enter { Enter(){ if (g_depth > 0) g_reentered = true; ++g_depth; } ~Enter(){ --g_depth; } };
struct M_ : state_machine_def<M_> {
  struct S : state<> { template<class E,class F> void on_exit(E const&,F& f){ Enter x; g_log += "S.exit "; submit(f, AT_EXIT); } };
  struct T : state<> { template<class E,class F> void on_entry(E const&,F& f){ Enter x; g_log += "T.entry "; submit(f, AT_ENTRY); g_log += "T.entry-end "; } };
  struct G { template<class E,class F,class A,class B> bool operator()(E const&,F& f,A&,B&){ Enter x; g_log += "guard "; submit(f, AT_GUARD); return true; } };
  struct Act { template<class E,class F,class A,class B> void operator()(E const&,F& f,A&,B&){ Enter x; g_log += "action "; submit(f, AT_ACTION); } };
  struct Rec { template<class F,class A,class B> void operator()(ev const& e,F&,A&,B&){ Enter x; g_log += "ev" + std::to_string(e.n) + " "; } };
  typedef S initial_state;
  struct transition_table : mpl::vector<
    Row<S, go, T, Act, G>,
    Row<T, ev, none, Rec, none>,         // ev handled (internal) only in T: proves it was dispatched after the transition completed
    Row<S, ev, none, Rec, none> > {};
  template<class F,class Ev> void no_transition(Ev const&,F&,int){ g_log += "NT "; }
};
typedef BE<M_> M;
// initial entry behaviours submit events during start()
struct I_ : state_machine_def<I_> {
  struct A0 : state<> { template<class E,class F> void on_entry(E const&,F& f){ g_log += "A0.entry{ "; f.process_event(go()); g_log += "} "; } template<class E,class F> void on_exit(E const&,F&){ g_log += "A0.exit "; } };
  struct A1 : state<> { template<class E,class F> void on_entry(E const&,F&){ g_log += "A1.entry "; } };
  struct B0 : state<> { template<class E,class F> void on_entry(E const&,F&){ g_log += "B0.entry "; } };
  typedef mpl::vector<A0,B0> initial_state;
  struct transition_table : mpl::vector< Row<A0, go, A1, none, none> > {};
  template<class F,class Ev> void no_transition(Ev const&,F&,int){ g_log += "NT "; }
};
typedef BE<I_> I;
// the machine's own on_entry submits an event during start()
struct O_ : state_machine_def<O_> {
  struct A0 : state<> {}; struct A1 : state<> { template<class E,class F> void on_entry(E const&,F&){ g_log += "A1.entry "; } };
  typedef A0 initial_state;
  struct transition_table : mpl::vector< Row<A0, go, A1, none, none> > {};
  template<class E,class F> void on_entry(E const&,F& f){ g_log += "own.entry{ "; f.process_event(go()); g_log += "} "; }
  template<class F,class Ev> void no_transition(Ev const&,F&,int){ g_log += "NT "; }
};
typedef BE<O_> O;
// completion transition inside a submachine whose initial entry raises an event (C10)
template<char C> struct Lg { template<class E,class F,class S,class T> void operator()(E const&,F&,S&,T&){ g_log += C; g_log += ' '; } };
struct Sub_ : state_machine_def<Sub_> {
  struct Ii : state<> { template<class E,class F> void on_entry(E const&,F& f){ g_log += "I.entry{ "; f.process_event(ev(7)); g_log += "} "; } };
  struct J : state<> {}; struct K : state<> {}; struct L : state<> {};
  typedef Ii initial_state;
  struct transition_table : mpl::vector< Row<Ii,none,J,Lg<'c'>,none>, Row<Ii,ev,K,Lg<'k'>,none>, Row<J,ev,L,Lg<'l'>,none> > {};
  template<class F,class Ev> void no_transition(Ev const&,F&,int){ g_log += "NTsub "; }
};
typedef BE<Sub_> Sub;
struct Top_ : state_machine_def<Top_> {
  struct Oo : state<> {};
  typedef Oo initial_state;
  struct transition_table : mpl::vector< Row<Oo,enter,Sub,none,none> > {};
  template<class F,class Ev> void no_transition(Ev const&,F&,int){ g_log += "NT "; }
};
typedef BE<Top_> Top;

// a behaviour INSIDE a completion chain submits an event: the chain runs to its end first (C10), the event is handled by the state the
// chain ends in (S3), never dispatched against a state that is being left
struct ping {};
struct CC_ : state_machine_def<CC_> {
  struct S0 : state<> {}; struct S1 : state<> {};
  struct S2 : state<> { template<class E,class F> void on_entry(E const&,F& f){ g_log += "S2.entry{ "; f.process_event(ping()); g_log += "} "; } };
  struct S3 : state<> { template<class E,class F> void on_entry(E const&,F&){ g_log += "S3.entry "; } };
  struct S4 : state<> { template<class E,class F> void on_entry(E const&,F&){ g_log += "S4.entry "; } };
  typedef S0 initial_state;
  struct transition_table : mpl::vector< Row<S0,go,S1,none,none>, Row<S1,none,S2,none,none>, Row<S2,none,S3,none,none>, Row<S3,ping,S4,none,none> > {};
  template<class F,class Ev> void no_transition(Ev const&,F&,int){ g_log += "NT "; }
};
typedef BE<CC_> CC;
// bounded (circular) message queue filled to its capacity while the dispatched event's own action submits one more (C20 lifetime, C04):
// the event under dispatch must stay alive and unchanged until its behaviours return, and no pending event may be lost
#if defined(CFG_back)
#include <boost/msm/back/queue_container_circular.hpp>
struct kick {}; struct tick { int n; int* alive; tick(int n_=0,int* a=nullptr):n(n_),alive(a){ if(alive) ++*alive; } tick(tick const& o):n(o.n),alive(o.alive){ if(alive) ++*alive; } ~tick(){ if(alive) --*alive; n = -1; } };
struct RB_ : state_machine_def<RB_> {
  struct S : state<> {};
  struct Kick { template<class F,class A,class B> void operator()(kick const&,F& f,A&,B&){ f.process_event(tick(1, f.alive)); f.process_event(tick(2, f.alive)); } };
  struct Tick { template<class F,class A,class B> void operator()(tick const& t,F& f,A&,B&){ int before = t.n; if (t.n == 1) f.process_event(tick(3, f.alive)); g_log += "tick" + std::to_string(before) + (t.n == before ? " " : "(changed-under-dispatch) "); } };
  typedef S initial_state; int* alive = nullptr;
  struct transition_table : mpl::vector< Row<S,kick,none,Kick,none>, Row<S,tick,none,Tick,none> > {};
  template<class F,class Ev> void no_transition(Ev const&,F&,int){ g_log += "NT "; }
};
typedef msm::back::state_machine<RB_, msm::back::queue_container_circular> RB;
// the same for the DEFERRED queue: full ring, and the occurrence being re-offered is deferred again (pushed while it is dispatched); it must stay
// alive and unchanged for the rest of its dispatch, and no pending occurrence may be lost (C20, C05)
struct job { int n; int* alive; job(int n_=0,int* a=nullptr):n(n_),alive(a){ if(alive) ++*alive; } job(job const& o):n(o.n),alive(o.alive){ if(alive) ++*alive; } ~job(){ if(alive) --*alive; n = -1; } };
struct open_ {}; struct later {};
struct RD_ : state_machine_def<RD_> {
  typedef int activate_deferred_events;
  // Gate defers every job AGAIN (state deferral): each occurrence is pushed back into the full ring while it is being re-offered
  struct Hold : state<> { typedef mpl::vector<job> deferred_events; }; struct Gate : state<> { typedef mpl::vector<job> deferred_events; }; struct Work : state<> {};
  struct Do { template<class F,class A,class B> void operator()(job const& j,F&,A&,B&){ g_log += "job" + std::to_string(j.n) + " "; } };
  typedef Hold initial_state; int* alive = nullptr;
  struct transition_table : mpl::vector< Row<Hold,open_,Gate,none,none>, Row<Gate,later,Work,none,none>, Row<Work,job,none,Do,none> > {};
  template<class F,class Ev> void no_transition(Ev const&,F&,int){ g_log += "NT "; }
};
typedef msm::back::state_machine<RD_, msm::back::queue_container_circular> RD;
#endif
// bounded drain over events that are NOT handled (no transition / guard rejects): each dispatched event uses up one unit of the budget (C04)
#if IS_MP11
struct xev { int n; xev(int n_=0):n(n_){} }; struct aev { int n; aev(int n_=0):n(n_){} };
struct BD_ : state_machine_def<BD_> {
  struct S : state<> {};
  struct RecA { template<class F,class A,class B> void operator()(aev const& e,F&,A&,B&){ g_log += "A" + std::to_string(e.n) + " "; } };
  struct No { template<class E,class F,class A,class B> bool operator()(E const&,F&,A&,B&){ g_log += "reject "; return false; } };
  typedef S initial_state;
  struct transition_table : mpl::vector< Row<S,aev,none,RecA,none>, Row<S,go,none,none,No> > {};
  template<class F,class Ev> void no_transition(Ev const&,F&,int){ g_log += "NT "; }
};
typedef BE<BD_> BD;
// a bounded drain whose last dispatched event submits a burst of events (the pool's container grows while the scan holds an iterator):
// nothing is lost, duplicated or destroyed twice, the burst is dispatched afterwards in submission order (C20 "no library operation reads
// freed ... memory", C04)
struct burst {}; struct tk { int n; std::vector<int> pad; tk(int n_=0) : n(n_), pad(8, n_) {} };
static int g_tk_next = 0, g_tk_bad = 0;
struct BU_ : state_machine_def<BU_> {
  struct S : state<> {};
  struct Many { template<class E,class F,class A,class B> void operator()(E const&,F& f,A&,B&){ for (int i = 0; i < 100; ++i) f.process_event(tk(i)); } };
  struct Cnt { template<class F,class A,class B> void operator()(tk const& e,F&,A&,B&){ if (e.n != g_tk_next || e.pad.size() != 8 || e.pad[7] != e.n) ++g_tk_bad; ++g_tk_next; } };
  typedef S initial_state;
  struct transition_table : mpl::vector< Row<S,burst,none,Many,none>, Row<S,tk,none,Cnt,none> > {};
  template<class F,class Ev> void no_transition(Ev const&,F&,int){ g_log += "NT "; }
};
typedef BE<BU_> BU;
#endif
// exception_caught submits an event while the failing step already queued another one (C04: "from exception_caught"): both must wait
// until the step is over and keep their submission order
#include <stdexcept>
struct note { int n; note(int n_=0):n(n_){} }; struct boom {};
struct X_ : state_machine_def<X_> {
  struct S : state<> {};
  struct Thrower { template<class E,class F,class A,class B> void operator()(E const&,F& f,A&,B&){ g_log += "action{ "; f.process_event(note(1)); g_log += "} "; throw std::runtime_error("x"); } };
  struct RecN { template<class F,class A,class B> void operator()(note const& e,F&,A&,B&){ g_log += "note" + std::to_string(e.n) + " "; } };
  typedef S initial_state;
  struct transition_table : mpl::vector< Row<S, boom, none, Thrower, none>, Row<S, note, none, RecN, none> > {};
  template<class F,class Ev> void no_transition(Ev const&,F&,int){ g_log += "NT "; }
  template<class F,class Ev> void exception_caught(Ev const&,F& f,std::exception&){ g_log += "caught{ "; f.process_event(note(2)); g_log += "} "; }
};
typedef BE<X_> XM;
// an event a SUBMACHINE's behaviour sends to its own machine while it is processing, and that nothing handles when it is dequeued: it was a
// process_event call on that machine, so that machine's no_transition reports it - exactly once, on no other machine (C04 "processed by the
// machine it was sent to", C06, C13)
struct sping {}; struct skick {};
struct QS_ : state_machine_def<QS_> {
  struct P : state<> {}; struct Q : state<> {};
  typedef P initial_state;
  struct RaisePing { template<class E,class F,class S,class T> void operator()(E const&,F& f,S&,T&){ g_log += "raise "; f.process_event(sping()); } };
  struct transition_table : mpl::vector< Row<P,skick,Q,RaisePing,none> > {};
  template<class F,class Ev> void no_transition(Ev const&,F&,int){ g_log += "NTsub "; }
};
typedef BE<QS_> QS;
struct QT_ : state_machine_def<QT_> {
  typedef QS initial_state;
  struct transition_table : mpl::vector<> {};
  template<class F,class Ev> void no_transition(Ev const&,F&,int){ g_log += "NTtop "; }
};
typedef BE<QT_> QT;
// events that the entry behaviour of a submachine's initial state sends to THAT submachine, which has no completion transition: they are
// stored while the entry runs and dispatched, in order, as soon as the entry step of the submachine is over - not left pending (C04)
struct snote { int n; snote(int n_=0):n(n_){} }; struct senter {};
struct SE_ : state_machine_def<SE_> {
  struct I : state<> { template<class E,class F> void on_entry(E const&,F& f){ g_log += "I.entry{ "; f.process_event(snote(1)); f.process_event(snote(2)); g_log += "} "; } };
  struct LogN { template<class F,class S,class T> void operator()(snote const& e,F&,S&,T&){ g_log += "note" + std::to_string(e.n) + " "; } };
  typedef I initial_state;
  struct transition_table : mpl::vector< Row<I,snote,none,LogN,none> > {};
  template<class F,class Ev> void no_transition(Ev const&,F&,int){ g_log += "NTsub "; }
};
typedef BE<SE_> SE;
struct TSE_ : state_machine_def<TSE_> {
  struct O : state<> {};
  typedef O initial_state;
  struct transition_table : mpl::vector< Row<O,senter,SE,none,none> > {};
  template<class F,class Ev> void no_transition(Ev const&,F&,int){ g_log += "NT "; }
};
typedef BE<TSE_> TSE;
// two regions; in the SECOND one a transition whose action raises an event enters a state with a completion transition: the completion
// transition fires before the raised event is dispatched, whatever the region's index (C10 "before any queued ... event")
struct rgo {}; struct rping {};
struct R2_ : state_machine_def<R2_> {
  struct X0 : state<> {};
  struct A : state<> {}; struct B : state<> {}; struct C : state<> {};
  struct Raise { template<class E,class F,class S,class T> void operator()(E const&,F& f,S&,T&){ g_log += "go{ "; f.process_event(rping()); g_log += "} "; } };
  struct InB { template<class E,class F,class S,class T> void operator()(E const&,F&,S&,T&){ g_log += "ping@B "; } };
  struct InC { template<class E,class F,class S,class T> void operator()(E const&,F&,S&,T&){ g_log += "ping@C "; } };
  struct Compl { template<class E,class F,class S,class T> void operator()(E const&,F&,S&,T&){ g_log += "completion "; } };
  typedef mpl::vector<X0, A> initial_state;
  struct transition_table : mpl::vector< Row<A,rgo,B,Raise,none>, Row<B,none,C,Compl,none>, Row<B,rping,none,InB,none>, Row<C,rping,none,InC,none> > {};
  template<class F,class Ev> void no_transition(Ev const&,F&,int){ g_log += "NT "; }
};
typedef BE<R2_> R2;
int main(int argc, char** argv) {
  if (argc > 1) g_only = argv[1];
  { R2 m; m.start(); g_log.clear(); m.process_event(rgo());
    report("completion-in-the-second-region.fires-before-the-event-raised-by-the-entering-transition", g_log == "go{ } completion ping@C ", "C10,C04,C13", "log=[" + g_log + "]"); }
  { TSE m; m.start(); g_log.clear(); m.process_event(senter());
    report("sub-entry.events-sent-to-the-submachine-by-its-initial-entry-run-right-after-the-entry", g_log == "I.entry{ } note1 note2 ", "C04,C13", "log=[" + g_log + "]"); }
  { QT m; m.start(); g_log.clear(); m.process_event(skick());
    report("submachine-sends-itself-an-unhandled-event.reported-by-that-machine-once", g_log == "raise NTsub ", "C04,C06,C13", "log=[" + g_log + "]"); }
  const char* pos[] = {"guard","exit","action","entry"};
  for (int at = 0; at < 4; ++at) for (int cnt = 0; cnt <= 3; ++cnt) {
    M m; m.start(); g_submit_at = at; g_count = cnt; g_log.clear(); g_reentered = false; g_depth = 0;
    m.process_event(go()); g_submit_at = -1;
    // expected: the whole step, then ev1..evcnt in order, each once
    std::string exp = "guard "; if (at==AT_GUARD) for (int i=1;i<=cnt;++i) exp += "sub"+std::to_string(i)+" ";
    exp += "S.exit "; if (at==AT_EXIT) for (int i=1;i<=cnt;++i) exp += "sub"+std::to_string(i)+" ";
    exp += "action "; if (at==AT_ACTION) for (int i=1;i<=cnt;++i) exp += "sub"+std::to_string(i)+" ";
    exp += "T.entry "; if (at==AT_ENTRY) for (int i=1;i<=cnt;++i) exp += "sub"+std::to_string(i)+" ";
    exp += "T.entry-end "; for (int i=1;i<=cnt;++i) exp += "ev"+std::to_string(i)+" ";
    report(std::string("submit.") + pos[at] + "." + std::to_string(cnt), g_log == exp && !g_reentered, "C04,C13", "log=[" + g_log + "] expected=[" + exp + "] reentered=" + std::to_string(g_reentered));
  }
  { // enqueue_event: nothing runs until execute_queued_events, then FIFO, exactly once
    M m; m.start(); g_log.clear(); m.enqueue_event(ev(1)); m.enqueue_event(ev(2)); m.enqueue_event(ev(3)); bool quiet = g_log.empty();
#if IS_MP11
    m.process_event_pool();
#else
    m.execute_queued_events();
#endif
    report("enqueue.fifo", quiet && g_log == "ev1 ev2 ev3 ", "C04,C13", "log=[" + g_log + "]");
  }
  { // single-step drain: exactly the oldest pending event per call, the others stay pending (C04)
    M m; m.start(); g_log.clear(); m.enqueue_event(ev(1)); m.enqueue_event(ev(2)); m.enqueue_event(ev(3)); std::string steps;
    for (int k = 0; k < 3; ++k) { g_log.clear();
#if IS_MP11
      m.process_event_pool(1);
#else
      m.execute_single_queued_event();
#endif
      steps += "[" + g_log + "]"; }
    report("enqueue.single-step-dispatches-exactly-the-oldest", steps == "[ev1 ][ev2 ][ev3 ]", "C04,C13", "steps=" + steps);
  }
  { I m; g_log.clear(); m.start();   // event raised from an initial entry behaviour: only after all initial entries
    report("start.initial-entry-raises", g_log == "A0.entry{ } B0.entry A0.exit A1.entry ", "C04", "log=[" + g_log + "]"); }
  { O m; g_log.clear(); m.start();   // event raised from the machine's own on_entry during start(): processed after start, not lost
    report("start.own-entry-raises", g_log == "own.entry{ } A1.entry ", "C04", "log=[" + g_log + "]"); }
  { Top m; m.start(); g_log.clear(); m.process_event(enter());   // completion transition before the event raised by the entry
    report("sub-entry.completion-first", g_log == "I.entry{ } c l ", "C10,C04", "log=[" + g_log + "]"); }
  { Sub m; g_log.clear(); m.start();
    report("root-start.completion-first", g_log.find("c l") != std::string::npos && g_log.find("k") == std::string::npos, "C10", "log=[" + g_log + "]"); }
  { CC m; m.start(); g_log.clear(); m.process_event(go());
    report("completion-chain.event-raised-inside-waits-for-the-chain", g_log == "S2.entry{ } S3.entry S4.entry ", "C10,C04", "log=[" + g_log + "]"); }
#if defined(CFG_back)
  { int alive = 0; { RB m; m.alive = &alive; m.get_message_queue().set_capacity(2); m.start(); g_log.clear(); m.process_event(kick()); }
    report("circular-queue.event-under-dispatch-stays-alive", g_log == "tick1 tick2 tick3 " && alive == 0, "C20,C04", "log=[" + g_log + "] live-events-after-destruction=" + std::to_string(alive)); }
  { int alive = 0; { RD m; m.alive = &alive; m.get_deferred_queue().set_capacity(3); m.start(); g_log.clear();
      m.process_event(job(1, &alive)); m.process_event(job(2, &alive)); m.process_event(job(3, &alive));     // the ring is full
      m.process_event(open_());                                                                                  // re-offered in Gate: each is deferred again while dispatched
      m.process_event(later()); }                                                                                // Work consumes them
    const bool ok = g_log == "job1 job2 job3 " && alive == 0;
    report("circular-deferred-queue.occurrence-re-deferred-while-dispatched-stays-alive", ok, "C20,C05", "log=[" + g_log + "] live-events-after-destruction=" + std::to_string(alive)); }
#endif
#if IS_MP11
  { BU m; m.start(); g_tk_next = 0; g_tk_bad = 0; m.enqueue_event(burst()); const size_t n1 = m.process_event_pool(1); const size_t n2 = m.process_event_pool();
    report("bounded-drain.last-event-submits-a-burst", n1 == 1 && n2 == 100 && g_tk_next == 100 && g_tk_bad == 0, "C20,C04", "first=" + std::to_string(n1) + " rest=" + std::to_string(n2) + " dispatched=" + std::to_string(g_tk_next) + " corrupted=" + std::to_string(g_tk_bad)); }
  { BD m; m.start(); m.enqueue_event(xev(1)); m.enqueue_event(aev(2)); m.enqueue_event(go()); m.enqueue_event(aev(3));
    std::string steps; size_t total = 0;
    for (int k = 0; k < 4; ++k) { g_log.clear(); size_t n = m.process_event_pool(1); total += n; steps += "[" + g_log + "]"; }
    report("bounded-drain.one-event-per-step-handled-or-not", steps == "[NT ][A2 ][reject ][A3 ]" && total == 4, "C04", "steps=" + steps + " processed=" + std::to_string(total)); }
#endif
  { XM m; m.start(); g_log.clear(); m.process_event(boom());
    report("submit.exception_caught", g_log == "action{ } caught{ } note1 note2 ", "C04,C12", "log=[" + g_log + "]"); }
  return finish();
}
