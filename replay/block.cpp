// CONFIGS: back back11 backmp11 backmp11_ct
// family `block` (C11, C17): terminate / interrupt states in one of three regions, flags with OR / AND over 3 regions walked along
// two different paths (flags must be a function of the configuration only).
#include "common.hpp"
#include <boost/msm/front/states.hpp>
struct e1 { int id; e1(int i=0):id(i){} }; struct kill {}; struct intr {}; struct resume {}; struct go {}; struct ta {}; struct tb {}; struct tc {};
struct Hot {}; struct Idle {};
static std::string g_log;
template<char C> struct Lg { template<class E,class F,class S,class T> void operator()(E const&,F&,S&,T&){ g_log += C; g_log += ' '; } };
struct M_ : state_machine_def<M_> {
  struct A : state<> {}; struct B : state<> {};
  struct R0 : state<> {};
  struct Dead : terminate_state<> {};
  struct Int : interrupt_state<resume> {};
  typedef mpl::vector<A,R0> initial_state;
  struct transition_table : mpl::vector<
    Row<A,go,B,Lg<'g'>,none>, Row<B,e1,none,Lg<'h'>,none>, Row<B,go,A,Lg<'G'>,none>,
    Row<R0,kill,Dead,Lg<'k'>,none>, Row<R0,intr,Int,Lg<'i'>,none>, Row<Int,resume,R0,Lg<'r'>,none> > {};
  template<class F,class Ev> void no_transition(Ev const&,F&,int){ g_log += "NT "; }
};
typedef BE<M_> M;
// deferred events pending when the blocking state becomes active (C11 quantifier): W defers e1; kill -> Dead leaves W (single region), so
// the deferred e1 is re-offered in a terminated machine: nothing may run.  Dead has an outgoing row that must never be taken.
struct D_ : state_machine_def<D_> {
  struct W : state<> { typedef mpl::vector<e1> deferred_events; }; struct V : state<> {};
  struct Dead : terminate_state<> {};
  struct Int : interrupt_state<resume> {};
  typedef W initial_state;
  struct transition_table : mpl::vector<
    Row<W,kill,Dead,Lg<'k'>,none>, Row<W,intr,Int,Lg<'i'>,none>, Row<Dead,e1,V,Lg<'X'>,none>, Row<Int,e1,V,Lg<'Y'>,none>, Row<Int,resume,V,Lg<'r'>,none>, Row<V,e1,none,Lg<'h'>,none> > {};
  template<class F,class Ev> void no_transition(Ev const&,F&,int){ g_log += "NT "; }
};
typedef BE<D_> D;
// three regions, two states each; A1/B1/C1 carry Hot, A0/B0/C0 carry Idle
struct F3_ : state_machine_def<F3_> {
  struct A0 : state<> { typedef mpl::vector<Idle> flag_list; }; struct A1 : state<> { typedef mpl::vector<Hot> flag_list; };
  struct B0 : state<> { typedef mpl::vector<Idle> flag_list; }; struct B1 : state<> { typedef mpl::vector<Hot> flag_list; };
  struct C0 : state<> { typedef mpl::vector<Idle> flag_list; }; struct C1 : state<> { typedef mpl::vector<Hot> flag_list; };
  typedef mpl::vector<A0,B0,C0> initial_state;
  struct transition_table : mpl::vector< Row<A0,ta,A1>, Row<A1,ta,A0>, Row<B0,tb,B1>, Row<B1,tb,B0>, Row<C0,tc,C1>, Row<C1,tc,C0> > {};
  template<class F,class Ev> void no_transition(Ev const&,F&,int){}
};
typedef BE<F3_> F3;
// flag carried only by a state several submachine levels down (C17 "looking into active submachines recursively")
struct Deep {}; struct down {}; struct up {};
// (not under back11: a three-level hierarchy does not compile there - its UpperFsm parameter is neither consistently the root nor the parent)
#if !defined(CFG_back11)
#define SUBLOW(F) BE<F>
#define SUBMID(F) BE<F>
struct Low_ : state_machine_def<Low_> {
  struct Leaf0 : state<> {}; struct Leaf : state<> { typedef mpl::vector<Deep> flag_list; };
  typedef Leaf0 initial_state;
  struct transition_table : mpl::vector< Row<Leaf0,down,Leaf>, Row<Leaf,up,Leaf0> > {};
  template<class F,class Ev> void no_transition(Ev const&,F&,int){}
};
typedef SUBLOW(Low_) Low;
struct Mid_ : state_machine_def<Mid_> {
  typedef Low initial_state;
  struct transition_table : mpl::vector<> {};
  template<class F,class Ev> void no_transition(Ev const&,F&,int){}
};
typedef SUBMID(Mid_) Mid;
struct Top3_ : state_machine_def<Top3_> {
  struct Out : state<> {};
  typedef Mid initial_state;
  struct transition_table : mpl::vector< Row<Mid,kill,Out> > {};
  template<class F,class Ev> void no_transition(Ev const&,F&,int){}
};
typedef BE<Top3_> Top3;
#endif
template<class T> bool flag_or_hot(T& m)  { return m.template is_flag_active<Hot>(); }
#if IS_MP11
template<class T> bool flag_and_idle(T& m) { return m.template is_flag_active<Idle, msm::backmp11::flag_and>(); }
#else
template<class T> bool flag_and_idle(T& m) { return m.template is_flag_active<Idle, typename T::Flag_AND>(); }
#endif
// a terminate state in one region AND an interrupt state in another, both active: the end-interrupt event must not get through -
// "once the active state of any region is a terminate state, no subsequently submitted event causes any guard, action ... or state change" (C11)
struct crash {};
struct TI_ : state_machine_def<TI_> {
  struct A0 : state<> {}; struct Dead : terminate_state<> {};
  struct B0 : state<> {}; struct Int : interrupt_state<resume> {};
  typedef mpl::vector<A0,B0> initial_state;
  struct transition_table : mpl::vector< Row<A0,crash,Dead,Lg<'k'>,none>, Row<B0,crash,Int,Lg<'i'>,none>, Row<Int,resume,B0,Lg<'r'>,none>, Row<B0,go,none,Lg<'g'>,none> > {};
  template<class F,class Ev> void no_transition(Ev const&,F&,int){ g_log += "NT "; }
};
typedef BE<TI_> TI;
// one event sends one region into an interrupt state and, in the same step, another region into a state that owns a completion
// transition: the completion event finds the machine interrupted - it is swallowed like any other event while the interruption lasts (C11, C10)
struct both {};
struct IC_ : state_machine_def<IC_> {
  struct A0 : state<> {}; struct Halt : interrupt_state<resume> {};
  struct B0 : state<> {}; struct B1 : state<> {}; struct B2 : state<> {};
  typedef mpl::vector<A0,B0> initial_state;
  struct transition_table : mpl::vector< Row<A0,both,Halt,Lg<'i'>,none>, Row<B0,both,B1,Lg<'b'>,none>, Row<B1,none,B2,Lg<'c'>,none>, Row<Halt,resume,A0,Lg<'r'>,none> > {};
  template<class F,class Ev> void no_transition(Ev const&,F&,int){ g_log += "NT "; }
};
typedef BE<IC_> IC;
// flags INSIDE behaviours: under the default policy (switch after the target's entry) the submachine being left is still the active state
// while the transition's action and the target's entry run, so a flag carried by the submachine's active substate is still reported (C17:
// "inside behaviours it reflects the configuration defined by the active-state-switch policy", looking into active submachines recursively)
struct InnerFlag {}; struct quit {};
static std::string g_flog;
struct FS_ : state_machine_def<FS_> {
  struct Work : state<> { typedef mpl::vector<InnerFlag> flag_list; };
  typedef Work initial_state;
  struct transition_table : mpl::vector<> {};
  template<class F,class Ev> void no_transition(Ev const&,F&,int){}
};
typedef BE<FS_> FSub;
struct FT_ : state_machine_def<FT_> {
  struct AskA { template<class E,class F,class S,class T> void operator()(E const&,F& f,S&,T&){ g_flog += std::string("action:") + (f.template is_flag_active<InnerFlag>() ? "1" : "0") + " "; } };
  struct Done : state<> { template<class E,class F> void on_entry(E const&,F& f){ g_flog += std::string("entry:") + (f.template is_flag_active<InnerFlag>() ? "1" : "0") + " "; } };
  typedef FSub initial_state;
  struct transition_table : mpl::vector< Row<FSub,quit,Done,AskA,none> > {};
  template<class F,class Ev> void no_transition(Ev const&,F&,int){}
};
typedef BE<FT_> FTop;
int main(int argc, char** argv) {
  if (argc > 1) g_only = argv[1];
  { FTop m; m.start(); g_flog.clear(); const bool before = m.template is_flag_active<InnerFlag>();
    m.process_event(quit()); const bool after = m.template is_flag_active<InnerFlag>();
    report("flag-of-a-substate-while-its-submachine-is-being-left.default-policy", before && !after && g_flog == "action:1 entry:1 ", "C17,C19", "before=" + std::to_string(before) + " during=[" + g_flog + "] after=" + std::to_string(after)); }
  { IC m; m.start(); g_log.clear(); m.process_event(both()); const int b1 = cur(m,1); const std::string first = g_log;
    // (what happens after `resume` differs by design: back / back11 evaluate completion transitions after EVERY handled event, so B1 -> B2 fires
    //  then; backmp11 fires them only upon entry (version history: "Completion events fire too often", #166) - not compared here)
    report("interrupt-and-completion-source-entered-in-one-step.completion-is-blocked-while-interrupted", (first == "i b " || first == "b i "), "C11,C10",
           "after both=[" + first + "] region B id " + std::to_string(b1)); }
  { TI m; m.start(); m.process_event(crash()); const int a = cur(m,0), b = cur(m,1); g_log.clear();
    m.process_event(resume()); m.process_event(go());
    report("terminate-and-interrupt-both-active.end-interrupt-event-is-swallowed", g_log.empty() && cur(m,0) == a && cur(m,1) == b, "C11,C13",
           "log=[" + g_log + "] ids " + std::to_string(a) + "," + std::to_string(b) + " -> " + std::to_string(cur(m,0)) + "," + std::to_string(cur(m,1))); }
  { M m; m.start(); g_log.clear(); m.process_event(kill()); g_log.clear();
    int r1 = (int)m.process_event(go()); int r2 = (int)m.process_event(e1(2)); int r3 = (int)m.process_event(resume()); int s0 = cur(m,0);
    report("terminate.swallows-everything", g_log.empty() && r1 == 1 && r2 == 1 && r3 == 1, "C11,C13", "log=[" + g_log + "] rets=" + std::to_string(r1) + std::to_string(r2) + std::to_string(r3) + " s0=" + std::to_string(s0)); }
  { M m; m.start(); m.process_event(intr()); g_log.clear();
    int r1 = (int)m.process_event(go()); bool blocked = g_log.empty() && r1 == 1;
    m.process_event(resume()); bool resumed = g_log == "r ";
    g_log.clear(); m.process_event(go());                       // the event sent during the interruption is NOT replayed; this new one is handled
    report("interrupt.blocks-until-end-event", blocked && resumed && g_log == "g ", "C11,C13", "log=[" + g_log + "]"); }
  { D m; m.start(); m.process_event(e1(1)); g_log.clear(); m.process_event(kill()); int s = cur(m,0);
    m.process_event(go());
    report("terminate.pending-deferred-event-not-dispatched", g_log == "k " && cur(m,0) == s, "C11,C05", "log=[" + g_log + "]"); }
  { D m; m.start(); m.process_event(e1(1)); g_log.clear(); m.process_event(intr()); int s = cur(m,0);
    m.process_event(go());
    report("interrupt.pending-deferred-event-not-dispatched", g_log == "i " && cur(m,0) == s, "C11,C05", "log=[" + g_log + "]"); }
  // flags as a function of the configuration: all 8 configurations, reached along two different paths
  for (int cfg = 0; cfg < 8; ++cfg) for (int path = 0; path < 2; ++path) {
    F3 m; m.start();
    int a = cfg & 1, b = (cfg >> 1) & 1, c = (cfg >> 2) & 1;
    if (path == 0) { if (a) m.process_event(ta()); if (b) m.process_event(tb()); if (c) m.process_event(tc()); }
    else { m.process_event(tc()); m.process_event(tb()); m.process_event(ta()); if (!c) m.process_event(tc()); if (!b) m.process_event(tb()); if (!a) m.process_event(ta()); }
    bool hot_or = flag_or_hot(m), idle_and = flag_and_idle(m);
    bool ok = hot_or == (a || b || c) && idle_and == (!a && !b && !c);
    report("flags.cfg" + std::to_string(cfg) + ".path" + std::to_string(path), ok, "C17,C13", "Hot(OR)=" + std::to_string(hot_or) + " Idle(AND)=" + std::to_string(idle_and));
  }
#if !defined(CFG_back11)
  { Top3 m; m.start(); bool f0 = m.template is_flag_active<Deep>();
    m.process_event(down()); bool f1 = m.template is_flag_active<Deep>();
    bool mid1 = m.template get_state<Mid&>().template is_flag_active<Deep>();
    m.process_event(up()); bool f2 = m.template is_flag_active<Deep>();
    m.process_event(down()); m.process_event(kill()); bool f3 = m.template is_flag_active<Deep>();
    report("flags.three-levels-down", !f0 && f1 && mid1 && !f2 && !f3, "C17,C13", "before=" + std::to_string(f0) + " leaf-active=" + std::to_string(f1) + " asked-on-mid=" + std::to_string(mid1) + " leaf-left=" + std::to_string(f2) + " submachine-left=" + std::to_string(f3)); }
#endif
  return finish();
}
