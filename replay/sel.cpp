// CONFIGS: back back_ct back11 backmp11 backmp11_ct backmp11_fpa
// family `sel` (C01 C06 C07 C13): conflicting rows, submachine with two regions + internal table, outer rows on the submachine.
// Oracle written from the statements of C01/C06/C07: guards are evaluated in priority order, each at most once, the first
// enabled candidate is the only one taken per level, nothing of an outer level is evaluated after an inner level consumed,
// process_event reports TRUE iff some transition was taken, no_transition iff nothing reacted.
#include "common.hpp"
struct e {}; struct other {};
static std::string g_log; static unsigned g_bits = 0;
// guard bit indices
enum { A1=0, A2=1, B1=2, I1=3, O1=4, O2=5, NBITS=6 };
template<int K> struct G { template<class Ev,class F,class S,class T> bool operator()(Ev const&,F&,S&,T&){ g_log += "g" + std::to_string(K) + " "; return (g_bits>>K)&1; } };
template<int K> struct A { template<class Ev,class F,class S,class T> void operator()(Ev const&,F&,S&,T&){ g_log += "a" + std::to_string(K) + " "; } };

struct Sub_ : state_machine_def<Sub_> {
  struct SA : state<> {}; struct SA2 : state<> {}; struct SA3 : state<> {}; struct SB : state<> {}; struct SB2 : state<> {};
  typedef mpl::vector<SA,SB> initial_state;
  struct transition_table : mpl::vector<
    Row<SA, e, SA2, A<A1>, G<A1>>,       // declared first  -> lower priority
    Row<SA, e, SA3, A<A2>, G<A2>>,       // declared later  -> tried first
    Row<SB, e, SB2, A<B1>, G<B1>> > {};
#if !defined(CFG_back11)   /* back11 does not compile a submachine-internal table reached through process_fsm_internal_table (Event const& vs Event&) */
  struct internal_transition_table : mpl::vector< Internal<e, A<I1>, G<I1>> > {};
#define HAS_INTERNAL 1
#else
#define HAS_INTERNAL 0
#endif
  template<class F,class Ev> void no_transition(Ev const&,F&,int){ g_log += "NTsub "; }
};
typedef BE<Sub_> Sub;
struct Top_ : state_machine_def<Top_> {
  struct X : state<> {}; struct Y : state<> {};
  typedef Sub initial_state;
  struct transition_table : mpl::vector<
    Row<Sub, e, X, A<O1>, G<O1>>,
    Row<Sub, e, Y, A<O2>, G<O2>> > {};
  template<class F,class Ev> void no_transition(Ev const&,F&,int){ g_log += "NT "; }
};
typedef BE<Top_> Top;
// exit-point scenario: a guarded inner transition leads to an exit pseudo state, the outer machine continues from the exit point
#include <boost/msm/front/states.hpp>
struct leave { bool allowed; leave(bool a = false) : allowed(a) {} template<class E> leave(E const&) : allowed(true) {} };
struct GL { template<class Ev,class F,class S,class T> bool operator()(Ev const& ev,F&,S&,T&){ g_log += "gL "; return ev.allowed; } };
struct XSub_ : state_machine_def<XSub_> {
  struct In : state<> {}; struct Out : exit_pseudo_state<leave> {};
  typedef In initial_state;
  struct transition_table : mpl::vector< Row<In, leave, Out, none, GL> > {};
  template<class F,class Ev> void no_transition(Ev const&,F&,int){ g_log += "NTsub "; }
};
typedef BE<XSub_> XSub;
struct XTop_ : state_machine_def<XTop_> {
  struct Done : state<> {};
  typedef XSub initial_state;
  struct transition_table : mpl::vector< Row<XSub::exit_pt<XSub_::Out>, leave, Done, A<7>, none> > {};
  template<class F,class Ev> void no_transition(Ev const&,F&,int){ g_log += "NT "; }
};
typedef BE<XTop_> XTop;
// the same under active_state_switch_before_transition (the policy that writes the target id right after a successful guard): a row leaving
// an exit point that is NOT active must leave the enclosing region's active id alone
#include <boost/msm/active_state_switching_policies.hpp>
struct XTopB_ : state_machine_def<XTopB_> {
  typedef msm::active_state_switch_before_transition active_state_switch_policy;
  struct Done : state<> {};
  typedef XSub initial_state;
  struct transition_table : mpl::vector< Row<XSub::exit_pt<XSub_::Out>, leave, Done, A<7>, none> > {};
  template<class F,class Ev> void no_transition(Ev const&,F&,int){ g_log += "NT "; }
};
typedef BE<XTopB_> XTopB;
#if IS_BACK_CT
BOOST_MSM_BACK_GENERATE_PROCESS_EVENT(Sub)
BOOST_MSM_BACK_GENERATE_PROCESS_EVENT(XSub)
#endif

static bool has(const std::string& s, const std::string& w){ return (" " + s).find(" " + w + " ") != std::string::npos; }
static int count(const std::string& s, const std::string& w){ int n=0; size_t p=0; std::string h=" "+s; while((p=h.find(" "+w+" ",p))!=std::string::npos){++n;++p;} return n; }

// three levels: an event only the INNERMOST machine has a row for must be forwarded through a middle machine that does not mention it
// (C07 hierarchy; the forwarding rows are a type-level computation in every back-end).  Not under back11: three levels do not compile there.
#if !defined(CFG_back11)
struct deep {}; 
struct L3_ : state_machine_def<L3_> {
  struct P : state<> {}; struct Q : state<> {};
  typedef P initial_state;
  struct transition_table : mpl::vector< Row<P,deep,Q,A<8>,none> > {};
  template<class F,class Ev> void no_transition(Ev const&,F&,int){ g_log += "NT3 "; }
};
typedef BE<L3_> L3;
struct L2_ : state_machine_def<L2_> {
  typedef L3 initial_state;
  struct transition_table : mpl::vector<> {};
  template<class F,class Ev> void no_transition(Ev const&,F&,int){ g_log += "NT2 "; }
};
typedef BE<L2_> L2;
struct L1_ : state_machine_def<L1_> {
  typedef L2 initial_state;
  struct transition_table : mpl::vector<> {};
  template<class F,class Ev> void no_transition(Ev const&,F&,int){ g_log += "NT "; }
};
typedef BE<L1_> L1;
#if IS_BACK_CT
BOOST_MSM_BACK_GENERATE_PROCESS_EVENT(L3)
BOOST_MSM_BACK_GENERATE_PROCESS_EVENT(L2)
#endif
#endif
// a machine's OWN internal_transition_table with several rows for one event (root machine, and the same table in a submachine):
// tried from the last-declared to the first-declared, each guard at most once, first enabled row only (C01); same under every policy (C13)
#if !defined(CFG_back11)
struct tick {};
struct IT_ : state_machine_def<IT_> {
  struct S : state<> {};
  typedef S initial_state;
  struct transition_table : mpl::vector<> {};
  struct internal_transition_table : mpl::vector< Internal<tick, A<10>, G<0>>, Internal<tick, A<11>, G<1>>, Internal<tick, A<12>, G<2>> > {};
  template<class F,class Ev> void no_transition(Ev const&,F&,int){ g_log += "NT "; }
};
typedef BE<IT_> IT;
struct ITop_ : state_machine_def<ITop_> {
  typedef IT initial_state;
  struct transition_table : mpl::vector<> {};
  template<class F,class Ev> void no_transition(Ev const&,F&,int){ g_log += "NT "; }
};
typedef BE<ITop_> ITop;
#if IS_BACK_CT
BOOST_MSM_BACK_GENERATE_PROCESS_EVENT(IT)
#endif
template<class M> static void own_internal_table(const char* where) {
  for (unsigned v = 0; v < 8; ++v) {
    g_bits = v; M m; m.start(); g_log.clear(); tick t_; int r = (int)m.process_event(t_);
    std::string exp; bool taken = false;
    for (int k = 2; k >= 0 && !taken; --k) { exp += "g" + std::to_string(k) + " "; if ((v >> k) & 1) { exp += "a1" + std::to_string(k) + " "; taken = true; } }
    report(std::string("own-internal-table.") + where + ".bits" + std::to_string(v), g_log == exp && (((r & 1) != 0) == taken) && (r != 0), std::string(where) == "submachine" ? "C01,C13,C06,C07" : "C01,C13,C06",
           "guards=" + std::to_string(v) + " ret=" + std::to_string(r) + " log=[" + g_log + "] expected=[" + exp + "]");
  }
}
#endif
// the four kinds of INTERNAL rows (no action/no guard, action, guard, both): each one taken is a transition taken - the handled bit is set,
// no_transition stays silent (C06); a rejected guard gives a non-zero code without the handled bit
struct ping0 {}; struct ping1 {}; struct ping2 {}; struct ping3 {};
struct IK_ : state_machine_def<IK_> {
  struct S : state<> {};
  typedef S initial_state;
  struct transition_table : mpl::vector< Row<S,ping0,none,none,none>, Row<S,ping1,none,A<20>,none>, Row<S,ping2,none,none,G<0>>, Row<S,ping3,none,A<21>,G<1>> > {};
  template<class F,class Ev> void no_transition(Ev const&,F&,int){ g_log += "NT "; }
};
typedef BE<IK_> IK;
int main(int argc, char** argv) {
  if (argc > 1) g_only = argv[1];
  for (unsigned v = 0; v < 4; ++v) {
    g_bits = v; IK m; m.start(); g_log.clear();
    ping0 p0; ping1 p1; ping2 p2; ping3 p3;
    const int r0 = (int)m.process_event(p0), r1 = (int)m.process_event(p1), r2 = (int)m.process_event(p2), r3 = (int)m.process_event(p3);
    const bool g0 = v & 1, g1 = (v >> 1) & 1;
    const std::string exp = std::string("a20 g0 g1 ") + (g1 ? "a21 " : "");
    const bool ok = (r0 & 1) && (r1 & 1) && (((r2 & 1) != 0) == g0) && r2 != 0 && (((r3 & 1) != 0) == g1) && r3 != 0 && g_log == exp;
    report("internal-row-kinds.result.bits" + std::to_string(v), ok, "C06,C02,C13", "rets=" + std::to_string(r0) + std::to_string(r1) + std::to_string(r2) + std::to_string(r3) + " log=[" + g_log + "] expected=[" + exp + "]");
  }
#if !defined(CFG_back11)
  own_internal_table<IT>("root"); own_internal_table<ITop>("submachine");
#endif
  for (unsigned v = 0; v < (1u<<NBITS); ++v) {
    g_bits = v; g_log.clear();
    Top m; m.start(); g_log.clear();
    e ev_; int r = (int)m.process_event(ev_);
    auto b = [&](int k){ return (v>>k)&1; };
    // --- expectation from the statement
    std::string exp;
    bool consumed = false; int taken = 0;
    // region A of Sub: candidates A2 (declared last) then A1
    exp += "g1 "; if (b(A2)) { exp += "a1 "; consumed = true; ++taken; } else { exp += "g0 "; if (b(A1)) { exp += "a0 "; consumed = true; ++taken; } }
    // region B
    exp += "g2 "; if (b(B1)) { exp += "a2 "; consumed = true; ++taken; }
    // Sub's own internal table: only if its regions did not consume
    if (HAS_INTERNAL && !consumed) { exp += "g3 "; if (b(I1)) { exp += "a3 "; consumed = true; ++taken; } }
    // outer rows on Sub: only if the inner level did not consume; O2 (declared last) first
    if (!consumed) { exp += "g5 "; if (b(O2)) { exp += "a5 "; ++taken; consumed = true; } else { exp += "g4 "; if (b(O1)) { exp += "a4 "; ++taken; consumed = true; } } }
    bool nt = has(g_log, "NT") || has(g_log, "NTsub");
    std::string got;  // log without NT markers
    { std::string w; for (char c : g_log) { if (c==' ') { if (w!="NT" && w!="NTsub") got += w + " "; w.clear(); } else w += c; } }
    bool ok_order = (got == exp);
    bool ok_ret = (((r & 1) != 0) == (taken > 0));
    bool ok_nt = (nt == false);   // every valuation has at least one guard rejecting or a transition taken -> never "nothing reacted"... see below
    // no_transition must be reported iff nothing reacted at all: here every region has a candidate, so a guard always rejects or a row fires
    char id[64]; snprintf(id, sizeof id, "bits%02u", v);
    std::string txt = "guards=" + std::to_string(v) + " ret=" + std::to_string(r) + " log=[" + g_log + "] expected=[" + exp + "]";
    report(std::string(id) + ".order", ok_order, "C01,C07,C13", txt);
    report(std::string(id) + ".result", ok_ret && ok_nt, "C06,C13", txt);
  }
  // an event nobody has a candidate for: no_transition exactly once per region of the machine that received it, on that machine only
  { g_bits = 0; Top m; m.start(); g_log.clear(); other ov_; int r = (int)m.process_event(ov_);
    bool ok = (r == 0) && count(g_log, "NT") == 1 && count(g_log, "NTsub") == 0;
    report("unmatched", ok, "C06,C07", "ret=" + std::to_string(r) + " log=[" + g_log + "]"); }
  { XTop m; m.start(); g_log.clear(); leave l0(false); int r = (int)m.process_event(l0);
    // the inner guard rejected: something reacted (a guard), so no no_transition and a non-zero result on every back-end / policy
    report("exitpt.guard-rejects", r != 0 && !has(g_log, "NT") && !has(g_log, "NTsub") && count(g_log, "gL") == 1 && !has(g_log, "a7"), "C06,C13,C09", "ret=" + std::to_string(r) + " log=[" + g_log + "]"); }
  { XTopB m; m.start(); const int in_sub = cur(m,0); g_log.clear(); leave l0(false); m.process_event(l0); const int after_reject = cur(m,0);
    leave l1(true); int r = (int)m.process_event(l1);
    report("exitpt.inactive-exit-point-row-is-inert.before-transition-policy", after_reject == in_sub && (r & 1) && count(g_log, "a7") == 1 && !has(g_log, "NT") && cur(m,0) != in_sub, "C09,C03,C19",
           "active id " + std::to_string(in_sub) + " -> " + std::to_string(after_reject) + " after the rejected attempt; then ret=" + std::to_string(r) + " log=[" + g_log + "]"); }
  { XTop m; m.start(); g_log.clear(); leave l1(true); int r = (int)m.process_event(l1);
    report("exitpt.taken", (r & 1) && count(g_log, "a7") == 1 && !has(g_log, "NT"), "C09,C13,C07", "ret=" + std::to_string(r) + " log=[" + g_log + "]"); }
#if !IS_MP11 && !defined(CFG_back11)
  // a machine built from user-supplied substate instances (states_ << Sub()): the submachine is contained all the same -
  // an unmatched event is reported by the machine that received it, never by the submachine (C06)
  { g_bits = 0; Top m(msm::back::states_ << Sub()); m.start(); g_log.clear(); other ov_; int r = (int)m.process_event(ov_);
    report("unmatched.states-expression-constructor", (r == 0) && count(g_log, "NT") == 1 && count(g_log, "NTsub") == 0 && m.template get_state<Sub&>().is_contained(), "C06,C07", "ret=" + std::to_string(r) + " log=[" + g_log + "]"); }
#endif
#if !defined(CFG_back11)
  { L1 m; m.start(); g_log.clear(); deep d_; int r = (int)m.process_event(d_);
    report("three-levels.forwarded-to-the-innermost", (r & 1) && g_log == "a8 ", "C07,C01,C13", "ret=" + std::to_string(r) + " log=[" + g_log + "]"); }
#endif
  return finish();
}
