// CONFIGS: back back11 backmp11 backmp11_ct
// family `order` (C02 C19 C03): every row kind (guard+action, guard only, action only, neither), into and out of a
// two-region submachine, internal transition; all four active-state-switch policies; every behaviour logs the state id the
// machine reports for the transitioning region.  Oracle typed from the statements of C02 and C19.
#include "common.hpp"
struct e1{}; struct e2{}; struct e3{}; struct e4{}; struct e5{}; struct e6{}; struct e7{};
static std::string g_log;
static void L(const char* what, const char* name, int c){ g_log += std::string(what) + ":" + name + ":" + std::to_string(c) + " "; }
template<class Tag> struct St : state<> {
  template<class E,class F> void on_entry(E const&, F& f){ L("n", Tag::name(), cur(f)); }
  template<class E,class F> void on_exit (E const&, F& f){ L("x", Tag::name(), cur(f)); }
};
#define TAG(n) struct n##_t { static const char* name(){ return #n; } };
TAG(S0) TAG(S1) TAG(S2) TAG(S3) TAG(A1) TAG(A2) TAG(B1) TAG(B2)
struct Grd { template<class E,class F,class S,class T> bool operator()(E const&,F& f,S&,T&){ L("g","-",cur(f)); return true; } };
struct GrdNo { template<class E,class F,class S,class T> bool operator()(E const&,F& f,S&,T&){ L("g","no",cur(f)); return false; } };
struct Act { template<class E,class F,class S,class T> void operator()(E const&,F& f,S&,T&){ L("a","-",cur(f)); } };

struct Sub_ : state_machine_def<Sub_> {
  typedef St<A1_t> A1; typedef St<A2_t> A2; typedef St<B1_t> B1; typedef St<B2_t> B2;
  typedef mpl::vector<A1,B1> initial_state;
  struct transition_table : mpl::vector< Row<A1,e7,A2,none,none>, Row<B1,e7,B2,none,none> > {};
  template<class E,class F> void on_entry(E const&, F&){ g_log += "n:Sub "; }
  template<class E,class F> void on_exit (E const&, F&){ g_log += "x:Sub "; }
  template<class F,class Ev> void no_transition(Ev const&,F&,int){}
};
typedef BE<Sub_> Sub;
template<class Policy> struct M_ : state_machine_def<M_<Policy>> {
  typedef Policy active_state_switch_policy;
  typedef St<S0_t> S0; typedef St<S1_t> S1; typedef St<S2_t> S2; typedef St<S3_t> S3;
  typedef S0 initial_state;
  struct transition_table : mpl::vector<
    Row<S0, e1, S1,  Act,  Grd >,
    Row<S1, e2, S2,  none, Grd >,
    Row<S2, e3, S3,  Act,  none>,
    Row<S3, e4, Sub, none, none>,
    Row<Sub,e5, S0,  Act,  Grd >,
    Row<S0, e6, none,Act,  Grd >,      // internal transition in S0
    Row<S1, e1, S3,  Act,  GrdNo> > {};
  template<class F,class Ev> void no_transition(Ev const&,F&,int){ g_log += "NT "; }
};
enum { P_AFTER_ENTRY, P_BEFORE, P_AFTER_EXIT, P_AFTER_ACTION };
template<class P> struct PolId;
template<> struct PolId<msm::active_state_switch_after_entry>{ enum{v=P_AFTER_ENTRY}; static const char* n(){return "after_entry";} };
template<> struct PolId<msm::active_state_switch_before_transition>{ enum{v=P_BEFORE}; static const char* n(){return "before_transition";} };
template<> struct PolId<msm::active_state_switch_after_exit>{ enum{v=P_AFTER_EXIT}; static const char* n(){return "after_exit";} };
template<> struct PolId<msm::active_state_switch_after_transition_action>{ enum{v=P_AFTER_ACTION}; static const char* n(){return "after_transition_action";} };

// what the statement of C19 prescribes
static int see(int pol, int phase /*0 guard 1 exit 2 action 3 entry*/, int S, int T) {
  switch (pol) { case P_AFTER_ENTRY: return S; case P_AFTER_ACTION: return phase>=3 ? T : S; case P_AFTER_EXIT: return phase>=2 ? T : S; default: return phase>=1 ? T : S; }
}
template<class P> void run() {
  typedef BE<M_<P>> M; const int pol = PolId<P>::v; std::string pn = PolId<P>::n();
  M m; m.start();
  struct Step { const char* ev; bool g, a; const char* src; const char* tgt; int kind; /*0 simple 1 into sub 2 out of sub 3 internal 4 rejected*/ };
  Step steps[] = { {"e6",1,1,"S0","S0",3}, {"e1",1,1,"S0","S1",0}, {"e1r",1,0,"S1","S1",4}, {"e2",1,0,"S1","S2",0}, {"e3",0,1,"S2","S3",0}, {"e4",0,0,"S3","Sub",1}, {"e5",1,1,"Sub","S0",2}, {"e1",1,1,"S0","S1",0} };
  for (auto& s : steps) {
    int S = cur(m); g_log.clear(); int r;
    std::string ev = s.ev;
    if (ev=="e1"||ev=="e1r") r = (int)m.process_event(e1()); else if (ev=="e2") r = (int)m.process_event(e2()); else if (ev=="e3") r = (int)m.process_event(e3());
    else if (ev=="e4") r = (int)m.process_event(e4()); else if (ev=="e5") r = (int)m.process_event(e5()); else r = (int)m.process_event(e6());
    int T = cur(m);
    std::string exp; auto X=[&](const char* w,const char* n,int c){ exp += std::string(w)+":"+n+":"+std::to_string(c)+" "; };
    if (s.kind==3) { X("g","-",S); X("a","-",S); }
    else if (s.kind==4) { X("g","no",S); }
    else {
      if (s.g) X("g","-",see(pol,0,S,T));
      if (s.kind==2) exp += "x:A1:" + std::string("*") + " x:B1:* x:Sub "; else X("x",s.src,see(pol,1,S,T));
      if (s.a) X("a","-",see(pol,2,S,T));
      if (s.kind==1) exp += "n:Sub n:A1:* n:B1:* "; else X("n",s.tgt,see(pol,3,S,T));
    }
    // substates of Sub log their own machine's state; mask those numbers
    std::string got; { std::string w; for (char c : g_log) { if (c==' ') { if (w.rfind("x:A",0)==0||w.rfind("x:B",0)==0||w.rfind("n:A",0)==0||w.rfind("n:B",0)==0) w = w.substr(0,5)+"*"; got += w+" "; w.clear(); } else w+=c; } }
    bool ok = (got == exp);
    bool okstate = (s.kind==3||s.kind==4) ? (T==S) : (T!=S);
    report(pn + "." + s.ev + "." + s.src, ok, "C02,C19,C13", "policy=" + pn + " event=" + s.ev + " from=" + s.src + " got=[" + got + "] expected=[" + exp + "]");
    report(pn + "." + s.ev + "." + s.src + ".state", okstate && ((r&1)==(s.kind!=4)), "C02,C03", "ret=" + std::to_string(r) + " S=" + std::to_string(S) + " T=" + std::to_string(T));
  }
}
// ---- region order of exit / entry cascades and restart (C02, C03): a three-region machine used as a submachine and as a root ----
struct e8{}; struct e9{};
TAG(P1) TAG(P2) TAG(Q1) TAG(Q2) TAG(R1) TAG(R2) TAG(Out)
template<class Tag> struct Sn : state<> {   // logs its name only
  template<class E,class F> void on_entry(E const&, F&){ g_log += std::string("n:") + Tag::name() + " "; }
  template<class E,class F> void on_exit (E const&, F&){ g_log += std::string("x:") + Tag::name() + " "; }
};
struct Reg_ : state_machine_def<Reg_> {
  typedef Sn<P1_t> P1; typedef Sn<P2_t> P2; typedef Sn<Q1_t> Q1; typedef Sn<Q2_t> Q2; typedef Sn<R1_t> R1; typedef Sn<R2_t> R2;
  typedef mpl::vector<P1,Q1,R1> initial_state;
  struct transition_table : mpl::vector< Row<P1,e7,P2,none,none>, Row<Q1,e8,Q2,none,none>, Row<R1,e9,R2,none,none> > {};
  template<class E,class F> void on_entry(E const&, F&){ g_log += "n:Reg "; }
  template<class E,class F> void on_exit (E const&, F&){ g_log += "x:Reg "; }
  template<class F,class Ev> void no_transition(Ev const&,F&,int){}
};
typedef BE<Reg_> Reg;
struct Top_ : state_machine_def<Top_> {
  typedef Sn<Out_t> Out;
  typedef Reg initial_state;
  struct transition_table : mpl::vector< Row<Reg,e5,Out,none,none>, Row<Out,e4,Reg,none,none> > {};
  template<class F,class Ev> void no_transition(Ev const&,F&,int){ g_log += "NT "; }
};
typedef BE<Top_> Top;
template<class M> static void drive(M& m, int mask){ if (mask&1) m.process_event(e7()); if (mask&2) m.process_event(e8()); if (mask&4) m.process_event(e9()); }
static std::string exits(int mask){ return std::string(mask&1?"x:P2 ":"x:P1 ") + (mask&2?"x:Q2 ":"x:Q1 ") + (mask&4?"x:R2 ":"x:R1 ") + "x:Reg "; }
static void run_regions() {
  for (int mask = 0; mask < 8; ++mask) {
    std::string id = std::to_string(mask);
    { Top m; m.start(); drive(m, mask); g_log.clear(); m.process_event(e5());
      report("regions.sub-exit.m" + id, g_log == exits(mask) + "n:Out ", "C02,C13", "got=[" + g_log + "] expected=[" + exits(mask) + "n:Out ]");
      g_log.clear(); m.process_event(e4());
      report("regions.sub-reentry.m" + id, g_log == "x:Out n:Reg n:P1 n:Q1 n:R1 ", "C02,C03,C13", "got=[" + g_log + "]"); }
    { Reg m; g_log.clear(); m.start(); std::string first = g_log; int c0 = cur(m,0), c1 = cur(m,1), c2 = cur(m,2);
      drive(m, mask); g_log.clear(); m.stop();
      report("regions.root-stop.m" + id, g_log == exits(mask), "C02,C03,C13", "got=[" + g_log + "] expected=[" + exits(mask) + "]");
      g_log.clear(); m.start();
      bool ok = g_log == first && first == "n:Reg n:P1 n:Q1 n:R1 " && cur(m,0) == c0 && cur(m,1) == c1 && cur(m,2) == c2;
      report("regions.root-restart.m" + id, ok, "C03,C02,C13", "got=[" + g_log + "] ids=" + std::to_string(cur(m,0)) + "," + std::to_string(cur(m,1)) + "," + std::to_string(cur(m,2)) + " initial=" + std::to_string(c0) + "," + std::to_string(c1) + "," + std::to_string(c2));
      // and the restarted machine reacts from its initial states
      g_log.clear(); m.process_event(e7());
      report("regions.root-restart-reacts.m" + id, g_log == "x:P1 n:P2 ", "C03", "got=[" + g_log + "]"); }
  }
}
// ---- state-id numbering (C03: sources top-down, then targets, then remaining initial / explicitly created states), observed through
// the introspection calls: the id reported for a region whose active state is X must be X's documented number ----
TAG(NA) TAG(NB) TAG(NC) TAG(ND) TAG(NE) TAG(NF)
struct f1{}; struct f2{}; struct f3{};
struct Num_ : state_machine_def<Num_> {
  typedef Sn<NA_t> NA; typedef Sn<NB_t> NB; typedef Sn<NC_t> NC; typedef Sn<ND_t> ND; typedef Sn<NE_t> NE;
  typedef mpl::vector<NA,NE> initial_state;                           // NE: an initial state that no row mentions
  struct transition_table : mpl::vector< Row<NB,f2,NC,none,none>, Row<NA,f1,NB,none,none>, Row<NC,f3,ND,none,none> > {};
  template<class F,class Ev> void no_transition(Ev const&,F&,int){}
};
typedef BE<Num_> Num;
static void run_numbering() {
  // documented order: sources top-down NB=0 NA=1 NC=2, then
  //   backmp11 (comment of generate_state_set_impl, and the wording of C03): target-only states ND=3, then remaining initial states NE=4
  //   back / back11 (doc internals.adoc "Generated state ids": implicitly created states "will be added as a source at the end of the
  //   transition table", i.e. they are numbered in the source pass): NE=3, then the target-only state ND=4
  // Both are "the documented order" of the respective back-end; the numbers differ between back-ends, the configurations do not.
  Num m; m.start(); int a0 = cur(m,0), e = cur(m,1);
  m.process_event(f1()); int b = cur(m,0); m.process_event(f2()); int c = cur(m,0); m.process_event(f3()); int d = cur(m,0);
  const int wantD = IS_MP11 ? 3 : 4, wantE = IS_MP11 ? 4 : 3;
  report("ids.documented-numbering", b == 0 && a0 == 1 && c == 2 && d == wantD && e == wantE, "C03",
         "NB=" + std::to_string(b) + " NA=" + std::to_string(a0) + " NC=" + std::to_string(c) + " ND=" + std::to_string(d) + " NE=" + std::to_string(e) + " (documented: 0 1 2 " + std::to_string(wantD) + " " + std::to_string(wantE) + ")");
}
#if !IS_MP11
// get_state_by_id (back / back11): for every id of the machine the state object numbered id - the very object get_state<> returns - and a
// null pointer for an id no state has (C03 introspection agreement)
static void run_state_by_id() {
  Num m; m.start();
  const void* by_type[5] = { &m.get_state<Num_::NB&>(), &m.get_state<Num_::NA&>(), &m.get_state<Num_::NC&>(), nullptr, nullptr };
  by_type[4] = &m.get_state<Num_::ND&>(); by_type[3] = &m.get_state<Num_::NE&>();        // documented numbering of back: NB NA NC NE ND
  bool ok = true; std::string t;
  for (int id = 0; id < 5; ++id) { const void* p = m.get_state_by_id(id); ok = ok && p == by_type[id]; t += (p == by_type[id]) ? "=" : "X"; }
  const bool null_beyond = m.get_state_by_id(5) == nullptr && m.get_state_by_id(99) == nullptr;
  const bool active = m.get_state_by_id(m.current_state()[0]) == &m.get_state<Num_::NA&>();
  report("ids.get_state_by_id-returns-the-state-object-numbered-id", ok && null_beyond && active, "C03", "per-id=" + t + " null-beyond=" + std::to_string(null_beyond) + " active=" + std::to_string(active));
}
#endif
int main(int argc, char** argv) {
  if (argc > 1) g_only = argv[1];
#if !IS_MP11
  run_state_by_id();
#endif
  run<msm::active_state_switch_after_entry>(); run<msm::active_state_switch_before_transition>();
  run<msm::active_state_switch_after_exit>(); run<msm::active_state_switch_after_transition_action>();
  run_regions();
  run_numbering();
  return finish();
}
