"""Which code of include/boost/msm lies OUTSIDE every unit, and has it changed?
The contracts decide only the function bodies the units extract.  Everything else (the compile-time metaprograms that build tables,
state ids, event filters and front-end rows; eUML; the type half of puml) is reached only by the native replay families.  So that the
quick tier does not stay green on a change no contract can see, the part of every header that no unit extracts is hashed (comments and
white space ignored) and compared with the hash recorded for the tree the machinery was last validated on
(`units/uncovered_baseline.json`, written by `tools/uncovered_baseline.py`).  If it differs, the quick tier consults the native
families of the property - exactly as it does for an undecided unit - and only a scenario that fails on the real code is reported.
On the unchanged tree nothing differs and nothing extra runs."""
import os, re, json, hashlib, tempfile, shutil
VERIF = os.path.dirname(os.path.dirname(os.path.abspath(__file__)))
BASELINE = os.path.join(VERIF, 'units', 'uncovered_baseline.json')

def covered_ranges():
    import units as U
    from vlib import pipeline
    wd = tempfile.mkdtemp(prefix='uncov_', dir=os.path.join(VERIF, 'build')) if os.path.isdir(os.path.join(VERIF, 'build')) else tempfile.mkdtemp(prefix='uncov_')
    cov = {}
    try:
        for u in U.all_units(raw=True):
            try:
                b = pipeline.build_unit(u, os.path.join(wd, 'u'))
            except Exception:
                continue            # a unit that cannot be extracted covers nothing (and is undecided anyway)
            for e in b['infos']:
                cov.setdefault(e['header'].replace('include/boost/msm/', ''), []).append((int(e['first_line']), int(e['last_line'])))
    finally:
        shutil.rmtree(wd, ignore_errors=True)
    return cov

def hashes(repo):
    root = os.path.join(repo, 'include', 'boost', 'msm')
    cov = covered_ranges()
    out = {}
    for d, _, fs in os.walk(root):
        for f in sorted(fs):
            p = os.path.join(d, f); rel = os.path.relpath(p, root)
            try: L = open(p, errors='replace').read().split('\n')
            except OSError: continue
            def h(lines):
                t = '\n'.join(lines)
                t = re.sub(r'/\*.*?\*/', ' ', t, flags=re.S); t = re.sub(r'//[^\n]*', ' ', t); t = re.sub(r'\s+', ' ', t)
                return hashlib.sha256(t.encode()).hexdigest()[:20]
            whole = h(L)
            for lo, hi in cov.get(rel, []):
                for k in range(lo - 1, min(hi, len(L))): L[k] = ''
            out[rel] = [h(L), whole]          # [code outside every unit, the whole header]
    return out

def changed(repo):
    """(headers whose code outside every unit differs from the recorded baseline, headers that differ at all); (None, None) without a baseline"""
    try: base = json.load(open(BASELINE))['hashes']
    except (OSError, ValueError, KeyError): return None, None
    cur = hashes(repo)
    keys = set(base) | set(cur)
    unc = sorted(h for h in keys if (base.get(h) or [None, None])[0] != (cur.get(h) or [None, None])[0])
    anyc = sorted(h for h in keys if base.get(h) != cur.get(h))
    return unc, anyc
