#!/usr/bin/env python3
"""cxx2c -- token-level extraction of msm function bodies to C (DESIGN.md section 3).

The extractor never edits statements by hand: it finds a function by scope + signature
anchor in the *current* header text, takes the brace-matched body and applies named
token rewrite rules.  Every rule records how often it fired; recipes give [min,max]
bounds for the counts ("must-fire"); anything unexpected raises Drift (-> exit 2,
undecided, never a violation).
"""
import re, hashlib

class Drift(Exception):
    """the source no longer has the shape the recipe expects (undecided, exit 2)"""

class T(str):
    """token with source line"""
    __slots__ = ("line",)
    def __new__(cls, s, line=0):
        o = str.__new__(cls, s); o.line = line; return o

TOK = re.compile(r'''
    (?P<ws>[ \t\r\f\v]+|\\\n)
  | (?P<nl>\n)
  | (?P<cmt>//[^\n]*|/\*.*?\*/)
  | (?P<pp>^[ \t]*\#[^\n]*(?:\\\n[^\n]*)*)
  | (?P<tok>::|->\*|->|\+\+|--|<<=|>>=|<<|<=|>=|==|!=|&&|\|\||\.\.\.|[-+*/%&|^]=
       |\$\$[A-Z]!?|\$\*[A-Z]|\$\$|\$[0-9a-z]|[A-Za-z_]\w*|\d[\w.']*|"(?:\\.|[^"\\])*"|'(?:\\.|[^'\\])*'|.)
''', re.S | re.X | re.M)

def tokenize(text, keep_pp=True):
    out = []; line = 1
    for m in TOK.finditer(text):
        k = m.lastgroup; s = m.group()
        if k == 'tok':
            out.append(T(s, line))
        elif k == 'pp' and keep_pp:
            out.append(T('#pp:' + s.strip(), line))
        line += s.count('\n')
    return out

def toks(s):
    """tokenise a pattern string (no line info)"""
    return [str(t) for t in tokenize(s, keep_pp=False)]

def match_close(tk, i, o='{', c='}'):
    d = 0
    for j in range(i, len(tk)):
        if tk[j] == o: d += 1
        elif tk[j] == c:
            d -= 1
            if d == 0: return j
    raise Drift("unbalanced %s at token %d (line %s)" % (o, i, getattr(tk[i], 'line', '?')))

OPEN = {'(': ')', '[': ']', '{': '}'}
def pat_match(tk, i, pat):
    """match pattern tokens at position i.
       '$x'  (x = digit/lowercase letter) binds exactly one token;
       '$$'  skips a balanced (...) group or one token;
       '$$X' (X = uppercase letter) binds a balanced (...) / [...] / {...} group (or one token) for re-emission;
       '$*X' binds the (possibly empty) token run up to the next pattern token at bracket depth 0.
       Returns (end, binds) or None."""
    b = {}; j = i
    for k, p in enumerate(pat):
        if j >= len(tk): return None
        if p == '$$':
            j = match_close(tk, j, '(', ')') + 1 if tk[j] == '(' else j + 1
        elif len(p) == 3 and p[:2] == '$$':
            if tk[j] in OPEN:
                e = match_close(tk, j, tk[j], OPEN[tk[j]]); b[p] = tk[j:e + 1]; j = e + 1
            else:
                b[p] = tk[j:j + 1]; j += 1
        elif len(p) == 3 and p[:2] == '$*':
            stop = pat[k + 1] if k + 1 < len(pat) else None
            d = 0; e = j
            while e < len(tk):
                t = tk[e]
                if d == 0 and t == stop: break
                if t in OPEN: d += 1
                elif t in (')', ']', '}'):
                    d -= 1
                    if d < 0: break
                elif d == 0 and t == ';' and stop != ';': return None
                e += 1
            if e >= len(tk) or tk[e] != stop: return None
            b[p] = tk[j:e]; j = e
        elif len(p) == 2 and p[0] == '$':
            if p in b:
                if b[p] != tk[j]: return None
            else: b[p] = tk[j]
            j += 1
        else:
            if tk[j] != p: return None
            j += 1
    return j, b

def find_all(tk, pat, start=0, end=None):
    end = len(tk) if end is None else end
    res = []
    i = start
    while i < end:
        m = pat_match(tk, i, pat)
        if m and m[0] <= end:
            res.append((i, m[0], m[1])); i = m[0]
        else:
            i += 1
    return res

def strip_pp(tk):
    return [t for t in tk if not t.startswith('#pp:')]

# ------------------------------------------------------------------ locating functions

def find_scope(tk, pat, start, end, nth=0):
    """find the nth occurrence of token pattern `pat` in [start,end) that is followed by a
    '{' before any ';' (a definition, not a declaration); return (open, close) of the block."""
    hits = 0
    for (a, b, _) in find_all(tk, pat, start, end):
        j = b - 1 if pat and pat[-1] == '{' else b
        depth = sum(1 for t in pat if t == '(') - sum(1 for t in pat if t == ')')      # an anchor may end inside the parameter list
        while j < end:
            t = tk[j]
            if t in ('(', '<'): depth += 1
            elif t in (')', '>'): depth -= 1
            elif t == '>>': depth -= 2
            elif t == ';' and depth <= 0: j = -1; break
            elif t == '{' and depth > 0 and tk[j - 1] not in (')', 'const', 'noexcept', 'override'):
                j = match_close(tk, j)          # braces of an expression inside the declarator, e.g. `-> decltype(Functor{}(event))`
            elif t == '{': break
            j += 1
        if j < 0 or j >= end: continue
        if hits == nth:
            return j, match_close(tk, j)
        hits += 1
    raise Drift("scope/anchor not found: %s (nth=%d)" % (' '.join(pat), nth))

def locate(tk, scopes, anchor, nth=0):
    """scopes: list of pattern strings (outer to inner); anchor: signature pattern string."""
    s, e = 0, len(tk)
    for sc in scopes:
        if isinstance(sc, (tuple, list)): pat, n = toks(sc[0]), sc[1]
        else: pat, n = toks(sc), 0
        o, c = find_scope(tk, pat, s, e, n)
        s, e = o + 1, c
    o, c = find_scope(tk, toks(anchor), s, e, nth)
    # uniqueness of the anchor inside the scope is checked by the caller through `expect_anchors`
    n_anchor = len([1 for (a, b, _) in find_all(tk, toks(anchor), s, e)])
    return o, c, n_anchor

# ------------------------------------------------------------------ rule engine

class Fired(dict):
    def hit(self, name, n=1):
        self[name] = self.get(name, 0) + n

NS_PREFIXES = [toks(x) for x in (
    "::boost::msm::back11::", "boost::msm::back11::", "::boost::msm::back::", "boost::msm::back::",
    "::boost::msm::backmp11::", "boost::msm::backmp11::", "::boost::msm::front::", "boost::msm::front::",
    "::boost::msm::", "boost::msm::", "msm::back::", "msm::back11::", "msm::front::", "back11::", "back::", "backmp11::",
    "::boost::fusion::", "boost::fusion::", "::boost::mpl::", "boost::mpl::", "mpl::", "mp11::",
    "::boost::", "boost::", "::std::", "std::", "detail::", "placeholders::", "front::", "puml::")]

def rule_ns(tk, F):
    out = []; i = 0
    while i < len(tk):
        for p in NS_PREFIXES:
            if tk[i:i + len(p)] == p:
                i += len(p); F.hit('NS'); break
        else:
            out.append(tk[i]); i += 1
    return out

def rule_pp(tk, F, defined=()):
    """resolve #if/#ifdef/#ifndef/#else/#endif inside a body with a fixed macro environment"""
    out = []; stack = []
    for t in tk:
        if t.startswith('#pp:'):
            m = re.match(r'#pp:\s*#\s*(ifndef|ifdef|else|endif|if|elif)\b\s*(.*)', t)
            if not m:
                raise Drift("unsupported preprocessor line in body: " + t)
            d, a = m.group(1), m.group(2).strip()
            if d == 'ifndef': stack.append(a not in defined); F.hit('PP')
            elif d == 'ifdef': stack.append(a in defined); F.hit('PP')
            elif d == 'if':
                m2 = re.match(r'!?\s*defined\s*\(?\s*(\w+)\s*\)?$', a)
                if m2:
                    v = m2.group(1) in defined
                    stack.append((not v) if a.startswith('!') else v); F.hit('PP')
                else:
                    # boolean combination of defined(X) only
                    e = re.sub(r'defined\s*\(\s*(\w+)\s*\)|defined\s+(\w+)', lambda m: ' True ' if (m.group(1) or m.group(2)) in defined else ' False ', a)
                    e = e.replace('&&', ' and ').replace('||', ' or ').replace('!', ' not ')
                    if not re.fullmatch(r'[\sA-Za-z()]*', e) or re.search(r'\b(?!True\b|False\b|and\b|or\b|not\b)[A-Za-z_]\w*', e): raise Drift("unsupported #if in body: " + a)
                    stack.append(bool(eval(e))); F.hit('PP')
            elif d == 'else': stack[-1] = not stack[-1]
            elif d == 'endif': stack.pop()
            else: raise Drift("unsupported preprocessor line in body: " + t)
            continue
        if all(stack): out.append(t)
    if stack: raise Drift("unbalanced preprocessor conditionals in body")
    return out

def rule_parens(tk, F):
    """PAREN: redundant parentheses around a whole `return` operand or a whole if/while condition are removed, so that the rewrite
    patterns and the later rules see one spelling (`return (x);` == `return x;`, `if ((c))` == `if (c)`).  Pure syntax."""
    out = []; i = 0; n = len(tk)
    while i < n:
        t = tk[i]
        if t == 'return' and i + 1 < n and tk[i + 1] == '(':
            c = match_close(tk, i + 1, '(', ')')
            if c is not None and c + 1 < n and tk[c + 1] == ';' and c > i + 2:
                out.append(t); out += tk[i + 2:c]; i = c + 1; F.hit('PAREN'); continue
        if t in ('if', 'while') and i + 2 < n and tk[i + 1] == '(' and tk[i + 2] == '(':
            c1 = match_close(tk, i + 1, '(', ')'); c2 = match_close(tk, i + 2, '(', ')')
            if c1 is not None and c2 is not None and c2 + 1 == c1:
                tk = tk[:i + 2] + tk[i + 3:c2] + tk[c2 + 1:]; n = len(tk); F.hit('PAREN'); continue
        out.append(t); i += 1
    return out

def rule_drop(tk, F, names):
    tk2 = []; i = 0
    while i < len(tk):          # C++11 attributes [[...]]
        if tk[i] == '[' and tk[i + 1:i + 2] == ['[']:
            e = match_close(tk, i, '[', ']'); F.hit('DROP'); i = e + 1; continue
        tk2.append(tk[i]); i += 1
    tk = tk2
    out = []
    for t in tk:
        if t in names: F.hit('DROP')
        else: out.append(t)
    return out

def rule_stmt_macros(tk, F):
    """SCONST, ASSERT, ignore_unused, static_assert"""
    out = []; i = 0
    while i < len(tk):
        t = tk[i]
        if t == 'BOOST_STATIC_CONSTANT' and tk[i + 1] == '(':
            e = match_close(tk, i + 1, '(', ')'); inner = tk[i + 2:e]     # type , name = expr
            c = inner.index(',')
            out += [T('const', t.line)] + inner[:c] + inner[c + 1:]; F.hit('SCONST'); i = e + 1; continue
        if t == 'ignore_unused' and tk[i + 1] == '(':
            e = match_close(tk, i + 1, '(', ')'); F.hit('DROP')
            i = e + 1
            if i < len(tk) and tk[i] == ';': i += 1
            continue
        if t in ('BOOST_ASSERT', 'BOOST_ASSERT_MSG', 'assert') and tk[i + 1] == '(':
            e = match_close(tk, i + 1, '(', ')'); inner = tk[i + 2:e]
            if t == 'BOOST_ASSERT_MSG':
                d = 0
                for k, x in enumerate(inner):
                    if x in '([': d += 1
                    elif x in ')]': d -= 1
                    elif x == ',' and d == 0: inner = inner[:k]; break
            out += [T('__CPROVER_assert', t.line), T('(', t.line)] + inner + [T(',', t.line), T('"BOOST_ASSERT"', t.line), T(')', t.line)]
            F.hit('ASSERT'); i = e + 1; continue
        if t in ('static_assert', 'BOOST_STATIC_ASSERT', 'BOOST_MPL_ASSERT', 'BOOST_STATIC_ASSERT_MSG') and tk[i + 1] == '(':
            e = match_close(tk, i + 1, '(', ')'); F.hit('DROP'); i = e + 1
            if i < len(tk) and tk[i] == ';': i += 1
            continue
        out.append(t); i += 1
    return out

def parse_targs(tk, i):
    """tk[i]=='<' ; returns (list of arg token lists, index after the closing '>')"""
    d = 0; args = [[]]; j = i
    while j < len(tk):
        t = tk[j]
        if t == '<':
            d += 1
            if d > 1: args[-1].append(t)
        elif t == '>':
            d -= 1
            if d == 0: return args, j + 1
            args[-1].append(t)
        elif t == '>>':
            if d == 1: raise Drift("stray >> in template args")
            d -= 2
            if d == 0:
                args[-1].append(T('>', t.line)); return args, j + 1
            args[-1].append(t)
        elif t == ',' and d == 1: args.append([])
        elif t in (';', '{', '}'):
            raise Drift("template argument list not closed near line %s" % getattr(tk[i], 'line', '?'))
        else: args[-1].append(t)
        j += 1
    raise Drift("template argument list not closed")

def rule_targ(tk, F, templates, typevars=None):
    """TARG / TVAL / TCALL: f<T..>(a..) -> f(T.., a..) ; M<A>::type::value -> M(A) ;
       V::f(a..) for a type variable V -> <map[V]>_f(V, a..) (if map value ends with '!' no V arg)"""
    typevars = typevars or {}
    out = []; i = 0
    while i < len(tk):
        t = tk[i]
        if t in templates and i + 1 < len(tk) and tk[i + 1] == '<':
            args, j = parse_targs(tk, i + 1)
            args = [rule_targ(a, F, templates, typevars) for a in args]
            if args == [[]]: args = []
            k = j
            while tk[k:k + 2] in (['::', 'type'], ['::', 'value']):
                k += 2; F.hit('TVAL')
            L = t.line
            if k < len(tk) and tk[k] == '(' and not (k == j and False):
                e = match_close(tk, k, '(', ')')
                inner = rule_targ(tk[k + 1:e], F, templates, typevars)
                out += [t, T('(', L)]
                first = True
                for a in args:
                    if not first: out.append(T(',', L))
                    out += a; first = False
                if inner:
                    if not first: out.append(T(',', L))
                    out += inner
                out.append(T(')', L)); F.hit('TARG'); i = e + 1
            else:
                out += [t, T('(', L)]
                for n, a in enumerate(args):
                    if n: out.append(T(',', L))
                    out += a
                out.append(T(')', L)); F.hit('TVALUE'); i = k
            continue
        if t in typevars and tk[i + 1:i + 2] == ['::'] and i + 3 < len(tk) and tk[i + 3] == '(' \
                and (i == 0 or tk[i - 1] not in ('.', '->', '::')):
            f = tk[i + 2]; e = match_close(tk, i + 3, '(', ')')
            inner = rule_targ(tk[i + 4:e], F, templates, typevars)
            L = t.line; pre = typevars[t]
            if pre.endswith('!'):
                out += [T(pre[:-1] + '_' + f, L), T('(', L)] + inner + [T(')', L)]
            else:
                out += [T(pre + '_' + f, L), T('(', L), t] + ([T(',', L)] + inner if inner else []) + [T(')', L)]
            F.hit('TCALL'); i = e + 1; continue
        out.append(t); i += 1
    return out

def rule_ref(tk, F, refparams, refvals=()):
    """REF: reference-to-object parameter p: `p.` -> `p->` ; reference-to-scalar parameter v: `v` -> `(*v)`"""
    out = []
    for i, t in enumerate(tk):
        if t == '.' and i > 0 and tk[i - 1] in refparams:
            out.append(T('->', t.line)); F.hit('REF')
        elif t in refvals and (i == 0 or tk[i - 1] not in ('.', '->', '::')):
            out += [T('(', t.line), T('*', t.line), t, T(')', t.line)]; F.hit('REF')
        else: out.append(t)
    return out

def rule_this(tk, F, members=(), methods=()):
    """MEMBER / METHOD / SELF / THIS for implicit-this code"""
    out = []; i = 0
    while i < len(tk):
        t = tk[i]; L = t.line
        prev = out[-1] if out else ''
        if t == 'this' and tk[i + 1:i + 2] == ['->']:
            i += 2; F.hit('THIS'); continue          # falls through to MEMBER/METHOD below
        if t == '*' and tk[i + 1:i + 2] == ['this']:
            out.append(T('self', L)); i += 2; F.hit('THIS'); continue
        if t == 'this':
            out.append(T('self', L)); i += 1; F.hit('THIS'); continue
        if t == 'self' and tk[i + 1:i + 3] == ['(', ')']:
            out.append(T('self', L)); i += 3; F.hit('SELF')
            if tk[i:i + 1] == ['.']: out.append(T('->', L)); i += 1
            continue
        if t in members and prev not in ('.', '->', '::'):
            out += [T('self', L), T('->', L), t]; i += 1; F.hit('MEMBER'); continue
        if t in methods and tk[i + 1:i + 2] == ['('] and prev not in ('.', '->', '::'):
            out += [t, T('(', L), T('self', L)]
            if tk[i + 2] != ')': out.append(T(',', L))
            i += 2; F.hit('METHOD'); continue
        out.append(t); i += 1
    return out

def rule_rewrites(tk, F, rewrites):
    """custom token rewrites: list of dicts {name, pat, rep, min, max}; '$x' binds one token,
    '$$' a balanced group (not re-emittable).  Applied in order, each over the whole body."""
    for rw in rewrites:
        pat = toks(rw['pat']); rep = toks(rw['rep'])
        out = []; i = 0; n = 0
        while i < len(tk):
            m = pat_match(tk, i, pat)
            if m:
                e, b = m; L = tk[i].line
                for r in rep:
                    if r in b and isinstance(b[r], list): out += b[r]
                    elif r.endswith('!') and r[:-1] in b and isinstance(b[r[:-1]], list): out += b[r[:-1]][1:-1]
                    else: out.append(T(b.get(r, r), L))
                i = e; n += 1
            else:
                out.append(tk[i]); i += 1
        lo = rw.get('min', 1); hi = rw.get('max', 10**6)
        if not (lo <= n <= hi):
            raise Drift("rewrite rule %s fired %d times, expected [%d,%d]" % (rw['name'], n, lo, hi))
        F.hit('RW:' + rw['name'], n)
        tk = out
    return tk

def rule_casts(tk, F):
    out = []; i = 0
    while i < len(tk):
        t = tk[i]
        if t in ('static_cast', 'reinterpret_cast', 'const_cast') and tk[i + 1] == '<':
            args, j = parse_targs(tk, i + 1)
            if tk[j] != '(': raise Drift("cast without (")
            e = match_close(tk, j, '(', ')'); L = t.line
            ty = [x for x in args[0] if x not in ('typename',)]
            if ty and ty[-1] == '&':      # cast to a reference type: same object
                out += [T('(', L)] + rule_casts(tk[j + 1:e], F) + [T(')', L)]
                F.hit('CAST'); i = e + 1; continue
            out += [T('(', L), T('(', L)] + ty + [T(')', L), T('(', L)] + rule_casts(tk[j + 1:e], F) + [T(')', L), T(')', L)]
            F.hit('CAST'); i = e + 1; continue
        out.append(t); i += 1
    return out

def rule_constexpr_if(tk, F):
    out = []; i = 0
    while i < len(tk):
        if tk[i] == 'if' and tk[i + 1:i + 2] == ['constexpr']:
            out.append(tk[i]); i += 2; F.hit('CONSTEXPR-IF'); continue
        out.append(tk[i]); i += 1
    return out

def rule_enumq(tk, F, enums):
    """X::name -> name (enums: dict prefix -> replacement prefix string, '' to drop)"""
    out = []; i = 0
    while i < len(tk):
        t = tk[i]
        if t in enums and tk[i + 1:i + 2] == ['::'] and i + 2 < len(tk):
            out.append(T(enums[t] + tk[i + 2], t.line)); i += 3; F.hit('ENUMQ'); continue
        out.append(t); i += 1
    return out

def stmt_start(out):
    """index in `out` where the current statement starts (after the last ; { } at depth 0)"""
    d = 0
    for k in range(len(out) - 1, -1, -1):
        t = out[k]
        if t in (')', ']'): d += 1
        elif t in ('(', '['): d -= 1
        elif d == 0 and t in (';', '{', '}'):
            return k + 1
    return 0

def rule_exc(tk, F, may_throw, exc_ret, ret_type='HandledEnum'):
    """EXC: after each statement that contains a call of a may-throw callee insert
       `if (g_exc) return <exc_ret>;` ; `if (C)` with a may-throw call in C is hoisted into a temp."""
    out = []; i = 0; tmp = 0; pdepth = 0
    n = len(tk)
    def has_throw(seg):
        return any(seg[k] in may_throw and seg[k + 1:k + 2] == ['('] for k in range(len(seg)))
    ret = toks('if ( g_exc ) return %s ;' % exc_ret) if exc_ret else toks('if ( g_exc ) return ;')
    while i < n:
        t = tk[i]
        if t in ('if', 'while') and tk[i + 1:i + 2] == ['(']:
            e = match_close(tk, i + 1, '(', ')')
            cond = tk[i + 2:e]
            if has_throw(cond):
                if t == 'while' or (out and out[-1] == 'else'):
                    raise Drift("EXC: may-throw call in %s condition not supported" % t)
                tmp += 1; L = t.line; v = '__exc_c%d' % tmp
                out += [T(x, L) for x in ['_Bool', v, '=']] + cond + [T(';', L)] + [T(x, L) for x in ret]
                out += [T('if', L), T('(', L), T(v, L), T(')', L)]
                F.hit('EXC'); i = e + 1; continue
            out += tk[i:e + 1]; i = e + 1; continue
        if t == '(': pdepth += 1
        elif t == ')': pdepth -= 1
        if t == ';' and pdepth > 0:      # inside a for(...;...;...) header: not a statement end
            out.append(t); i += 1; continue
        if t == ';':
            s = stmt_start(out)
            seg = out[s:]
            if has_throw(seg) and seg and seg[0] == 'return' and len(seg) > 1:
                # return f(x);  ->  { T __r = f(x); if (g_exc) return EXC; return __r; }   (the catch/caller sees the exception first)
                tmp += 1; L = t.line; v = '__exc_r%d' % tmp
                expr = seg[1:]
                del out[s:]
                out += [T(x, L) for x in ['{', ret_type, v, '=']] + expr + [T(';', L)] + [T(x, L) for x in ret] + [T(x, L) for x in ['return', v, ';', '}']]
                F.hit('EXC'); i += 1; continue
            if has_throw(seg) and len(seg) > 2 and re.match(r'[A-Za-z_]\w*$', seg[0]) and seg[1] == '=' and seg[0] not in may_throw:
                # x = f(..);  : when f throws the assignment does not happen (x keeps its old, possibly indeterminate, value)
                tmp += 1; L = t.line; v = '__exc_t%d' % tmp
                lhs = seg[0]; expr = seg[2:]
                del out[s:]
                out += [T(x, L) for x in ['{', '__typeof__', '(', str(lhs), ')', v, '=']] + expr + [T(';', L)] + [T(x, L) for x in ret] + [T(x, L) for x in [str(lhs), '=', v, ';', '}']]
                F.hit('EXC'); i += 1; continue
            out.append(t)
            if has_throw(seg) and not (seg and seg[0] == 'return'):
                # do not split a `for(...;...;...)` header: stmt_start handles depth
                out += [T(x, t.line) for x in ret]; F.hit('EXC')
            i += 1; continue
        out.append(t); i += 1
    return out

def rule_scope_guard(tk, F, guards):
    """GUARD: a local object of a scope-guard class `G name(args);` / `G name{args};` (G in `guards`, a dict class -> C function
       standing for its destructor body, which is extracted from the header separately) is erased; its destructor call
       `dtor(&(args));` is placed before every `return` of the rest of the enclosing block (including the `if (g_exc) return`
       that rule EXC inserted: C++ unwinding runs the destructor) and at the end of that block.  The constructor must be trivial
       apart from binding the reference (checked by a must_contain pattern of the unit).  Runs after EXC / TRY."""
    out = list(tk); i = 0
    while i < len(out):
        t = out[i]
        if str(t) in guards and i + 2 < len(out) and re.match(r'[A-Za-z_]\w*$', str(out[i + 1])) and str(out[i + 2]) in ('(', '{'):
            opn = str(out[i + 2]); cls = ')' if opn == '(' else '}'
            e = match_close(out, i + 2, opn, cls)
            if str(out[e + 1]) != ';': raise Drift("GUARD: unsupported declaration of %s" % t)
            args = out[i + 3:e]; L = t.line
            dt = [T(x, L) for x in (guards[str(t)], '(', '&', '(')] + [T(str(x), L) for x in args] + [T(x, L) for x in (')', ')', ';')]
            # end of the enclosing block
            depth = 0; j = e + 2; end = len(out)
            while j < len(out):
                if str(out[j]) == '{': depth += 1
                elif str(out[j]) == '}':
                    if depth == 0: end = j; break
                    depth -= 1
                j += 1
            rest = out[e + 2:end]; new = []; k = 0
            while k < len(rest):
                if str(rest[k]) == 'goto':
                    tgt = str(rest[k + 1])
                    inside = any(str(rest[z]) == tgt and str(rest[z + 1]) == ':' for z in range(len(rest) - 1))
                    if not inside: raise Drift("GUARD: goto out of a guarded scope not supported")
                if str(rest[k]) == 'return':
                    q = k
                    while str(rest[q]) != ';': q += 1
                    expr = rest[k + 1:q]
                    if any(str(x) == '(' for x in expr):
                        # C++ evaluates the returned expression BEFORE the destructors run:  { T __g = expr; dtor; return __g; }
                        nn = '__guard_ret%d' % len(new)
                        new += [T(x, L) for x in ('{', '__typeof__', '(')] + list(expr) + [T(x, L) for x in (')', nn, '=')] + list(expr) + [T(';', L)] + dt + [T(x, L) for x in ('return', nn, ';', '}')]
                    else:
                        new += [T('{', L)] + dt + rest[k:q + 1] + [T('}', L)]
                    k = q + 1; continue
                new.append(rest[k]); k += 1
            out = out[:i] + new + dt + out[end:]
            F.hit('GUARD'); continue
        i += 1
    return out

def rule_try(tk, F):
    """try { S } catch (std::exception& e) { H }  /  BOOST_TRY { S } BOOST_CATCH (...) { H } BOOST_CATCH_END
       ->  { S'  __catch: ; if (g_exc) { g_exc = 0; H } }   with S' = S where the inserted
       `if (g_exc) return X;` of rule EXC are retargeted to `goto __catchN;`"""
    out = []; i = 0; n = 0
    while i < len(tk):
        t = tk[i]
        if t in ('try', 'BOOST_TRY') and tk[i + 1:i + 2] == ['{']:
            e = match_close(tk, i + 1)
            S = rule_try(tk[i + 2:e], F)
            j = e + 1
            if tk[j] not in ('catch', 'BOOST_CATCH') or tk[j + 1] != '(':
                raise Drift("try without catch")
            ce = match_close(tk, j + 1, '(', ')')
            if tk[ce + 1] != '{': raise Drift("catch without block")
            he = match_close(tk, ce + 1)
            H = tk[ce + 2:he]
            cparams = [x for x in tk[j + 2:ce] if re.match(r'[A-Za-z_]\w*$', x)]
            if cparams and tk[ce - 1] not in ('...', '&', '*') and len(cparams) >= 2:
                # catch (T& e): the handler may mention e; it becomes an opaque int
                H = [T(x, t.line) for x in ('int', str(cparams[-1]), '=', '0', ';')] + H
            k = he + 1
            if tk[k:k + 1] == ['BOOST_CATCH_END']: k += 1
            n += 1; L = t.line; lab = '__catch%d_%d' % (L, n)
            # retarget inserted exc-returns inside S
            S2 = []; q = 0
            pat = toks('if ( g_exc ) return')
            while q < len(S):
                if S[q:q + len(pat)] == pat:
                    r = q + len(pat)
                    while S[r] != ';': r += 1
                    S2 += [T(x, S[q].line) for x in toks('if ( g_exc ) goto %s ;' % lab)]
                    q = r + 1
                else:
                    S2.append(S[q]); q += 1
            out += [T('{', L)] + S2 + [T(x, L) for x in toks('%s : ; if ( g_exc ) { g_exc = 0 ;' % lab)] + H + [T('}', L), T('}', L)]
            F.hit('TRY'); i = k; continue
        out.append(t); i += 1
    return out

def rule_foreach(tk, F, size_of=None):
    """FOREACH / UNTIL / LAMBDA0:
         mp_for_each_until<L>([caps](auto x){ B })   ->  for (int x = 0; x != SIZE(L); ++x) { B' }   B': return true -> break, return false -> continue
         mp_for_each<L>([caps](auto x){ B })         ->  for (int x = 0; x != SIZE(L); ++x) { B }
       assumed contract of mp_for_each / the fold in mp_for_each_until: elements visited in list order, short-circuit on true.
       size_of(Ltokens) -> token list for the element count (default: mp_size ( L ))"""
    out = []; i = 0
    while i < len(tk):
        t = tk[i]
        if t in ('mp_for_each_until', 'mp_for_each') and tk[i + 1:i + 2] == ['<']:
            args, j = parse_targs(tk, i + 1)
            if tk[j] != '(' or tk[j + 1] != '[': raise Drift("for_each without immediately passed lambda")
            pe = match_close(tk, j, '(', ')')
            ce = match_close(tk, j + 1, '[', ']')
            if tk[ce + 1] != '(' : raise Drift("lambda without parameter list")
            le = match_close(tk, ce + 1, '(', ')')
            params = [x for x in tk[ce + 2:le] if x not in ('auto', 'const', '&')]
            if len(params) != 1: raise Drift("for_each lambda must take one (auto) parameter")
            x = params[0]
            if tk[le + 1] != '{': raise Drift("lambda without body")
            be = match_close(tk, le + 1)
            if be + 1 != pe: raise Drift("for_each: unexpected tokens after lambda")
            body = rule_foreach(tk[le + 2:be], F, size_of)
            # `bool r = mp_for_each_until<L>(f);` : r is the value of the fold (some call returned true)
            resvar = None
            if t == 'mp_for_each_until' and len(out) >= 3 and out[-1] == '=' and out[-3] in ('bool', 'auto', '_Bool'):
                resvar = out[-2]
                del out[-1:]
                out += [T('=', t.line), T('false', t.line), T(';', t.line)]
            if t == 'mp_for_each_until':
                b2 = []; k = 0
                while k < len(body):
                    if body[k] == 'return' and body[k + 1:k + 3] == ['true', ';']:
                        if resvar: b2 += [T('{', body[k].line), T(str(resvar), body[k].line), T('=', body[k].line), T('true', body[k].line), T(';', body[k].line), T('break', body[k].line), T(';', body[k].line), T('}', body[k].line)]; k += 3; continue
                        b2.append(T('break', body[k].line)); k += 2; continue
                    if body[k] == 'return' and body[k + 1:k + 3] == ['false', ';']: b2.append(T('continue', body[k].line)); k += 2; continue
                    if body[k] == 'return': raise Drift("mp_for_each_until lambda: only `return true;`/`return false;` supported")
                    b2.append(body[k]); k += 1
                body = b2; F.hit('UNTIL')
            else:
                if any(b == 'return' for b in body): raise Drift("mp_for_each lambda with return")
                F.hit('FOREACH')
            L = t.line
            L_tokens = [a for a in args[0] if a not in ('typename',)]
            size = size_of(L_tokens) if size_of else [T('mp_size', L), T('(', L)] + L_tokens + [T(')', L)]
            out += [T(s_, L) for s_ in ('for', '(', 'int', str(x), '=', '0', ';', str(x), '!=')] + size + [T(s_, L) for s_ in (';', '++', str(x), ')', '{')] + body + [T('}', L)]
            i = pe + 1
            if tk[i:i + 1] == [';']: i += 1
            continue
        out.append(t); i += 1
    return out

def rule_decltype(tk, F):
    """using X = decltype(y);  ->  const type_t X = y;      using X = typename A::b;  -> const type_t X = A_b... (left to TVAR rewrites)"""
    out = []; i = 0
    while i < len(tk):
        if tk[i] == 'using' and tk[i + 2:i + 5] == ['=', 'decltype', '('] :
            e = match_close(tk, i + 4, '(', ')')
            if tk[e + 1] != ';': raise Drift("using = decltype(...) not followed by ;")
            L = tk[i].line
            out += [T('const', L), T('type_t', L), tk[i + 1], T('=', L)] + tk[i + 5:e] + [T(';', L)]
            F.hit('DECLTYPE'); i = e + 2; continue
        out.append(tk[i]); i += 1
    return out

# ------------------------------------------------------------------ emit

def emit(tk, header_rel=None, indent='    '):
    """one output line per source line, so #line keeps CBMC locations pointing into the header"""
    lines = []; cur = None; buf = []
    for t in tk:
        L = getattr(t, 'line', 0)
        if cur is None: cur = L
        if L != cur and L > cur:
            lines.append((cur, buf)); buf = []; cur = L
        buf.append(str(t))
    if buf: lines.append((cur, buf))
    out = []
    last = None
    for L, b in lines:
        if header_rel and (last is None or L != last + 1):
            out.append('#line %d "%s"' % (L, header_rel))
        out.append(indent + ' '.join(b))
        last = L
    return '\n'.join(out)

def sha(tk):
    return hashlib.sha256(' '.join(tk).encode()).hexdigest()

def verbatim_ratio(orig, final):
    """fraction of original body tokens that survive unchanged, in order (LCS via difflib)"""
    import difflib
    sm = difflib.SequenceMatcher(a=[str(x) for x in orig], b=[str(x) for x in final], autojunk=False)
    same = sum(m.size for m in sm.get_matching_blocks())
    return same / max(1, len(orig))
