"""known_findings.txt: genuine defects of the pinned tree that are recorded, not repaired
(`finding:` lines), and repaired ones (`fixed:` lines, which suppress nothing).
The file is read-only at run time."""
import re, fnmatch, shlex

class Finding:
    def __init__(self, kv, raw):
        self.kv, self.raw = kv, raw
        self.prop = kv.get('property')
    def matches_check(self, prop, unit, label, check_id):
        if (self.prop != prop and prop != 'C13') or 'unit' not in self.kv: return False   # C13 (equivalence roll-up) inherits every finding
        if not fnmatch.fnmatch(unit, self.kv['unit']): return False
        ob = self.kv.get('ob', '')
        return ob == (label or '') or ob == check_id or (label and ob == label.split('.', 1)[-1])
    def matches_scenario(self, prop, family, scenario):
        if (self.prop != prop and prop != 'C13') or self.kv.get('monitor') != family: return False      # C13 inherits every finding
        return fnmatch.fnmatch(scenario, self.kv.get('scenario', ''))
    def text(self):
        return self.kv.get('what', self.raw)

def load(path):
    out = dict(findings=[], fixed=[])
    try:
        lines = open(path).read().splitlines()
    except OSError:
        return out
    for l in lines:
        l = l.strip()
        if not l or l.startswith('#'): continue
        if l.startswith('finding:'):
            kv = {}
            for tok in shlex.split(l[len('finding:'):]):
                if '=' in tok:
                    k, v = tok.split('=', 1); kv[k] = v
            out['findings'].append(Finding(kv, l))
        elif l.startswith('fixed:'):
            out['fixed'].append(l)
    return out
