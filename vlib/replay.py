"""native replay: real msm machines compiled against /repo/include (current tree) with oracles written
from the property statements.  Used (a) to attach a real failing input to a failed obligation,
(b) in the thorough tier as assumption monitors / cross-check of the contracts."""
import os, json, subprocess, time, re, shutil, hashlib
VERIF = os.path.dirname(os.path.dirname(os.path.abspath(__file__)))
EVDIR = os.environ.get('VERIF_EVIDENCE_DIR') or os.path.join(VERIF, 'evidence')
REPO = os.environ.get('VERIF_REPO', '/repo')
RDIR = os.path.join(VERIF, 'replay')

def fam_sources(fam):
    """replay/<fam>.cpp is built once per configuration listed in its first line: // CONFIGS: a b c"""
    src = os.path.join(RDIR, fam + '.cpp')
    if not os.path.exists(src): return None, []
    first = open(src).readline()
    m = re.match(r'//\s*CONFIGS:\s*(.*)', first)
    cfgs = m.group(1).split() if m else ['default']
    return src, cfgs

def fam_libs(src):
    """optional second line `// LIBS: -lfoo` : extra link flags (only libraries already installed, e.g. -lboost_serialization)"""
    with open(src) as f:
        f.readline(); m = re.match(r'//\s*LIBS:\s*(.*)', f.readline())
    return m.group(1).split() if m else []

_tree_key = {}
def tree_key():
    """content hash of every file under <REPO>/include (the replay binaries depend on nothing else of the tree)"""
    root = os.path.join(REPO, 'include')
    if root not in _tree_key:
        h = hashlib.sha256()
        for dp, dn, fn in sorted(os.walk(root)):
            dn.sort()
            for f in sorted(fn):
                q = os.path.join(dp, f)
                h.update(os.path.relpath(q, root).encode()); h.update(b'\0')
                with open(q, 'rb') as fh: h.update(hashlib.sha256(fh.read()).digest())
        _tree_key[root] = h.hexdigest()
    return _tree_key[root]

def build_and_run(fam, wd, args=(), timeout=900):
    """returns list of (config, rc, stdout) ; builds in parallel"""
    src, cfgs = fam_sources(fam)
    if not src: return None
    # the binary is a function of (family source, common.hpp, every file under <REPO>/include, flags): it is rebuilt whenever any of these
    # changes and reused otherwise (content-addressed directory under build/, empty after a fresh restore)
    hk = hashlib.sha256()
    for q in (src, os.path.join(RDIR, 'common.hpp')):
        with open(q, 'rb') as fh: hk.update(fh.read())
    hk.update(tree_key().encode())
    if os.path.realpath(REPO) == '/repo':
        croot = os.path.join(VERIF, 'build', 'replay_cache')
        bdir = os.path.join(croot, hk.hexdigest()[:20]); os.makedirs(bdir, exist_ok=True)
        os.utime(bdir, None)
        try:      # keep the cache small: only the most recently used 40 (family x tree) directories survive
            ds = sorted((os.path.join(croot, d) for d in os.listdir(croot)), key=os.path.getmtime)
            for d in ds[:-40]: shutil.rmtree(d, ignore_errors=True)
        except OSError: pass
    else:         # scratch trees (mutants, self-test, seeds): build in the run's working directory, removed with it
        bdir = os.path.join(wd, 'replay_' + fam); os.makedirs(bdir, exist_ok=True)
    procs = []
    for c in cfgs:
        exe = os.path.join(bdir, fam + '_' + c)
        if os.path.exists(exe): procs.append((c, exe, None, None)); continue
        std = 'c++20' if 'puml' in fam or 'cxx20' in c else 'c++17'
        tmp = exe + '.tmp%d' % os.getpid()
        cmd = ['g++', '-std=' + std, '-O0', '-w', '-I', os.path.join(REPO, 'include'), '-I', RDIR, '-DCFG_' + c + '=1', '-DCFG_NAME="' + c + '"', src, '-o', tmp] + fam_libs(src)
        procs.append((c, exe, subprocess.Popen(cmd, stdout=subprocess.PIPE, stderr=subprocess.STDOUT), tmp))
    out = []
    for c, exe, p, tmp in procs:
        if p is not None:
            try:
                o, _ = p.communicate(timeout=timeout)
            except subprocess.TimeoutExpired:
                p.kill(); out.append((c, -9, 'compile timeout')); continue
            if p.returncode != 0:
                out.append((c, -1, 'COMPILE-ERROR ' + o.decode('utf-8', 'replace')[-1500:])); continue
            os.replace(tmp, exe)
        try:
            r = subprocess.run([exe] + list(args), stdout=subprocess.PIPE, stderr=subprocess.STDOUT, timeout=min(timeout, int(os.environ.get('VERIF_REPLAY_RUN_TIMEOUT', '120'))))   # a family runs in seconds; a hang of the real code is reported as 'run timeout'
            out.append((c, r.returncode, r.stdout.decode('utf-8', 'replace')))
        except subprocess.TimeoutExpired:
            out.append((c, -9, 'run timeout'))
    return out

def parse(outs):
    """lines: 'SCN <id> OK|FAIL <props> <text>' ; 'DONE <n>'"""
    scn = []; bad = []
    for c, rc, o in outs:
        if rc < 0 and o.startswith(('COMPILE-ERROR', 'compile timeout', 'run timeout')): bad.append((c, o[:600])); continue
        done = False
        for l in o.splitlines():
            m = re.match(r'SCN (\S+) (OK|FAIL) (\S+) ?(.*)', l)
            if m: scn.append(dict(config=c, id=c + '/' + m.group(1), status=m.group(2), props=m.group(3).split(','), text=m.group(4)))
            if l.startswith('DONE'): done = True
        if not done:
            # the real code crashed (signal / abort) inside the family: that is a refutation on the real code, not an undecided proof
            scn.append(dict(config=c, id=c + '/crash', status='FAIL', props=['*'], text='replay program terminated abnormally (rc=%s) after: %s' % (rc, o[-200:].replace('\n', ' | '))))
    return scn, bad

def run_families(prop, fams, wd, kf, seed):
    res = dict(families=[], scenarios=0, violations=[], known=[], undecided=[])
    from concurrent.futures import ThreadPoolExecutor
    with ThreadPoolExecutor(max_workers=int(os.environ.get('VERIF_FAMILY_JOBS', '3'))) as ex:
        built = dict(zip(fams, ex.map(lambda f: build_and_run(f, wd), fams)))
    for fam in fams:
        outs = built[fam]
        if outs is None: continue
        res['families'].append(fam)
        scn, bad = parse(outs)
        for c, why in bad: res['undecided'].append(dict(family=fam + '/' + c, reason=why.replace('\n', ' ')[:300]))
        for s in scn:
            if prop not in s['props'] and '*' not in s['props']: continue
            res['scenarios'] += 1
            if s['status'] == 'FAIL':
                hit = None
                for f in kf['findings']:
                    if f.matches_scenario(prop, fam, s['id']): hit = f; break
                if hit: res['known'].append("monitor=%s scenario=%s %s" % (fam, s['id'], hit.text())); continue
                p = write_replay(prop, dict(kind='native', family=fam, scenario=s['id'], text=s['text'],
                                            rerun='./check %s --replay <this file>' % prop))
                res['violations'].append(dict(path=p, by='assumption-monitor/native-oracle family=' + fam, what=s['id'] + ' ' + s['text']))
    return res

def write_replay(prop, obj):
    d = os.path.join(EVDIR, 'replay', prop); os.makedirs(d, exist_ok=True)
    name = re.sub(r'[^\w.-]+', '_', obj.get('obligation') or (obj.get('family', '') + '.' + obj.get('scenario', '')))[:150]
    p = os.path.join(d, name + '.json')
    with open(p, 'w') as f: json.dump(obj, f, indent=1)
    return p

# the families whose oracles are written from the statement of a property: always among those consulted for that property
PROP_FAMILIES = {'C01': ['sel'], 'C02': ['order', 'hist'], 'C03': ['order', 'hist'], 'C04': ['queue'], 'C05': ['defer'], 'C06': ['sel'], 'C07': ['sel', 'hist'],
                 'C08': ['hist'], 'C09': ['hist', 'sel'], 'C10': ['queue', 'defer'], 'C11': ['block'], 'C12': ['exc'], 'C13': ['sel', 'order'], 'C14': ['fronts', 'euml'],
                 'C15': ['copy'], 'C16': ['ser'], 'C17': ['block'], 'C18': ['kleene'], 'C19': ['order'], 'C20': ['poly', 'queue']}
def families_for(prop, units):
    return sorted(set(f for u in units for f in u.replay) | set(PROP_FAMILIES.get(prop, [])))

def witness_for(prop, v, wd, seed):
    """v: violation dict from evidence.classify. Tries the unit's replay families on the real code."""
    import units as units_pkg
    fams = []
    for u in units_pkg.all_units():
        if u.name == v['unit']: fams = families_for(prop, [u])
    obj = dict(kind='obligation', property=prop, obligation=v['obligation'], unit=v['unit'], cbmc_check=v['check'],
               clause_at='%s:%s' % (v['file'], v['line']), description=v['desc'], counterexample=v['trace'][-60:],
               extracted_unit=None, native=None)
    try:
        obj['extracted_unit'] = open(v['cfile']).read()[-6000:]
    except Exception:
        pass
    native = False
    kf = None
    from . import findings
    kf = findings.load(os.path.join(VERIF, 'known_findings.txt'))
    if os.environ.get('VERIF_NO_NATIVE') == '1': fams = []      # self-test runs: the verdict of the contract check is all that is asked for
    for fam in fams:
        outs = build_and_run(fam, wd)
        if outs is None: continue
        scn, bad = parse(outs)
        fails = [s for s in scn if s['status'] == 'FAIL' and (prop in s['props'] or '*' in s['props'])
                 and not any(f.matches_scenario(prop, fam, s['id']) for f in kf['findings'])]
        if fails:
            native = True
            obj['native'] = dict(family=fam, scenario=fails[0]['id'], text=fails[0]['text'], all_failing=[s['id'] for s in fails][:20])
            obj['family'] = fam; obj['scenario'] = fails[0]['id']
            break
    if not native:
        obj['native'] = 'no-failing-input-found: the replay families of this unit (%s) show no failure on the real code' % (','.join(fams) or 'none')
    return dict(path=write_replay(prop, obj), native=native)

def rerun(prop, path):
    obj = json.load(open(path))
    fam = obj.get('family'); scn = obj.get('scenario')
    if not fam:
        print("replay file names obligation %s; no native scenario attached -- re-run ./check %s" % (obj.get('obligation'), prop))
        return 2
    wd = os.path.join(VERIF, 'build', prop, 'replay'); os.makedirs(wd, exist_ok=True)
    outs = build_and_run(fam, wd)
    s, bad = parse(outs)
    for x in s:
        if x['id'] == scn:
            print("SCN %s %s %s" % (x['id'], x['status'], x['text']))
            if x['status'] == 'FAIL':
                print("VIOLATION property=%s replay=%s" % (prop, path)); return 1
            return 0
    print("scenario %s not produced by family %s" % (scn, fam)); return 2
