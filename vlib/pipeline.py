#!/usr/bin/env python3
"""unit = one extracted function + its contract ; this module extracts, composes, runs
goto-cc / goto-instrument --dfcc / cbmc and classifies every generated check."""
import os, re, json, subprocess, time, shutil, resource
from . import cxx2c
from .cxx2c import Drift, T, toks

VERIF = os.path.dirname(os.path.dirname(os.path.abspath(__file__)))
REPO = os.environ.get('VERIF_REPO', '/repo')
INC = os.path.join(REPO, 'include', 'boost', 'msm')
CONTRACTS = os.path.join(VERIF, 'contracts')

class Undecided(Exception):
    pass

class Part:
    """one function body to extract"""
    def __init__(self, header, scopes, anchor, nth=0, expect_anchors=None, xform=None, tag=None, init_list=False, member_init=None, optional=False, default_body=None):
        self.default_body = default_body   # with optional: the C text standing for the compiler-generated function when the class declares none (e.g. member-wise copy `*self = *other;`)
        self.optional = optional      # the function may be absent from the tree (e.g. a destructor of a scope guard a change removed): its body is then empty
        self.member_init = member_init   # not a function: the default member initialiser `T name{...};` of the class in `scopes` (MEMBERINIT rule)
        self.init_list = init_list    # constructor: the member initialiser list `: m(e), n(f)` becomes `m = e; n = f;` in front of the body (INITLIST rule)
        self.header, self.scopes, self.anchor, self.nth = header, scopes, anchor, nth
        self.expect_anchors, self.xform, self.tag = expect_anchors, xform, tag

class Aux:
    """a small helper function extracted whole (signature + body) and emitted as a static C function
    next to the unit (it is analysed inline, not replaced by a contract)"""
    def __init__(self, cname, ret, header, scopes, anchor, nth=0, xform=None, params=None, lambda_body=False):
        self.cname, self.ret, self.header, self.scopes, self.anchor, self.nth, self.xform, self.params = cname, ret, header, scopes, anchor, nth, xform, params
        self.lambda_body = lambda_body    # the anchor is a call taking a lambda: the function body is the lambda's body (first '{' after the anchor)

def extract_aux(aux, F):
    tk = header_tokens(aux.header)
    s, e = 0, len(tk)
    for sc in aux.scopes:
        o, c = cxx2c.find_scope(tk, toks(sc), s, e, 0)
        s, e = o + 1, c
    hits = cxx2c.find_all(tk, toks(aux.anchor), s, e)
    if len(hits) <= aux.nth: raise Drift("aux anchor not found: " + aux.anchor)
    a, b, _ = hits[aux.nth]
    if aux.lambda_body:
        while tk[b] != '[': b += 1
        b = cxx2c.match_close(tk, b, '[', ']') + 1
    while tk[b] != '(': b += 1
    pe = cxx2c.match_close(tk, b, '(', ')')
    params = split_tok_params(tk[b + 1:pe])
    ps = []
    for k, p in enumerate(params):
        p = [str(x) for x in p if x not in ('const', '&')]
        if len(p) == 1: p.append('_u%d' % k)
        ps.append(' '.join(p))
    bo = pe + 1
    while tk[bo] != '{':
        if tk[bo] == ';': raise Drift("aux is a declaration: " + aux.anchor)
        bo += 1
    bc = cxx2c.match_close(tk, bo)
    body = tk[bo + 1:bc]
    if aux.xform: body = aux.xform(list(body), F)
    else: body = cxx2c.strip_pp(body)
    F.hit('AUX')
    rel = 'include/boost/msm/' + aux.header
    if aux.params is not None: ps = [aux.params]
    return 'static %s %s(%s)\n{\n%s\n}\n' % (aux.ret, aux.cname, ', '.join(ps), cxx2c.emit(body, rel)), \
        dict(header=rel, first_line=tk[a].line, last_line=tk[bc].line, body_tokens=len(body), body_sha256=cxx2c.sha(body), verbatim_ratio=1.0, aux=aux.cname)

def split_tok_params(tk):
    out = [[]]; d = 0
    for t in tk:
        if t in ('(', '<', '['): d += 1
        elif t in (')', '>', ']'): d -= 1
        if t == ',' and d == 0: out.append([])
        else: out[-1].append(t)
    return [p for p in out if p]

class Unit:
    def __init__(self, name, props, backend, parts, csig, spec, xform=None, compose=None, aux=(),
                 enforce=None, rec=False, replace='auto', no_replace=(), loops=None, defines=(),
                 cbmc_flags=(), harness=None, fire=None, replay=(), smt=None, timeout=None,
                 bounded=None, unwind=None, extra_c='', pre_c='', notes='', max_fail_labels=None, must_contain=(), trusted=(), thorough_only=False, file_scope='', force_loop_contracts=False, also_replace=(), also_replace_if_present=(), mode='contract'):
        self.name, self.props, self.backend = name, list(props), backend
        self.parts = parts if isinstance(parts, list) else [parts]
        self.csig, self.spec = csig, spec if isinstance(spec, (list, tuple)) else [spec]
        self.xform, self.compose = xform, compose
        m = re.search(r'(\w+)\s*\(', csig)
        self.cname = m.group(1)
        self.enforce = enforce or self.cname
        self.rec, self.replace, self.no_replace = rec, replace, set(no_replace)
        self.loops = loops or {}
        self.defines = list(defines); self.cbmc_flags = list(cbmc_flags)
        self.harness = harness; self.fire = fire or {}
        self.replay = list(replay); self.smt = smt; self.timeout = timeout
        self.bounded = bounded      # None => unbounded proof ; else text describing the bound
        self.unwind = unwind
        self.extra_c = extra_c; self.pre_c = pre_c; self.notes = notes
        self.force_loop_contracts = force_loop_contracts
        self.aux = list(aux); self.file_scope = file_scope   # text with @n placeholders emitted at file scope before the unit (helper overloads)
        self.mode = mode     # 'contract' (dfcc enforce/replace) or 'bounded' (plain cbmc on the harness with --unwind, never counted as proof)
        self.also_replace = list(also_replace); self.also_replace_if_present = list(also_replace_if_present)
        self.must_contain = list(must_contain); self.trusted = list(trusted); self.thorough_only = thorough_only

_header_cache = {}
def header_tokens(rel):
    p = os.path.join(INC, rel)
    st = os.stat(p)
    key = (p, st.st_mtime_ns, st.st_size)
    if key not in _header_cache:
        with open(p) as f: txt = f.read()
        _header_cache[key] = cxx2c.rule_ns(cxx2c.tokenize(txt), cxx2c.Fired())   # NS rule applied header-wide (anchors too)
    return _header_cache[key]

def extract_member_init(part, F, default_xform):
    tk = header_tokens(part.header)
    s, e = 0, len(tk)
    for sc in part.scopes:
        o, c = cxx2c.find_scope(tk, toks(sc), s, e, 0)
        s, e = o + 1, c
    name = part.member_init
    hits = []; d = 0
    for i in range(s, e - 1):
        if tk[i] == '{':
            if d == 0 and i > s and tk[i - 1] == name: hits.append(i - 1)
            d += 1
        elif tk[i] == '}': d -= 1
        elif d == 0 and tk[i] == name and tk[i + 1] == '=': hits.append(i)
    if len(hits) != 1: raise Drift("member initialiser of %s not found exactly once (%d)" % (name, len(hits)))
    i = hits[0]
    if tk[i + 1] == '{':
        c = cxx2c.match_close(tk, i + 1); inner = tk[i + 2:c]
    else:
        c = i + 2
        while tk[c] != ';': c += 1
        inner = tk[i + 2:c]
    L = tk[i].line
    if inner: body = [T('MEMBER_INIT', L), T('(', L), T(name, L), T(',', L)] + list(inner) + [T(')', L), T(';', L)]
    else: body = [T('MEMBER_INIT_ZERO', L), T('(', L), T(name, L), T(')', L), T(';', L)]
    F.hit('MEMBERINIT')
    xf = part.xform or default_xform
    out = xf(list(body), F) if xf else body
    info = dict(header='include/boost/msm/' + part.header, first_line=L, last_line=tk[c].line, body_tokens=len(inner), body_sha256=cxx2c.sha(inner), verbatim_ratio=1.0)
    return out, info

def extract_part(part, F, default_xform):
    if part.member_init: return extract_member_init(part, F, default_xform)
    tk = header_tokens(part.header)
    try:
        o, c, n_anchor = cxx2c.locate(tk, part.scopes, part.anchor, part.nth)
    except Drift:
        if not getattr(part, 'optional', False): raise
        F.hit('OPTIONAL-ABSENT')
        if getattr(part, 'default_body', None):
            return toks(part.default_body), dict(header='include/boost/msm/' + part.header, first_line=0, last_line=0, body_tokens=0, body_sha256=cxx2c.sha([]), verbatim_ratio=1.0, absent=True, compiler_generated=part.default_body)
        return [], dict(header='include/boost/msm/' + part.header, first_line=0, last_line=0, body_tokens=0, body_sha256=cxx2c.sha([]), verbatim_ratio=1.0, absent=True)
    if part.expect_anchors is not None and n_anchor != part.expect_anchors:
        raise Drift("anchor '%s' occurs %d times in scope, expected %d" % (part.anchor, n_anchor, part.expect_anchors))
    body = tk[o + 1:c]
    if part.init_list:
        k = o - 1; d = 0
        # walk back from '{' to the ':' that starts the initialiser list (depth 0)
        has_list = False
        while k > 0:
            t = tk[k]
            if t in (')', '}'):
                if t == '}' and d == 0: break                      # end of the previous member: no initialiser list
                d += 1
            elif t in ('(', '{'):
                if d == 0: break
                d -= 1
            elif t == ';' and d == 0: break
            elif t == ':' and d == 0:
                has_list = tk[k - 1] not in ('public', 'private', 'protected'); break
            k -= 1
        init = tk[k + 1:o] if has_list else []; pre = []; q = 0      # a constructor that lost its initialiser list extracts with none (a contract then fails), not as drift
        while q < len(init):
            name = init[q]
            if init[q + 1] not in ('(', '{'): raise Drift("unsupported member initialiser")
            e = cxx2c.match_close(init, q + 1, init[q + 1], ')' if init[q + 1] == '(' else '}')
            pre += [name, T('=', name.line)] + init[q + 2:e] + [T(';', name.line)]
            F.hit('INITLIST'); q = e + 1
            if q < len(init) and init[q] == ',': q += 1
        body = pre + body
    orig = cxx2c.strip_pp(body)
    xf = part.xform or default_xform
    out = xf(list(body), F) if xf else cxx2c.strip_pp(body)
    info = dict(header='include/boost/msm/' + part.header, first_line=body[0].line if body else tk[o].line,
                last_line=tk[c].line, body_tokens=len(orig), body_sha256=cxx2c.sha(orig),
                verbatim_ratio=round(cxx2c.verbatim_ratio(orig, out), 3))
    return out, info

LOOP_KW = ('for', 'while', 'do')
def insert_loop_contracts(tk, loops):
    """loops: {ordinal: 'contract text'} ; ordinal counts for/while/do keywords in body order.
       for/while: text goes after the closing ')' of the header ; do: after the `while(...)` of the do."""
    if not loops: return tk
    out = []; i = 0; ordn = 0; pending_do = []
    n = len(tk); used = set()
    # find positions
    inserts = {}   # index after which to insert
    stack = []
    i = 0
    while i < n:
        t = tk[i]
        if t in ('for', 'while') and tk[i + 1:i + 2] == ['(']:
            e = cxx2c.match_close(tk, i + 1, '(', ')')
            # is this the tail of a do-while?  (preceded by '}' that closes a do block)
            is_tail = False
            if t == 'while' and stack and stack[-1][1] == i - 1:
                is_tail = True
            if is_tail:
                o = stack.pop()[0]
                if o in loops: inserts[e] = loops[o]; used.add(o)
            else:
                if ordn in loops: inserts[e] = loops[ordn]; used.add(ordn)
                ordn += 1
            i = e + 1; continue
        if t == 'do' and tk[i + 1:i + 2] == ['{']:
            e = cxx2c.match_close(tk, i + 1)
            if ordn in loops: inserts[i] = loops[ordn]; used.add(ordn)     # do-while: the contract follows the `do` keyword
            stack.append((-1, e)); ordn += 1
        i += 1
    if used != set(loops):
        raise Drift("loop contracts for ordinals %s could not be placed (found %d loops)" % (sorted(set(loops) - used), ordn))
    for i, t in enumerate(tk):
        out.append(t)
        if i in inserts:
            out.append(T('\n' + inserts[i] + '\n', t.line))
    return out

def count_loops(tk):
    return sum(1 for i, t in enumerate(tk) if (t in ('for', 'while') and tk[i + 1:i + 2] == ['(']) or (t == 'do' and tk[i + 1:i + 2] == ['{']))

def spec_contract_functions(spec_paths, defines):
    """names of functions declared with a contract in the spec files"""
    names = set()
    for p in spec_paths:
        txt = open(p).read()
        txt = re.sub(r'/\*.*?\*/', ' ', txt, flags=re.S)
        txt = re.sub(r'\\\n', ' ', txt)
        txt = re.sub(r'^[ \t]*#[^\n]*', ' ', txt, flags=re.M)
        # split into top-level declarations
        chunks = []; d = 0; cur = ''
        for ch in txt:
            if ch in '({': d += 1
            elif ch in ')}': d -= 1
            if (ch == ';' or ch == '}') and d == 0:
                chunks.append(cur); cur = ''
            else: cur += ch
        for c in chunks:
            k = re.search(r'__CPROVER_(requires|ensures|assigns)|\b[A-Z][A-Z0-9_]*_(PRE|POST|CONTRACT)\b', c)
            if not k: continue
            head = c[:k.start()]
            m = re.search(r'(\w+)\s*\((?:[^()]|\([^()]*\))*\)\s*$', head)
            if m: names.add(m.group(1))
    return names

def gen_harness(unit):
    m = re.match(r'\s*(.*?)\b(\w+)\s*\((.*)\)\s*$', unit.csig, re.S)
    ret, name, params = m.group(1).strip(), m.group(2), m.group(3).strip()
    decls = []; args = []
    if params and params != 'void':
        for k, p in enumerate(split_params(params)):
            p = p.strip()
            mm = re.match(r'(.*?)(\w+)\s*$', p, re.S)
            ty, nm = mm.group(1).strip(), mm.group(2)
            ty = re.sub(r'\bconst\b', '', ty).strip()
            decls.append('%s a%d;' % (ty, k)); args.append('a%d' % k)
    return 'void h_%s(void){ %s %s(%s); __CPROVER_assert(0, "canary: unit exit reachable"); }\n' % (
        name, ' '.join(decls), name, ', '.join(args))

def split_params(s):
    out = []; d = 0; cur = ''
    for ch in s:
        if ch in '([': d += 1
        elif ch in ')]': d -= 1
        if ch == ',' and d == 0: out.append(cur); cur = ''
        else: cur += ch
    if cur.strip(): out.append(cur)
    return out

def build_unit(unit, workdir):
    """extract + compose; returns dict(cfile, info, fired)"""
    os.makedirs(workdir, exist_ok=True)
    F = cxx2c.Fired()
    bodies = []; infos = []
    for (hdr, pat) in unit.must_contain:
        if not cxx2c.find_all(header_tokens(hdr), toks(pat)):
            raise Drift("%s no longer contains: %s" % (hdr, pat))
        F.hit('MUST-CONTAIN')
    for part in unit.parts:
        tk, info = extract_part(part, F, unit.xform)
        bodies.append(tk); infos.append(info)
    spec_paths = [os.path.join(CONTRACTS, s) for s in unit.spec]
    if unit.compose:
        # compose is text with @0 @1 .. placeholders
        segs = re.split(r'(@\d+)', unit.compose)
        body_txt = ''
        all_tk = []
        for s in segs:
            if re.fullmatch(r'@\d+', s):
                k = int(s[1:])
                btk = bodies[k]
                if k == 0 and unit.loops: btk = insert_loop_contracts(btk, unit.loops)     # loop contracts of a composed unit belong to part 0
                all_tk += btk
                body_txt += '\n' + cxx2c.emit(btk, infos[k]['header']) + '\n'
            else:
                body_txt += s
        if unit.loops and '@0' not in unit.compose:
            raise Drift("loop contracts with compose need part @0 in the body")
    else:
        btk = insert_loop_contracts(bodies[0], unit.loops)
        all_tk = btk
        body_txt = cxx2c.emit(btk, infos[0]['header'])
    idents_called = set(all_tk[i] for i in range(len(all_tk) - 1) if all_tk[i + 1] == '(')
    if unit.compose:
        for m in re.finditer(r'\b(\w+)\s*\(', re.sub(r'@\d+', '', unit.compose)): idents_called.add(m.group(1))
    for m in re.finditer(r'\b(\w+)\s*\(', unit.extra_c + ' '.join(unit.loops.values())): idents_called.add(m.group(1))
    if unit.file_scope:
        for k in set(int(x[1:]) for x in re.findall(r'@\d+', unit.file_scope)):
            btk = bodies[k]
            idents_called |= set(btk[i] for i in range(len(btk) - 1) if btk[i + 1] == '(')
    cfile = os.path.join(workdir, 'unit.c')
    with open(cfile, 'w') as f:
        f.write('/* generated by cxx2c from %s -- do not edit */\n' % ', '.join(i['header'] for i in infos))
        f.write('#include "prelude/common.h"\n')
        f.write(unit.pre_c + '\n')
        # ghost/extern declarations of the spec files are hoisted (C allows repeated extern declarations): no order problems
        hoist = []
        for sp in spec_paths:
            for line in open(sp):
                for d in line.split(';'):
                    d = d.strip()
                    if re.match(r'extern\s+(const\s+)?(int|_Bool|char|size_t|uint\d+_t|type_t|event_t|EventSource|unsigned long long|slist_t|stref_t)\s+[\w\s,\[\]]+$', d) or \
                       re.match(r'extern\s+(const\s+)?(void|fsm_t|int)\s*\*\s*(const\s+)?\w+$', d):
                        hoist.append(d + ';')
        for sp in spec_paths:
            for m in re.finditer(r'#ifndef (\w+)\n#define \1 ([^\n]*)\n#endif', open(sp).read()):
                hoist.insert(0, m.group(0))
        f.write('\n'.join(hoist) + '\n')
        for s in unit.spec:
            f.write('#include "%s"\n' % s)
        f.write(unit.extra_c + '\n')
        for a in unit.aux:
            txt, ainfo = extract_aux(a, F)
            infos.append(ainfo)
            f.write(txt)
        if unit.file_scope:
            fs = ''
            for seg in re.split(r'(@\d+)', unit.file_scope):
                if re.fullmatch(r'@\d+', seg):
                    k = int(seg[1:]); fs += '\n' + cxx2c.emit(bodies[k], infos[k]['header']) + '\n'
                else: fs += seg
            f.write(fs + '\n')
        f.write(unit.csig + '\n{\n' + body_txt + '\n#line 1 "unit_end"\n}\n')
        f.write(unit.harness or gen_harness(unit))
    for k, (lo, hi) in unit.fire.items():
        n = F.get(k, 0)
        if not (lo <= n <= hi):
            raise Drift("%s: rule %s fired %d times, expected [%d,%d]" % (unit.name, k, n, lo, hi))
    contract_fns = spec_contract_functions(spec_paths, unit.defines)
    if unit.replace == 'auto':
        macro_called = set()
        body_txt_all = body_txt
        for nm in unit.also_replace_if_present:
            # callee reached through a glue macro whose name is the upper-cased callee name
            if re.search(r'\b%s\b' % nm.upper(), body_txt_all): macro_called.add(nm)
        replace = sorted(((contract_fns & idents_called) | set(unit.also_replace) | macro_called) - {unit.enforce} - unit.no_replace)
    else:
        replace = list(unit.replace)
    return dict(cfile=cfile, infos=infos, fired=dict(F), replace=replace, n_loops=count_loops(all_tk))

def _limits(mem_gb):
    def f():
        resource.setrlimit(resource.RLIMIT_AS, (mem_gb << 30, mem_gb << 30))
    return f

def run(cmd, cwd, timeout, log, mem_gb=8):
    t0 = time.time()
    try:
        p = subprocess.run(cmd, cwd=cwd, stdout=subprocess.PIPE, stderr=subprocess.STDOUT, timeout=timeout,
                           preexec_fn=_limits(mem_gb))
        out = p.stdout.decode('utf-8', 'replace'); rc = p.returncode
    except subprocess.TimeoutExpired as e:
        out = (e.stdout or b'').decode('utf-8', 'replace') + '\n[timeout %ss]' % timeout; rc = -9
    with open(log, 'a') as f:
        f.write('$ ' + ' '.join(cmd) + '\n' + out + '\n[rc=%s, %.2fs]\n' % (rc, time.time() - t0))
    return rc, out, time.time() - t0

_label_cache = {}
def labels_of(path):
    if path not in _label_cache:
        d = {}
        try:
            for n, line in enumerate(open(path), 1):
                m = re.search(r'/\*@ob\s+([^*]+?)\s*\*/', line)
                if m: d[n] = m.group(1).strip()
        except OSError:
            pass
        _label_cache[path] = d
    return _label_cache[path]

def verify_unit(unit, workdir, tier='quick'):
    """returns a result dict; raises nothing: undecided states are reported in result['undecided']"""
    res = dict(unit=unit.name, backend=unit.backend, props=unit.props, checks=[], undecided=None,
               solver_time_s=0.0, bounded=unit.bounded, enforce=unit.enforce)
    log = os.path.join(workdir, 'log.txt')
    try:
        if os.path.isdir(workdir): shutil.rmtree(workdir)
        os.makedirs(workdir)
        b = build_unit(unit, workdir)
    except Drift as e:
        res['undecided'] = 'extraction drift: %s' % e
        return res
    res.update(extract=b['infos'], rules_fired=b['fired'], replaced=b['replace'], cfile=b['cfile'])
    try:      # mechanical scan: every assume in the text handed to the verifier (contracts, models, harness) is an assumption, never proof
        txt = open(b['cfile']).read()
        inc = re.findall(r'#include "([^"]+)"', txt)
        for h in inc:
            hp = os.path.join(CONTRACTS, h)
            if os.path.exists(hp): txt += '\n' + open(hp).read()
        res['assume_statements'] = sorted(set(re.sub(r'\s+', ' ', m)[:160] for m in re.findall(r'__CPROVER_assume\s*\([^;]*;', txt)))
    except OSError:
        res['assume_statements'] = None
    timeout = unit.timeout or (180 if tier == 'quick' else 900)
    defs = ['-D' + d for d in unit.defines] + ['-DCBMC_VERIF']
    if tier == 'thorough': defs.append('-DTHOROUGH')
    h = 'h_' + unit.cname
    rc, out, _ = run(['goto-cc', '--verbosity', '2', '--function', h, '-I', CONTRACTS] + defs + ['unit.c', '-o', 'a.gb'], workdir, 120, log)
    if rc != 0:
        res['undecided'] = 'extracted unit does not compile as C (extraction drift or unmodelled syntax): ' + first_error(out)
        return res
    und = [f for f in re.findall(r"function '([^']+)' is not declared", out) if f not in ('memcpy', 'memset', 'memmove', 'memcmp')]   # CBMC's own library models
    if und:     # C would accept the call and CBMC would treat it as a no-op returning anything: never verify against that
        res['undecided'] = 'extraction drift: the extracted unit calls function(s) no contract or model declares: ' + ', '.join(sorted(set(und)))
        return res
    gi = ['goto-instrument', '--dfcc', h, '--enforce-contract-rec' if unit.rec else '--enforce-contract', unit.enforce]
    for r in b['replace']:
        gi += ['--replace-call-with-contract', r]
    if (b['n_loops'] and unit.loops) or unit.force_loop_contracts:
        gi += ['--apply-loop-contracts']
    gi += ['a.gb', 'b.gb']
    if unit.mode == 'bounded':
        shutil.copy(os.path.join(workdir, 'a.gb'), os.path.join(workdir, 'b.gb'))
        gi = ['(bounded stand-in: no contract instrumentation)', 'a.gb', 'b.gb']
    else:
        rc, out, _ = run(gi, workdir, 300, log)
        if rc != 0:
            res['undecided'] = 'goto-instrument failed: ' + first_error(out)
            return res
    if unit.loops and 'loop_invariant' not in ' '.join(unit.loops.values()):
        pass
    cb = ['cbmc', 'b.gb', '--bounds-check', '--pointer-check', '--json-ui', '--trace'] + ([] if '--no-signed-overflow-check' in unit.cbmc_flags else ['--signed-overflow-check']) + unit.cbmc_flags
    if unit.unwind:
        uw = unit.unwind[tier] if isinstance(unit.unwind, dict) else unit.unwind
        cb += ['--unwind', str(uw), '--unwinding-assertions']
    if unit.smt: cb += ['--' + unit.smt]
    res['checker_cmd'] = ' '.join(gi[:-2]) + ' ; ' + ' '.join(x for x in cb if x != 'b.gb')
    rc, out, dt = run(cb, workdir, timeout, os.devnull, mem_gb=12)
    res['solver_time_s'] = round(dt, 2)
    with open(os.path.join(workdir, 'cbmc.json'), 'w') as f: f.write(out)
    if rc == -9:
        res['undecided'] = 'solver timeout after %ss' % timeout
        return res
    try:
        js = json.loads(out)
    except Exception:
        res['undecided'] = 'cbmc output not parseable (rc=%s): %s' % (rc, out[-300:].replace('\n', ' '))
        return res
    results = None; msgs = []
    for x in js:
        if isinstance(x, dict):
            if 'result' in x: results = x['result']
            if x.get('messageType') in ('ERROR', 'WARNING'): msgs.append(x.get('messageText', ''))
    if results is None:
        res['undecided'] = 'cbmc gave no results (rc=%s): %s' % (rc, ' | '.join(msgs)[-400:])
        return res
    if any('ignoring forall' in m or 'ignoring exists' in m for m in msgs):
        res['undecided'] = 'solver ignored a quantifier'
        return res
    canary_failed = False; canary_seen = False
    for r in results:
        loc = r.get('sourceLocation', {}) or {}
        f = loc.get('file', ''); line = int(loc.get('line', 0) or 0)
        desc = r.get('description', '')
        if desc.startswith('canary:'):
            canary_seen = True; canary_failed = (r['status'] == 'FAILURE'); continue
        label = None
        if f:
            p = f if os.path.isabs(f) else os.path.normpath(os.path.join(workdir, f))
            if not os.path.exists(p): p = os.path.join(CONTRACTS, f)
            label = labels_of(p).get(line)
        if not label:
            m = re.match(r'(C\d\d[\w,]*\.[\w-]+)', desc)
            if m: label = m.group(1)
        chk = dict(id=r['property'], status=r['status'], desc=desc, file=f, line=line, label=label,
                   function=loc.get('function', ''))
        if r['status'] == 'FAILURE' and 'trace' in r:
            chk['trace'] = summarize_trace(r['trace'])
        res['checks'].append(chk)
    res['canary'] = 'failed-as-expected' if canary_failed else 'NOT-REACHED'
    if not canary_failed and (unit.mode != 'bounded' or canary_seen):
        res['undecided'] = 'vacuity guard: canary after the unit call is unreachable (contradictory requires?)'
    if unit.loops or unit.force_loop_contracts:
        if not any('loop_invariant' in c['id'] or 'loop invariant' in c['desc'] for c in res['checks']):
            res['undecided'] = 'loop contract silently dropped (no loop-invariant checks generated)'
    # unwinding assertion failure => bound too small => undecided
    for c in res['checks']:
        if c['status'] == 'FAILURE' and 'unwind' in c['id']:
            res['undecided'] = 'unwinding assertion failed (bound too small): ' + c['id']
    return res

def first_error(out):
    ls = [l for l in out.splitlines() if re.search(r'error|Error|invariant|failed|CONVERSION|PARSING', l)]
    return (ls[0] if ls else out[-300:]).strip()[:400]

def summarize_trace(trace):
    """keep assignments to named program variables (inputs, ghost state, stub return values)"""
    out = []
    for st in trace:
        if st.get('stepType') == 'assignment' and not st.get('hidden'):
            lhs = st.get('lhs', '')
            if lhs.startswith('__CPROVER') or lhs.startswith('__dfcc') or 'return_value___' in lhs: continue
            v = st.get('value', {})
            val = v.get('data', v.get('name'))
            loc = st.get('sourceLocation', {}) or {}
            out.append(dict(lhs=lhs, value=val, fn=loc.get('function'), line=loc.get('line'), file=loc.get('file')))
        elif st.get('stepType') == 'failure':
            loc = st.get('sourceLocation', {}) or {}
            out.append(dict(failure=st.get('reason'), fn=loc.get('function'), line=loc.get('line'), file=loc.get('file')))
    return out[-120:]
