"""C13 pair table check: both kernels of a pair discharged everything, and the labelled clauses of the two contract functions
are textually identical (after the listed renamings) -- same contract on both sides."""
import os, re
VERIF = os.path.dirname(os.path.dirname(os.path.abspath(__file__)))

def labelled_clauses(spec, fn):
    txt = open(os.path.join(VERIF, 'contracts', spec)).read()
    m = re.search(r'^[A-Za-z_][\w \*]*\b%s\s*\([^;{}]*?\)\s*\n(?:#[^\n]*\n)*__CPROVER_' % re.escape(fn), txt, re.M)
    out = {}
    if not m: return None
    # the declaration runs until the first line that is just ';'
    end = txt.find('\n;', m.start())
    for line in txt[m.start():end].splitlines():
        k = re.search(r'/\*@ob\s+([^*]+?)\s*\*/', line)
        if k:
            clause = re.sub(r'/\*.*?\*/', '', line)
            clause = re.sub(r'\s+', '', clause)
            out[k.group(1).split('.', 1)[-1]] = clause
    return out

def norm(c, ren):
    for a, b in ren: c = c.replace(a, b)
    c = re.sub(r'\b(self|fsm|sm)\b', 'M', c)
    c = c.replace('region_index', 'R').replace('region_id', 'R')
    return c

def check_pairs(results):
    from units.pairs import PAIRS, REN
    by = {r['unit']: r for r in results}
    rep = dict(pairs=[], undecided=[])
    for a, b, (sa, fa), (sb, fb) in PAIRS:
        name = a + ' ~ ' + b
        ra, rb = by.get(a), by.get(b)
        if ra is None or rb is None:
            rep['undecided'].append(dict(pair=name, reason='unit missing')); continue
        ca, cb = labelled_clauses(sa, fa), labelled_clauses(sb, fb)
        if ca is None or cb is None:
            rep['undecided'].append(dict(pair=name, reason='contract function not found in spec')); continue
        common = sorted(set(ca) & set(cb))
        diff = [l for l in common if norm(ca[l], REN) != norm(cb[l], REN)]
        fa_ = sum(1 for c in ra['checks'] if c['status'] == 'FAILURE'); fb_ = sum(1 for c in rb['checks'] if c['status'] == 'FAILURE')
        rep['pairs'].append(dict(pair=name, common_obligations=len(common), only_left=sorted(set(ca) - set(cb)), only_right=sorted(set(cb) - set(ca)),
                                 clause_text_differs=diff, failed_left=fa_, failed_right=fb_))
        if not common:
            rep['undecided'].append(dict(pair=name, reason='no common labelled obligation'))
    return rep
