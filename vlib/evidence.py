"""classification of CBMC checks into obligations / known findings / violations, and the evidence file"""
import os, json, re
VERIF = os.path.dirname(os.path.dirname(os.path.abspath(__file__)))
EVDIR = os.environ.get('VERIF_EVIDENCE_DIR') or os.path.join(VERIF, 'evidence')

def label_props(label):
    if not label: return None
    head = label.split('.', 1)[0]
    ps = [p for p in head.split(',') if re.fullmatch(r'C\d\d', p)]
    return ps or None

def classify(prop, results, kf):
    v = dict(obligations=0, discharged=0, bounded_checks=0, bounded_ok=0, violations=[], known=[], undecided=[],
             other_property_failures=[], samples=[])
    for r in results:
        if r['undecided']:
            v['undecided'].append(dict(unit=r['unit'], reason=r['undecided']))
            continue
        for c in r['checks']:
            lp = label_props(c['label'])
            if prop == 'C13' and lp is not None: lp = lp + ['C13']     # C13: every obligation of a paired kernel counts (same contract on both sides)
            if lp is not None and prop not in lp:
                if c['status'] == 'FAILURE':
                    v['other_property_failures'].append(dict(unit=r['unit'], label=c['label']))
                continue
            ob = "%s.%s.%s" % (prop, r['unit'], (c['label'].split('.', 1)[-1] if c['label'] else c['id']))
            if c['status'] == 'SUCCESS':
                if r['bounded']:
                    v['bounded_checks'] += 1; v['bounded_ok'] += 1
                else:
                    v['obligations'] += 1; v['discharged'] += 1
                if c['label'] and lp and len(v['samples']) < 12 and not any(s['obligation'] == ob for s in v['samples']):
                    v['samples'].append(dict(obligation=ob, check=c['id'], clause_at='%s:%d' % (os.path.basename(c['file']), c['line']), status='SUCCESS'))
                continue
            if c['status'] != 'FAILURE':
                # UNKNOWN: cbmc did not decide this check (it depends on another, failing check of the same unit);
                # reported as undecided only if the unit has no failing check at all
                if not any(x['status'] == 'FAILURE' for x in r['checks']):
                    v['undecided'].append(dict(unit=r['unit'], reason='check %s has status %s' % (c['id'], c['status'])))
                continue
            hit = None
            for f in kf['findings']:
                if f.matches_check(prop, r['unit'], c['label'], c['id']): hit = f; break
            if hit:
                v['known'].append("unit=%s ob=%s %s" % (r['unit'], c['label'] or c['id'], hit.text()))
                continue
            if r['bounded']: v['bounded_checks'] += 1
            else: v['obligations'] += 1
            v['violations'].append(dict(unit=r['unit'], obligation=ob, check=c['id'], label=c['label'], desc=c['desc'],
                                        file=c['file'], line=c['line'], trace=c.get('trace', []), cfile=r.get('cfile'),
                                        bounded=r['bounded']))
    return v

EXTRACTION_DROPS = ("extraction (cxx2c) drops or re-expresses exactly: template headers and typename/template keywords; namespace "
    "qualifiers; the compile-time/run-time distinction (type arguments become type_t values, metafunctions become uninterpreted "
    "functions, tag-dispatch overloads and specialisations become if, if constexpr becomes if on a symbolic constant); reference "
    "syntax (-> pointers); C++ casts; closure objects of immediately invoked lambdas; exception control flow (explicit g_exc flag "
    "and early return); container/string_view/bind member syntax (mapped to contract stubs); attributes and inline/static/constexpr/"
    "noexcept. Every other token of each body is copied from /repo on this run.")

def write(prop, tier, seed, results, verdict, monitors, wall, rc, units):
    os.makedirs(EVDIR, exist_ok=True)
    ulist = []; trusted = set(); cmds = set(); assumptions = set()
    for r in results:
        ex = r.get('extract') or []
        n_all = len(r['checks']); n_fail = sum(1 for c in r['checks'] if c['status'] == 'FAILURE')
        ulist.append(dict(unit=r['unit'], backend=r['backend'], function_under_contract=r.get('enforce'),
                          source=[dict(header=e['header'], lines='%s-%s' % (e['first_line'], e['last_line']), body_sha256=e['body_sha256'][:16],
                                       verbatim_ratio=e['verbatim_ratio']) for e in ex],
                          rules_fired=r.get('rules_fired'), callees_replaced_by_contract=r.get('replaced'),
                          checks=n_all, failed=n_fail, solver='cbmc 6.11.0 SAT (default)' if 'smt' not in (r.get('checker_cmd') or '') else 'smt',
                          solver_time_s=r['solver_time_s'], canary=r.get('canary'), bounded=r['bounded'], undecided=r['undecided'],
                          assume_statements=r.get('assume_statements')))
        if r.get('checker_cmd'): cmds.add(re.sub(r'h_\w+', 'h_<unit>', re.sub(r'--enforce-contract(-rec)? \w+', r'--enforce-contract\1 <unit>', re.sub(r'( --replace-call-with-contract \w+)+', ' --replace-call-with-contract <callee>...', r['checker_cmd']))))
    for u in units:
        for t in getattr(u, 'trusted', []) or []: trusted.add(t)
        if u.notes: assumptions.add(u.notes)
    vr = [e['verbatim_ratio'] for r in results for e in (r.get('extract') or []) if 'aux' not in e]
    cov = dict(
        obligations=verdict['obligations'], discharged=verdict['discharged'],
        checker_cmd=' || '.join(sorted(cmds)) or 'none',
        trusted_base=sorted(trusted | {
            "cxx2c rule table (DESIGN.md 3.2): the verified text is a mechanical token-level re-expression of each function body, regenerated from /repo on every run",
            "CBMC 6.11.0 (goto-cc, goto-instrument --dfcc, cbmc with built-in SAT back end)",
            "callee contracts listed per unit under callees_replaced_by_contract: user behaviours and library/STL/Boost dependencies are assumed contracts; msm's own callees are units proved against the same contract text"}),
        functions_under_contract=len(ulist),
        units=ulist,
        samples=verdict['samples'] or [dict(note='no labelled obligation in this run')],
        bounded=dict(checks=verdict['bounded_checks'], passed=verdict['bounded_ok'],
                     units=[dict(unit=r['unit'], bound=r['bounded']) for r in results if r['bounded']],
                     note='bounded stand-ins are NOT counted in obligations/discharged'),
        known_findings=verdict['known'],
        undecided=verdict['undecided'],
        min_verbatim_ratio=min(vr) if vr else None,
        solver_time_s=round(sum(r['solver_time_s'] for r in results), 2),
        canaries_failed_as_expected=sum(1 for r in results if r.get('canary') == 'failed-as-expected'),
        explanation="contracts are enforced per function (goto-instrument --dfcc --enforce-contract); callers are checked against callee "
                    "contracts only (--replace-call-with-contract); loops are closed by loop contracts or recursion contracts; "
                    "exit code of this run: %d" % rc)
    if verdict.get('selftest') is not None:
        cov['mutation_selftest'] = verdict['selftest']
    if verdict.get('pairs') is not None:
        cov['equivalence_pairs'] = verdict['pairs']
    if monitors is not None:
        cov['assumption_monitor'] = dict(families=monitors['families'], scenarios=monitors['scenarios'], failures=len(monitors['violations']),
                                         note='executions of real msm machines on a finite family; never counted as obligations')
    ev = dict(property_id=prop, tier=tier, seed=seed, level='proof', coverage=cov,
              assumptions=sorted(assumptions | {EXTRACTION_DROPS,
                  "termination is not proved",
                  "machine integers are bit-precise C integers as on x86-64 Linux (char signed 8 bit, int 32 bit)",
                  "compile-time metaprograms (which rows exist for a state/event and their order, state ids, region assignment, event-type matching) are outside any contract; they enter as symbolic constants / uninterpreted functions",
                  "user behaviours (guards, actions, entry/exit), std::deque, boost::circular_buffer, boost::function/bind, boost::any are assumed contracts"}),
              wall_s=round(wall, 2), violations=len(verdict['violations']) + (len(monitors['violations']) if monitors else 0))
    with open(os.path.join(EVDIR, prop + '.json'), 'w') as f:
        json.dump(ev, f, indent=1)
