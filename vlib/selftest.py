"""thorough-tier self-test: every built-in mutant of the property must be rejected (DESIGN 3.3)"""
import os, re, shutil, subprocess, sys, tempfile
VERIF = os.path.dirname(os.path.dirname(os.path.abspath(__file__)))
def run(prop, jobs=4):
    from units.mutants import MUTANTS
    res = dict(mutants=0, rejected=0, survivors=[], skipped=[])
    for (p, hdr, rx, rep, unit, label) in MUTANTS:
        if p != prop: continue
        tmp = tempfile.mkdtemp(prefix='msm_self_')
        try:
            shutil.copytree(os.path.join(os.environ.get('VERIF_REPO', '/repo'), 'include'), os.path.join(tmp, 'include'))
            f = os.path.join(tmp, 'include/boost/msm', hdr)
            s = open(f).read()
            s2, n = re.subn(rx, rep, s, count=1, flags=re.S)
            if n != 1 or s2 == s:
                res['skipped'].append(dict(header=hdr, reason='pattern no longer matches the source (the tree changed here)')); continue
            open(f, 'w').write(s2)
            res['mutants'] += 1
            env = dict(os.environ, VERIF_REPO=tmp, VERIF_EVIDENCE_DIR=os.path.join(tmp, 'ev'), VERIF_BUILD_TAG='self_' + os.path.basename(tmp), VERIF_NO_NATIVE='1')
            r = subprocess.run([os.path.join(VERIF, 'check'), prop, '--unit', unit, '--tier', 'quick'], env=env, stdout=subprocess.PIPE, stderr=subprocess.STDOUT)
            out = r.stdout.decode('utf-8', 'replace')
            hit = r.returncode == 1 and (not label or label in out)
            if hit: res['rejected'] += 1
            else: res['survivors'].append(dict(header=hdr, unit=unit, expected=label, exit=r.returncode, tail=out[-300:]))
        finally:
            shutil.rmtree(tmp, ignore_errors=True)
            shutil.rmtree(os.path.join(VERIF, 'build', 'self_' + os.path.basename(tmp)), ignore_errors=True)
    # harmless edits: the property's quick check must stay green
    from units.mutants import HARMLESS
    res['harmless'] = 0; res['harmless_red'] = []
    for (hdr, subs, props) in HARMLESS:
        if prop not in props: continue
        tmp = tempfile.mkdtemp(prefix='msm_harmless_')
        try:
            shutil.copytree(os.path.join(os.environ.get('VERIF_REPO', '/repo'), 'include'), os.path.join(tmp, 'include'))
            f = os.path.join(tmp, 'include/boost/msm', hdr); s = open(f).read(); missed = 0
            for rx, rep in subs:
                s, n = re.subn(rx, rep, s); missed += (n == 0)
            if missed:
                res['skipped'].append(dict(header=hdr, reason='harmless-edit pattern no longer matches the source')); continue
            open(f, 'w').write(s)
            res['harmless'] += 1
            env = dict(os.environ, VERIF_REPO=tmp, VERIF_EVIDENCE_DIR=os.path.join(tmp, 'ev'), VERIF_BUILD_TAG='self_' + os.path.basename(tmp), VERIF_NO_NATIVE='1')
            r = subprocess.run([os.path.join(VERIF, 'check'), prop, '--tier', 'quick'], env=env, stdout=subprocess.PIPE, stderr=subprocess.STDOUT)
            if r.returncode != 0: res['harmless_red'].append(dict(header=hdr, exit=r.returncode, tail=r.stdout.decode('utf-8', 'replace')[-300:]))
        finally:
            shutil.rmtree(tmp, ignore_errors=True)
            shutil.rmtree(os.path.join(VERIF, 'build', 'self_' + os.path.basename(tmp)), ignore_errors=True)
    return res
