/* dispatch_mp11.spec.h -- backmp11 favor_runtime_speed dispatch_impl<flat_fold> vs dispatch_impl<function_pointer_array> (C13, C06, C07)
   dispatch_spec (same contract for both strategies): the merged transition whose source state is the region's active state is
   executed exactly once with the same event and its result returned; if there is none the result is HANDLED_FALSE.
   merged_transitions has g_m elements (one per source state [A: compile time]); the one whose source is the active state of the
   region sits at ghost position g_wit (outside 0..g_m-1 if there is none).                                                     */
extern const int g_m, g_wit;
extern const _Bool g_has_transitions, g_has_internal_transitions, g_has_forward_transitions;   /* compile-time facts of the enclosing dispatch_table: free symbolic constants */
extern const event_t g_evt;
extern int g_calls, g_ret;
extern const _Bool g_kleene;                /* is_kleene_event<Transition::transition_event> for the selected transition */
#define mp_size(L) g_m
#define IN_LIST (0 <= g_wit && g_wit < g_m)
#define MAX_STATE NSTATE_CAP
int src_id_of(fsm_t* sm, uint8_t region_id, type_t transition)
__CPROVER_requires(0 <= transition && transition < g_m)
__CPROVER_assigns()
__CPROVER_ensures((__CPROVER_return_value == sm->m_active_state_ids[region_id]) == (transition == g_wit))
;
process_result Transition_execute(type_t tr, fsm_t* sm, uint8_t region_id, event_t event)
__CPROVER_requires(tr == g_wit)                                                  /*@ob C06,C07,C13.only-the-transition-of-the-active-state-is-executed */
__CPROVER_requires(g_calls == 0)                                                 /*@ob C13.executed-exactly-once */
__CPROVER_requires(EV_EQ(event, g_evt))                                          /*@ob C18,C06.same-event-and-payload-dispatched */
__CPROVER_assigns(g_calls, g_ret)
__CPROVER_ensures(g_calls == 1 && 0 <= g_ret && g_ret <= 7 && (int)__CPROVER_return_value == g_ret)
;
#define convert_event_and_execute(tr, sm, r, e) Transition_execute(tr, sm, r, e)     /* Kleene conversion: kleene.spec.h unit */
#define is_kleene_event(T) g_kleene
/* function_pointer_array: cells[state_id] is the cell of the merged transition with that source id, or null [A: make_cells_from] */
typedef int cell_t;
cell_t cells_at(fsm_t* sm, uint8_t region_id, int state_id)
__CPROVER_requires(state_id == sm->m_active_state_ids[region_id] && 0 <= state_id && state_id < MAX_STATE)   /*@ob C06,C07.cell-of-the-regions-active-state-read-in-bounds */
__CPROVER_assigns()
__CPROVER_ensures(__CPROVER_return_value == (IN_LIST ? g_wit + 1 : 0))
;
process_result cell_call(cell_t cell, fsm_t* sm, uint8_t region_id, event_t event)
__CPROVER_requires(cell == g_wit + 1 && IN_LIST)                                 /*@ob C06,C07,C13.only-the-transition-of-the-active-state-is-executed */
__CPROVER_requires(g_calls == 0)                                                 /*@ob C13.executed-exactly-once */
__CPROVER_requires(EV_EQ(event, g_evt))                                          /*@ob C18,C06.same-event-and-payload-dispatched */
__CPROVER_assigns(g_calls, g_ret)
__CPROVER_ensures(g_calls == 1 && 0 <= g_ret && g_ret <= 7 && (int)__CPROVER_return_value == g_ret)
;
process_result dispatch(fsm_t* sm, uint8_t region_id, event_t event)
__CPROVER_requires(__CPROVER_is_fresh(sm, sizeof(*sm)) && region_id < NR_CAP && sm->m_active_state_ids[region_id] < MAX_STATE && 0 <= g_m && g_m <= 1000000 && g_calls == 0 && EV_EQ(event, g_evt))
__CPROVER_assigns(g_calls, g_ret)
__CPROVER_ensures(g_calls == (IN_LIST ? 1 : 0))                                                                  /*@ob C13.executed-exactly-once */
__CPROVER_ensures((int)__CPROVER_return_value == (IN_LIST ? g_ret : HANDLED_FALSE))                              /*@ob C06,C13.result-of-the-selected-transition-or-false */
;
