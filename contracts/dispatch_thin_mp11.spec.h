/* dispatch_thin_mp11.spec.h -- backmp11: the thin static entry functions of the dispatch tables (both compile policies).  They decide WHICH
   table / cell an event goes to: the region's ACTIVE state id, the machine's own internal table, and HANDLED_FALSE when the machine has
   no rows at all (C06: each region reacts from its own active state; C01: internal table of this machine) */
extern const event_t g_evt; extern const _Bool g_has_transitions, g_has_forward_transitions, g_has_internal; extern const uint8_t g_region;
extern int g_dcalls, g_dret;
#if UNIT_RTS_DISPATCH
process_result impl_dispatch(fsm_t* sm, uint8_t region_id, event_t event)          /* dispatch_impl<strategy>::dispatch: units dispatch_mp11.spec.h */
__CPROVER_requires((g_has_transitions || g_has_forward_transitions) && g_dcalls == 0 && region_id == g_region && EV_EQ(event, g_evt))   /*@ob C06.region-dispatched-once-with-its-own-region-id-and-the-event */
__CPROVER_assigns(g_dcalls, g_dret)
__CPROVER_ensures(g_dcalls == 1 && 0 <= g_dret && g_dret <= 7 && (int)__CPROVER_return_value == g_dret)
;
process_result rts_dispatch(fsm_t* sm, uint8_t region_id, event_t event)
__CPROVER_requires(region_id == g_region && EV_EQ(event, g_evt) && g_dcalls == 0)
__CPROVER_assigns(g_dcalls, g_dret)
__CPROVER_ensures((int)__CPROVER_return_value == ((g_has_transitions || g_has_forward_transitions) ? g_dret : HANDLED_FALSE))   /*@ob C06.result-of-the-regions-cell-or-false-if-the-machine-has-no-rows */
;
#endif
#if UNIT_RTS_INTERNAL
process_result internal_chain_execute(fsm_t* sm, event_t event)
__CPROVER_requires(g_has_internal && g_dcalls == 0 && EV_EQ(event, g_evt))       /*@ob C01.internal-table-of-this-machine-tried-once-with-the-event */
__CPROVER_assigns(g_dcalls, g_dret)
__CPROVER_ensures(g_dcalls == 1 && 0 <= g_dret && g_dret <= 7 && (int)__CPROVER_return_value == g_dret)
;
process_result rts_internal_dispatch(fsm_t* sm, event_t event)
__CPROVER_requires(EV_EQ(event, g_evt) && g_dcalls == 0)
__CPROVER_assigns(g_dcalls, g_dret)
__CPROVER_ensures((int)__CPROVER_return_value == (g_has_internal ? g_dret : HANDLED_FALSE))                /*@ob C01.result-of-the-internal-table-or-false-if-there-is-none */
;
#endif
#if UNIT_CT_DISPATCH
process_result state_table_dispatch(uint16_t state_id, fsm_t* sm, uint8_t region_id, event_t event)   /* self.m_state_dispatch_tables[state_id].dispatch(sm, region_id, event): its own unit */
__CPROVER_requires(state_id == sm->m_active_state_ids[region_id])                 /*@ob C06,C03,C01.region-reacts-from-its-own-active-state */
__CPROVER_requires(g_dcalls == 0 && region_id == g_region && EV_EQ(event, g_evt))
__CPROVER_assigns(g_dcalls, g_dret)
__CPROVER_ensures(g_dcalls == 1 && 0 <= g_dret && g_dret <= 7 && (int)__CPROVER_return_value == g_dret)
;
process_result ct_dispatch(fsm_t* sm, uint8_t region_id, event_t event)
__CPROVER_requires(__CPROVER_is_fresh(sm, sizeof(*sm)) && region_id == g_region && region_id < NR_CAP && EV_EQ(event, g_evt) && g_dcalls == 0)
__CPROVER_assigns(g_dcalls, g_dret)
__CPROVER_ensures(g_dcalls == 1 && (int)__CPROVER_return_value == g_dret)                                  /*@ob C06.result-of-the-active-states-table */
;
#endif
#if UNIT_CT_INTERNAL
process_result internal_table_dispatch(fsm_t* sm, event_t event)
__CPROVER_requires(g_has_internal && g_dcalls == 0 && EV_EQ(event, g_evt))       /*@ob C01.internal-table-of-this-machine-tried-once-with-the-event */
__CPROVER_assigns(g_dcalls, g_dret)
__CPROVER_ensures(g_dcalls == 1 && 0 <= g_dret && g_dret <= 7 && (int)__CPROVER_return_value == g_dret)
;
process_result ct_internal_dispatch(fsm_t* sm, event_t event)
__CPROVER_requires(EV_EQ(event, g_evt) && g_dcalls == 0)
__CPROVER_assigns(g_dcalls, g_dret)
__CPROVER_ensures((int)__CPROVER_return_value == (g_has_internal ? g_dret : HANDLED_FALSE))                /*@ob C01.result-of-the-internal-table-or-false-if-there-is-none */
;
#endif
#if UNIT_CT_ITABLE
extern const _Bool g_has_chain;
process_result ichain_execute(fsm_t* sm, event_t event)
__CPROVER_requires(g_has_chain && g_dcalls == 0 && EV_EQ(event, g_evt))          /*@ob C01.internal-chain-of-the-events-type-tried-once */
__CPROVER_assigns(g_dcalls, g_dret)
__CPROVER_ensures(g_dcalls == 1 && 0 <= g_dret && g_dret <= 7 && (int)__CPROVER_return_value == g_dret)
;
process_result itable_dispatch(fsm_t* sm, event_t event)
__CPROVER_requires(EV_EQ(event, g_evt) && g_dcalls == 0)
__CPROVER_assigns(g_dcalls, g_dret)
__CPROVER_ensures((int)__CPROVER_return_value == (g_has_chain ? g_dret : HANDLED_FALSE))                   /*@ob C01.result-of-the-internal-chain-or-false-if-no-row-has-this-trigger */
;
#endif
