/* deferred.spec.h -- deferral units proved by contract (C05, C18 payload; C13 shared obligations)
   back/back11: defer_event, defer_transition, do_handle_prio_msg_queue_deferred_queue (x2)
   backmp11:    is_event_deferred_visitor::operator(), deferred_event::try_process_impl, do_defer_event           */
extern const event_t g_evt;
extern int g_dpushed;                     /* occurrences stored in the deferred queue / event pool by this call */
extern int g_order;                       /* 0 start, 1 first pass done, 2 second pass done */
extern const _Bool g_no_msg_queue;
#define is_no_message_queue(T) g_no_msg_queue
#define bool_(x) (x)
extern const type_t library_sm;
extern const _Bool g_queue_first; extern const EventSource g_source; extern const int g_handled;
extern _Bool g_marked; extern uint16_t g_stored_seq;
extern int g_ndisp; extern const _Bool g_deferred_now; extern int g_ret;
typedef struct { fsm_t* target; event_t ev; EventSource src; } dcall_t;
static dcall_t mk_call(fsm_t* t, event_t e, EventSource s) { dcall_t c; c.target = t; c.ev = e; c.src = s; return c; }
typedef struct { dcall_t first; char second; } dpair_t;
static dpair_t make_pair(dcall_t c, char s) { dpair_t p; p.first = c; p.second = s; return p; }

/* ---------------- back / back11 ---------------- */
extern char g_cur_seq;                    /* m_deferred_events_queue.m_cur_seq */
#define CUR_SEQ(self) g_cur_seq
void dq_push_back(fsm_t* self, dpair_t p)
__CPROVER_requires(p.first.target == self)                                       /*@ob C05,C07.deferred-occurrence-stored-for-this-machine */
__CPROVER_requires(EV_EQ(p.first.ev, g_evt))                                     /*@ob C05,C18.deferred-occurrence-keeps-type-and-payload */
__CPROVER_requires((p.first.src & EVENT_SOURCE_DEFERRED) != 0 && (p.first.src & EVENT_SOURCE_DIRECT) != 0)   /*@ob C05.re-offered-as-a-deferred-direct-event */
__CPROVER_requires(p.second == (char)(g_cur_seq + 1))                            /*@ob C05.not-re-offered-within-the-cycle-that-deferred-it */
__CPROVER_requires(g_dpushed == 0)                                               /*@ob C05,C20.exactly-one-occurrence-stored */
__CPROVER_assigns(g_dpushed)
__CPROVER_ensures(g_dpushed == 1)
;
void defer_event(fsm_t* self, event_t e)
__CPROVER_requires(__CPROVER_is_fresh(self, sizeof(*self)) && EV_EQ(e, g_evt) && g_dpushed == 0)
__CPROVER_assigns(g_dpushed)
__CPROVER_ensures(g_dpushed == 1)                                                /*@ob C05,C20.exactly-one-occurrence-stored */
;
HandledEnum defer_transition(fsm_t* fsm, int region, int state, event_t e)
__CPROVER_requires(__CPROVER_is_fresh(fsm, sizeof(*fsm)) && EV_EQ(e, g_evt) && g_dpushed == 0)
__CPROVER_assigns(g_dpushed)
__CPROVER_ensures(g_dpushed == 1)                                                /*@ob C05,C20.exactly-one-occurrence-stored */
__CPROVER_ensures(__CPROVER_return_value == HANDLED_DEFERRED)                    /*@ob C05,C06.deferral-reports-deferred-so-no-no_transition */
;
/* do_handle_prio_msg_queue_deferred_queue(source, handled, bool_<has_event_queue_before_deferred_queue>) */
void do_handle_deferred(fsm_t* self, _Bool new_seq)
__CPROVER_requires(g_order == (g_queue_first ? 1 : 0))                           /*@ob C05,C04.deferred-pass-before-the-message-queue-by-default */
__CPROVER_requires((g_source & EVENT_SOURCE_DEFERRED) == 0)                      /*@ob C05.no-nested-deferred-pass-while-dispatching-a-deferred-event */
__CPROVER_requires(new_seq == ((g_handled & HANDLED_TRUE) != 0))                 /*@ob C05.new-cycle-only-after-a-taken-transition */
__CPROVER_assigns(g_order)
__CPROVER_ensures(g_order == __CPROVER_old(g_order) + 1)
;
void do_post_msg_queue_helper(fsm_t* self, _Bool no_queue)
__CPROVER_requires(g_order == (g_queue_first ? 0 : 1))                           /*@ob C05,C04.deferred-pass-before-the-message-queue-by-default */
__CPROVER_requires((g_source & EVENT_SOURCE_MSG_QUEUE) == 0)                     /*@ob C04.no-nested-drain-while-dispatching-a-queued-event */
__CPROVER_assigns(g_order)
__CPROVER_ensures(g_order == __CPROVER_old(g_order) + 1)
;
void prio_unit(fsm_t* self, EventSource source, HandledEnum handled, _Bool queue_first)
__CPROVER_requires(__CPROVER_is_fresh(self, sizeof(*self)) && source == g_source && (int)handled == g_handled && queue_first == g_queue_first && g_order == 0)
__CPROVER_assigns(g_order)
__CPROVER_ensures(((source & (EVENT_SOURCE_DEFERRED | EVENT_SOURCE_MSG_QUEUE)) == 0) ==> g_order == 2)     /*@ob C04,C05.top-level-event-runs-both-passes */
/* the pass that has PRIORITY also runs after a step that came from the OTHER store: with queue priority the message queue is drained after a
   re-offered deferred event was handled (its behaviours may have submitted events, which go before the remaining deferred ones); by default
   the deferred events are re-offered after a queued event was handled.  Nested passes of the same kind never run (stub preconditions). */
__CPROVER_ensures((queue_first && (source & EVENT_SOURCE_MSG_QUEUE) == 0 && (source & EVENT_SOURCE_DEFERRED) != 0) ==> g_order == 1)     /*@ob C04,C05.with-queue-priority-the-message-queue-is-drained-after-a-re-offered-deferred-event */
__CPROVER_ensures((!queue_first && (source & EVENT_SOURCE_DEFERRED) == 0 && (source & EVENT_SOURCE_MSG_QUEUE) != 0) ==> g_order == 1)    /*@ob C05,C04.by-default-deferred-events-are-re-offered-after-a-queued-event-was-handled */
__CPROVER_ensures((queue_first ? (source & EVENT_SOURCE_MSG_QUEUE) != 0 : (source & EVENT_SOURCE_DEFERRED) != 0) ==> g_order == 0)           /*@ob C04,C05.no-pass-at-all-while-the-store-with-priority-is-being-drained */
;

/* ---------------- backmp11 ---------------- */
typedef struct { _Bool m_result; event_t m_event; } vis_t;
extern const _Bool g_state_defers;
_Bool state_is_event_deferred(stref_t state, event_t ev, fsm_t* fsm)
__CPROVER_requires(EV_EQ(ev, g_evt))
__CPROVER_assigns()
__CPROVER_ensures(__CPROVER_return_value == g_state_defers)
;
void visitor_call(vis_t* self, stref_t state, fsm_t* fsm)
__CPROVER_requires(__CPROVER_is_fresh(self, sizeof(*self)) && EV_EQ(self->m_event, g_evt) && (self->m_result == 0 || self->m_result == 1))
__CPROVER_assigns(self->m_result)
__CPROVER_ensures(self->m_result == (__CPROVER_old(self->m_result) || g_state_defers))     /*@ob C05.deferred-if-any-active-state-defers */
;
typedef struct { uint16_t m_seq_cnt; event_t m_event; _Bool m_marked_for_deletion; } defev_t;
typedef struct { _Bool has; process_result v; } optres_t;
static optres_t nullopt_(void) { optres_t o; o.has = 0; o.v = HANDLED_FALSE; return o; }
static optres_t some_(process_result r) { optres_t o; o.has = 1; o.v = r; return o; }
_Bool sm_is_event_deferred(fsm_t* sm, event_t ev)
__CPROVER_requires(EV_EQ(ev, g_evt))
__CPROVER_assigns()
__CPROVER_ensures(__CPROVER_return_value == g_deferred_now)
;
enum { process_info_direct_call = 0, process_info_submachine_call = 1, process_info_event_pool = 2 };
typedef int process_info;
process_result sm_process_event_internal(fsm_t* sm, event_t ev, process_info info)
__CPROVER_requires(EV_EQ(ev, g_evt))                                             /*@ob C05,C18.deferred-occurrence-keeps-type-and-payload */
__CPROVER_requires(info == process_info_event_pool)                              /*@ob C05.re-offered-as-a-pool-event */
__CPROVER_requires(g_ndisp == 0 && !g_deferred_now)                              /*@ob C05.dispatched-only-when-no-active-state-defers-it */
__CPROVER_requires(g_marked)                                                     /*@ob C05,C20,C04.marked-for-deletion-before-dispatch-so-dispatched-at-most-once */
__CPROVER_assigns(g_ndisp, g_ret)
__CPROVER_ensures(g_ndisp == 1 && 0 <= g_ret && g_ret <= 7 && (int)__CPROVER_return_value == g_ret)
;
#define MARK_FOR_DELETION(self) ((self)->m_marked_for_deletion = 1, g_marked = 1)     /* event_occurrence::mark_for_deletion (1-line setter; ghost copy) */
optres_t try_process_impl(defev_t* self, fsm_t* sm, uint16_t seq_cnt)
__CPROVER_requires(__CPROVER_is_fresh(self, sizeof(*self)) && EV_EQ(self->m_event, g_evt) && g_ndisp == 0 && !self->m_marked_for_deletion && !g_marked)
__CPROVER_assigns(self->m_marked_for_deletion, g_marked, g_ndisp, g_ret)
__CPROVER_ensures(__CPROVER_return_value.has == (self->m_seq_cnt != seq_cnt && !g_deferred_now))          /*@ob C05.dispatched-iff-from-an-earlier-cycle-and-not-deferred-now */
__CPROVER_ensures(__CPROVER_return_value.has == (g_ndisp == 1))
__CPROVER_ensures(self->m_marked_for_deletion == __CPROVER_return_value.has)                                /*@ob C05,C20.removed-exactly-when-dispatched */
__CPROVER_ensures(__CPROVER_return_value.has ==> (int)__CPROVER_return_value.v == g_ret)
;
extern const _Bool g_redeferral;      /* the event being deferred is a pool occurrence that is being dispatched right now (deferred before, deferred again by an action) */
extern const _Bool g_later_pending;   /* the pool holds pending occurrences that arrived after that occurrence */
void pool_push_back_deferred(fsm_t* self, event_t ev, uint16_t seq_cnt)      /* events.push_back(...): the new occurrence goes behind everything pending */
__CPROVER_requires(EV_EQ(ev, g_evt))                                             /*@ob C05,C18.deferred-occurrence-keeps-type-and-payload */
__CPROVER_requires(g_dpushed == 0)                                               /*@ob C05,C20.exactly-one-occurrence-stored */
__CPROVER_requires(!(g_redeferral && g_later_pending))                           /*@ob C05.re-deferred-occurrence-does-not-go-behind-later-arrivals */
__CPROVER_assigns(g_dpushed, g_stored_seq)
__CPROVER_ensures(g_dpushed == 1 && g_stored_seq == seq_cnt)
;
void do_defer_event(fsm_t* self, event_t event, _Bool next_rtc_seq)
__CPROVER_requires(__CPROVER_is_fresh(self, sizeof(*self)) && EV_EQ(event, g_evt) && g_dpushed == 0)
__CPROVER_assigns(g_dpushed, g_stored_seq)
__CPROVER_ensures(g_dpushed == 1)                                                                          /*@ob C05,C20.exactly-one-occurrence-stored */
__CPROVER_ensures(g_stored_seq == (uint16_t)(next_rtc_seq ? self->event_pool.cur_seq_cnt : self->event_pool.cur_seq_cnt - 1))   /*@ob C05.sequence-number-decides-the-first-cycle-it-is-re-offered */
;

/* ---- backmp11 compile_policy_impl<favor_runtime_speed>::is_event_deferred(sm, event): the two `if constexpr` short-cuts ("this machine
   has deferring states" / "... that defer this event type") are type-level facts [A, symbolic]; when both hold the answer is the visitor's
   result after the active traversal (its own units), otherwise false ---- */
#if UNIT_IS_DEFERRED
extern const _Bool g_needs_traversal_1, g_needs_traversal_2, g_any_active_state_defers; extern int g_visits;
void event_deferral_visit(const fsm_t* sm, vis_t* visitor)
__CPROVER_requires(g_visits == 0 && !visitor->m_result)                           /*@ob C05.deferral-query-starts-from-not-deferred */
__CPROVER_requires(EV_EQ(visitor->m_event, g_evt))                                /*@ob C05,C18.deferral-query-asks-about-the-event-being-processed */
__CPROVER_assigns(g_visits, visitor->m_result)
__CPROVER_ensures(g_visits == 1 && (visitor->m_result != 0) == (g_any_active_state_defers != 0))
;
_Bool is_event_deferred(const fsm_t* sm, event_t event)
__CPROVER_requires(__CPROVER_is_fresh(sm, sizeof(*sm)) && EV_EQ(event, g_evt) && g_visits == 0)
__CPROVER_assigns(g_visits)                                                                                /*@ob C05.deferral-query-changes-no-machine-state */
__CPROVER_ensures((g_needs_traversal_1 && g_needs_traversal_2) ==> (__CPROVER_return_value != 0) == (g_any_active_state_defers != 0))   /*@ob C05.deferred-iff-some-active-state-defers-the-event */
__CPROVER_ensures(!(g_needs_traversal_1 && g_needs_traversal_2) ==> !__CPROVER_return_value)
;
#endif
