/* cascade_back.spec.h -- entry / exit cascades of a (sub)machine in back / back11
   do_entry, do_exit, region_entry_exit_helper::do_entry/do_exit, internal_start, region_start_helper::do_start,
   direct_event_start_helper (4 variants), fork_helper, start(), execute_entry/exit variants.
   C02 (cascade order), C03 (configuration after entry), C04 (entry behaviours run with the busy mark; start()),
   C08 (history consulted with the user's entering event), C09 (direct / fork / entry point), C10 (completion event after
   entry, at once), C12 (exception in an entry leaves the machine usable), C05 (deferred events retried / cleared).        */
#ifndef DEFECT3_EXCLUDED
#define DEFECT3_EXCLUDED 0
#endif
#ifndef IN_START
#define IN_START 0
#endif
#ifndef ENTRY_KIND
#define ENTRY_KIND 0
#endif
extern const int nr_regions;            /* symbolic 1..NR_CAP */
extern const int g_k;                   /* ghost region index 0 <= g_k < nr_regions */
extern const event_t g_evt;             /* the user's entering / leaving event (unwrapped) */
extern const int* const g_hist_answer;  /* what history_entry(g_evt) returns for this entry */
extern int g_seq;                       /* position inside the cascade, see each unit */
extern int g_exit_next, g_entry_next;   /* next region whose active substate must be exited / entered */
extern fsm_t* const g_self;
extern const type_t Derived, library_sm, stt;
extern const _Bool g_no_msg_queue;
extern const _Bool g_keep_deferred; extern int g_cleared;
extern const int g_target_region, g_target_id;      /* find_region_id<wrapped_entry>::region_index , get_state_id<stt,wrapped_entry> */
extern int g_forked, g_pe_calls;
extern const _Bool g_k_is_fork_target; extern const int g_k_fork_id;
extern int g_dstep;     /* do_entry: 0 start, 1 regions initialised, 2 entry cascade done, 3 deferred retried, 4 queue drained */
#define REGIONS_OK (1 <= nr_regions && nr_regions <= NR_CAP && 0 <= g_k && g_k < nr_regions)
static event_t unwrap(event_t e) { e.wrapped = 0; return e; }
#define EV_EQ_U(a,b) ((a).type==(b).type && (a).payload==(b).payload)
/* remove_direct_entry_event_wrapper(evt): two overloads selected by has_direct_entry<EventType> (= evt.wrapped) */
event_t remove_direct_entry_event_wrapper(event_t evt)
__CPROVER_assigns()
__CPROVER_ensures(!__CPROVER_return_value.wrapped && EV_EQ_U(__CPROVER_return_value, evt))      /*@ob C08,C09.wrapper-removed-event-unchanged */
;

/* m_history.history_entry(evt): its units are in history_back.spec.h */
const int* history_entry(fsm_t* self, event_t evt)
__CPROVER_requires(!evt.wrapped)                                                 /*@ob C08.history-decided-by-the-users-entering-event */
__CPROVER_requires(EV_EQ_U(evt, g_evt))
__CPROVER_assigns()
__CPROVER_ensures(__CPROVER_return_value == g_hist_answer)
;
void history_exit(fsm_t* self, int* current_states)
__CPROVER_requires(g_seq == 1)                                                   /*@ob C08.memory-updated-after-the-substates-and-the-machine-exited */
__CPROVER_requires(current_states == self->m_states)                             /*@ob C08.memory-takes-the-last-active-states */
__CPROVER_assigns(g_seq)
__CPROVER_ensures(g_seq == 2)
;
_Bool process_deferred_events(fsm_t* self, event_t evt)
__CPROVER_requires(g_seq == 2)
__CPROVER_assigns()
__CPROVER_ensures(__CPROVER_return_value == g_keep_deferred)
;
void clear_deferred_queue(fsm_t* self)
__CPROVER_requires(g_seq == 2 && !g_keep_deferred)                               /*@ob C05,C08.deferred-events-dropped-only-without-history */
__CPROVER_assigns(g_cleared)
__CPROVER_ensures(g_cleared == 1)
;

/* region_entry_exit_helper<region_id>::do_entry  (SPEC recursion): every region gets history_entry(evt)[r] */
void regions_do_entry(int region_id, fsm_t* self_, event_t incomingEvent)
__CPROVER_requires(REGIONS_OK && __CPROVER_is_fresh(self_, sizeof(*self_)) && 0 <= region_id && region_id <= nr_regions)
__CPROVER_requires(__CPROVER_is_fresh(g_hist_answer, sizeof(int) * NR_CAP))
__CPROVER_requires(EV_EQ_U(incomingEvent, g_evt))
__CPROVER_assigns(__CPROVER_object_whole(self_->m_states))
__CPROVER_ensures(region_id <= g_k ==> self_->m_states[g_k] == g_hist_answer[g_k])             /*@ob C08,C03,C02.every-region-starts-where-history-says */
__CPROVER_ensures(g_k < region_id ==> self_->m_states[g_k] == __CPROVER_old(self_->m_states[g_k]))
;

/* exit of the active substate of one region: mpl::for_each<state_list>(entry_exit_helper<Event,false>(id, evt, self)) */
void exit_active_substate(int state_id, event_t evt, fsm_t* self)
__CPROVER_requires(0 <= g_exit_next && g_exit_next < nr_regions && state_id == self->m_states[g_exit_next])   /*@ob C02,C03,C07.substates-exited-in-region-order-each-once */
__CPROVER_requires(g_seq == 0 && !g_exc)
__CPROVER_requires(EV_EQ_U(evt, g_evt))
__CPROVER_assigns(g_exit_next, g_exc)
__CPROVER_ensures(g_exit_next == __CPROVER_old(g_exit_next) + 1)
;
void enter_active_substate(int state_id, event_t evt, fsm_t* self)
__CPROVER_requires(0 <= g_entry_next && g_entry_next < nr_regions && state_id == self->m_states[g_entry_next])   /*@ob C02,C03,C07.substates-entered-in-region-order-each-once */
__CPROVER_requires(!g_exc)
__CPROVER_requires(!evt.wrapped && EV_EQ_U(evt, g_evt))                          /*@ob C09,C18,C02.substates-see-the-original-event */
__CPROVER_requires(g_no_msg_queue || self->m_event_processing)                   /*@ob C04,C10.entry-behaviours-run-with-the-busy-mark-set */
__CPROVER_assigns(g_entry_next, g_exc)
__CPROVER_ensures(g_entry_next == __CPROVER_old(g_entry_next) + 1)
;
void regions_do_exit(int region_id, fsm_t* self_, event_t incomingEvent)
__CPROVER_requires(REGIONS_OK && __CPROVER_is_fresh(self_, sizeof(*self_)) && 0 <= region_id && region_id <= nr_regions)
__CPROVER_requires(g_exit_next == region_id && g_seq == 0 && !g_exc && EV_EQ_U(incomingEvent, g_evt))
__CPROVER_assigns(g_exit_next, g_exc)
__CPROVER_ensures(!g_exc ==> g_exit_next == nr_regions)                          /*@ob C02,C03,C07.every-regions-active-substate-exited */
;
void regions_do_start(int region_id, fsm_t* self_, event_t incomingEvent)
__CPROVER_requires(REGIONS_OK && __CPROVER_is_fresh(self_, sizeof(*self_)) && 0 <= region_id && region_id <= nr_regions)
__CPROVER_requires(g_entry_next == region_id && !g_exc && !incomingEvent.wrapped && EV_EQ_U(incomingEvent, g_evt))
__CPROVER_requires(g_no_msg_queue || self_->m_event_processing)                  /*@ob C04,C10.entry-behaviours-run-with-the-busy-mark-set */
__CPROVER_assigns(g_entry_next, g_exc)
__CPROVER_ensures(!g_exc ==> g_entry_next == nr_regions)                         /*@ob C02,C03,C07.every-regions-substate-entered */
;

/* own behaviours of the machine (front-end) */
void Derived_on_exit(fsm_t* self, event_t evt, fsm_t* fsm)
__CPROVER_requires(g_exit_next == nr_regions && g_seq == 0 && !g_exc)            /*@ob C02,C07.own-exit-after-all-substates */
__CPROVER_assigns(g_seq, g_exc)
__CPROVER_ensures(g_exc ? g_seq == __CPROVER_old(g_seq) : g_seq == 1)
;
void Derived_on_entry(fsm_t* self, event_t evt, fsm_t* fsm)
__CPROVER_requires(g_seq == 1 && g_entry_next == 0 && !g_exc)                    /*@ob C02,C07,C09.own-entry-before-any-substate */
__CPROVER_requires(g_no_msg_queue || self->m_event_processing || IN_START)       /*@ob C04,C10.entry-behaviours-run-with-the-busy-mark-set */
__CPROVER_assigns(g_seq, g_exc)
__CPROVER_ensures(g_exc ? g_seq == __CPROVER_old(g_seq) : g_seq == 2)
;

/* completion event after the initial entries (process_completion_event unit: evloop_back.spec.h) */
void process_completion_event(fsm_t* self, _Bool handled, EventSource source)
__CPROVER_requires(g_entry_next == nr_regions && !g_exc)                         /*@ob C10,C02.completion-event-after-the-entry-cascade */
__CPROVER_requires(handled)
__CPROVER_requires(g_no_msg_queue || !self->m_event_processing)                  /*@ob C10.completion-event-is-dispatched-at-once-not-queued */
__CPROVER_assigns(g_seq, g_exc)
__CPROVER_ensures(g_seq == __CPROVER_old(g_seq) + 1)
;
#define PCE_SEL(_0,_1,_2,NAME,...) NAME
#define PCE1(self, h)    process_completion_event(self, h, EVENT_SOURCE_DEFAULT)
#define PCE2(self, h, s) process_completion_event(self, h, s)
#define PROCESS_COMPLETION_EVENT(...) PCE_SEL(__VA_ARGS__, PCE2, PCE1, PCE0)(__VA_ARGS__)

void internal_start(fsm_t* self, event_t incomingEvent)
__CPROVER_requires(REGIONS_OK && __CPROVER_is_fresh(self, sizeof(*self)) && self == g_self)
__CPROVER_requires(g_seq == 2 && g_entry_next == 0 && !g_exc)   /*@ob C02,C07,C09.substates-entered-after-the-machines-own-entry */
__CPROVER_requires(!incomingEvent.wrapped && EV_EQ_U(incomingEvent, g_evt))      /*@ob C09,C18,C02.substates-see-the-original-event */
__CPROVER_requires(g_no_msg_queue || self->m_event_processing)   /* only called inside do_entry's busy bracket (direct_event_start_helper units) */
__CPROVER_assigns(g_entry_next, g_seq, g_exc, self->m_event_processing)
__CPROVER_ensures(g_seq == 2 || g_seq == 3)
__CPROVER_ensures(!g_exc ==> (g_entry_next == nr_regions && g_seq == 3))         /*@ob C10.completion-event-issued-once-after-entry */
__CPROVER_ensures(!g_exc ==> !self->m_event_processing)                          /* the busy mark is cleared before the completion event is issued (process_completion_event requires it) */
;

/* direct_event_start_helper(self)(evt, fsm): 4 variants selected at compile time by the kind of entering event
   -DENTRY_KIND=0 plain, 1 direct (explicit entry), 2 fork, 3 entry pseudo state */
void fork_foreach(fsm_t* self, event_t evt)         /* mpl::for_each<active_state>(fork_helper(self,evt)) : proved in its own unit <be>.fork_helper.foreach (foreach_back.spec.h, same ensures) */
__CPROVER_requires(g_seq == 2 && g_forked == 0)
__CPROVER_assigns(g_forked, __CPROVER_object_upto(self->m_states, sizeof(self->m_states)))
__CPROVER_ensures(g_forked == 1)
__CPROVER_ensures(self->m_states[g_k] == (g_k_is_fork_target ? g_k_fork_id : __CPROVER_old(self->m_states[g_k])))
;
void enqueue_event_instead(fsm_t* self, event_t evt)     /* the continuation of an entry-point entry merely queued behind whatever the entry behaviours submitted */
__CPROVER_requires(0)                                                            /*@ob C09,C04.entry-point-continues-immediately-with-the-same-event-not-through-the-queue */
__CPROVER_assigns()
;
HandledEnum process_event(fsm_t* self, event_t evt)
__CPROVER_requires(g_seq == 3 && g_pe_calls == 0 && !g_exc)                   /*@ob C09.entry-point-event-processed-once-after-the-entry */
__CPROVER_requires(!evt.wrapped && EV_EQ_U(evt, g_evt))                          /*@ob C09,C18.entry-point-continues-with-the-original-event */
__CPROVER_assigns(g_pe_calls, g_exc)
__CPROVER_ensures(g_pe_calls == 1)
;
void direct_event_start(fsm_t* self, event_t evt, fsm_t* fsm)
__CPROVER_requires(REGIONS_OK && __CPROVER_is_fresh(self, sizeof(*self)) && self == g_self && fsm == self)
__CPROVER_requires(g_seq == 1 && g_entry_next == 0 && g_forked == 0 && g_pe_calls == 0 && !g_exc)
__CPROVER_requires(EV_EQ_U(evt, g_evt) && evt.wrapped == (ENTRY_KIND != 0))
__CPROVER_requires(0 <= g_target_region && g_target_region < nr_regions)
__CPROVER_requires(g_no_msg_queue || self->m_event_processing)
__CPROVER_assigns(g_seq, g_entry_next, g_exc, g_forked, g_pe_calls, self->m_event_processing, __CPROVER_object_upto(self->m_states, sizeof(self->m_states)))
__CPROVER_ensures(!g_exc ==> g_seq == 3)                                          /*@ob C02,C09.substates-entered-exactly-once-after-the-own-entry */
__CPROVER_ensures((ENTRY_KIND == 1 || ENTRY_KIND == 3) ==> (g_seq == 3 ==> self->m_states[g_k] == (g_k == g_target_region ? g_target_id : __CPROVER_old(self->m_states[g_k]))))   /*@ob C09,C03,C08.explicit-entry-sets-only-the-targeted-region */
__CPROVER_ensures(ENTRY_KIND == 0 ==> self->m_states[g_k] == __CPROVER_old(self->m_states[g_k]))                                /*@ob C08,C09.plain-entry-keeps-the-history-or-initial-states */
__CPROVER_ensures(ENTRY_KIND == 2 ==> (g_seq == 3 ==> self->m_states[g_k] == (g_k_is_fork_target ? g_k_fork_id : __CPROVER_old(self->m_states[g_k]))))   /*@ob C09,C03,C08.fork-sets-exactly-the-named-regions */
__CPROVER_ensures((ENTRY_KIND == 3 && !g_exc) ==> g_pe_calls == 1)                                                              /*@ob C09.entry-point-event-processed-once-after-the-entry */
__CPROVER_ensures(ENTRY_KIND != 3 ==> g_pe_calls == 0)
;

/* do_entry / do_exit of a submachine */
#define REGIONS_DO_ENTRY(self, evt) (regions_do_entry(0, self, evt), g_dstep = 1)   /* ghost step only */
void direct_event_start_helper_call(fsm_t* self, event_t evt, fsm_t* fsm)
__CPROVER_requires(g_dstep == 1 && !g_exc)                                       /*@ob C08,C09.regions-initialised-from-history-before-explicit-targets */
__CPROVER_requires(g_no_msg_queue || self->m_event_processing)                   /*@ob C04,C10.entry-behaviours-run-with-the-busy-mark-set */
__CPROVER_requires(self->m_states[g_k] == g_hist_answer[g_k])                    /*@ob C08,C03,C02.every-region-starts-where-history-says */
__CPROVER_assigns(g_dstep, g_exc, self->m_event_processing, __CPROVER_object_upto(self->m_states, sizeof(self->m_states)))      /* internal_start clears the busy mark before the completion event */
__CPROVER_ensures(g_dstep == 2)
;
void do_handle_deferred(fsm_t* self, _Bool new_seq)
__CPROVER_requires(g_dstep == 2 && !g_exc)                                       /*@ob C05,C10.deferred-events-retried-after-entry */
__CPROVER_requires(g_no_msg_queue || !self->m_event_processing)                  /*@ob C04,C10.pending-events-run-after-the-step-completed */
__CPROVER_requires(new_seq)                                                      /*@ob C05.entering-a-machine-starts-a-new-deferral-cycle-so-its-pending-events-are-re-offered-at-once */
__CPROVER_assigns(g_dstep, g_exc)
__CPROVER_ensures(g_dstep == 3)
;
void process_message_queue(fsm_t* self)
__CPROVER_requires(g_dstep == 3 && !g_exc)
__CPROVER_requires(g_no_msg_queue || !self->m_event_processing)                  /*@ob C04,C10.pending-events-run-after-the-step-completed */
__CPROVER_assigns(g_dstep, g_exc)
__CPROVER_ensures(g_dstep == 4)
;
void do_entry(fsm_t* self, event_t incomingEvent, fsm_t* fsm)
__CPROVER_requires(REGIONS_OK && __CPROVER_is_fresh(self, sizeof(*self)) && __CPROVER_is_fresh(g_hist_answer, sizeof(int) * NR_CAP))
__CPROVER_requires(g_dstep == 0 && !g_exc && EV_EQ_U(incomingEvent, g_evt) && !self->m_event_processing)
__CPROVER_assigns(g_dstep, g_exc, self->m_event_processing, __CPROVER_object_whole(self->m_states))
__CPROVER_ensures(!g_exc ==> g_dstep == 4)                                       /*@ob C02,C05,C04,C10.entry-then-deferred-then-queued-events */
__CPROVER_ensures(g_no_msg_queue || !self->m_event_processing)                   /*@ob C04,C12.machine-not-left-busy */
;
void do_exit(fsm_t* self, event_t incomingEvent, fsm_t* fsm)
__CPROVER_requires(REGIONS_OK && __CPROVER_is_fresh(self, sizeof(*self)) && g_exit_next == 0 && g_seq == 0 && !g_exc && g_cleared == 0 && EV_EQ_U(incomingEvent, g_evt))
__CPROVER_assigns(g_exit_next, g_seq, g_exc, g_cleared)                                                      /*@ob C02,C03.exit-changes-no-active-state */
__CPROVER_ensures(!g_exc ==> (g_exit_next == nr_regions && g_seq == 2))                                      /*@ob C02,C07,C08.exit-cascade-substates-then-machine-then-history */
__CPROVER_ensures(!g_exc ==> (g_cleared == !g_keep_deferred))                                                /*@ob C05,C08.deferred-events-dropped-only-without-history */
;

/* ---- start() / start(evt) / stop() (root machine) ---- */
extern const int g_init_ids[NR_CAP];     /* ids of Derived::initial_state, region order (compile time) */
void init_states_foreach(fsm_t* self)    /* mpl::for_each<seq_initial_states>(init_states(m_states)) proved in its own unit <be>.init_states.foreach (foreach_back.spec.h, same ensures) */
__CPROVER_requires(g_seq == 0)
__CPROVER_assigns(g_seq, __CPROVER_object_upto(self->m_states, sizeof(self->m_states)))
__CPROVER_ensures(g_seq == 1 && self->m_states[g_k] == g_init_ids[g_k])
;
void call_init_foreach(fsm_t* self, event_t evt)   /* mpl::for_each<initial_states>(call_init<Event>(evt,this)) : entry of every region's initial state, region order; proved in <be>.call_init.foreach (foreach_back.spec.h) */
__CPROVER_requires(g_seq == 2 && g_entry_next == 0 && !g_exc)                     /*@ob C02,C07,C09.substates-entered-after-the-machines-own-entry */
__CPROVER_requires(g_no_msg_queue || self->m_event_processing)                   /*@ob C04,C10.entry-behaviours-run-with-the-busy-mark-set */
__CPROVER_requires(self->m_states[g_k] == g_init_ids[g_k])                       /*@ob C03,C02.start-enters-the-initial-configuration */
__CPROVER_assigns(g_entry_next, g_exc)
__CPROVER_ensures(!g_exc ==> g_entry_next == nr_regions)
;
static event_t fsm_initial_event(void) { return g_evt; }
static event_t fsm_final_event(void) { return g_evt; }
void start_process_message_queue(fsm_t* self)      /* process_message_queue(this) at the end of start(): events raised by the initial entry behaviours */
__CPROVER_requires(g_seq == 3 && !g_exc)                                           /*@ob C04,C10.events-raised-by-the-initial-entries-run-after-the-completion-event */
__CPROVER_requires(g_no_msg_queue || !self->m_event_processing)                  /*@ob C04,C10.pending-events-run-after-the-step-completed */
__CPROVER_assigns(g_seq, g_exc)
__CPROVER_ensures(g_seq == 4)
;
void start_unit(fsm_t* self, event_t incomingEvent)
__CPROVER_requires(REGIONS_OK && __CPROVER_is_fresh(self, sizeof(*self)) && self == g_self && g_seq == 0 && g_entry_next == 0 && !g_exc && EV_EQ_U(incomingEvent, g_evt) && !incomingEvent.wrapped && !g_evt.wrapped)
__CPROVER_requires(!self->m_event_processing)
__CPROVER_assigns(g_seq, g_entry_next, g_exc, self->m_event_processing, __CPROVER_object_upto(self->m_states, sizeof(self->m_states)))
__CPROVER_ensures(self->m_states[g_k] == g_init_ids[g_k])                                                      /*@ob C03,C02.start-enters-the-initial-configuration */
__CPROVER_ensures(!g_exc ==> (g_entry_next == nr_regions && g_seq == 4))                                      /*@ob C02,C04,C10.own-entry-then-initial-entries-then-completion-event-then-raised-events */
__CPROVER_ensures(!self->m_event_processing)                                                                  /*@ob C04,C12.machine-not-left-busy */
;
void do_exit_stub(fsm_t* self, event_t evt, fsm_t* fsm)
__CPROVER_requires(self == fsm && g_seq == 0)
__CPROVER_assigns(g_seq)
__CPROVER_ensures(g_seq == 2)
;
void stop_unit(fsm_t* self, event_t finalEvent)
__CPROVER_requires(__CPROVER_is_fresh(self, sizeof(*self)) && g_seq == 0)
__CPROVER_assigns(g_seq)
__CPROVER_ensures(g_seq == 2)                                                                                   /*@ob C03,C02.stop-exits-the-active-configuration-once */
;
