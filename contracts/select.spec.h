/* select.spec.h -- candidate selection, single consumption, region loop, result / no_transition contract
   Properties C01 (priority order, each guard at most once, first enabled is the only one taken, nothing of an
   outer level after an inner level consumed), C06 (every region once, in order; result bits; no_transition),
   C07 (single consumption / bubbling through the forwarding row), C13 (same contract for all back-ends).
   The same contract text is enforced on: back & back11 chain_row (template recursion), favor_compile_time
   chain_row (loop), backmp11 transition_chain / internal_transition_chain (mp_for_each_until), region loops.

   Model of the compile-time row list [A]: the candidates of one (state,event) cell are positions
   0..g_n-1 of an abstract sequence; front/pop_front/empty are the mpl operations on a position.          */

#ifndef REGIONS_SINGLE
#define REGIONS_SINGLE 0
#endif
#define ST_OK(f,r) (0 <= (f)->m_states[r] && (f)->m_states[r] < NSTATE_CAP)
#define WF_STATES(f) (ST_OK(f,0) && ST_OK(f,1) && ST_OK(f,2) && ST_OK(f,3) && ST_OK(f,4) && ST_OK(f,5) && ST_OK(f,6) && ST_OK(f,7))   /* NR_CAP == 8 */
#define ACC_INV ((g_internal_tried == 0 || g_internal_tried == 1) && 0 <= g_region_next && g_region_next <= NR_CAP && 0 <= g_acc && g_acc <= 7 && 0 <= g_ntaken && g_ntaken <= g_region_next + g_internal_tried && (((g_acc & HANDLED_TRUE) != 0) == (g_ntaken > 0)))
extern const int g_n;                 /* chain length, unbounded (symbolic) */
extern const _Bool g_first_is_frow;   /* position 0 is the forwarding row to an active submachine (may return any bit set) */
#define front(s)      (s)
#define pop_front(s)  ((s)+1)
#define empty(s)      ((s)==g_n)
#define bool_(x)      (x)
typedef int seq_t;

extern int   g_chain_pos;             /* next position that may be tried */
extern _Bool g_consumed;              /* some candidate (or an inner level through it) took a transition or deferred the event */
extern int   g_taken;                 /* number of candidates at this level that reported a taken transition */
extern int   g_rejects;               /* number of candidates whose guard rejected */

#define CONSUMED(r) ((((int)(r)) & (HANDLED_TRUE|HANDLED_DEFERRED)) != 0)

/* one candidate row (its own units: rows_back.spec.h / rows_mp11.spec.h) seen from the chain */
HandledEnum row_execute(type_t row, fsm_t* fsm, int region_index, int state, event_t evt)
__CPROVER_requires(row == g_chain_pos && 0 <= row && row < g_n)                 /*@ob C01,C02.candidates-tried-in-priority-order-each-once */
__CPROVER_requires(!g_consumed)                                                  /*@ob C01,C07.no-candidate-after-consumption */
__CPROVER_requires(g_taken < 1000000 && g_rejects < 1000000)
__CPROVER_assigns(g_chain_pos, g_consumed, g_taken, g_rejects)
__CPROVER_ensures(g_chain_pos == __CPROVER_old(g_chain_pos)+1)
__CPROVER_ensures(0 <= (int)__CPROVER_return_value && (int)__CPROVER_return_value <= 7)
__CPROVER_ensures((row==0 && g_first_is_frow) || __CPROVER_return_value==HANDLED_FALSE || __CPROVER_return_value==HANDLED_TRUE || __CPROVER_return_value==HANDLED_GUARD_REJECT || __CPROVER_return_value==HANDLED_DEFERRED)
__CPROVER_ensures(g_consumed == CONSUMED(__CPROVER_return_value))
__CPROVER_ensures(g_taken == __CPROVER_old(g_taken) + ((((int)__CPROVER_return_value) & HANDLED_TRUE) != 0))
__CPROVER_ensures(g_rejects == __CPROVER_old(g_rejects) + (!CONSUMED(__CPROVER_return_value) && (((int)__CPROVER_return_value) & HANDLED_GUARD_REJECT) != 0))
;

/* back / back11: chain_row::execute_helper::execute<Sequence>(..., mpl::bool_<empty<Sequence>>)  (two overloads, OVL rule).
   NOTE: the postcondition block below is repeated verbatim for chain_entry (no macro: one CBMC check per source line). */
HandledEnum chain_execute(seq_t Sequence, fsm_t* fsm, int region_index, int state, event_t evt, _Bool tag)
__CPROVER_requires(0 <= Sequence && Sequence <= g_n && g_n <= 1000000 && g_chain_pos == Sequence && tag == empty(Sequence))
__CPROVER_requires(!g_consumed)                                                  /*@ob C01,C07.no-candidate-after-consumption */
__CPROVER_requires(0 <= g_taken && g_taken <= Sequence && 0 <= g_rejects && g_rejects <= Sequence)
__CPROVER_assigns(g_chain_pos, g_consumed, g_taken, g_rejects)
__CPROVER_ensures(g_consumed == CONSUMED(__CPROVER_return_value))                                                          /*@ob C01,C06,C07.result-says-consumed-iff-consumed */
__CPROVER_ensures(((((int)__CPROVER_return_value) & HANDLED_TRUE) != 0) == (g_taken > __CPROVER_old(g_taken)))            /*@ob C06,C01.handled-bit-iff-a-transition-was-taken */
__CPROVER_ensures(g_taken <= __CPROVER_old(g_taken)+1)                                                                     /*@ob C01,C02.at-most-one-candidate-taken */
__CPROVER_ensures(g_taken >= __CPROVER_old(g_taken) && g_rejects >= __CPROVER_old(g_rejects) && g_chain_pos >= __CPROVER_old(g_chain_pos) && g_chain_pos <= g_n)
__CPROVER_ensures(!g_consumed ==> g_chain_pos == g_n)                                                                      /*@ob C01.all-candidates-tried-if-none-consumed */
__CPROVER_ensures(!g_consumed ==> (__CPROVER_return_value == ((g_rejects > __CPROVER_old(g_rejects)) ? HANDLED_GUARD_REJECT : HANDLED_FALSE)))  /*@ob C06.reject-reported-iff-some-guard-rejected */
__CPROVER_ensures(0 <= (int)__CPROVER_return_value && (int)__CPROVER_return_value <= 7)
;

/* chain_row::execute (entry of the cell) and favor_compile_time chain_row::operator() (loop) */
HandledEnum chain_entry(fsm_t* fsm, int region_index, int state, event_t evt)
__CPROVER_requires(0 <= g_n && g_n <= 1000000 && g_chain_pos == 0 && !g_consumed && g_taken == 0 && g_rejects == 0)
__CPROVER_assigns(g_chain_pos, g_consumed, g_taken, g_rejects)
__CPROVER_ensures(g_consumed == CONSUMED(__CPROVER_return_value))                                                          /*@ob C01,C06,C07.result-says-consumed-iff-consumed */
__CPROVER_ensures(((((int)__CPROVER_return_value) & HANDLED_TRUE) != 0) == (g_taken > __CPROVER_old(g_taken)))            /*@ob C06,C01.handled-bit-iff-a-transition-was-taken */
__CPROVER_ensures(g_taken <= __CPROVER_old(g_taken)+1)                                                                     /*@ob C01,C02.at-most-one-candidate-taken */
__CPROVER_ensures(g_taken >= __CPROVER_old(g_taken) && g_rejects >= __CPROVER_old(g_rejects) && g_chain_pos >= __CPROVER_old(g_chain_pos) && g_chain_pos <= g_n)
__CPROVER_ensures(!g_consumed ==> g_chain_pos == g_n)                                                                      /*@ob C01.all-candidates-tried-if-none-consumed */
__CPROVER_ensures(!g_consumed ==> (__CPROVER_return_value == ((g_rejects > __CPROVER_old(g_rejects)) ? HANDLED_GUARD_REJECT : HANDLED_FALSE)))  /*@ob C06.reject-reported-iff-some-guard-rejected */
__CPROVER_ensures(0 <= (int)__CPROVER_return_value && (int)__CPROVER_return_value <= 7)
;
static const seq_t Seq = 0;   /* the whole list: position 0 */


/* ------------------------------------------------------------------------------------------------
   region loop and machine-level result (C06): one cell per region, the cell of that region's active state */
extern const int nr_regions;          /* symbolic, 1..NR_CAP (array capacity only) */
extern int   g_region_next;           /* next region to be offered the event */
extern int   g_acc;                   /* OR of the region results so far */
extern int   g_ntaken;                /* number of regions (plus internal table) reporting a taken transition */
extern int   g_internal_tried;     /* int, not _Bool: a havocked _Bool may hold a non-canonical byte in CBMC */
extern int   g_nt_next;               /* no_transition calls so far */
extern const _Bool g_is_contained, g_is_completion_event;
extern const _Bool g_is_event_processable;   /* mpl::has_key<processable_events_internal_table,Event> */
#define is_event_processable() g_is_event_processable

/* table::instance().entries[i](fsm, region, state, evt)  -- the cell is a chain (contract above, seen from outside) */
HandledEnum entries_call(int index, fsm_t* fsm, int region, int state, event_t evt)
__CPROVER_requires(region == g_region_next && 0 <= region && region < nr_regions)           /*@ob C06,C01.every-region-once-in-declaration-order */
__CPROVER_requires(state == fsm->m_states[region] && index == fsm->m_states[region] + 1)    /*@ob C06,C07.only-the-active-states-cell */
__CPROVER_requires(ACC_INV)
__CPROVER_assigns(g_region_next, g_acc, g_ntaken, fsm->m_states[region])      /* a row assigns only its own region's entry (frame proved in the row units) */
__CPROVER_ensures(ST_OK(fsm, region))
__CPROVER_ensures(g_region_next == __CPROVER_old(g_region_next)+1)
__CPROVER_ensures(0 <= (int)__CPROVER_return_value && (int)__CPROVER_return_value <= 7)
__CPROVER_ensures(g_acc == (__CPROVER_old(g_acc) | (int)__CPROVER_return_value))
__CPROVER_ensures(g_ntaken == __CPROVER_old(g_ntaken) + ((((int)__CPROVER_return_value) & HANDLED_TRUE) != 0))
;

/* the machine's own internal table: entries[0] */
HandledEnum internal_entries_call(int index, fsm_t* fsm, int region, int state, event_t evt)
__CPROVER_requires(index == 0)
__CPROVER_requires(g_region_next == nr_regions)                                              /*@ob C01.sm-internal-table-after-all-regions */
__CPROVER_requires(!CONSUMED(g_acc))                                                         /*@ob C01,C07.sm-internal-table-only-if-not-consumed */
__CPROVER_requires(!g_internal_tried && ACC_INV)
__CPROVER_assigns(g_internal_tried, g_acc, g_ntaken)
__CPROVER_ensures(g_internal_tried == 1)
__CPROVER_ensures(0 <= (int)__CPROVER_return_value && (int)__CPROVER_return_value <= 7)
__CPROVER_ensures(g_acc == (__CPROVER_old(g_acc) | (int)__CPROVER_return_value))
__CPROVER_ensures(g_ntaken == __CPROVER_old(g_ntaken) + ((((int)__CPROVER_return_value) & HANDLED_TRUE) != 0))
;

/* process_fsm_internal_table<Event>::do_process (two overloads selected by is_event_processable) */
void internal_do_process(event_t evt, fsm_t* self_, HandledEnum* result, _Bool is_event_processable)
__CPROVER_requires(__CPROVER_is_fresh(self_, sizeof(*self_)) && __CPROVER_is_fresh(result, sizeof(*result)))
__CPROVER_requires(g_region_next == nr_regions && (int)*result == g_acc && ACC_INV && !g_internal_tried && WF_STATES(self_))
__CPROVER_assigns(*result, g_internal_tried, g_acc, g_ntaken)
__CPROVER_ensures((int)*result == g_acc && ACC_INV)
__CPROVER_ensures(g_internal_tried ==> is_event_processable)
__CPROVER_ensures((is_event_processable && !CONSUMED(__CPROVER_old(g_acc))) ==> g_internal_tried)   /*@ob C01.sm-internal-table-tried-when-regions-did-not-consume */
;
/* process_fsm_internal_table<Event>::process : tag forwarder */
void internal_process(event_t evt, fsm_t* self_, HandledEnum* result)
__CPROVER_requires(__CPROVER_is_fresh(self_, sizeof(*self_)) && __CPROVER_is_fresh(result, sizeof(*result)))
__CPROVER_requires(g_region_next == nr_regions && (int)*result == g_acc && ACC_INV && !g_internal_tried && WF_STATES(self_))
__CPROVER_assigns(*result, g_internal_tried, g_acc, g_ntaken)
__CPROVER_ensures((int)*result == g_acc && ACC_INV)
__CPROVER_ensures((g_is_event_processable && !CONSUMED(__CPROVER_old(g_acc))) ==> g_internal_tried)
__CPROVER_ensures(g_internal_tried ==> g_is_event_processable)
;

/* In<region_id>::process (SPEC rule: primary template + the nr_regions specialisation = one recursive function) */
void region_process(int region_id, event_t evt, fsm_t* self_, HandledEnum* result_)
__CPROVER_requires(__CPROVER_is_fresh(self_, sizeof(*self_)) && __CPROVER_is_fresh(result_, sizeof(*result_)))
__CPROVER_requires(1 <= nr_regions && nr_regions <= NR_CAP && 0 <= region_id && region_id <= nr_regions && g_region_next == region_id)
__CPROVER_requires((int)*result_ == g_acc && ACC_INV && !g_internal_tried && WF_STATES(self_))
__CPROVER_assigns(*result_, g_region_next, g_acc, g_ntaken, g_internal_tried, __CPROVER_object_whole(self_->m_states))
__CPROVER_ensures(g_region_next == nr_regions)                                                       /*@ob C06.every-region-was-offered-the-event */
__CPROVER_ensures((int)*result_ == g_acc && ACC_INV)                                /*@ob C06,C07.result-is-the-or-of-the-regions */
__CPROVER_ensures(g_internal_tried ==> g_is_event_processable)
;

/* region_processing_helper<single region>::process / <orthogonal>::process (entry) */
void regions_process(fsm_t* self, HandledEnum* result, event_t evt)
__CPROVER_requires(__CPROVER_is_fresh(self, sizeof(*self)) && __CPROVER_is_fresh(result, sizeof(*result)))
__CPROVER_requires(1 <= nr_regions && nr_regions <= NR_CAP && g_region_next == 0 && (REGIONS_SINGLE ? nr_regions == 1 : 1))
__CPROVER_requires(*result == HANDLED_FALSE && g_acc == 0 && !g_internal_tried && g_ntaken == 0 && WF_STATES(self))
__CPROVER_assigns(*result, g_region_next, g_acc, g_ntaken, g_internal_tried, __CPROVER_object_whole(self->m_states))
__CPROVER_ensures(g_region_next == nr_regions)                                                       /*@ob C06.every-region-was-offered-the-event */
__CPROVER_ensures((int)*result == g_acc && ACC_INV)                                 /*@ob C06,C07.result-is-the-or-of-the-regions */
__CPROVER_ensures(((g_acc & HANDLED_TRUE) != 0) == (g_ntaken > 0))                                   /*@ob C06,C01.handled-bit-iff-a-transition-was-taken */
;

/* no_transition(evt, fsm, state) -- user callback */
void no_transition(fsm_t* self, event_t evt, fsm_t* fsm, int state)
__CPROVER_requires(g_acc == 0)                                                                       /*@ob C06,C05.no-transition-only-if-nothing-reacted */
__CPROVER_requires(!g_is_completion_event)                                                           /*@ob C06,C10.no-transition-never-for-completion-events */
__CPROVER_requires(0 <= g_nt_next && g_nt_next < nr_regions && state == self->m_states[g_nt_next])   /*@ob C06.no-transition-once-per-region-with-its-active-state */
__CPROVER_requires(self == fsm)
__CPROVER_assigns(g_nt_next, g_exc)
__CPROVER_ensures(g_nt_next == __CPROVER_old(g_nt_next)+1)
;
_Bool is_contained(fsm_t* self)
__CPROVER_assigns()
__CPROVER_ensures(__CPROVER_return_value == g_is_contained)
;
#define is_completion_event(E) g_is_completion_event

/* do_process_event(evt, is_direct_call) */
HandledEnum do_process_event(fsm_t* self, event_t evt, _Bool is_direct_call)
__CPROVER_requires(__CPROVER_is_fresh(self, sizeof(*self)) && 1 <= nr_regions && nr_regions <= NR_CAP)
__CPROVER_requires(g_region_next == 0 && g_acc == 0 && !g_internal_tried && g_ntaken == 0 && g_nt_next == 0 && !g_exc && WF_STATES(self))
__CPROVER_assigns(g_region_next, g_acc, g_ntaken, g_internal_tried, g_nt_next, g_exc, __CPROVER_object_whole(self->m_states))
__CPROVER_ensures(!g_exc ==> g_region_next == nr_regions)                                                        /*@ob C06.every-region-was-offered-the-event */
__CPROVER_ensures(!g_exc ==> (int)__CPROVER_return_value == g_acc)                                               /*@ob C06,C07.result-is-the-or-of-the-regions */
__CPROVER_ensures(!g_exc ==> (((g_acc & HANDLED_TRUE) != 0) == (g_ntaken > 0)))                                  /*@ob C06,C01.handled-bit-iff-a-transition-was-taken */
__CPROVER_ensures(!g_exc ==> (g_nt_next == ((g_acc == 0 && !g_is_completion_event && (!g_is_contained || is_direct_call)) ? nr_regions : 0)))   /*@ob C06,C05,C10.no-transition-exactly-when-nothing-reacted */
;
