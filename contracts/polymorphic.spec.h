/* polymorphic.spec.h -- backmp11/detail/basic_polymorphic.hpp: stored events keep their value and are destroyed exactly once
   (C20), copies/moves are faithful and independent (C15).  REAL memory model: m_buffer is a BUFSZ-byte object, memcpy is
   the C library memcpy (bounds checked by CBMC), ownership of the heap pointer moves.  Type-specific operations are
   function pointers under __CPROVER_obeys_contract with a ghost lifetime ledger:
       g_live[0] : the object stored in / owned by *this (dest)      g_live[1] : the object stored in / owned by other (src)
       0 = no object (raw storage / null), 1 = constructed, 2 = destroyed                                             */
#include <string.h>
#define BUFSZ 56                                /* 64 - sizeof(control_block*) (basic_polymorphic_base default) */
typedef void (*copy_construct_fn_t)(void* dest, const void* src);
typedef void (*move_construct_fn_t)(void* dest, void* src);
typedef void (*delete_fn_t)(void* obj);
typedef struct control_block { copy_construct_fn_t copy_construct_fn; move_construct_fn_t move_construct_fn; delete_fn_t delete_fn; uint8_t size; _Bool is_inline; } control_block;
typedef struct poly { const control_block* m_control_block; union { void* m_ptr; unsigned char m_buffer[BUFSZ]; } u; } poly_t;
#define nullptr ((void*)0)
extern int g_step; extern const control_block* const g_cb_this; extern const control_block* const g_cb_other;
extern int g_live[2];
extern int g_ncopy, g_nmove, g_ndel;
extern const size_t g_k;                        /* ghost byte index */
extern void* const g_dest; extern const void* const g_src;   /* the two storages the unit works on */

void copy_fn_contract(void* dest, const void* src)
__CPROVER_requires(dest == g_dest && src == g_src)                                /*@ob C20,C15.copy-constructs-into-the-destination-from-the-source */
__CPROVER_requires(g_live[1] == 1)                                                /*@ob C20.copied-from-a-live-object */
__CPROVER_requires(g_live[0] != 1)                                                /*@ob C20.never-constructed-over-a-live-object */
__CPROVER_requires(g_ncopy < 1000)
__CPROVER_assigns(g_live[0], g_ncopy)
__CPROVER_ensures(g_live[0] == 1 && g_ncopy == __CPROVER_old(g_ncopy) + 1)
;
void move_fn_contract(void* dest, void* src)
__CPROVER_requires(dest == g_dest && src == g_src)
__CPROVER_requires(g_live[1] == 1)                                                /*@ob C20.moved-from-a-live-object */
__CPROVER_requires(g_live[0] != 1)                                                /*@ob C20.never-constructed-over-a-live-object */
__CPROVER_requires(g_nmove < 1000)
__CPROVER_assigns(g_live[0], g_nmove)
__CPROVER_ensures(g_live[0] == 1 && g_nmove == __CPROVER_old(g_nmove) + 1)
;
void delete_fn_contract(void* obj)
__CPROVER_requires(obj == g_obj)                                                  /*@ob C20.destroys-the-stored-object */
__CPROVER_requires(g_live[0] == 1)                                                /*@ob C20.destroyed-exactly-once-and-only-if-constructed */
__CPROVER_requires(g_ndel < 1000)
__CPROVER_assigns(g_live[0], g_ndel)
__CPROVER_ensures(g_live[0] == 2 && g_ndel == __CPROVER_old(g_ndel) + 1)
;
extern void* const g_obj;
copy_construct_fn_t addr_taken_1 = copy_fn_contract; move_construct_fn_t addr_taken_2 = move_fn_contract; delete_fn_t addr_taken_3 = delete_fn_contract;   /* the contract functions must have their address taken */

#define CB_OK(cb) (__CPROVER_is_fresh(cb, sizeof(*cb)) && (cb)->size <= BUFSZ \
   && ((cb)->copy_construct_fn == 0 || __CPROVER_obeys_contract((cb)->copy_construct_fn, copy_fn_contract)) \
   && ((cb)->move_construct_fn == 0 || __CPROVER_obeys_contract((cb)->move_construct_fn, move_fn_contract)) \
   && ((cb)->delete_fn == 0 || __CPROVER_obeys_contract((cb)->delete_fn, delete_fn_contract)) \
   && ((cb)->is_inline || ((cb)->copy_construct_fn != 0)))      /* heap objects always carry a copy function (create_control_block<T,false>) */

/* control_block::copy */
void cb_copy(const control_block* self, void* dest, const void* src)
__CPROVER_requires(CB_OK(self) && __CPROVER_is_fresh(dest, BUFSZ) && __CPROVER_is_fresh(src, BUFSZ) && dest == g_dest && src == g_src)
__CPROVER_requires(g_live[1] == 1 && g_live[0] != 1 && 0 <= g_ncopy && g_ncopy < 100 && g_k < self->size)
__CPROVER_assigns(__CPROVER_object_whole(dest), g_live[0], g_ncopy)                                             /*@ob C15,C20.copy-leaves-the-source-untouched */
__CPROVER_ensures((self->is_inline && !self->copy_construct_fn) ==> (((const unsigned char*)dest)[g_k] == ((const unsigned char*)src)[g_k] && g_ncopy == __CPROVER_old(g_ncopy)))   /*@ob C20,C15,C18.trivial-inline-object-copied-byte-for-byte */
__CPROVER_ensures(!(self->is_inline && !self->copy_construct_fn) ==> (g_ncopy == __CPROVER_old(g_ncopy) + 1 && g_live[0] == 1))      /*@ob C20,C15.non-trivial-object-copy-constructed-exactly-once */
;
/* control_block::move */
void cb_move(const control_block* self, void* dest, void* src)
__CPROVER_requires(CB_OK(self) && __CPROVER_is_fresh(dest, BUFSZ) && __CPROVER_is_fresh(src, BUFSZ) && dest == g_dest && src == g_src)
__CPROVER_requires(g_live[1] == 1 && g_live[0] != 1 && 0 <= g_nmove && g_nmove < 100 && g_k < self->size)
__CPROVER_assigns(__CPROVER_object_whole(dest), __CPROVER_object_whole(src), g_live[0], g_nmove)
__CPROVER_ensures((self->is_inline && !self->move_construct_fn) ==> (((const unsigned char*)dest)[g_k] == __CPROVER_old(((const unsigned char*)src)[g_k]) && g_nmove == __CPROVER_old(g_nmove)))   /*@ob C20.trivial-inline-object-moved-byte-for-byte */
__CPROVER_ensures((self->is_inline && self->move_construct_fn) ==> (g_nmove == __CPROVER_old(g_nmove) + 1 && g_live[0] == 1))        /*@ob C20.non-trivial-inline-object-move-constructed-exactly-once */
__CPROVER_ensures(!self->is_inline ==> (*(void**)dest == __CPROVER_old(*(void**)src) && *(void**)src == 0 && g_nmove == __CPROVER_old(g_nmove)))   /*@ob C15,C20.heap-object-ownership-moves-and-source-is-nulled */
;
/* control_block::destroy */
void cb_destroy(const control_block* self, void* obj)
__CPROVER_requires(CB_OK(self) && obj == g_obj && 0 <= g_ndel && g_ndel < 100)
__CPROVER_requires((self->delete_fn && obj) ==> g_live[0] == 1)
__CPROVER_assigns(g_live[0], g_ndel)
__CPROVER_ensures((self->delete_fn && obj) ? (g_ndel == __CPROVER_old(g_ndel) + 1 && g_live[0] == 2) : (g_ndel == __CPROVER_old(g_ndel)))   /*@ob C20.destroyed-exactly-once-if-it-needs-destruction */
;

/* ---- basic_polymorphic_base members ---- */
void* poly_get(const poly_t* self)
__CPROVER_requires(__CPROVER_is_fresh(self, sizeof(*self)) && __CPROVER_is_fresh(self->m_control_block, sizeof(control_block)))
__CPROVER_assigns()
__CPROVER_ensures(__CPROVER_return_value == (self->m_control_block->is_inline ? (void*)&self->u.m_buffer : self->u.m_ptr))      /*@ob C20,C18.get-returns-the-stored-object */
;
/* stubs of the control block members seen from the polymorphic object (the units above, contract-only) */
void m_cb_destroy(const control_block* cb, void* obj)
__CPROVER_requires(g_step == 0)                                                   /*@ob C20.old-object-destroyed-first-and-once */
__CPROVER_requires(cb == g_cb_this && obj == g_obj)                               /*@ob C20.destroys-the-stored-object */
__CPROVER_assigns(g_step)
__CPROVER_ensures(g_step == 1)
;
void m_cb_copy(const control_block* cb, void* dest, const void* src)
__CPROVER_requires(g_step == (IS_ASSIGN ? 1 : 0))                                 /*@ob C20.new-object-constructed-after-the-old-one-was-destroyed */
__CPROVER_requires(cb == g_cb_other && dest == g_dest && src == g_src)            /*@ob C15,C20.copy-uses-the-sources-control-block-and-storages */
__CPROVER_assigns(g_step)
__CPROVER_ensures(g_step == 2)
;
void m_cb_move(const control_block* cb, void* dest, void* src)
__CPROVER_requires(g_step == (IS_ASSIGN ? 1 : 0))                                 /*@ob C20.new-object-constructed-after-the-old-one-was-destroyed */
__CPROVER_requires(cb == g_cb_other && dest == g_dest && src == g_src)            /*@ob C15,C20.move-uses-the-sources-control-block-and-storages */
__CPROVER_assigns(g_step)
__CPROVER_ensures(g_step == 2)
;
#ifndef IS_ASSIGN
#define IS_ASSIGN 0
#endif
void poly_destroy(poly_t* self)
__CPROVER_requires(__CPROVER_is_fresh(self, sizeof(*self)) && __CPROVER_is_fresh(self->m_control_block, sizeof(control_block)) && self->m_control_block == g_cb_this && g_step == 0)
__CPROVER_requires(g_obj == (self->m_control_block->is_inline ? (void*)&self->u.m_buffer : self->u.m_ptr))
__CPROVER_assigns(g_step, self->u.m_ptr)
__CPROVER_ensures(g_step == 1)                                                                                   /*@ob C20.destroy-called-exactly-once */
__CPROVER_ensures(!self->m_control_block->is_inline ==> self->u.m_ptr == 0)                                      /*@ob C20.heap-pointer-nulled-after-destroy-no-double-free */
;
/* copy/move constructor and assignment: `other` is a second object */
void poly_copy_ctor(poly_t* self, const poly_t* other)
__CPROVER_requires(__CPROVER_is_fresh(self, sizeof(*self)) && __CPROVER_is_fresh(other, sizeof(*other)) && other->m_control_block == g_cb_other && g_step == 0)
__CPROVER_requires(g_dest == (void*)&self->u.m_ptr && g_src == (const void*)&other->u.m_ptr)
__CPROVER_assigns(g_step, self->m_control_block)
__CPROVER_ensures(g_step == 2 && self->m_control_block == other->m_control_block)                                /*@ob C15,C20.copy-takes-the-sources-type-and-copies-its-object */
;
poly_t* poly_copy_assign(poly_t* self, const poly_t* other)
__CPROVER_requires(__CPROVER_is_fresh(self, sizeof(*self)) && g_step == 0)
#if SELF_ASSIGN
__CPROVER_requires(other == self)
#else
__CPROVER_requires(__CPROVER_is_fresh(other, sizeof(*other)))
#endif
__CPROVER_requires(__CPROVER_is_fresh(self->m_control_block, sizeof(control_block)) && self->m_control_block == g_cb_this && other->m_control_block == g_cb_other)
__CPROVER_requires(g_obj == (self->m_control_block->is_inline ? (void*)&self->u.m_buffer : self->u.m_ptr))
__CPROVER_requires(g_dest == (void*)&self->u.m_ptr && g_src == (const void*)&other->u.m_ptr)
__CPROVER_assigns(g_step, self->m_control_block, self->u.m_ptr)
__CPROVER_ensures(SELF_ASSIGN ? (g_step == 0 && self->m_control_block == __CPROVER_old(self->m_control_block)) : (g_step == 2 && self->m_control_block == other->m_control_block))   /*@ob C15,C20.assignment-destroys-old-then-copies-self-assignment-is-a-no-op */
__CPROVER_ensures(__CPROVER_return_value == self)
;
#ifndef SELF_ASSIGN
#define SELF_ASSIGN 0
#endif
void poly_move_ctor(poly_t* self, poly_t* other)
__CPROVER_requires(__CPROVER_is_fresh(self, sizeof(*self)) && __CPROVER_is_fresh(other, sizeof(*other)) && other->m_control_block == g_cb_other && g_step == 0)
__CPROVER_requires(g_dest == (void*)&self->u.m_ptr && g_src == (const void*)&other->u.m_ptr)
__CPROVER_assigns(g_step, self->m_control_block)
__CPROVER_ensures(g_step == 2 && self->m_control_block == other->m_control_block)                                /*@ob C15,C20.move-takes-the-sources-type-and-moves-its-object */
;
poly_t* poly_move_assign(poly_t* self, poly_t* other)
__CPROVER_requires(__CPROVER_is_fresh(self, sizeof(*self)) && g_step == 0)
#if SELF_ASSIGN
__CPROVER_requires(other == self)
#else
__CPROVER_requires(__CPROVER_is_fresh(other, sizeof(*other)))
#endif
__CPROVER_requires(__CPROVER_is_fresh(self->m_control_block, sizeof(control_block)) && self->m_control_block == g_cb_this && other->m_control_block == g_cb_other)
__CPROVER_requires(g_obj == (self->m_control_block->is_inline ? (void*)&self->u.m_buffer : self->u.m_ptr))
__CPROVER_requires(g_dest == (void*)&self->u.m_ptr && g_src == (const void*)&other->u.m_ptr)
__CPROVER_assigns(g_step, self->m_control_block, self->u.m_ptr)
__CPROVER_ensures(SELF_ASSIGN ? (g_step == 0 && self->m_control_block == __CPROVER_old(self->m_control_block)) : (g_step == 2 && self->m_control_block == other->m_control_block))   /*@ob C15,C20.assignment-destroys-old-then-moves-self-assignment-is-a-no-op */
__CPROVER_ensures(__CPROVER_return_value == self)
;
void poly_dtor(poly_t* self)
__CPROVER_requires(__CPROVER_is_fresh(self, sizeof(*self)) && __CPROVER_is_fresh(self->m_control_block, sizeof(control_block)) && self->m_control_block == g_cb_this && g_step == 0)
__CPROVER_requires(g_obj == (self->m_control_block->is_inline ? (void*)&self->u.m_buffer : self->u.m_ptr))
__CPROVER_assigns(g_step, self->u.m_ptr)
__CPROVER_ensures(g_step == 1)                                                                                   /*@ob C20.destructor-destroys-the-stored-object-exactly-once */
;

/* ---- IsInline<U> (the constant expression that decides buffer vs heap) and the converting constructor (C20: "regardless of size,
   alignment ... no invalid memory access").  sizeof(U), alignof(U) and the nothrow-move trait are symbolic; BufferSize / BufferAlignment
   are the defaults of the class template (64 - sizeof(control_block*) = 56, alignof(void*) = 8) ---- */
#if UNIT_INLINE
#define BufferSize ((size_t)BUFSZ)
#define BufferAlignment ((size_t)8)
#define MEMBER_INIT(name, e) return (e)
_Bool IsInline(size_t size_U, size_t align_U, _Bool nothrow_move_U)
__CPROVER_requires(size_U >= 1 && align_U >= 1)
__CPROVER_assigns()
__CPROVER_ensures(__CPROVER_return_value ==> size_U <= BufferSize)                                   /*@ob C20.inline-storage-only-for-objects-that-fit-the-buffer */
__CPROVER_ensures(__CPROVER_return_value ==> align_U <= BufferAlignment)                             /*@ob C20.inline-storage-only-for-objects-the-buffer-alignment-suits */
__CPROVER_ensures(__CPROVER_return_value ==> nothrow_move_U)                                         /*@ob C20.inline-storage-only-if-the-move-cannot-throw */
__CPROVER_ensures((size_U <= BufferSize && align_U <= BufferAlignment && nothrow_move_U) ==> __CPROVER_return_value)
;
#endif
#if UNIT_CONV_CTOR
extern const size_t g_size_U, g_align_U; extern const _Bool g_nothrow_move_U, g_trivial_U; extern int g_built;
extern const control_block g_cb_inline, g_cb_heap;
_Bool IsInline(size_t size_U, size_t align_U, _Bool nothrow_move_U)       /* the contract proved by the IsInline unit */
__CPROVER_requires(size_U >= 1 && align_U >= 1)
__CPROVER_assigns()
__CPROVER_ensures(__CPROVER_return_value ==> (size_U <= BUFSZ && align_U <= 8 && nothrow_move_U))
;
#define IS_INLINE_U is_inline_U
void placement_new_copy(void* where, const void* obj)           /* new (&m_buffer) U(obj) */
__CPROVER_requires(where == g_dest && g_built == 0)                               /*@ob C20.object-constructed-exactly-once-in-the-own-buffer */
__CPROVER_requires(g_size_U <= BUFSZ && g_align_U <= 8)                           /*@ob C20.object-constructed-in-the-buffer-fits-size-and-alignment */
__CPROVER_assigns(g_built)
__CPROVER_ensures(g_built == 1)
;
void* heap_new_copy(const void* obj)                             /* new U(obj) */
__CPROVER_requires(g_built == 0)
__CPROVER_assigns(g_built)
__CPROVER_ensures(g_built == 2 && __CPROVER_return_value == g_heap_obj)
;
extern void* const g_heap_obj;
void poly_conv_ctor(poly_t* self, const void* obj)
__CPROVER_requires(__CPROVER_is_fresh(self, sizeof(*self)) && __CPROVER_is_fresh(obj, BUFSZ) && g_dest == (void*)&self->u.m_buffer && g_built == 0 && g_size_U >= 1 && g_align_U >= 1)
__CPROVER_assigns(__CPROVER_object_whole(self), g_built)
__CPROVER_ensures(g_built == 1 || g_built == 2)                                                                 /*@ob C20.stored-object-constructed-exactly-once */
__CPROVER_ensures(g_built == 1 ==> (self->m_control_block == &g_cb_inline && g_size_U <= BUFSZ && g_align_U <= 8))   /*@ob C20.inline-control-block-iff-the-object-lives-in-the-buffer */
__CPROVER_ensures(g_built == 2 ==> (self->m_control_block == &g_cb_heap && self->u.m_ptr == g_heap_obj))             /*@ob C20.heap-control-block-iff-the-object-lives-on-the-heap */
__CPROVER_ensures((g_built == 1 && g_trivial_U) ==> self->u.m_buffer[g_k % BUFSZ] == ((const unsigned char*)obj)[g_k % BUFSZ] || g_k % BUFSZ >= g_size_U)   /*@ob C20,C15,C18.trivially-copyable-object-copied-byte-for-byte */
;
#endif
