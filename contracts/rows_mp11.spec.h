/* rows_mp11.spec.h -- contracts for backmp11 transition<Row,HasAction,HasGuard>::execute, internal_transition::execute (x2),
   call_guard_or_true, call_action_or_true.  Same obligations (labels) as rows_back.spec.h:
   C02 order, C19 policy observation, C09 exit-point source, C03 ledger, C12 exceptional state, C10 completion hook. */

extern const type_t current_state_type, next_state_type, Row, StateMachine;
extern const _Bool HasGuard, HasAction;     /* template parameters: symbolic, all four combinations proved at once */
extern const int policy;                    /* 0 after_entry(default) 1 before_transition 2 after_exit 3 after_transition_action */
extern const _Bool g_src_is_exit_pt;        /* Row::Source is an exit_pt<> pseudo state of the submachine current_state_type */
extern const _Bool g_exit_active;           /* ... and that exit point is currently the active state of its region in the submachine */
extern int  g_region;
extern int  g_act[NSTATE_CAP];
extern int  g_guard_calls;
extern const int g_cur, g_nxt;

int __CPROVER_uninterpreted_get_state_id_mp11(type_t);
stref_t __CPROVER_uninterpreted_get_state(type_t);
#define get_state_id_mp11 __CPROVER_uninterpreted_get_state_id_mp11
#define CUR get_state_id_mp11(current_state_type)
#define NXT get_state_id_mp11(next_state_type)

/* ---- C19 oracle, typed in from the property statement (same table as rows_back.spec.h) */
#define ORACLE_GUARD   (CUR)
#define ORACLE_EXIT    ((policy==1) ? NXT : CUR)
#define ORACLE_ACTION  ((policy==1 || policy==2) ? NXT : CUR)
#define ORACLE_ENTRY   ((policy==0) ? CUR : NXT)
#define ORACLE_AT_PHASE(p) ((p)==0 ? ORACLE_GUARD : (p)==1 ? ORACLE_EXIT : (p)==2 ? ORACLE_ACTION : (p)==3 ? ORACLE_ENTRY : NXT)

static int pol0_after_guard(int,int); static int pol0_after_exit(int,int); static int pol0_after_action(int,int); static int pol0_after_entry(int,int);
static int pol1_after_guard(int,int); static int pol1_after_exit(int,int); static int pol1_after_action(int,int); static int pol1_after_entry(int,int);
static int pol2_after_guard(int,int); static int pol2_after_exit(int,int); static int pol2_after_action(int,int); static int pol2_after_entry(int,int);
static int pol3_after_guard(int,int); static int pol3_after_exit(int,int); static int pol3_after_action(int,int); static int pol3_after_entry(int,int);
#ifndef ROW_INTERNAL
#define ROW_INTERNAL 0
#endif
#ifndef ROW_SM_INTERNAL
#define ROW_SM_INTERNAL 0
#endif
#if !ROW_INTERNAL && !defined(NO_POLICY)
#define POLSEL(f) static int active_state_switching_##f(int c,int n){ return policy==0? pol0_##f(c,n) : policy==1? pol1_##f(c,n) : policy==2? pol2_##f(c,n) : pol3_##f(c,n); }
POLSEL(after_guard) POLSEL(after_exit) POLSEL(after_action) POLSEL(after_entry)
#endif

/* owner.is_state_active<Row::Source>() for a row whose source is an exit point (is_state_active's own unit: introspect.spec.h) */
#define has_exit_pseudostate_be_tag(x) g_src_is_exit_pt
_Bool is_exit_state_active_mp11(stref_t owner)
__CPROVER_requires(g_phase==0 && !g_exc)
__CPROVER_assigns()
__CPROVER_ensures(__CPROVER_return_value==g_exit_active)
;

/* user guard / action through invoke_guard_functor / Row::guard_call (call_guard_or_true's own unit) */
_Bool user_guard(fsm_t* sm, event_t event, stref_t source, stref_t target)
__CPROVER_requires(g_phase==0 && !g_exc)                                                       /*@ob C02,C01.guard-first-and-once */
__CPROVER_requires(ROW_INTERNAL || sm->m_active_state_ids[g_region]==ORACLE_GUARD)             /*@ob C19,C03.guard-observes-source */
__CPROVER_requires(ROW_INTERNAL || !g_src_is_exit_pt || g_exit_active)                         /*@ob C09,C01.exit-point-row-only-while-active */
__CPROVER_requires(g_guard_calls < 1000)
__CPROVER_assigns(g_phase, g_exc, g_guard_calls)
__CPROVER_ensures(g_guard_calls==__CPROVER_old(g_guard_calls)+1)
__CPROVER_ensures(g_phase == ((!g_exc && __CPROVER_return_value) ? 1 : 0))
;
HandledEnum user_action(fsm_t* sm, event_t event, stref_t source, stref_t target)
__CPROVER_requires(!g_exc)
__CPROVER_requires(ROW_INTERNAL ? g_phase==1 : g_phase==2)                                      /*@ob C02,C19.action-after-exit-before-entry */
__CPROVER_requires(ROW_INTERNAL || sm->m_active_state_ids[g_region]==ORACLE_ACTION)            /*@ob C19,C03.action-observes-policy-state */
__CPROVER_assigns(g_phase, g_exc)
__CPROVER_ensures(g_exc || g_phase==3)
__CPROVER_ensures(!g_exc || g_phase==__CPROVER_old(g_phase))
__CPROVER_ensures(__CPROVER_return_value==HANDLED_TRUE || __CPROVER_return_value==HANDLED_DEFERRED)
;

/* call_guard_or_true<Row,HasGuard>(sm,event,source,target): if constexpr on has_Guard<Row> / HasGuard */
extern const _Bool g_has_Guard_typedef, g_has_Action_typedef;    /* has_Guard<Row>::value / has_Action<Row>::value (functor rows) */
#define has_Guard(R)  g_has_Guard_typedef
#define has_Action(R) g_has_Action_typedef
#define HAS_ANY_GUARD  (g_has_Guard_typedef || HasGuardP)
#define NO_GUARD_STEP() (g_phase = 1)      /* ghost only: a row without guard passes the guard phase */
_Bool call_guard_or_true(type_t row, _Bool HasGuardP, fsm_t* sm, event_t event, stref_t source, stref_t target)
__CPROVER_requires(__CPROVER_is_fresh(sm, sizeof(*sm)) && (ROW_INTERNAL || (0<=g_region && g_region<NR_CAP && 0<=policy && policy<=3)))
__CPROVER_requires(g_phase==0 && !g_exc)                                                       /*@ob C02,C01.guard-first-and-once */
__CPROVER_requires(ROW_INTERNAL || sm->m_active_state_ids[g_region]==ORACLE_GUARD)             /*@ob C19,C03.guard-observes-source */
__CPROVER_requires(ROW_INTERNAL || !g_src_is_exit_pt || g_exit_active)                         /*@ob C09,C01.exit-point-row-only-while-active */
__CPROVER_requires(0 <= g_guard_calls && g_guard_calls < 1000)
__CPROVER_assigns(g_phase, g_exc, g_guard_calls)
__CPROVER_ensures(g_guard_calls==__CPROVER_old(g_guard_calls)+ (HAS_ANY_GUARD ? 1 : 0))        /*@ob C01,C02.guard-evaluated-exactly-once-per-row */
__CPROVER_ensures(HAS_ANY_GUARD || (__CPROVER_return_value && !g_exc))                         /*@ob C02.row-without-guard-is-always-enabled */
__CPROVER_ensures(g_phase == ((!g_exc && __CPROVER_return_value) ? 1 : 0))
;
HandledEnum call_action_or_true(type_t row, _Bool HasActionP, fsm_t* sm, event_t event, stref_t source, stref_t target)
__CPROVER_requires(__CPROVER_is_fresh(sm, sizeof(*sm)) && (ROW_INTERNAL || (0<=g_region && g_region<NR_CAP && 0<=policy && policy<=3)))
__CPROVER_requires(!g_exc)
__CPROVER_requires(ROW_INTERNAL ? g_phase==1 : g_phase==2)                                      /*@ob C02,C19.action-after-exit-before-entry */
__CPROVER_requires(ROW_INTERNAL || sm->m_active_state_ids[g_region]==ORACLE_ACTION)            /*@ob C19,C03.action-observes-policy-state */
__CPROVER_assigns(g_phase, g_exc)
__CPROVER_ensures(g_exc || g_phase==3)
__CPROVER_ensures(!g_exc || g_phase==__CPROVER_old(g_phase))
__CPROVER_ensures(__CPROVER_return_value==HANDLED_TRUE || __CPROVER_return_value==HANDLED_DEFERRED)
;
/* no-op step used by call_action_or_true when the row has no action (ghost only) */
#define NO_ACTION_STEP() (g_phase = 3)

void state_on_exit(type_t st, stref_t s, event_t event, fsm_t* fsm)
__CPROVER_requires(g_phase==1 && !g_exc)                                          /*@ob C02,C19.exit-after-guard-before-action */
__CPROVER_requires(st==current_state_type)                                        /*@ob C02,C03.exit-of-the-source-state */
__CPROVER_requires(fsm->m_active_state_ids[g_region]==ORACLE_EXIT)                /*@ob C19,C03.exit-observes-policy-state */
__CPROVER_requires(g_act[g_cur]==1)                                               /*@ob C03,C02.exit-only-of-an-active-state */
__CPROVER_assigns(g_phase, g_exc, g_act[g_cur])
__CPROVER_ensures(g_exc || (g_phase==2 && g_act[g_cur]==0))
__CPROVER_ensures(!g_exc || (g_phase==__CPROVER_old(g_phase)))
;
void call_entry(type_t row, fsm_t* sm, event_t event, stref_t target)
__CPROVER_requires(g_phase==3 && !g_exc)                                          /*@ob C02,C19.entry-last */
__CPROVER_requires(row==Row)
__CPROVER_requires(sm->m_active_state_ids[g_region]==ORACLE_ENTRY)                /*@ob C19,C03.entry-observes-policy-state */
__CPROVER_requires(g_act[g_nxt]==0)                                               /*@ob C03,C02.entry-only-of-an-inactive-state */
__CPROVER_assigns(g_phase, g_exc, g_act[g_nxt])
__CPROVER_ensures(g_exc || (g_phase==4 && g_act[g_nxt]==1))
__CPROVER_ensures(!g_exc || g_phase==__CPROVER_old(g_phase))
;
/* completion hook: may enqueue a completion-event occurrence (its own unit in completion.spec.h) */
void on_state_entry_completed(fsm_t* sm, type_t state, uint8_t region_id)
__CPROVER_requires(g_phase==4 && !g_exc)                                          /*@ob C10,C02.completion-hook-after-entry-completed */
__CPROVER_requires(state==next_state_type && region_id==g_region)
__CPROVER_requires(sm->m_active_state_ids[g_region]==NXT)                         /*@ob C10,C19,C03.completion-hook-sees-the-target-active */
__CPROVER_assigns(g_phase)
__CPROVER_ensures(g_phase==5)
;

process_result transition_execute(fsm_t* sm, uint8_t region_id, event_t event)
__CPROVER_requires(__CPROVER_is_fresh(sm,sizeof(*sm)) && 0<=policy && policy<=3)
__CPROVER_requires(region_id<NR_CAP && g_region==region_id)
__CPROVER_requires(0<=CUR && CUR<NSTATE_CAP && 0<=NXT && NXT<NSTATE_CAP && g_cur==CUR && g_nxt==NXT)
__CPROVER_requires(g_phase==0 && !g_exc && g_guard_calls==0)
__CPROVER_requires(sm->m_active_state_ids[region_id]==CUR)                /* WF: the transition of the active state is the one dispatched */
__CPROVER_requires(g_act[g_cur]==1 && (NXT==CUR || g_act[g_nxt]==0))      /* WF ledger (C03) */
__CPROVER_assigns(g_phase, g_exc, g_guard_calls, sm->m_active_state_ids[region_id], g_act[g_cur], g_act[g_nxt])
__CPROVER_ensures((g_src_is_exit_pt && !g_exit_active) ==> (__CPROVER_return_value==HANDLED_FALSE && g_phase==0 && g_guard_calls==0 && sm->m_active_state_ids[region_id]==CUR))  /*@ob C09,C01,C02.exit-point-row-inert-while-inactive */
__CPROVER_ensures((!g_exc && __CPROVER_return_value==HANDLED_GUARD_REJECT) ==> (g_phase==0 && sm->m_active_state_ids[region_id]==CUR && g_act[g_cur]==1))                        /*@ob C02,C03,C01,C06.rejected-guard-changes-nothing */
__CPROVER_ensures((!g_exc && (__CPROVER_return_value==HANDLED_TRUE || __CPROVER_return_value==HANDLED_DEFERRED)) ==> g_phase==5)                                               /*@ob C02,C03,C06.taken-runs-exit-action-entry */
__CPROVER_ensures((!g_exc && (__CPROVER_return_value==HANDLED_TRUE || __CPROVER_return_value==HANDLED_DEFERRED)) ==> sm->m_active_state_ids[region_id]==NXT)                   /*@ob C19,C03,C02.after-transition-target-is-active */
__CPROVER_ensures((!g_exc && (__CPROVER_return_value==HANDLED_TRUE || __CPROVER_return_value==HANDLED_DEFERRED)) ==> (g_act[g_nxt]==1 && (NXT==CUR || g_act[g_cur]==0)))        /*@ob C03,C02.ledger-agrees-with-active-state */
__CPROVER_ensures(!g_exc ==> (__CPROVER_return_value==HANDLED_TRUE || __CPROVER_return_value==HANDLED_DEFERRED || __CPROVER_return_value==HANDLED_GUARD_REJECT || __CPROVER_return_value==HANDLED_FALSE))
__CPROVER_ensures(g_guard_calls <= 1)                                                                                                                                           /*@ob C01,C02.guard-at-most-once */
__CPROVER_ensures(g_exc ==> (g_phase<4 && sm->m_active_state_ids[region_id]==ORACLE_AT_PHASE(g_phase)))                                                                        /*@ob C12,C03.throw-leaves-policy-state */
;

process_result internal_transition_execute(fsm_t* sm, uint8_t region_id, event_t event)
__CPROVER_requires(__CPROVER_is_fresh(sm,sizeof(*sm)) && region_id<NR_CAP)
__CPROVER_requires(g_phase==0 && !g_exc && g_guard_calls==0)
__CPROVER_requires(ROW_SM_INTERNAL || sm->m_active_state_ids[region_id]==CUR)
__CPROVER_assigns(g_phase, g_exc, g_guard_calls)                                                     /*@ob C02,C03.internal-row-frame */
__CPROVER_ensures((!g_exc && __CPROVER_return_value==HANDLED_GUARD_REJECT) ==> g_phase==0)           /*@ob C02,C03,C01,C06.rejected-guard-changes-nothing */
__CPROVER_ensures((!g_exc && __CPROVER_return_value!=HANDLED_GUARD_REJECT) ==> (g_phase==3 && (__CPROVER_return_value==HANDLED_TRUE || __CPROVER_return_value==HANDLED_DEFERRED)))  /*@ob C02,C01,C06.internal-row-guard-then-action */
__CPROVER_ensures(g_guard_calls <= 1)                                                                /*@ob C01,C02.guard-at-most-once */
;
