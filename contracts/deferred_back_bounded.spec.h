/* deferred_back_bounded.spec.h -- BOUNDED stand-in for C05(c) (back/back11 do_handle_deferred + sort_greater + set_sequence)
   Not a contract proof: the deferred queue is a concrete array of at most QN elements and the recursion of
   do_handle_deferred is unwound (at most BUDGET handled events); the sequence counter `char m_cur_seq` is FULL RANGE
   (all 256 values).  std::stable_sort is replaced by a stable insertion sort that calls the EXTRACTED comparator
   [A: stability and ordering contract of std::stable_sort]; std::for_each by a loop calling the EXTRACTED functor.
   Checked: (a) every element whose sequence number is current at pass start is invoked at most once per pass, in queue order;
            (b) elements leave the queue only by being invoked;  (c) after a pass in which an event was handled the queue is
            again in arrival order;  (d) a new cycle retries EVERY pending occurrence, oldest first;  (e) every occurrence still
            pending at the end was re-evaluated after the last handled event (= configuration change) and waits for the next cycle.                                                                                         */
#ifndef QN
#define QN 3
#endif
#ifndef BUDGET
#define BUDGET 2
#endif
#define CAP (2*QN+2)
typedef struct { int first; /* the stored functor, identified by its arrival ticket */ char second; } pair_t;
typedef pair_t value_type;
typedef struct { pair_t a[CAP]; int n; } dq_t;
typedef struct { dq_t m_deferred_events_queue; char m_cur_seq; } helper_t;
typedef int deferred_fct;
static _Bool dq_empty(dq_t* q){ return q->n==0; }
static pair_t* dq_front(dq_t* q){ __CPROVER_assert(q->n>0,"front() on a non-empty queue"); return &q->a[0]; }
static void dq_pop_front(dq_t* q){ __CPROVER_assert(q->n>0,"pop_front() on a non-empty queue"); for(int i=1;i<q->n;i++) q->a[i-1]=q->a[i]; q->n--; }
static void dq_push_back(dq_t* q, pair_t p){ __CPROVER_assert(q->n<CAP,"model capacity"); q->a[q->n++]=p; }
static _Bool sort_greater_call(pair_t const* d1, pair_t const* d2);     /* extracted: sort_greater::operator() */
static void set_sequence_call(char seq_, pair_t* d);                    /* extracted: set_sequence::operator() */
static void std_stable_sort(dq_t* q){ for(int i=1;i<q->n;i++){ pair_t k=q->a[i]; int j=i-1; while(j>=0 && sort_greater_call(&k,&q->a[j])){ q->a[j+1]=q->a[j]; j--; } q->a[j+1]=k; } }
static void std_for_each_set(dq_t* q, char s){ for(int i=0;i<q->n;i++) set_sequence_call(s, &q->a[i]); }
int g_log[8*QN+8]; int g_res[8*QN+8]; int g_nlog; int g_budget; int g_pass_start_log;
int nondet_int(void);
helper_t* g_h;
/* invoking a deferred call (process_event_internal with EVENT_SOURCE_DEFERRED): it may be handled, rejected, unhandled, or
   deferred again (defer_event pushes it at the back with sequence (char)(m_cur_seq+1) -- defer_event's own unit proves that) */
static execute_return invoke_deferred(int ticket){
  __CPROVER_assert(g_nlog < 8*QN+8, "log capacity"); g_log[g_nlog++]=ticket;
  int r=nondet_int(); __CPROVER_assume(0<=r && r<=7);      /* every bit combination of HANDLED_TRUE / GUARD_REJECT / DEFERRED orthogonal regions can produce */
  g_res[g_nlog-1]=r;
  if (r!=HANDLED_FALSE && r!=HANDLED_DEFERRED) { __CPROVER_assume(g_budget>0); g_budget--; }
  if (r & HANDLED_DEFERRED){ pair_t p; p.first=ticket; p.second=(char)(g_h->m_cur_seq+1); dq_push_back(&g_h->m_deferred_events_queue,p); }
  return (execute_return)r;
}
#define cur_seq (m_events_queue->m_cur_seq)      /* the reference local `char& cur_seq = m_events_queue.m_cur_seq;` */
void do_handle_deferred(helper_t* m_events_queue, _Bool new_seq);
