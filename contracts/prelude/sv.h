/* prelude/sv.h -- C model of the std::string_view operations the PlantUML tokenizer uses [A: std::string_view]
   (small, loop-based; unwound by CBMC with --unwinding-assertions: bounded by the string length) */
#ifndef VERIF_SV_H
#define VERIF_SV_H
#include <stddef.h>
#define npos ((size_t)-1)
typedef struct { const char* p; size_t n; } sv_t;
static sv_t sv_empty(void) { sv_t r; r.p = 0; r.n = 0; return r; }
static _Bool sv_is_empty(sv_t s) { return s.n == 0; }
static size_t c_strlen(const char* s) { size_t n = 0; while (s[n]) ++n; return n; }
static _Bool in_set(char c, const char* set) { for (size_t i = 0; set[i]; ++i) if (set[i] == c) return 1; return 0; }
static size_t sv_find_first_not_of(sv_t s, const char* set) { for (size_t i = 0; i < s.n; ++i) if (!in_set(s.p[i], set)) return i; return npos; }
static size_t sv_find_last_not_of(sv_t s, const char* set) { for (size_t i = s.n; i > 0; --i) if (!in_set(s.p[i - 1], set)) return i - 1; return npos; }
static size_t sv_find3(sv_t s, const char* pat, size_t pos) {
  size_t m = c_strlen(pat);
  if (pos > s.n) return npos;
  if (m == 0) return pos;
  for (size_t i = pos; i + m <= s.n; ++i) { size_t j = 0; while (j < m && s.p[i + j] == pat[j]) ++j; if (j == m) return i; }
  return npos; }
static size_t sv_find2(sv_t s, const char* pat) { return sv_find3(s, pat, 0); }
/* substr(pos, count): pos > size() throws std::out_of_range -> an assertion here */
static sv_t sv_substr3(sv_t s, size_t pos, size_t cnt) { __CPROVER_assert(pos <= s.n, "string_view::substr: pos <= size() (would throw std::out_of_range)"); sv_t r; r.p = s.p + pos; size_t rem = s.n - pos; r.n = cnt < rem ? cnt : rem; return r; }
static sv_t sv_substr2(sv_t s, size_t pos) { return sv_substr3(s, pos, npos); }
#define SV_SEL(_1,_2,_3,NAME,...) NAME
#define sv_find(...)   SV_SEL(__VA_ARGS__, sv_find3, sv_find2, x)(__VA_ARGS__)
#define sv_substr(...) SV_SEL(__VA_ARGS__, sv_substr3, sv_substr2, x)(__VA_ARGS__)
static size_t sz_min(size_t a, size_t b) { return a < b ? a : b; }
static _Bool sv_eq_range(sv_t v, const char* base, size_t b, size_t e) { return (b == e && v.n == 0) || (b < e && v.p == base + b && v.n == e - b); }
#endif
