/* prelude/common.h -- abstract machine object, reflected types, ghost ledger (DESIGN.md 4.1 / 4.2).
   Hand-written glue shared by all units; contains NO library logic. */
#ifndef VERIF_PRELUDE_COMMON_H
#define VERIF_PRELUDE_COMMON_H
#include <stddef.h>
#include <stdint.h>

/* back/common_types.hpp HandledEnum ; backmp11/common_types.hpp process_result (same values) */
typedef enum { HANDLED_FALSE=0, HANDLED_TRUE=1, HANDLED_GUARD_REJECT=2, HANDLED_DEFERRED=4 } HandledEnum;
typedef HandledEnum execute_return;
typedef HandledEnum process_result;
enum { EVENT_SOURCE_DEFAULT=0, EVENT_SOURCE_DIRECT=1, EVENT_SOURCE_DEFERRED=2, EVENT_SOURCE_MSG_QUEUE=4 };
typedef unsigned char EventSource;
typedef _Bool bool;
#define true 1
#define false 0

/* staging erasure: a C++ type / state type / event type is a value of type_t */
typedef int type_t;
typedef int stref_t;            /* "reference to the state object of type t" = fusion::at_key<t>(m_substate_list) */
typedef int slist_t;            /* the substate list object */
typedef struct { type_t type; int payload; _Bool wrapped; type_t active_state; } event_t;   /* wrapped: a library direct_entry_event<Target,Event> around (type,payload) */
#define EV_EQ(a,b) ((a).type==(b).type && (a).payload==(b).payload)

#define NR_CAP 8                /* array capacity only -- loops over regions carry loop/recursion contracts */
#define NSTATE_CAP 16

typedef struct fsm {
  int       m_states[NR_CAP];             /* back / back11 */
  uint16_t  m_active_state_ids[NR_CAP];   /* backmp11 */
  _Bool     m_running;                    /* backmp11 */
  struct { uint16_t cur_seq_cnt; } event_pool;   /* backmp11: the deque of occurrences is seen through the pool stubs */
  _Bool     m_event_processing, m_is_included;
  slist_t   m_substate_list;
  int       m_history_last[NR_CAP];     /* history policy memory (Always/Shallow) */
  int       m_history_init[NR_CAP];     /* history policy initial states */
  struct fsm* m_root_sm;                /* backmp11: *m_root_sm (a non_propagating pointer wrapper) */
  struct fsm* m_upper_fsm;              /* back11: the enclosing machine (UpperFsm parameter, get_upper()); wired by the constructor, identity of the OBJECT */
} fsm_t;

/* ---- ghost state (ledger) ---- */
extern int   g_phase;           /* 0 start,1 guard passed,2 exit done,3 action done,4 entry done */
extern _Bool g_exc;             /* a C++ exception is in flight */
#endif
