/* cascade_mp11.spec.h -- backmp11 entry / exit of a (sub)machine and its history implementation
   history_impl<no_history | always_shallow_history | shallow_history<Events...>>::on_entry (x2) / on_exit  (C08; -DPOLICY=0/1/2),
   state_machine_base::preprocess_entry, postprocess_entry, on_entry, on_exit, on_explicit_entry, on_pseudo_entry,
   on_state_entry_completed, state_entry_visitor::operator()        (C02 C04 C08 C09 C10 C12)                               */
#include <string.h>
typedef struct { uint16_t m_last_active_state_ids[NR_CAP]; } hist11_t;
extern const int nr_regions;                 /* symbolic 1..NR_CAP */
extern const int g_k;                        /* ghost region index */
extern const uint16_t g_init_ids16[NR_CAP];  /* value_array<InitialStateIds> */
extern const _Bool g_event_in_history_events, g_has_event_pool;
extern const event_t g_evt;
extern int g_seq, g_entry_next, g_exit_next, g_cleared, g_raised_by_own_entry, g_pool_runs;
#define REGIONS_OK (1 <= nr_regions && nr_regions <= NR_CAP && 0 <= g_k && g_k < nr_regions)
#define ARRAY_ASSIGN(dst, src) memcpy((dst), (src), sizeof(uint16_t) * NR_CAP)     /* std::array assignment [A: element-wise copy] */
#define mp_contains(L, E) g_event_in_history_events
#define StateMachine_event_pool_member_value g_has_event_pool
#ifndef POLICY
#define POLICY 0
#endif
/* sm.get_event_pool().events.clear() : drops stale occurrences of a previous activation (documented no-history behaviour) */
void pool_clear(fsm_t* sm)
__CPROVER_requires(g_raised_by_own_entry == 0)                                   /*@ob C04.events-submitted-during-this-entry-are-not-dropped */
__CPROVER_assigns(g_cleared)
__CPROVER_ensures(g_cleared == 1)
;
/* history_impl::on_entry(sm, event) : set all active state ids */
void hist_on_entry_ids(hist11_t* self, fsm_t* sm, event_t event)
__CPROVER_requires(REGIONS_OK && __CPROVER_is_fresh(self, sizeof(*self)) && __CPROVER_is_fresh(sm, sizeof(*sm)) && g_cleared == 0 && g_raised_by_own_entry == 0)
__CPROVER_assigns(__CPROVER_object_upto(sm->m_active_state_ids, sizeof(sm->m_active_state_ids)), g_cleared)                /*@ob C08.entry-does-not-change-the-memory */
__CPROVER_ensures(sm->m_active_state_ids[g_k] == ((POLICY == 1 || (POLICY == 2 && g_event_in_history_events)) ? self->m_last_active_state_ids[g_k] : g_init_ids16[g_k]))   /*@ob C08,C03.entry-restores-the-documented-configuration */
__CPROVER_ensures(g_cleared == ((g_has_event_pool && (POLICY == 0 || (POLICY == 2 && !g_event_in_history_events))) ? 1 : 0))   /*@ob C05,C08.deferred-events-kept-exactly-with-history */
;
void hist_on_exit(hist11_t* self, fsm_t* sm)
__CPROVER_requires(REGIONS_OK && __CPROVER_is_fresh(self, sizeof(*self)) && __CPROVER_is_fresh(sm, sizeof(*sm)))
__CPROVER_assigns(__CPROVER_object_whole(self))                                                                             /*@ob C08.exit-touches-only-the-history-memory */
__CPROVER_ensures(POLICY == 0 ? self->m_last_active_state_ids[g_k] == __CPROVER_old(self->m_last_active_state_ids[g_k]) : self->m_last_active_state_ids[g_k] == sm->m_active_state_ids[g_k])   /*@ob C08,C03.exit-remembers-the-last-active-state-of-every-region */
;
/* sm.visit<active_non_recursive>(visitor) / mp_for_each<InitialStateIds>(... visitor(state)) : the visitor is called for the active
   state of every region in region order [A: state_visitor.hpp not under contract] */
void visit_active_entry(fsm_t* sm)
__CPROVER_requires(g_seq == 2 && g_entry_next == 0 && !g_exc)                    /*@ob C02,C07,C09,C03.substates-entered-after-the-machines-own-entry-and-after-all-ids-are-set */
__CPROVER_requires(sm->m_event_processing)                                       /*@ob C04,C10.entry-behaviours-run-with-the-busy-mark-set */
__CPROVER_assigns(g_entry_next, g_exc)
__CPROVER_ensures(!g_exc ==> g_entry_next == nr_regions)
;
void visit_wrong_mode(fsm_t* sm)          /* any traversal other than visit<active_non_recursive>: recursive (also the default overload visit(v)) or all-states */
__CPROVER_requires(0)                                                            /*@ob C02,C03,C07,C08.a-machine-enters-and-exits-only-its-own-active-substates-nested-machines-do-theirs-themselves */
__CPROVER_assigns()
;
void hist_on_entry_visit(hist11_t* self, fsm_t* sm, event_t event)
__CPROVER_requires(REGIONS_OK && __CPROVER_is_fresh(self, sizeof(*self)) && __CPROVER_is_fresh(sm, sizeof(*sm)) && g_cleared == 0 && g_raised_by_own_entry == 0)
__CPROVER_requires(g_seq == 1 && g_entry_next == 0 && !g_exc && sm->m_event_processing)
__CPROVER_assigns(__CPROVER_object_upto(sm->m_active_state_ids, sizeof(sm->m_active_state_ids)), g_cleared, g_seq, g_entry_next, g_exc)
__CPROVER_ensures(sm->m_active_state_ids[g_k] == ((POLICY == 1 || (POLICY == 2 && g_event_in_history_events)) ? self->m_last_active_state_ids[g_k] : g_init_ids16[g_k]))   /*@ob C08,C03.entry-restores-the-documented-configuration */
__CPROVER_ensures(!g_exc ==> g_entry_next == nr_regions)                                                                    /*@ob C02,C03,C07.every-regions-substate-entered */
;
#define SET_IDS_THEN(call) ((call), g_seq = 2)      /* ghost step: all ids set */
/* no_history: the entry visitor is applied to std::get<id>(sm.m_states) for the initial state ids, in region order (mp_for_each<InitialStateIds>) */
void visitor_state_by_id(fsm_t* sm, uint16_t state_id)
__CPROVER_requires(g_seq == 2 && !g_exc && 0 <= g_entry_next && g_entry_next < nr_regions)   /*@ob C02,C07,C09,C03.substates-entered-after-the-machines-own-entry-and-after-all-ids-are-set */
__CPROVER_requires(state_id == g_init_ids16[g_entry_next])                                   /*@ob C02,C08.without-history-the-initial-state-of-every-region-is-entered-in-region-order */
__CPROVER_requires(sm->m_event_processing)                                                   /*@ob C04,C10.entry-behaviours-run-with-the-busy-mark-set */
__CPROVER_assigns(g_entry_next, g_exc)
__CPROVER_ensures(g_exc || g_entry_next == __CPROVER_old(g_entry_next) + 1)
__CPROVER_ensures(g_exc ==> g_entry_next == __CPROVER_old(g_entry_next))
;

/* ---- state_machine_base ---- */
void front_on_entry(fsm_t* self, event_t event, fsm_t* fsm)
__CPROVER_requires(g_seq == 0 && !g_exc)                                         /*@ob C02,C07,C09.own-entry-before-any-substate */
__CPROVER_requires(self->m_event_processing && self->m_running)                  /*@ob C04,C10.entry-behaviours-run-with-the-busy-mark-set */
__CPROVER_assigns(g_seq, g_exc, g_raised_by_own_entry)
__CPROVER_ensures(g_exc ? g_seq == 0 : g_seq == 1)
__CPROVER_ensures(g_raised_by_own_entry == 0 || g_raised_by_own_entry == 1)
;
void preprocess_entry(fsm_t* self, event_t event, fsm_t* fsm)
__CPROVER_requires(__CPROVER_is_fresh(self, sizeof(*self)) && g_seq == 0 && !g_exc)
__CPROVER_assigns(self->m_running, self->m_event_processing, g_seq, g_exc, g_raised_by_own_entry)
__CPROVER_ensures(self->m_running)                                                /*@ob C03.every-entry-path-marks-the-machine-running-introspection-and-exit-depend-on-it */
__CPROVER_ensures(self->m_event_processing)                                       /*@ob C04,C10.entry-behaviours-run-with-the-busy-mark-set */
__CPROVER_ensures(g_exc ? g_seq == 0 : g_seq == 1)
;
void process_event_pool(fsm_t* self)
__CPROVER_requires(!self->m_event_processing && !g_exc)                          /*@ob C04,C10.pending-events-run-after-the-step-completed */
__CPROVER_assigns(g_pool_runs, g_exc)
__CPROVER_ensures(g_pool_runs == __CPROVER_old(g_pool_runs) + 1)
;
void postprocess_entry(fsm_t* self)
__CPROVER_requires(__CPROVER_is_fresh(self, sizeof(*self)) && !g_exc && g_pool_runs == 0)
__CPROVER_assigns(self->m_event_processing, g_pool_runs, g_exc)
__CPROVER_ensures(!self->m_event_processing)                                                             /*@ob C04,C10.busy-mark-cleared-after-the-entry */
__CPROVER_ensures(g_pool_runs == (g_has_event_pool ? 1 : 0))                                             /*@ob C04,C05.pending-and-deferred-events-processed-after-entry */
;
void m_history_on_entry_visit(fsm_t* self, event_t event)      /* m_history.on_entry(self(), event, visitor): units above */
__CPROVER_requires(g_seq == 1 && g_entry_next == 0 && !g_exc && self->m_event_processing)
__CPROVER_requires(g_raised_by_own_entry == 0)                                   /*@ob C04.events-submitted-during-this-entry-are-not-dropped */
__CPROVER_requires(EV_EQ(event, g_evt))                                          /*@ob C08.history-decided-by-the-users-entering-event */
__CPROVER_assigns(__CPROVER_object_upto(self->m_active_state_ids, sizeof(self->m_active_state_ids)), g_seq, g_entry_next, g_exc)
__CPROVER_ensures(!g_exc ==> (g_entry_next == nr_regions && g_seq == 2))
;
void machine_on_entry(fsm_t* self, event_t event, fsm_t* fsm)
__CPROVER_requires(REGIONS_OK && __CPROVER_is_fresh(self, sizeof(*self)) && g_seq == 0 && g_entry_next == 0 && !g_exc && g_pool_runs == 0 && EV_EQ(event, g_evt) && !self->m_event_processing)
__CPROVER_assigns(self->m_running, self->m_event_processing, __CPROVER_object_upto(self->m_active_state_ids, sizeof(self->m_active_state_ids)), g_seq, g_entry_next, g_exc, g_raised_by_own_entry, g_pool_runs)
__CPROVER_ensures(!g_exc ==> (g_entry_next == nr_regions && g_seq == 2 && g_pool_runs == (g_has_event_pool ? 1 : 0)))     /*@ob C02,C05.entry-then-pending-events */
__CPROVER_ensures(!self->m_event_processing)                                                                               /*@ob C04,C12.machine-not-left-busy */
__CPROVER_ensures(self->m_running)                                                                                         /*@ob C03.entered-machine-is-marked-running */
;
/* on_exit */
void visit_active_exit(fsm_t* self, event_t event)
__CPROVER_requires(g_seq == 0 && g_exit_next == 0 && !g_exc && EV_EQ(event, g_evt))   /*@ob C02,C07.substates-exited-first */
__CPROVER_assigns(g_exit_next, g_exc)
__CPROVER_ensures(!g_exc ==> g_exit_next == nr_regions)
;
void front_on_exit(fsm_t* self, event_t event, fsm_t* fsm)
__CPROVER_requires(g_exit_next == nr_regions && g_seq == 0 && !g_exc)            /*@ob C02,C07.own-exit-after-all-substates */
__CPROVER_assigns(g_seq, g_exc)
__CPROVER_ensures(g_exc ? g_seq == 0 : g_seq == 1)
;
void m_history_on_exit(fsm_t* self)
__CPROVER_requires(g_seq == 1 && !g_exc)                                         /*@ob C08.memory-updated-after-the-substates-and-the-machine-exited */
__CPROVER_assigns(g_seq)
__CPROVER_ensures(g_seq == 2)
;
void machine_on_exit(fsm_t* self, event_t event, fsm_t* fsm)
__CPROVER_requires(REGIONS_OK && __CPROVER_is_fresh(self, sizeof(*self)) && g_seq == 0 && g_exit_next == 0 && !g_exc && EV_EQ(event, g_evt))
__CPROVER_assigns(g_seq, g_exit_next, g_exc)                                                                 /*@ob C02,C03.exit-changes-no-active-state */
__CPROVER_ensures(!g_exc ==> (g_exit_next == nr_regions && g_seq == 2))                                      /*@ob C02,C07,C08.exit-cascade-substates-then-machine-then-history */
;
/* on_state_entry_completed<State>(region_id) */
extern const _Bool g_state_is_composite, g_state_has_completion; extern int g_front_pushed;
#define is_composite(S) g_state_is_composite
#define has_completion_transitions(D, S) g_state_has_completion
extern const uint8_t g_crid;
void pool_push_front_completion(fsm_t* self, uint8_t region_id)
__CPROVER_requires(g_front_pushed == 0)
__CPROVER_requires(region_id == g_crid)                                          /*@ob C10.completion-occurrence-names-the-region-the-state-was-entered-in */
__CPROVER_assigns(g_front_pushed)
__CPROVER_ensures(g_front_pushed == 1)
;
void on_state_entry_completed(fsm_t* self, type_t State, uint8_t region_id)
__CPROVER_requires(__CPROVER_is_fresh(self, sizeof(*self)) && g_front_pushed == 0 && region_id == g_crid)
__CPROVER_assigns(g_front_pushed)
__CPROVER_ensures(g_front_pushed == ((!g_state_is_composite && g_state_has_completion) ? 1 : 0))            /*@ob C10.completion-occurrence-queued-at-the-front-once-per-entry */
;

/* ---- on_explicit_entry<TargetStates>(event, fsm) / on_pseudo_entry (C09) ----
   TargetStates is a list of g_nt explicit-entry states; target i lives in region g_zone[i] (State::zone_index) and has id
   g_tid[i] (get_state_id<State>()); regions of distinct targets are distinct [A: fork targets name distinct regions]. */
extern const int g_nt;  extern const uint8_t g_zone[NR_CAP]; extern const uint16_t g_tid[NR_CAP]; extern const int g_w;   /* g_w: ghost target index */
extern const uint16_t g_hist_ids[NR_CAP];      /* what m_history.on_entry(self, event) assigns (history_impl units) */
extern int g_pe_calls;
#define mp_size(L) g_nt
#define ZD(j) ((j) >= g_nt || (j) == g_w || g_zone[j] != g_zone[g_w])
#define ZONES_DISTINCT_FROM_W (ZD(0) && ZD(1) && ZD(2) && ZD(3) && ZD(4) && ZD(5) && ZD(6) && ZD(7))
#define NZ(j) ((j) >= g_nt || g_zone[j] != g_k)
#define NO_TARGET_IN_K (NZ(0) && NZ(1) && NZ(2) && NZ(3) && NZ(4) && NZ(5) && NZ(6) && NZ(7))
#define TARGETS_OK (1 <= g_nt && g_nt <= nr_regions && 0 <= g_w && g_w < g_nt && g_zone[0] < nr_regions && g_zone[1] < nr_regions && g_zone[2] < nr_regions && g_zone[3] < nr_regions \
                    && g_zone[4] < nr_regions && g_zone[5] < nr_regions && g_zone[6] < nr_regions && g_zone[7] < nr_regions && ZONES_DISTINCT_FROM_W)
void m_history_on_entry_ids(fsm_t* self, event_t event)
__CPROVER_requires(g_seq == 1 && !g_exc && EV_EQ(event, g_evt))                  /*@ob C08.history-decided-by-the-users-entering-event */
__CPROVER_requires(g_nt != nr_regions)                                           /*@ob C09,C08.history-consulted-only-when-some-region-is-not-targeted */
__CPROVER_assigns(__CPROVER_object_upto(self->m_active_state_ids, sizeof(self->m_active_state_ids)), g_hist_called)
__CPROVER_ensures(self->m_active_state_ids[g_k] == g_hist_ids[g_k] && g_hist_called == 1)
;
extern int g_hist_called;
void visitor_call_state(fsm_t* self, type_t State)          /* visitor(get_state<State>()) : state_entry_visitor::operator() */
__CPROVER_requires(g_seq == 2 && !g_exc && self->m_event_processing)             /*@ob C04,C10.entry-behaviours-run-with-the-busy-mark-set */
__CPROVER_requires(0 <= g_entry_next && g_entry_next < g_nt && State == g_entry_next)   /*@ob C09,C02.fork-targets-entered-in-listed-order-each-once */
__CPROVER_assigns(g_entry_next, g_exc)
__CPROVER_ensures(g_entry_next == __CPROVER_old(g_entry_next) + 1)
;
void visit_active_entry2(fsm_t* self)                       /* visit<active_non_recursive>(visitor) */
__CPROVER_requires(g_seq == 2 && g_entry_next == 0 && !g_exc && self->m_event_processing)
__CPROVER_assigns(g_entry_next, g_exc)
__CPROVER_ensures(!g_exc ==> g_entry_next == nr_regions)
;
#define ALL_IDS_SET() (g_seq = 2)     /* ghost step */
void on_explicit_entry(fsm_t* self, event_t event, fsm_t* fsm)
__CPROVER_requires(REGIONS_OK && TARGETS_OK && __CPROVER_is_fresh(self, sizeof(*self)) && g_seq == 0 && g_entry_next == 0 && !g_exc && g_pool_runs == 0 && g_hist_called == 0 && EV_EQ(event, g_evt) && !self->m_event_processing)
__CPROVER_assigns(self->m_running, self->m_event_processing, __CPROVER_object_upto(self->m_active_state_ids, sizeof(self->m_active_state_ids)), g_seq, g_entry_next, g_exc, g_raised_by_own_entry, g_pool_runs, g_hist_called)
__CPROVER_ensures(!g_exc ==> self->m_active_state_ids[g_zone[g_w]] == g_tid[g_w])                                           /*@ob C09,C03.every-named-target-becomes-active-in-its-region */
__CPROVER_ensures((!g_exc && NO_TARGET_IN_K && g_nt != nr_regions) ==> (g_hist_called == 1 && self->m_active_state_ids[g_k] == g_hist_ids[g_k]))  /*@ob C08,C09.untargeted-regions-follow-the-history-policy */
__CPROVER_ensures(!g_exc ==> g_entry_next == (g_nt == nr_regions ? g_nt : nr_regions))                                      /*@ob C09,C02,C03.every-region-entered-once */
__CPROVER_ensures(!g_exc ==> g_pool_runs == (g_has_event_pool ? 1 : 0))
__CPROVER_ensures(!self->m_event_processing)                                                                               /*@ob C04,C12.machine-not-left-busy */
__CPROVER_ensures(self->m_running)                                                                                         /*@ob C03.explicitly-entered-machine-is-marked-running */
;
process_result process_event(fsm_t* self, event_t event)
__CPROVER_requires(g_seq == 2 && g_pe_calls == 0 && !g_exc && !self->m_event_processing)   /*@ob C09.entry-point-event-processed-once-after-the-entry */
__CPROVER_requires(EV_EQ(event, g_evt))                                                  /*@ob C09,C18.entry-point-continues-with-the-original-event */
__CPROVER_assigns(g_pe_calls, g_exc)
__CPROVER_ensures(g_pe_calls == 1)
;
void on_explicit_entry_stub(fsm_t* self, event_t event, fsm_t* fsm)
__CPROVER_requires(g_seq == 0 && !g_exc && EV_EQ(event, g_evt))
__CPROVER_assigns(g_seq, g_exc, self->m_event_processing)
__CPROVER_ensures((g_exc || g_seq == 2) && !self->m_event_processing)      /* the on_explicit_entry contract above */
;
void on_pseudo_entry(fsm_t* self, event_t event, fsm_t* fsm)
__CPROVER_requires(__CPROVER_is_fresh(self, sizeof(*self)) && g_seq == 0 && g_pe_calls == 0 && !g_exc && EV_EQ(event, g_evt))
__CPROVER_assigns(g_seq, g_exc, g_pe_calls, self->m_event_processing)
__CPROVER_ensures(!g_exc ==> g_pe_calls == 1)                                                                               /*@ob C09.entry-point-event-processed-once-after-the-entry */
;

/* default member initialiser of history_impl::m_last_active_state_ids (MEMBERINIT rule): the memory starts at the initial states */
#define MEMBER_INIT(m, v)   ARRAY_ASSIGN(self->m, v)
#define MEMBER_INIT_ZERO(m) memset(self->m, 0, sizeof(self->m))
void hist_construct(hist11_t* self)
__CPROVER_requires(REGIONS_OK && __CPROVER_is_fresh(self, sizeof(*self)))
__CPROVER_assigns(__CPROVER_object_whole(self))
__CPROVER_ensures(self->m_last_active_state_ids[g_k] == g_init_ids16[g_k])                 /*@ob C08,C03.history-memory-starts-at-the-initial-states */
;
/* the per-state step of on_exit (the lambda handed to visit<active_non_recursive>): the state's own on_exit, once, with the exiting event */
#if UNIT_ENTRY_VISITOR
/* state_entry_visitor<Event>::operator()(State&): the functor history_impl::on_entry applies to the active state of region 0, 1, ... in this order */
typedef struct { fsm_t* m_self; event_t m_event; uint8_t m_region_id; } entryvis_t;
extern int g_ecalls, g_ecompl; extern const stref_t g_estate; extern fsm_t* const g_eself; extern const uint8_t g_erid;
void substate_on_entry(stref_t state, event_t event, fsm_t* fsm)
__CPROVER_requires(g_ecalls == 0 && g_ecompl == 0 && state == g_estate)             /*@ob C02,C03.each-entered-substate-gets-its-entry-behaviour-exactly-once-before-its-completion-is-announced */
__CPROVER_requires(EV_EQ(event, g_evt))                                           /*@ob C02,C18.entry-behaviour-sees-the-event-that-causes-the-entry */
__CPROVER_requires(fsm == g_eself)                                                /*@ob C02.entry-behaviour-sees-the-machine-that-owns-the-state */
__CPROVER_assigns(g_ecalls, g_exc)
__CPROVER_ensures(g_ecalls == 1)
;
void entry_completed(fsm_t* self, type_t State, uint8_t region_id)                /* unit backmp11.on_state_entry_completed */
__CPROVER_requires(g_ecalls == 1 && g_ecompl == 0 && self == g_eself)             /*@ob C10.completion-announced-after-the-entry-behaviour-once */
__CPROVER_requires(region_id == g_erid)                                           /*@ob C10.completion-announced-for-the-region-the-state-was-entered-in */
__CPROVER_assigns(g_ecompl)
__CPROVER_ensures(g_ecompl == 1)
;
void entry_visitor_call(entryvis_t* self, type_t State, stref_t state)
__CPROVER_requires(__CPROVER_is_fresh(self, sizeof(*self)) && self->m_self == g_eself && EV_EQ(self->m_event, g_evt) && self->m_region_id == g_erid && state == g_estate && g_ecalls == 0 && g_ecompl == 0 && !g_exc)
__CPROVER_assigns(self->m_region_id, g_ecalls, g_ecompl, g_exc)
__CPROVER_ensures(!g_exc ==> (g_ecalls == 1 && g_ecompl == 1))                                               /*@ob C02,C10.entry-behaviour-then-completion-announcement */
__CPROVER_ensures(!g_exc ==> self->m_region_id == (uint8_t)(g_erid + 1))                                     /*@ob C10,C03.next-visited-state-belongs-to-the-next-region */
;
#endif
#if UNIT_EXIT_LAMBDA
extern int g_xcalls; extern const stref_t g_xstate;
void substate_on_exit(stref_t state, event_t event, fsm_t* fsm)
__CPROVER_requires(g_xcalls == 0 && state == g_xstate)                            /*@ob C02,C03.each-active-substate-is-exited-exactly-once */
__CPROVER_requires(EV_EQ(event, g_evt))                                           /*@ob C02,C18.exit-behaviour-sees-the-event-that-causes-the-exit */
__CPROVER_assigns(g_xcalls, g_exc)
__CPROVER_ensures(g_xcalls == 1)
;
void exit_lambda(fsm_t* self, event_t event, stref_t state)
__CPROVER_requires(EV_EQ(event, g_evt) && state == g_xstate && g_xcalls == 0)
__CPROVER_assigns(g_xcalls, g_exc)
__CPROVER_ensures(g_xcalls == 1)                                                                           /*@ob C02,C03.each-active-substate-is-exited-exactly-once */
;
#endif
