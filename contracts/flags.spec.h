/* flags.spec.h -- C17: flags are a pure function of the active configuration (back / back11)
   is_flag_active<Flag,BinaryOp>() folds the per-state handlers of the active states of all regions with BinaryOp;
   FlagHelper selects OR for orthogonal machines; FlagHandler::flag_true/false/forward; init_flags builds the table:
   entries[s] = true  iff s carries F; forward iff s is a submachine and F is forwarding; else false.                 */
extern const int nr_regions;            /* symbolic 1..NR_CAP */
extern const int g_k;                   /* ghost region index */
extern const _Bool g_op_is_and;         /* BinaryOp: Flag_AND / Flag_OR */
typedef int flag_handler;               /* index of the handler function = the state id whose handler it is */
extern const type_t Flag, BinaryOp, StateType, stt;
extern const _Bool g_hans[NSTATE_CAP];   /* what entries[state_id](*this) answers: a function of the state id (and, for a submachine, of ITS configuration) */
#define HANS(s) g_hans[s]
#define ST_OK(f,r) (0 <= (f)->m_states[r] && (f)->m_states[r] < NSTATE_CAP)
#define WF_STATES(f) (ST_OK(f,0) && ST_OK(f,1) && ST_OK(f,2) && ST_OK(f,3) && ST_OK(f,4) && ST_OK(f,5) && ST_OK(f,6) && ST_OK(f,7))
/* (*flags_entries[ idx ])(*this) */
_Bool call_flag_handler(int idx, const fsm_t* self)
__CPROVER_requires(0 <= idx && idx < NSTATE_CAP)
__CPROVER_assigns()                                                              /*@ob C17.flag-evaluation-has-no-side-effect */
__CPROVER_ensures(__CPROVER_return_value == HANS(idx))
;
_Bool binary_op(_Bool a, _Bool b)
__CPROVER_assigns()
__CPROVER_ensures(__CPROVER_return_value == (g_op_is_and ? (a && b) : (a || b)))
;
_Bool is_flag_active2(const fsm_t* self)
__CPROVER_requires(__CPROVER_is_fresh(self, sizeof(*self)) && 1 <= nr_regions && nr_regions <= NR_CAP && 0 <= g_k && g_k < nr_regions && WF_STATES(self))
__CPROVER_assigns()                                                                                       /*@ob C17.flag-evaluation-has-no-side-effect */
__CPROVER_ensures((!g_op_is_and && HANS(self->m_states[g_k])) ==> __CPROVER_return_value)               /*@ob C17,C11.or-flag-active-if-some-regions-active-state-has-it */
__CPROVER_ensures((g_op_is_and && !HANS(self->m_states[g_k])) ==> !__CPROVER_return_value)              /*@ob C17.and-flag-inactive-if-some-regions-active-state-lacks-it */
__CPROVER_ensures(nr_regions == 1 ==> __CPROVER_return_value == HANS(self->m_states[0]))                 /*@ob C17,C11.single-region-flag-is-the-active-states-flag */
;
/* exact fold semantics with a witness-free formulation: result == fold(BinaryOp, handlers of active states) is expressed by
   the loop invariant below (acc_or / acc_and ghost accumulators computed by the invariant, not by the code) */

/* init_flags<Flag>::operator()(wrap<StateType>) + helper<T>(.., true_/false_) */
extern const _Bool g_found, g_composite_no_forward;   /* mpl::contains<flag_list,Flag> ; is_composite && !non_forwarding */
extern const int g_state_id;
enum { H_FALSE = 0, H_TRUE = 1, H_FORWARD = 2 };
void init_flags_call(int* entries)
__CPROVER_requires(0 <= g_state_id && g_state_id < NSTATE_CAP && __CPROVER_is_fresh(entries, sizeof(int) * NSTATE_CAP))
__CPROVER_assigns(entries[g_state_id])                                                                    /*@ob C17.table-entry-of-this-state-only */
__CPROVER_ensures(entries[g_state_id] == (g_found ? H_TRUE : g_composite_no_forward ? H_FORWARD : H_FALSE))   /*@ob C17.handler-true-iff-state-carries-flag-forward-iff-submachine */
;

/* ---- C03 introspection (back/back11): visit_current_states() calls the visitor for the active state of every region, in
   region order, once each; current_state() exposes exactly m_states */
extern int g_visit_next;
void visitors_execute(fsm_t* self, int state_id)
__CPROVER_requires(0 <= g_visit_next && g_visit_next < nr_regions && state_id == self->m_states[g_visit_next])   /*@ob C03.visit-reports-exactly-the-active-state-of-each-region-in-order */
__CPROVER_assigns(g_visit_next)
__CPROVER_ensures(g_visit_next == __CPROVER_old(g_visit_next) + 1)
;
void visit_current_states(fsm_t* self)
__CPROVER_requires(__CPROVER_is_fresh(self, sizeof(*self)) && 1 <= nr_regions && nr_regions <= NR_CAP && g_visit_next == 0)
__CPROVER_assigns(g_visit_next)                                                                           /*@ob C03.introspection-changes-nothing */
__CPROVER_ensures(g_visit_next == nr_regions)                                                             /*@ob C03.every-region-visited-once */
;
const int* current_state(const fsm_t* self)
__CPROVER_requires(__CPROVER_is_fresh(self, sizeof(*self)))
__CPROVER_assigns()
__CPROVER_ensures(__CPROVER_return_value == self->m_states)                                               /*@ob C03,C19.current-state-is-the-active-configuration */
;
