/* kleene.spec.h -- C18 (scoped): conversion of an event to a Kleene / base-class trigger keeps the payload and executes the row
   exactly once; deferring a Kleene event stores exactly one occurrence of the event's dynamic type and payload iff that type
   belongs to the machine's event set, else reports no_transition once per region and stores nothing.                       */
extern const event_t g_evt;
extern const type_t Transition, Event, library_sm;
extern int g_row_calls, g_row_ret, g_dpushed, g_nt_next;
extern const int nr_regions, g_n;            /* g_n: size of the machine's event set (symbolic) */
extern const type_t g_dyn_type;              /* dynamic type held by the any-event: a position in the event set, or >= g_n if not in the set */
#define mp_size(L) g_n
#ifdef MP11
#define NT_STATE(self, r) ((self)->m_active_state_ids[r])
#else
#define NT_STATE(self, r) ((self)->m_states[r])
#endif
/* converting constructor of the trigger type from the event: same payload (boost::any / base-class slice [A]) */
static event_t convert_to(type_t tr, event_t e) { event_t f = e; f.type = -1 - tr; return f; }
static type_t dyn_type(event_t e) { return g_dyn_type; }
static event_t any_cast_to(type_t t, event_t e) { event_t f = e; f.type = t; return f; }     /* any_cast<T>(any holding T) [A] */
HandledEnum Transition_execute(type_t tr, fsm_t* fsm, int region_index, int state, event_t evt)
__CPROVER_requires(g_row_calls == 0)                                             /*@ob C18,C01.converted-row-executed-exactly-once */
__CPROVER_requires(evt.payload == g_evt.payload)                                 /*@ob C18,C20.payload-intact-after-conversion */
__CPROVER_requires(tr == Transition)
__CPROVER_assigns(g_row_calls, g_row_ret)
__CPROVER_ensures(g_row_calls == 1 && 0 <= g_row_ret && g_row_ret <= 7 && (int)__CPROVER_return_value == g_row_ret)
;
HandledEnum convert_event_and_forward(fsm_t* fsm, int region_index, int state, event_t evt)
__CPROVER_requires(EV_EQ(evt, g_evt) && g_row_calls == 0)
__CPROVER_assigns(g_row_calls, g_row_ret)
__CPROVER_ensures(g_row_calls == 1 && (int)__CPROVER_return_value == g_row_ret)   /*@ob C18,C01.converted-row-executed-exactly-once */
;
process_result convert_event_and_execute(fsm_t* sm, uint8_t region_id, event_t evt)
__CPROVER_requires(EV_EQ(evt, g_evt) && g_row_calls == 0)
__CPROVER_assigns(g_row_calls, g_row_ret)
__CPROVER_ensures(g_row_calls == 1 && (int)__CPROVER_return_value == g_row_ret)   /*@ob C18,C01.converted-row-executed-exactly-once */
;
#define Transition_execute3(tr, sm, r, e) Transition_execute(tr, sm, r, 0, e)

/* storing one deferred occurrence (defer_event / do_defer_event units: deferred.spec.h) */
void store_deferred(fsm_t* self, event_t e)
__CPROVER_requires(e.type == g_dyn_type && 0 <= g_dyn_type && g_dyn_type < g_n)  /*@ob C18,C05.kleene-event-deferred-as-its-exact-dynamic-type */
__CPROVER_requires(e.payload == g_evt.payload)                                   /*@ob C18,C05,C20.payload-intact-in-deferred-kleene-event */
__CPROVER_requires(g_dpushed == 0)                                               /*@ob C18,C20.exactly-one-occurrence-stored */
__CPROVER_assigns(g_dpushed)
__CPROVER_ensures(g_dpushed == 1)
;
void no_transition(fsm_t* self, event_t evt, fsm_t* fsm, int state)
__CPROVER_requires(!(0 <= g_dyn_type && g_dyn_type < g_n))                       /*@ob C18.no-transition-only-for-an-event-outside-the-event-set */
__CPROVER_requires(0 <= g_nt_next && g_nt_next < nr_regions && state == NT_STATE(self, g_nt_next))   /*@ob C06,C18.no-transition-once-per-region-with-its-active-state */
__CPROVER_assigns(g_nt_next)
__CPROVER_ensures(g_nt_next == __CPROVER_old(g_nt_next) + 1)
;
/* backmp11 compile_policy_impl::defer_event(sm, event, next_rtc_seq) */
void do_defer_event_stub(fsm_t* sm, event_t e, _Bool next_rtc_seq);
void policy_defer_event(fsm_t* sm, event_t event, _Bool next_rtc_seq, _Bool is_kleene)
__CPROVER_requires(__CPROVER_is_fresh(sm, sizeof(*sm)) && EV_EQ(event, g_evt) && g_dpushed == 0 && g_nt_next == 0 && 1 <= nr_regions && nr_regions <= NR_CAP && 0 <= g_n && g_n <= 1000000)
__CPROVER_requires(is_kleene ? g_dyn_type >= 0 : (g_dyn_type == event.type && 0 <= g_dyn_type && g_dyn_type < g_n))
__CPROVER_assigns(g_dpushed, g_nt_next)
__CPROVER_ensures(g_dpushed == ((0 <= g_dyn_type && g_dyn_type < g_n) ? 1 : 0))                                            /*@ob C18.stored-iff-the-dynamic-type-is-in-the-event-set */
__CPROVER_ensures(g_nt_next == ((0 <= g_dyn_type && g_dyn_type < g_n) ? 0 : nr_regions))                                  /*@ob C18.otherwise-no-transition-once-per-region */
;

/* ---- back / back11 Kleene deferral ---- */
typedef struct { event_t m_event; fsm_t* m_fsm; _Bool* m_found; } khelper_t;
typedef struct { fsm_t* target; event_t ev; EventSource src; } kcall_t;
static kcall_t mk_call(fsm_t* t, event_t e, EventSource s) { kcall_t c; c.target = t; c.ev = e; c.src = s; return c; }
typedef struct { kcall_t first; char second; } kpair_t;
static kpair_t make_pair(kcall_t c, char s) { kpair_t p; p.first = c; p.second = s; return p; }
extern char g_cur_seq;
/* the functor argument of fusion::for_each(event_list(), ...) is a default-constructed element of the event set: right type, default payload */
extern const int g_default_payload;
static event_t type_carrier(type_t t) { event_t e = g_evt; e.type = t; e.payload = g_default_payload; return e; }
void kdq_push_back(fsm_t* fsm, kpair_t p)
__CPROVER_requires(p.first.target == fsm)                                        /*@ob C05,C07.deferred-occurrence-stored-for-this-machine */
__CPROVER_requires(p.first.ev.type == g_dyn_type && p.first.ev.payload == g_evt.payload)   /*@ob C18,C05.kleene-event-deferred-as-its-exact-dynamic-type */
__CPROVER_requires(p.second == (char)(g_cur_seq + 1) && g_dpushed == 0)          /*@ob C05.not-re-offered-within-the-cycle-that-deferred-it */
__CPROVER_assigns(g_dpushed)
__CPROVER_ensures(g_dpushed == 1)
;
/* defer_event_kleene_helper::operator()(Event const& ev) : Event is one element of the machine's event set */
void kleene_helper_call(khelper_t* self, type_t EventT)
__CPROVER_requires(__CPROVER_is_fresh(self, sizeof(*self)) && __CPROVER_is_fresh(self->m_found, sizeof(_Bool)) && EV_EQ(self->m_event, g_evt) && g_dpushed == 0)
__CPROVER_assigns(*self->m_found, g_dpushed)
__CPROVER_ensures(g_dpushed == (g_dyn_type == EventT ? 1 : 0))                    /*@ob C18.stored-iff-the-dynamic-type-matches-this-element */
__CPROVER_ensures(g_dyn_type == EventT ? *self->m_found : *self->m_found == __CPROVER_old(*self->m_found))
;
/* boost::fusion::for_each(event_list(), helper(e, this, found))  [A: visits every element of the event set once] */
void kleene_foreach(fsm_t* self, event_t e, _Bool* found)
__CPROVER_requires(EV_EQ(e, g_evt) && g_dpushed == 0 && !*found)
__CPROVER_assigns(*found, g_dpushed)
__CPROVER_ensures(*found == (0 <= g_dyn_type && g_dyn_type < g_n) && g_dpushed == (*found ? 1 : 0))
;
void defer_event_kleene(fsm_t* self, event_t e)
__CPROVER_requires(__CPROVER_is_fresh(self, sizeof(*self)) && EV_EQ(e, g_evt) && g_dpushed == 0 && g_nt_next == 0 && 1 <= nr_regions && nr_regions <= NR_CAP)
__CPROVER_assigns(g_dpushed, g_nt_next)
__CPROVER_ensures(g_dpushed == ((0 <= g_dyn_type && g_dyn_type < g_n) ? 1 : 0))                                            /*@ob C18.stored-iff-the-dynamic-type-is-in-the-event-set */
__CPROVER_ensures(g_nt_next == ((0 <= g_dyn_type && g_dyn_type < g_n) ? 0 : nr_regions))                                  /*@ob C18.otherwise-no-transition-once-per-region */
;

/* ---- back favor_compile_time: process_any_event (an event forwarded to a submachine travels as boost::any and is re-typed by a
   linear search over the submachine's event set): process_any_event_helper::operator() for every element of the set (C18, C07) ---- */
#if UNIT_ANY_HELPER
extern int g_pcalls, g_pret;
static _Bool any_holds(type_t t, event_t any_event) { return g_dyn_type == t; }          /* boost::any_cast<Event>(&any) != 0 [A] */
HandledEnum process_event_internal_typed(fsm_t* self, event_t e)
__CPROVER_requires(g_pcalls == 0)                                                /*@ob C18,C07.forwarded-event-processed-exactly-once */
__CPROVER_requires(e.type == g_dyn_type && 0 <= g_dyn_type && g_dyn_type < g_n)  /*@ob C18.forwarded-event-processed-as-its-exact-dynamic-type */
__CPROVER_requires(e.payload == g_evt.payload)                                   /*@ob C18.payload-intact-through-the-any-forwarding */
__CPROVER_assigns(g_pcalls, g_pret)
__CPROVER_ensures(g_pcalls == 1 && 0 <= g_pret && g_pret <= 7 && (int)__CPROVER_return_value == g_pret)
;
HandledEnum process_any_event(fsm_t* self, event_t any_event)
__CPROVER_requires(EV_EQ(any_event, g_evt) && g_pcalls == 0 && 0 <= g_n && g_n <= 1000000)
__CPROVER_assigns(g_pcalls, g_pret)
__CPROVER_ensures(g_pcalls == ((0 <= g_dyn_type && g_dyn_type < g_n) ? 1 : 0))                              /*@ob C18,C07.forwarded-event-processed-exactly-once */
__CPROVER_ensures((int)__CPROVER_return_value == ((0 <= g_dyn_type && g_dyn_type < g_n) ? g_pret : HANDLED_FALSE))   /*@ob C06,C07.result-of-the-submachine-returned-unchanged */
;
#endif
