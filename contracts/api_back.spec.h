/* api_back.spec.h -- back / back11 public entry points that only forward, but decide which overload / source flag the event loop sees (C04 C06) */
extern const event_t g_evt; extern const _Bool g_no_msg_queue;
extern int g_pcalls2, g_pret2, g_qcalls;
#define is_no_message_queue(T) g_no_msg_queue
extern const type_t library_sm;
#if UNIT_PROCESS
HandledEnum process_event_internal(fsm_t* self, event_t evt, EventSource source)
__CPROVER_requires(EV_EQ(evt, g_evt) && g_pcalls2 == 0)
__CPROVER_requires(source == EVENT_SOURCE_DIRECT)                                 /*@ob C04,C06.process-event-is-a-direct-call */
__CPROVER_assigns(g_pcalls2, g_pret2)
__CPROVER_ensures(g_pcalls2 == 1 && 0 <= g_pret2 && g_pret2 <= 7 && (int)__CPROVER_return_value == g_pret2)
;
HandledEnum api_process_event(fsm_t* self, event_t evt)
__CPROVER_requires(__CPROVER_is_fresh(self, sizeof(*self)) && EV_EQ(evt, g_evt) && g_pcalls2 == 0)
__CPROVER_assigns(g_pcalls2, g_pret2)
__CPROVER_ensures(g_pcalls2 == 1 && (int)__CPROVER_return_value == g_pret2)       /*@ob C06,C01.process-event-returns-the-result-of-the-step */
;
#endif
#if UNIT_QUEUE
void queue_helper(fsm_t* self, event_t evt, _Bool no_queue)       /* enqueue_event_helper / execute_queued_events_helper / execute_single_queued_event_helper (evloop_back.spec.h units) */
__CPROVER_requires(g_qcalls == 0 && no_queue == g_no_msg_queue)                   /*@ob C04.queue-operation-selected-by-the-machines-queue-policy */
__CPROVER_requires(!WITH_EVENT || EV_EQ(evt, g_evt))                              /*@ob C04,C18.enqueued-event-keeps-type-and-payload */
__CPROVER_assigns(g_qcalls)
__CPROVER_ensures(g_qcalls == 1)
;
void api_queue_op(fsm_t* self, event_t evt)
__CPROVER_requires(__CPROVER_is_fresh(self, sizeof(*self)) && EV_EQ(evt, g_evt) && g_qcalls == 0)
__CPROVER_assigns(g_qcalls)
__CPROVER_ensures(g_qcalls == 1)                                                  /*@ob C04.queue-operation-forwarded-exactly-once */
;
#endif
#if UNIT_DEFAULT_CELL
/* the default dispatch-table cells: call_no_transition, call_no_transition_internal, default_eventless_transition.
   They answer "not handled" and change nothing; do_process_event / process_completion_event decide from that answer
   whether no_transition() is called (units <be>.do_process_event, <be>.process_completion_event). */
HandledEnum default_cell(fsm_t* fsm, int region, int state, event_t evt)
__CPROVER_assigns()                                                                                          /*@ob C06,C01.a-default-cell-changes-nothing */
__CPROVER_ensures((int)__CPROVER_return_value == HANDLED_FALSE)                                              /*@ob C06,C01,C10.a-default-cell-answers-not-handled */
;
#endif
