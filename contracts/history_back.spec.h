/* history_back.spec.h -- back/history_policies.hpp (used by back and back11): NoHistoryImpl, AlwaysHistoryImpl, ShallowHistoryImpl
   C08: the oracle below is typed from the property statement:
     policy     after history_exit(cur)         history_entry(E) returns
     No         memory unchanged                the initial states
     Always     memory = cur                    the memory (last active states)
     Shallow    memory = cur, initial kept      E in Events ? memory : initial states
   "memory is private": every function assigns only its own object (frame).  -DPOLICY=0 No, 1 Always, 2 Shallow.
   "for all regions k" is stated with the ghost index g_k (symbolic, 0 <= g_k < NumberOfRegions).                          */
typedef struct { int m_initialStates[NR_CAP]; int m_currentStates[NR_CAP]; } hist_t;
extern const int NumberOfRegions;       /* template parameter: symbolic, 1..NR_CAP (capacity only; loops carry loop contracts) */
extern const int g_k;                   /* ghost region index */
extern const _Bool g_event_in_history_events;    /* mpl::contains<Events,Event>::value */
#define contains(Events, Event) g_event_in_history_events
extern const type_t Events, Event;
#define REGIONS_OK (1 <= NumberOfRegions && NumberOfRegions <= NR_CAP && 0 <= g_k && g_k < NumberOfRegions)
#if POLICY == 2
#define MEM(h)  ((h)->m_currentStates)
#else
#define MEM(h)  ((h)->m_initialStates)
#endif
#define INIT(h) ((h)->m_initialStates)

void set_initial_states(hist_t* self, int* const initial_states)
__CPROVER_requires(REGIONS_OK && __CPROVER_is_fresh(self, sizeof(*self)) && __CPROVER_is_fresh(initial_states, sizeof(int) * NR_CAP))
__CPROVER_assigns(__CPROVER_object_whole(self))
__CPROVER_ensures(INIT(self)[g_k] == initial_states[g_k])                       /*@ob C08,C03.initial-states-recorded */
__CPROVER_ensures(MEM(self)[g_k] == initial_states[g_k])                        /*@ob C08,C03.memory-starts-at-the-initial-states */
;
void history_exit(hist_t* self, int* const current_states)
__CPROVER_requires(REGIONS_OK && __CPROVER_is_fresh(self, sizeof(*self)) && __CPROVER_is_fresh(current_states, sizeof(int) * NR_CAP))
__CPROVER_assigns(__CPROVER_object_whole(self))
__CPROVER_ensures(POLICY == 0 ? MEM(self)[g_k] == __CPROVER_old(MEM(self)[g_k]) : MEM(self)[g_k] == current_states[g_k])    /*@ob C08,C03.exit-remembers-the-last-active-state-of-every-region */
__CPROVER_ensures(POLICY != 2 || INIT(self)[g_k] == __CPROVER_old(INIT(self)[g_k]))                                          /*@ob C08.shallow-history-keeps-the-initial-states */
;
const int* history_entry(hist_t* self, event_t evt)
__CPROVER_requires(REGIONS_OK && __CPROVER_is_fresh(self, sizeof(*self)))
__CPROVER_assigns()                                                                                                          /*@ob C08.entry-does-not-change-the-memory */
__CPROVER_ensures(POLICY == 0 ? __CPROVER_return_value == INIT(self) : POLICY == 1 ? __CPROVER_return_value == MEM(self) : __CPROVER_return_value == (g_event_in_history_events ? MEM(self) : INIT(self)))   /*@ob C08,C03.entry-restores-the-documented-configuration */
;
_Bool process_deferred_events(hist_t* self, event_t evt)
__CPROVER_requires(__CPROVER_is_fresh(self, sizeof(*self)))
__CPROVER_assigns()
__CPROVER_ensures(__CPROVER_return_value == (POLICY == 0 ? 0 : POLICY == 1 ? 1 : g_event_in_history_events))                /*@ob C05,C08.deferred-events-kept-exactly-with-history */
;
hist_t* history_assign(hist_t* self, hist_t* rhs)
__CPROVER_requires(REGIONS_OK && __CPROVER_is_fresh(self, sizeof(*self)) && __CPROVER_is_fresh(rhs, sizeof(*rhs)))
__CPROVER_assigns(__CPROVER_object_whole(self))                                                                              /*@ob C15.source-of-a-copy-is-unchanged */
__CPROVER_ensures(INIT(self)[g_k] == INIT(rhs)[g_k] && MEM(self)[g_k] == MEM(rhs)[g_k])                                      /*@ob C15,C08.history-memory-copied */
__CPROVER_ensures(__CPROVER_return_value == self)
;
