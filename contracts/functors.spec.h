/* functors.spec.h -- front/operator.hpp Or_ / And_ / Not_ (C14: a guard expression evaluates like the C++ expression it was
   written as: same value, same operand order, same short-circuit).  -DOP=0 Or_, 1 And_, 2 Not_ */
extern const type_t T1, T2;
extern int g_ncalls;                      /* operand guards evaluated so far */
extern const _Bool g_v1, g_v2;            /* what the two operand guards answer */
_Bool call_guard(type_t T, event_t evt, fsm_t* fsm, stref_t src, stref_t tgt)
__CPROVER_requires(T == T1 ? g_ncalls == 0 : (T == T2 && g_ncalls == 1))                      /*@ob C14.operands-evaluated-left-to-right-each-at-most-once */
__CPROVER_requires(T == T1 || (OP == 0 ? !g_v1 : g_v1))                                       /*@ob C14.second-operand-only-when-the-first-does-not-decide */
__CPROVER_assigns(g_ncalls)
__CPROVER_ensures(g_ncalls == __CPROVER_old(g_ncalls) + 1 && __CPROVER_return_value == (T == T1 ? g_v1 : g_v2))
;
#define call_guard3(T, evt, fsm, st) call_guard(T, evt, fsm, st, st)
_Bool functor_call(event_t evt, fsm_t* fsm, stref_t src, stref_t tgt)
__CPROVER_requires(T1 != T2 && g_ncalls == 0)
__CPROVER_assigns(g_ncalls)
__CPROVER_ensures(__CPROVER_return_value == (OP == 0 ? (g_v1 || g_v2) : OP == 1 ? (g_v1 && g_v2) : !g_v1))            /*@ob C14.guard-functor-evaluates-like-the-cpp-operator */
__CPROVER_ensures(g_ncalls == (OP == 2 ? 1 : OP == 0 ? (g_v1 ? 1 : 2) : (g_v1 ? 2 : 1)))                             /*@ob C14.short-circuit-like-the-cpp-operator */
;
