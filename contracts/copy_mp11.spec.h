/* copy_mp11.spec.h -- backmp11: the hand-written parts of machine copy / move (C15). The member-wise `= default` assignments are
   compiler-generated [A]; what is written by hand is (i) the wrapper non_propagating<T> that keeps a machine's OWN root pointer across
   copy/move (two machines share no mutable state), (ii) copy / move constructors that default-construct first (sets the own root
   pointer, initialises the states' back references) and then assign. */
typedef struct { long m_value; } np_t;
extern int g_cstep; extern const fsm_t* const g_rhs;
#if UNIT_NP
np_t* np_assign(np_t* self, const np_t* rhs)
__CPROVER_requires(__CPROVER_is_fresh(self, sizeof(*self)) && __CPROVER_is_fresh(rhs, sizeof(*rhs)))
__CPROVER_assigns()                                                               /*@ob C15.own-root-pointer-is-not-overwritten-by-copy-or-move */
__CPROVER_ensures(__CPROVER_return_value == self)
;
void np_move_ctor(np_t* self, np_t* rhs)
__CPROVER_requires(__CPROVER_is_fresh(self, sizeof(*self)) && __CPROVER_is_fresh(rhs, sizeof(*rhs)))
__CPROVER_assigns()                                                               /*@ob C15.moved-from-machine-keeps-its-own-root-pointer */
;
#endif
#if UNIT_CTOR
void default_construct(fsm_t* self)         /* state_machine_base(): own root pointer, init_state_visitor over all states, initial active ids */
__CPROVER_requires(g_cstep == 0)                                                  /*@ob C15.copy-is-first-constructed-as-its-own-machine */
__CPROVER_assigns(g_cstep)
__CPROVER_ensures(g_cstep == 1)
;
void assign_from(fsm_t* self, const fsm_t* rhs, _Bool is_move)      /* *this = rhs / *this = std::move(rhs): the defaulted member-wise assignment [A] */
__CPROVER_requires(g_cstep == 1 && rhs == g_rhs && is_move == IS_MOVE)            /*@ob C15.then-every-member-is-taken-from-the-source */
__CPROVER_assigns(g_cstep)
__CPROVER_ensures(g_cstep == 2)
;
void construct_from(fsm_t* self, const fsm_t* rhs)
__CPROVER_requires(__CPROVER_is_fresh(self, sizeof(*self)) && rhs == g_rhs && g_cstep == 0)
__CPROVER_assigns(g_cstep)
__CPROVER_ensures(g_cstep == 2)                                                   /*@ob C15.copy-and-move-construction-is-default-construction-then-assignment */
;
#endif
/* ---- special member functions of the event occurrences kept in the event pool (C15: a copied machine has the same pending events,
   C20: value semantics of stored events).  event_occurrence / deferred_event declare no copy or move operations: the compiler-generated
   member-wise ones are modelled by `*self = *other` (default_body of an optional part); if a change adds a user-provided one, it is
   extracted (INITLIST + body, default member initialisers first) and must satisfy the same contract. ---- */
#if UNIT_EO
typedef struct { int m_process_fn; _Bool m_marked_for_deletion; } eo_t;        /* data members of event_occurrence (must_contain patterns of the unit) */
#define EO_DEFAULT_MEMBER_INIT(self) ((self)->m_process_fn = 0, (self)->m_marked_for_deletion = 0)   /* `{}` initialisers */
void eo_copy(eo_t* self, const eo_t* other)
__CPROVER_requires(__CPROVER_is_fresh(self, sizeof(*self)) && __CPROVER_is_fresh(other, sizeof(*other)))
__CPROVER_assigns(__CPROVER_object_whole(self))
__CPROVER_ensures(self->m_process_fn == other->m_process_fn)                                  /*@ob C15,C20.copied-occurrence-dispatches-to-the-same-function */
__CPROVER_ensures((self->m_marked_for_deletion != 0) == (other->m_marked_for_deletion != 0))  /*@ob C15.copied-occurrence-keeps-its-already-processed-mark */
;
#endif
#if UNIT_DE
typedef struct { int m_process_fn; _Bool m_marked_for_deletion; uint16_t m_seq_cnt; event_t m_event; } de_t;   /* deferred_event<Event> : event_occurrence */
#define EO_DEFAULT_MEMBER_INIT(self) ((self)->m_process_fn = 0, (self)->m_marked_for_deletion = 0)
void de_copy(de_t* self, const de_t* other)
__CPROVER_requires(__CPROVER_is_fresh(self, sizeof(*self)) && __CPROVER_is_fresh(other, sizeof(*other)))
__CPROVER_assigns(__CPROVER_object_whole(self))
__CPROVER_ensures(self->m_process_fn == other->m_process_fn && (self->m_marked_for_deletion != 0) == (other->m_marked_for_deletion != 0))   /*@ob C15.copied-occurrence-keeps-its-already-processed-mark */
__CPROVER_ensures(self->m_seq_cnt == other->m_seq_cnt)                                        /*@ob C15,C05.copied-deferred-event-keeps-its-cycle-number */
__CPROVER_ensures(self->m_event.type == other->m_event.type && self->m_event.payload == other->m_event.payload)   /*@ob C15,C18,C20.copied-deferred-event-keeps-type-and-payload */
;
#endif
/* ---- state_machine_base(Args&&...): the ROOT machine records itself as root, initialises every (nested) submachine / exit pseudo state
   once (init_state_visitor, its own unit), and starts from the initial state ids (C03 C07 C15) ---- */
#if UNIT_BASE_CTOR
extern const _Bool g_is_root; extern const uint16_t g_init_ids16[NR_CAP]; extern const int g_k; extern int g_inits_all;
void init_all_states(fsm_t* self)                       /* visit_if<all_recursive, predicate>(init_state_visitor{self}) */
__CPROVER_requires(g_is_root && g_inits_all == 0 && self->m_root_sm == self)     /*@ob C07,C15.nested-machines-are-initialised-once-by-the-root-after-it-recorded-itself */
__CPROVER_assigns(g_inits_all)
__CPROVER_ensures(g_inits_all == 1)
;
void base_construct(fsm_t* self)
__CPROVER_requires(__CPROVER_is_fresh(self, sizeof(*self)) && g_inits_all == 0 && 0 <= g_k && g_k < NR_CAP)
__CPROVER_assigns(__CPROVER_object_whole(self), g_inits_all)
__CPROVER_ensures(g_is_root ==> (self->m_root_sm == self && g_inits_all == 1))                            /*@ob C07,C15.a-root-machine-is-its-own-root-and-initialises-its-submachines */
__CPROVER_ensures(!g_is_root ==> g_inits_all == 0)
__CPROVER_ensures(self->m_active_state_ids[g_k] == g_init_ids16[g_k])                                     /*@ob C03.a-constructed-machine-starts-from-its-initial-states */
;
#endif
