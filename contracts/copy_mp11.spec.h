/* copy_mp11.spec.h -- backmp11: the hand-written parts of machine copy / move (C15). The member-wise `= default` assignments are
   compiler-generated [A]; what is written by hand is (i) the wrapper non_propagating<T> that keeps a machine's OWN root pointer across
   copy/move (two machines share no mutable state), (ii) copy / move constructors that default-construct first (sets the own root
   pointer, initialises the states' back references) and then assign. */
typedef struct { long m_value; } np_t;
extern int g_cstep; extern const fsm_t* const g_rhs;
#if UNIT_NP
np_t* np_assign(np_t* self, const np_t* rhs)
__CPROVER_requires(__CPROVER_is_fresh(self, sizeof(*self)) && __CPROVER_is_fresh(rhs, sizeof(*rhs)))
__CPROVER_assigns()                                                               /*@ob C15.own-root-pointer-is-not-overwritten-by-copy-or-move */
__CPROVER_ensures(__CPROVER_return_value == self)
;
void np_move_ctor(np_t* self, np_t* rhs)
__CPROVER_requires(__CPROVER_is_fresh(self, sizeof(*self)) && __CPROVER_is_fresh(rhs, sizeof(*rhs)))
__CPROVER_assigns()                                                               /*@ob C15.moved-from-machine-keeps-its-own-root-pointer */
;
#endif
#if UNIT_CTOR
void default_construct(fsm_t* self)         /* state_machine_base(): own root pointer, init_state_visitor over all states, initial active ids */
__CPROVER_requires(g_cstep == 0)                                                  /*@ob C15.copy-is-first-constructed-as-its-own-machine */
__CPROVER_assigns(g_cstep)
__CPROVER_ensures(g_cstep == 1)
;
void assign_from(fsm_t* self, const fsm_t* rhs, _Bool is_move)      /* *this = rhs / *this = std::move(rhs): the defaulted member-wise assignment [A] */
__CPROVER_requires(g_cstep == 1 && rhs == g_rhs && is_move == IS_MOVE)            /*@ob C15.then-every-member-is-taken-from-the-source */
__CPROVER_assigns(g_cstep)
__CPROVER_ensures(g_cstep == 2)
;
void construct_from(fsm_t* self, const fsm_t* rhs)
__CPROVER_requires(__CPROVER_is_fresh(self, sizeof(*self)) && rhs == g_rhs && g_cstep == 0)
__CPROVER_assigns(g_cstep)
__CPROVER_ensures(g_cstep == 2)                                                   /*@ob C15.copy-and-move-construction-is-default-construction-then-assignment */
;
#endif
