/* evloop_mp11.spec.h -- backmp11 process_event_internal, process_completion_transition, do_defer_event
   C04 (no re-entrancy: an event submitted during a step is only stored), C05 (deferral branch), C10, C11 (blocking head),
   C12 (exception contained, result initialised, busy mark cleared), C13 (same obligations as evloop_back.spec.h).      */
enum { process_info_direct_call = 0, process_info_submachine_call = 1, process_info_event_pool = 2 };
typedef int process_info;
extern const _Bool g_has_blocking_states, g_has_event_pool, g_no_exception_thrown;
extern const _Bool g_flag_terminate, g_flag_interrupted, g_is_end_interrupt, g_is_deferred_now;
extern const event_t g_evt;
extern const process_info g_info;
extern int g_nproc, g_ndefer, g_pool_runs, g_exc_caught, g_handled, g_threw, g_nt_calls;
extern const type_t TerminateFlag, InterruptedFlag, state_set, is_state_blocking, front_end_t, Transition;
#define mp_any_of(a, b)            g_has_blocking_states
#define has_no_exception_thrown(f) g_no_exception_thrown
#define event_pool_member_value    g_has_event_pool
#define BLOCKED (g_has_blocking_states && (g_flag_terminate || (g_flag_interrupted && !g_is_end_interrupt)))

_Bool is_flag_active(fsm_t* self, type_t flag)
__CPROVER_requires(g_nproc == 0 && g_ndefer == 0)
__CPROVER_assigns()
__CPROVER_ensures(__CPROVER_return_value == (flag == TerminateFlag ? g_flag_terminate : g_flag_interrupted))
;
_Bool is_end_interrupt_event(fsm_t* self, event_t event)
__CPROVER_requires(EV_EQ(event, g_evt))
__CPROVER_assigns()
__CPROVER_ensures(__CPROVER_return_value == g_is_end_interrupt)
;
_Bool compile_policy_impl_is_event_deferred(fsm_t* self, event_t event)
__CPROVER_requires(EV_EQ(event, g_evt) && g_nproc == 0)
__CPROVER_requires(!BLOCKED)                                                     /*@ob C11,C04.blocked-machine-processes-nothing */
__CPROVER_assigns()
__CPROVER_ensures(__CPROVER_return_value == g_is_deferred_now)
;
void compile_policy_impl_defer_event(fsm_t* self, event_t event, _Bool next_rtc_seq)
__CPROVER_requires(EV_EQ(event, g_evt))                                          /*@ob C04,C18.stored-event-keeps-type-and-payload */
__CPROVER_requires(!BLOCKED)                                                     /*@ob C11,C04.blocked-machine-processes-nothing */
__CPROVER_requires(g_ndefer == 0 && g_nproc == 0)                                /*@ob C04,C05.stored-exactly-once-and-not-processed */
__CPROVER_requires(!next_rtc_seq)                                                /*@ob C05.occurrence-stored-by-process-event-is-eligible-in-the-current-cycle */
__CPROVER_assigns(g_ndefer)
__CPROVER_ensures(g_ndefer == 1)
;
process_result do_process_event(fsm_t* self, event_t event, process_info info)
__CPROVER_requires(g_nproc == 0 && g_ndefer == 0 && !g_exc)
__CPROVER_requires(!BLOCKED)                                                     /*@ob C11,C04.blocked-machine-processes-nothing */
__CPROVER_requires(self->m_event_processing)                                     /*@ob C04,C10.whole-step-runs-with-the-busy-mark-set */
__CPROVER_requires(EV_EQ(event, g_evt) && info == g_info)
__CPROVER_assigns(g_nproc, g_handled, g_exc, g_threw, g_nt_calls)
__CPROVER_ensures(g_nproc == 1 && 0 <= g_handled && g_handled <= 7 && (int)__CPROVER_return_value == g_handled)
__CPROVER_ensures(g_threw == (g_exc ? 1 : 0))
__CPROVER_ensures(g_exc ==> g_nt_calls == __CPROVER_old(g_nt_calls))
;
void exception_caught(fsm_t* self, event_t evt, fsm_t* fsm, int e)
__CPROVER_requires(g_exc_caught == 0)                                            /*@ob C12.exception-caught-invoked-exactly-once */
__CPROVER_requires(EV_EQ(evt, g_evt) && self == fsm)                             /*@ob C12.exception-caught-gets-the-event-being-processed */
__CPROVER_requires(!g_exc)                                                       /*@ob C12.handler-runs-after-the-exception-was-caught */
__CPROVER_assigns(g_exc_caught)
__CPROVER_ensures(g_exc_caught == 1)
;
void process_event_pool(fsm_t* self)
__CPROVER_requires(g_nproc == 1 && g_pool_runs == 0 && !g_exc)
__CPROVER_requires(!self->m_event_processing)                                    /*@ob C04,C10.pending-events-run-after-the-step-completed */
__CPROVER_requires(g_has_event_pool && g_info != process_info_event_pool)        /*@ob C04,C10.pool-drained-by-the-outermost-call-only */
__CPROVER_assigns(g_pool_runs, g_exc)
__CPROVER_ensures(g_pool_runs == 1)
__CPROVER_ensures(g_no_exception_thrown || !g_exc)
;

process_result process_event_internal(fsm_t* self, event_t event, process_info info)
__CPROVER_requires(__CPROVER_is_fresh(self, sizeof(*self)) && EV_EQ(event, g_evt) && info == g_info && 0 <= info && info <= 2)
__CPROVER_requires(g_nproc == 0 && g_ndefer == 0 && g_pool_runs == 0 && g_exc_caught == 0 && !g_exc && TerminateFlag != InterruptedFlag)
__CPROVER_requires(g_has_event_pool || !self->m_event_processing)               /* BOOST_ASSERT of the code: without a pool no nested process_event */
__CPROVER_requires(info == process_info_event_pool ==> !self->m_event_processing)
__CPROVER_assigns(self->m_event_processing, self->event_pool.cur_seq_cnt, g_nproc, g_ndefer, g_pool_runs, g_exc_caught, g_handled, g_exc, g_threw, g_nt_calls)
__CPROVER_ensures(BLOCKED ==> (__CPROVER_return_value == HANDLED_TRUE && g_nproc == 0 && g_ndefer == 0 && g_pool_runs == 0 && self->m_event_processing == __CPROVER_old(self->m_event_processing) && self->event_pool.cur_seq_cnt == __CPROVER_old(self->event_pool.cur_seq_cnt)))   /*@ob C11,C05,C04.blocked-event-is-swallowed-without-any-effect */
__CPROVER_ensures((!BLOCKED && g_has_event_pool && info != process_info_event_pool && __CPROVER_old(self->m_event_processing)) ==> (g_ndefer == 1 && g_nproc == 0 && g_pool_runs == 0 && self->m_event_processing))   /*@ob C04,C10.event-submitted-during-a-step-is-only-stored */
__CPROVER_ensures((!BLOCKED && g_has_event_pool && info == process_info_direct_call && !__CPROVER_old(self->m_event_processing) && g_is_deferred_now) ==> (g_ndefer == 1 && g_nproc == 0 && __CPROVER_return_value == HANDLED_DEFERRED))   /*@ob C05,C06.event-deferred-by-an-active-state-is-stored-not-dispatched */
__CPROVER_ensures((!BLOCKED && !(g_has_event_pool && info != process_info_event_pool && (__CPROVER_old(self->m_event_processing) || (info != process_info_submachine_call && g_is_deferred_now))) && !g_exc) ==> (g_nproc == 1 && g_ndefer == 0 && !self->m_event_processing))   /*@ob C04,C12.one-step-then-machine-not-left-busy */
__CPROVER_ensures((g_nproc == 1 && g_has_event_pool && info != process_info_event_pool) ==> self->event_pool.cur_seq_cnt == (uint16_t)(__CPROVER_old(self->event_pool.cur_seq_cnt) + 1))   /*@ob C05.every-step-a-machine-takes-starts-a-new-deferral-cycle-of-its-own-pool-whoever-called-it */
__CPROVER_ensures((g_nproc == 1 && !g_exc && g_has_event_pool && info != process_info_event_pool) ==> g_pool_runs == 1)                        /*@ob C04,C10.pending-events-processed-after-the-step */
__CPROVER_ensures((g_nproc == 1 && !g_no_exception_thrown && g_threw) ==> (g_exc_caught == 1 && __CPROVER_return_value == HANDLED_FALSE))     /*@ob C12,C06.caught-exception-means-event-not-handled */
__CPROVER_ensures((g_nproc == 1 && !g_threw && !g_exc) ==> (int)__CPROVER_return_value == g_handled)
__CPROVER_ensures(!g_no_exception_thrown ==> !g_exc)                                                                                           /*@ob C12.exception-does-not-escape */
;

/* process_completion_transition<Transition>(region_id) */
extern int g_ncompl;
process_result Transition_execute(type_t tr, fsm_t* self, uint8_t region_id, event_t ev)
__CPROVER_requires(g_ncompl == 0 && !g_exc)
__CPROVER_requires(!(g_has_blocking_states && (g_flag_terminate || g_flag_interrupted)))       /*@ob C11,C04.blocked-machine-processes-nothing */
__CPROVER_requires(self->m_event_processing)                                     /*@ob C04,C10.completion-transition-runs-with-the-busy-mark-set-events-it-raises-wait-for-the-chain */
__CPROVER_assigns(g_ncompl, g_handled, g_exc, g_threw)
__CPROVER_ensures(g_ncompl == 1 && 0 <= g_handled && g_handled <= 7 && (int)__CPROVER_return_value == g_handled)
__CPROVER_ensures(g_threw == (g_exc ? 1 : 0))
;
process_result process_completion_transition(fsm_t* self, uint8_t region_id)
__CPROVER_requires(__CPROVER_is_fresh(self, sizeof(*self)) && g_ncompl == 0 && g_exc_caught == 0 && !g_exc && g_nproc == 0 && g_ndefer == 0)
__CPROVER_requires(TerminateFlag != InterruptedFlag)
__CPROVER_requires(g_evt.type == 0 && g_evt.payload == 0)       /* the completion event is a default-constructed object */
__CPROVER_assigns(self->m_event_processing, g_ncompl, g_handled, g_exc, g_threw, g_exc_caught)
__CPROVER_ensures((g_has_blocking_states && (g_flag_terminate || g_flag_interrupted)) ==> (g_ncompl == 0 && __CPROVER_return_value == HANDLED_TRUE))   /*@ob C11.blocked-machine-takes-no-completion-transition */
__CPROVER_ensures(!(g_has_blocking_states && (g_flag_terminate || g_flag_interrupted)) ==> g_ncompl == 1)                                              /*@ob C10.completion-transition-is-executed-exactly-once-when-the-machine-is-not-blocked */
__CPROVER_ensures((g_ncompl == 1 && !g_no_exception_thrown && g_threw) ==> (g_exc_caught == 1 && __CPROVER_return_value == HANDLED_FALSE))             /*@ob C12.outcome-does-not-depend-on-uninitialised-data */
__CPROVER_ensures((g_ncompl == 1 && !g_threw && !g_exc) ==> (int)__CPROVER_return_value == g_handled)
__CPROVER_ensures((g_ncompl == 1 && !g_exc) ==> !self->m_event_processing)                                                                             /*@ob C04,C12.machine-not-left-busy */
__CPROVER_ensures(!g_no_exception_thrown ==> !g_exc)                                                                                                   /*@ob C12.exception-does-not-escape */
;
