/* exitpt.spec.h -- back / back11 is_exit_state_active<StateType,OwnerFct>(fsm) (metafunctions.hpp): the run-time test every outer
   row leaving an exit point uses (C09).  The exit point is active iff its id is the active state of SOME region of its OWNER. */
extern const int g_comp_regions, g_fsm_regions;   /* Composite::nr_regions (owner submachine) , FSM::nr_regions (the machine holding the row) */
extern const int g_k;                             /* ghost region index of the owner */
extern int g_found_idx;
extern const type_t stt, StateType, OwnerFct;
extern fsm_t* const g_comp;
int __CPROVER_uninterpreted_get_state_id(type_t, type_t);
#define get_state_id __CPROVER_uninterpreted_get_state_id
/* std::find(first, last, value) over int* [A: <algorithm>] */
const int* std_find_int(const int* first, const int* last, int v)
__CPROVER_requires(first == g_comp->m_states)                                                     /*@ob C09.exit-point-searched-among-the-owners-active-states */
__CPROVER_requires(last == g_comp->m_states + g_comp_regions)                                     /*@ob C09.every-region-of-the-owner-is-searched-and-nothing-else */
__CPROVER_assigns(g_found_idx)
__CPROVER_ensures(__CPROVER_return_value == last || (0 <= g_found_idx && g_found_idx < g_comp_regions && __CPROVER_return_value == first + g_found_idx && first[g_found_idx] == v))
__CPROVER_ensures((0 <= g_k && g_k < g_comp_regions && first[g_k] == v) ==> __CPROVER_return_value != last)
;
fsm_t* owner_of(fsm_t* fsm)
__CPROVER_assigns()
__CPROVER_ensures(__CPROVER_return_value == g_comp)
;
_Bool is_exit_state_active(fsm_t* fsm)
__CPROVER_requires(__CPROVER_is_fresh(fsm, sizeof(*fsm)) && __CPROVER_is_fresh(g_comp, sizeof(*g_comp)) && 1 <= g_comp_regions && g_comp_regions <= NR_CAP && 1 <= g_fsm_regions && g_fsm_regions <= NR_CAP)
__CPROVER_assigns(g_found_idx)
__CPROVER_ensures((0 <= g_k && g_k < g_comp_regions && g_comp->m_states[g_k] == get_state_id(stt, StateType)) ==> __CPROVER_return_value)     /*@ob C09.active-exit-point-is-recognised-in-any-region-of-its-owner */
__CPROVER_ensures(__CPROVER_return_value ==> (0 <= g_found_idx && g_found_idx < g_comp_regions && g_comp->m_states[g_found_idx] == get_state_id(stt, StateType)))   /*@ob C09.inactive-exit-point-is-not-reported-active */
;
