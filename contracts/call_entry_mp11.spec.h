/* call_entry_mp11.spec.h -- backmp11 transition_table_impl::call_entry: which entry operation a transition performs on its target (C09 C02):
   explicit entry / fork (target names states of a submachine) -> on_explicit_entry; entry pseudo state -> on_pseudo_entry; otherwise the
   target's plain on_entry, and for an exit pseudo state the second half of the compound transition is forwarded to the root machine. */
extern const event_t g_evt; extern fsm_t* const g_root; extern const stref_t g_target;
extern const _Bool g_is_explicit, g_is_entry_pseudo, g_is_exit_pseudo;
extern int g_ecalls, g_fwd;
enum { E_EXPLICIT = 1, E_PSEUDO = 2, E_PLAIN = 3 };
extern int g_ekind;
void target_entry(int kind, stref_t target, event_t event, fsm_t* fsm)
__CPROVER_requires(g_ecalls == 0 && target == g_target)                          /*@ob C02,C09,C03.target-entered-exactly-once */
__CPROVER_requires(kind == (g_is_explicit ? E_EXPLICIT : g_is_entry_pseudo ? E_PSEUDO : E_PLAIN))   /*@ob C09.entry-operation-matches-the-kind-of-target-the-row-names */
__CPROVER_requires(EV_EQ(event, g_evt))                                           /*@ob C09,C18.entry-sees-the-triggering-event */
__CPROVER_assigns(g_ecalls, g_ekind, g_exc)
__CPROVER_ensures(g_ecalls == 1 && g_ekind == kind)
;
void target_forward_event(stref_t target, fsm_t* root, event_t event)
__CPROVER_requires(g_ecalls == 1 && g_ekind == E_PLAIN && g_fwd == 0 && !g_exc)  /*@ob C09.exit-point-forwards-after-its-own-entry-once */
__CPROVER_requires(g_is_exit_pseudo && root == g_root && EV_EQ(event, g_evt) && target == g_target)   /*@ob C09,C18.exit-point-event-goes-to-the-enclosing-machine-unchanged */
__CPROVER_assigns(g_fwd, g_exc)
__CPROVER_ensures(g_fwd == 1)
;
void call_entry_unit(fsm_t* sm, event_t event, stref_t target)
__CPROVER_requires(__CPROVER_is_fresh(sm, sizeof(*sm)) && EV_EQ(event, g_evt) && target == g_target && g_ecalls == 0 && g_fwd == 0 && !g_exc)
__CPROVER_requires(!(g_is_explicit && g_is_entry_pseudo) && !(g_is_exit_pseudo && (g_is_explicit || g_is_entry_pseudo)))     /* kinds of targets are mutually exclusive [A: front-end tags] */
__CPROVER_assigns(g_ecalls, g_ekind, g_fwd, g_exc)
__CPROVER_ensures(g_ecalls == 1)                                                                          /*@ob C02,C09,C03.target-entered-exactly-once */
__CPROVER_ensures(!g_exc ==> g_fwd == ((g_is_exit_pseudo) ? 1 : 0))                                        /*@ob C09.exit-point-continues-the-compound-transition-exactly-once */
;
