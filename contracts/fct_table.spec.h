/* fct_table.spec.h -- back, favor_compile_time: dispatch_table<Fsm,Stt,Event,favor_compile_time>::dispatch_table(), i.e. the RUN-TIME
   construction of the per-state candidate lists (std::deque<cell> one_state) by init_cell / default_init_cell.  Under favor_runtime_speed the
   same lists are type computations (assumed, monitored by the `sel` family); here they are code, so the order assumptions of C01 / C05 /
   C07 become obligations:  (P1) of two real rows with the same source the LATER declared one is tried first,  (P2) the forwarding cell of a
   composite state is tried before every row,  (P3) the default cell (no_transition / defer_transition) comes after every row.
   Deque order is abstracted exactly by integer positions: push_front takes --lo, push_back takes hi++ [A: std::deque].  Witness cell g_c,
   witness rows g_i < g_j, witness state g_s; compile-time facts of the tables are symbolic constant arrays. */
#ifndef CAP
#define CAP 64
#endif
extern const int g_nt, g_ns;                                   /* rows of Stt whose event is a base of Event ; states of the state set */
extern const _Bool g_not_real[CAP], g_is_base[CAP], g_src_is_fsm[CAP];   /* per row: has_not_real_row_tag, is_base_of<transition_event,Event>, source == Fsm */
extern const int g_src_id[CAP];                                /* per row: get_state_id<stt, current_state_type> */
extern const _Bool g_deferred[CAP], g_composite[CAP], g_state_is_fsm[CAP]; extern const int g_state_id[CAP];   /* per state of the state set */
extern const int g_c, g_i, g_j, g_s;                            /* witnesses */
extern int g_lo, g_hi, g_pos_i, g_pos_j, g_pos_sub, g_pos_def; /* positions in witness cell g_c ; INT_MIN/none = 1000000 */
#define NONE 1000000
enum { FN_NT = -1, FN_DEFER = -2, FN_EVENTLESS = -3, FN_NT_INTERNAL = -4, FN_SUB = -5 };   /* non-row cells; a row's cell is its index */
#define ROW(t) (t)
#define CELL_OF_ROW(t) (g_src_is_fsm[t] ? 0 : g_src_id[t] + 1)
#define CELL_OF_STATE(s) (g_state_is_fsm[s] ? 0 : g_state_id[s] + 1)
#define REAL(t) (!g_not_real[t])
void cell_push_front(int idx, int fn)
__CPROVER_requires(fn >= 0 ? idx == CELL_OF_ROW(fn) : 1)                          /*@ob C01.row-registered-in-the-cell-of-its-source-state */
__CPROVER_requires(g_lo > -1000000)
__CPROVER_assigns(g_lo, g_pos_i, g_pos_j, g_pos_sub, g_pos_def)
__CPROVER_ensures(g_lo == __CPROVER_old(g_lo) - (idx == g_c ? 1 : 0))
__CPROVER_ensures(g_pos_i == ((idx == g_c && fn == g_i) ? g_lo : __CPROVER_old(g_pos_i)))
__CPROVER_ensures(g_pos_j == ((idx == g_c && fn == g_j) ? g_lo : __CPROVER_old(g_pos_j)))
__CPROVER_ensures(g_pos_sub == ((idx == g_c && fn == FN_SUB) ? g_lo : __CPROVER_old(g_pos_sub)))
__CPROVER_ensures(g_pos_def == ((idx == g_c && fn < 0 && fn != FN_SUB) ? g_lo : __CPROVER_old(g_pos_def)))
;
void cell_push_back(int idx, int fn)
__CPROVER_requires(fn >= 0 ? idx == CELL_OF_ROW(fn) : 1)                          /*@ob C01.row-registered-in-the-cell-of-its-source-state */
__CPROVER_requires(g_hi < 1000000 - 1)
__CPROVER_assigns(g_hi, g_pos_i, g_pos_j, g_pos_sub, g_pos_def)
__CPROVER_ensures(g_hi == __CPROVER_old(g_hi) + (idx == g_c ? 1 : 0))
__CPROVER_ensures(g_pos_i == ((idx == g_c && fn == g_i) ? g_hi - 1 : __CPROVER_old(g_pos_i)))
__CPROVER_ensures(g_pos_j == ((idx == g_c && fn == g_j) ? g_hi - 1 : __CPROVER_old(g_pos_j)))
__CPROVER_ensures(g_pos_sub == ((idx == g_c && fn == FN_SUB) ? g_hi - 1 : __CPROVER_old(g_pos_sub)))
__CPROVER_ensures(g_pos_def == ((idx == g_c && fn < 0 && fn != FN_SUB) ? g_hi - 1 : __CPROVER_old(g_pos_def)))
;
#define W_ROWS (0 <= g_i && g_i < g_j && g_j < g_nt && REAL(g_i) && REAL(g_j) && CELL_OF_ROW(g_i) == g_c && CELL_OF_ROW(g_j) == g_c)
#define W_STATE (0 <= g_s && g_s < g_ns && CELL_OF_STATE(g_s) == g_c)
/* the state set lists every state once [A: compile time]: no other state maps to the witness cell */
#define ONLY(s) (!((s) < g_ns && (s) != g_s) || CELL_OF_STATE(s) != g_c)
#if !UNIT_FCT_CTOR
void build_table(void)
__CPROVER_requires(0 <= g_nt && g_nt <= CAP && 0 <= g_ns && g_ns <= CAP && g_lo == 0 && g_hi == 0 && g_pos_i == NONE && g_pos_j == NONE && g_pos_sub == NONE && g_pos_def == NONE)
__CPROVER_requires(__CPROVER_forall { int t; (0 <= t && t < CAP) ==> (0 <= g_src_id[t] && g_src_id[t] < 100000 && 0 <= g_state_id[t] && g_state_id[t] < 100000) })   /* ids are small non-negative numbers [A: compile time] */
__CPROVER_requires(W_ROWS && W_STATE)
__CPROVER_requires(__CPROVER_forall { int s; (0 <= s && s < CAP) ==> ONLY(s) })
__CPROVER_requires(__CPROVER_forall { int u; (0 <= u && u < CAP) ==> (!g_state_is_fsm[u] || (g_composite[u] && !g_deferred[u])) })                                /* the machine itself is a composite and defers nothing [A: compile time] */
__CPROVER_assigns(g_lo, g_hi, g_pos_i, g_pos_j, g_pos_sub, g_pos_def)
__CPROVER_ensures(g_pos_i != NONE && g_pos_j != NONE && g_pos_j < g_pos_i)                                         /*@ob C01,C13.later-declared-row-of-a-state-is-tried-first */
__CPROVER_ensures((g_composite[g_s] && !g_deferred[g_s] && !g_state_is_fsm[g_s]) ==> (g_pos_sub != NONE && g_pos_sub < g_pos_j))   /*@ob C01,C07.forwarding-to-the-submachine-is-tried-before-every-row */
__CPROVER_ensures(!(g_composite[g_s] && !g_deferred[g_s]) ==> (g_pos_def != NONE && g_pos_def > g_pos_i))           /*@ob C01,C05.default-cell-comes-after-every-row */
;
#endif

/* ---- the constructor itself: rows first (init_cell, push_front), then the per-state cells (default_init_cell) - the order that makes the
   forwarding cell of a composite state end up in FRONT of its rows and the default cell BEHIND them ---- */
#if UNIT_FCT_CTOR
extern int g_ph;
void rows_phase(void)           /* for_each<filter_view<Stt, is_base_of<...>>>(init_cell(this)) : loop 1 of the unit above */
__CPROVER_requires(g_ph == 0)                                                     /*@ob C01,C07.rows-are-registered-before-the-per-state-cells */
__CPROVER_assigns(g_ph)
__CPROVER_ensures(g_ph == 1)
;
void states_phase(void)         /* for_each<state set>(default_init_cell<Event>(this, entries)) : loop 2 of the unit above */
__CPROVER_requires(g_ph == 1)                                                     /*@ob C01,C07.rows-are-registered-before-the-per-state-cells */
__CPROVER_assigns(g_ph)
__CPROVER_ensures(g_ph == 2)
;
void fct_ctor(void)
__CPROVER_requires(g_ph == 0)
__CPROVER_assigns(g_ph)
__CPROVER_ensures(g_ph == 2)                                                                               /*@ob C01.both-phases-run-once-in-this-order */
;
#endif
