/* evloop_back.spec.h -- the run-to-completion loop of back / back11
   C04 (no re-entrancy, FIFO, exactly once), C10 (completion event before anything else), C11 (blocking head),
   C12 (exceptions contained, flag cleared), C05(d) (deferred pass before message queue by default).

   Queue model [A: std::deque / circular_buffer with sufficient capacity are FIFO]: the message queue is seen through
   tickets: push hands out ticket g_pushed++, pop/front consume ticket g_popped++, invoking the stored functor must
   present ticket g_dispatched (so: in order, exactly once).  A stored boost::bind(pf,this,evt,src) is call_t
   {target,ev,src,ticket} [A: boost::function/bind store copies and invoke target->process_event_internal(ev,src)].  */

typedef struct { fsm_t* target; event_t ev; EventSource src; unsigned long long ticket; } call_t;
typedef call_t transition_fct;
typedef call_t deferred_fct;

typedef unsigned long long tick_t;                /* 64-bit ticket counters; assumption: fewer than 2^64 events are ever submitted */
#define TICKET_MAX 0xFFFFFFFFFFFFFFFFULL
extern tick_t g_pushed, g_popped, g_dispatched;  /* message queue tickets */
extern const type_t Event, EventType;
extern const event_t g_evt;                      /* the event handed to the unit */
extern fsm_t* const g_self;
extern int g_handled; extern const EventSource g_source;
#define forward(T, x) (x)      /* std::forward<T>(x) (back11) */

extern const _Bool g_no_msg_queue;               /* is_no_message_queue<library_sm> : machines without queue are outside C04 */
extern const _Bool g_no_exception_thrown;        /* is_no_exception_thrown<library_sm> */
extern const _Bool g_has_blocking_states;        /* has_fsm_blocking_states<library_sm> */
extern const _Bool g_queue_before_deferred;      /* has_event_queue_before_deferred_queue<library_sm> */
#define is_no_message_queue(T)                      g_no_msg_queue
#define is_no_exception_thrown(T)                   g_no_exception_thrown
#define has_fsm_blocking_states(T)                  g_has_blocking_states
#define has_event_queue_before_deferred_queue(T)    g_queue_before_deferred
#define bool_(x) (x)
extern const type_t library_sm;

/* ---- phases of one process_event_internal call (C10 ordering) */
extern int g_step;    /* 0 entry, 1 event processed, 2 completion event issued, 3 deferred/queued events handled */
extern int g_nproc;   /* calls of do_process_helper */
extern int g_blocked; /* ghost answer of the blocking test (C11): terminate flag, or interrupted and not an end-interrupt event */

/* ---- message queue stubs (CONT + BIND rules) */
_Bool mq_empty(fsm_t* self)
__CPROVER_assigns()
__CPROVER_ensures(__CPROVER_return_value == (g_popped == g_pushed))
;
call_t mq_front(fsm_t* self)
__CPROVER_requires(g_popped < g_pushed)                                          /*@ob C04.front-only-of-a-non-empty-queue */
__CPROVER_assigns()
__CPROVER_ensures(__CPROVER_return_value.ticket == g_popped)
;
void mq_pop_front(fsm_t* self)
__CPROVER_requires(g_popped < g_pushed)                                          /*@ob C04.pop-only-of-a-non-empty-queue */
__CPROVER_assigns(g_popped)
__CPROVER_ensures(g_popped == __CPROVER_old(g_popped) + 1)
;
void mq_push_back(fsm_t* self, call_t c)
__CPROVER_requires(c.target == self)                                             /*@ob C04,C07.stored-for-the-machine-it-was-sent-to */
__CPROVER_requires(EV_EQ(c.ev, g_evt))                                           /*@ob C04,C18.stored-event-keeps-type-and-payload */
__CPROVER_requires((c.src & EVENT_SOURCE_MSG_QUEUE) != 0)                        /*@ob C04.stored-call-is-marked-as-coming-from-the-queue */
__CPROVER_requires(g_pushed < TICKET_MAX)
__CPROVER_assigns(g_pushed)
__CPROVER_ensures(g_pushed == __CPROVER_old(g_pushed) + 1)
;
static call_t mk_call(fsm_t* target, event_t ev, EventSource src) { call_t c; c.target = target; c.ev = ev; c.src = src; c.ticket = 0; return c; }

/* invoking a stored functor = target->process_event_internal(ev, src) (its own unit, below) */
HandledEnum invoke_call(call_t c)
__CPROVER_requires(c.ticket == g_dispatched)                                     /*@ob C04,C20.dispatched-in-submission-order-exactly-once */
__CPROVER_requires(g_dispatched < g_popped)                                      /*@ob C04,C20.dispatched-only-after-removal-from-the-queue-the-dispatcher-owns-the-occurrence */
__CPROVER_requires(!g_self->m_event_processing || g_no_msg_queue)               /*@ob C04,C10.queued-event-never-interrupts-a-running-step */
__CPROVER_assigns(g_dispatched, g_pushed, g_exc)
__CPROVER_ensures(g_dispatched == __CPROVER_old(g_dispatched) + 1 && g_pushed >= __CPROVER_old(g_pushed))
;

/* ---- units ---- */

/* do_pre_msg_queue_helper(evt, bool_<is_no_message_queue>)  (two overloads, OVL) */
_Bool do_pre_msg_queue_helper(fsm_t* self, type_t EventT, event_t evt, _Bool no_queue)
__CPROVER_requires(__CPROVER_is_fresh(self, sizeof(*self)) && EV_EQ(evt, g_evt) && g_pushed < TICKET_MAX)
__CPROVER_assigns(self->m_event_processing, g_pushed)
__CPROVER_ensures(no_queue ==> (__CPROVER_return_value && g_pushed == __CPROVER_old(g_pushed) && self->m_event_processing == __CPROVER_old(self->m_event_processing)))
__CPROVER_ensures((!no_queue && __CPROVER_old(self->m_event_processing)) ==> (!__CPROVER_return_value && g_pushed == __CPROVER_old(g_pushed) + 1 && self->m_event_processing))   /*@ob C04,C10.event-submitted-during-a-step-is-stored-not-run */
__CPROVER_ensures((!no_queue && !__CPROVER_old(self->m_event_processing)) ==> (__CPROVER_return_value && g_pushed == __CPROVER_old(g_pushed) && self->m_event_processing))       /*@ob C04,C10.step-marks-the-machine-busy */
;
void do_allow_event_processing_after_transition(fsm_t* self, _Bool no_queue)
__CPROVER_requires(__CPROVER_is_fresh(self, sizeof(*self)))
__CPROVER_assigns(self->m_event_processing)
__CPROVER_ensures(no_queue ? (self->m_event_processing == __CPROVER_old(self->m_event_processing)) : !self->m_event_processing)    /*@ob C04,C10.busy-mark-cleared-after-the-step */
;
/* process_message_queue / execute_queued_events_helper: drain loop */
void process_message_queue(fsm_t* self)
__CPROVER_requires(__CPROVER_is_fresh(self, sizeof(*self)) && self == g_self && !self->m_event_processing)
__CPROVER_requires(g_popped <= g_pushed && g_dispatched == g_popped && !g_exc)
__CPROVER_assigns(g_popped, g_dispatched, g_pushed, g_exc)
__CPROVER_ensures(!g_exc ==> g_popped == g_pushed)                               /*@ob C04.drain-leaves-nothing-pending */
__CPROVER_ensures(!g_exc ==> g_dispatched == g_popped)                           /*@ob C04,C20.every-removed-event-was-dispatched */
;
void execute_single_queued_event(fsm_t* self)
__CPROVER_requires(__CPROVER_is_fresh(self, sizeof(*self)) && self == g_self && !self->m_event_processing)
__CPROVER_requires(g_popped < g_pushed && g_dispatched == g_popped && !g_exc)
__CPROVER_assigns(g_popped, g_dispatched, g_pushed, g_exc)
__CPROVER_ensures(g_popped == __CPROVER_old(g_popped) + 1 && g_dispatched == g_popped)   /*@ob C04.single-step-dispatches-exactly-the-oldest */
;
void enqueue_event_helper(fsm_t* self, event_t evt, _Bool no_queue)
__CPROVER_requires(__CPROVER_is_fresh(self, sizeof(*self)) && EV_EQ(evt, g_evt) && g_pushed < TICKET_MAX)
__CPROVER_assigns(g_pushed)
__CPROVER_ensures(g_pushed == __CPROVER_old(g_pushed) + (no_queue ? 0 : 1))       /*@ob C04,C20.enqueue-stores-exactly-one-occurrence */
;

/* ---- process_event_internal and what it calls ---- */
_Bool is_event_handling_blocked_helper(fsm_t* self, type_t Event, _Bool has_blocking)
__CPROVER_requires(g_step == 0)
__CPROVER_assigns()
__CPROVER_ensures(__CPROVER_return_value == (has_blocking && g_blocked))
;
HandledEnum do_process_helper(fsm_t* self, type_t EventT, event_t evt, _Bool no_exception_thrown, _Bool is_direct_call)
__CPROVER_requires(g_step == 0 && g_nproc == 0)
__CPROVER_requires(!g_blocked || !g_has_blocking_states)                         /*@ob C11,C04.blocked-machine-processes-nothing */
__CPROVER_requires(g_no_msg_queue || self->m_event_processing)                   /*@ob C04,C10.whole-step-runs-with-the-busy-mark-set */
__CPROVER_requires(EV_EQ(evt, g_evt) && no_exception_thrown == g_no_exception_thrown)
__CPROVER_requires(is_direct_call == ((g_source & EVENT_SOURCE_DIRECT) != 0))    /*@ob C06.direct-call-flag-from-the-event-source */
__CPROVER_assigns(g_step, g_nproc, g_handled, g_pushed, g_exc)
__CPROVER_ensures(g_step == 1 && g_nproc == 1 && 0 <= g_handled && g_handled <= 7 && (int)__CPROVER_return_value == g_handled)
__CPROVER_ensures(g_pushed >= __CPROVER_old(g_pushed))
__CPROVER_ensures(no_exception_thrown || !g_exc)
;
/* handle_eventless_transitions_helper(this, handled).process_completion_event(source)  (LAMBDA0: helper object) */
void process_completion_event(fsm_t* self, _Bool handled, EventSource source)
__CPROVER_requires(g_step == 1 && !g_exc)                                        /*@ob C10,C04,C05.completion-event-issued-before-deferred-and-queued-events */
__CPROVER_requires(handled == ((g_handled & HANDLED_TRUE) != 0))                 /*@ob C10,C02.completion-event-only-after-a-taken-transition */
__CPROVER_requires(g_no_msg_queue || !self->m_event_processing)                  /*@ob C10.completion-event-is-dispatched-at-once-not-queued */
__CPROVER_requires(source == g_source)
__CPROVER_assigns(g_step, g_pushed, g_exc)
__CPROVER_ensures(g_step == 2 && g_pushed >= __CPROVER_old(g_pushed))
__CPROVER_ensures(g_no_exception_thrown || !g_exc)
;
#define PCE_SEL(_0,_1,_2,NAME,...) NAME
#define PCE1(self, h)    process_completion_event(self, h, EVENT_SOURCE_DEFAULT)      /* default argument of process_completion_event (must_contain) */
#define PCE2(self, h, s) process_completion_event(self, h, s)
#define PROCESS_COMPLETION_EVENT(...) PCE_SEL(__VA_ARGS__, PCE2, PCE1, PCE0)(__VA_ARGS__)
void do_handle_prio_msg_queue_deferred_queue(fsm_t* self, EventSource source, HandledEnum handled, _Bool queue_first)
__CPROVER_requires(g_step == 2 && !g_exc)                                        /*@ob C10,C04,C05.deferred-and-queued-events-only-after-the-completion-event */
__CPROVER_requires(g_no_msg_queue || !self->m_event_processing)                  /*@ob C04,C10.pending-events-run-after-the-step-completed */
__CPROVER_requires(source == g_source && (int)handled == g_handled && queue_first == g_queue_before_deferred)
__CPROVER_assigns(g_step, g_pushed, g_popped, g_dispatched, g_exc)
__CPROVER_ensures(g_step == 3)
__CPROVER_ensures(g_no_exception_thrown || !g_exc)
;

HandledEnum process_event_internal(fsm_t* self, event_t evt, EventSource source)
__CPROVER_requires(__CPROVER_is_fresh(self, sizeof(*self)) && self == g_self && EV_EQ(evt, g_evt) && source == g_source)
__CPROVER_requires(g_step == 0 && g_nproc == 0 && !g_exc && g_pushed < TICKET_MAX)
__CPROVER_assigns(self->m_event_processing, g_step, g_nproc, g_handled, g_pushed, g_popped, g_dispatched, g_exc)
__CPROVER_ensures((g_has_blocking_states && g_blocked) ==> (__CPROVER_return_value == HANDLED_TRUE && g_nproc == 0 && g_step == 0 && g_pushed == __CPROVER_old(g_pushed) && self->m_event_processing == __CPROVER_old(self->m_event_processing)))   /*@ob C11,C05,C04.blocked-event-is-swallowed-without-any-effect */
__CPROVER_ensures((!(g_has_blocking_states && g_blocked) && !g_no_msg_queue && __CPROVER_old(self->m_event_processing)) ==> (__CPROVER_return_value == HANDLED_TRUE && g_nproc == 0 && g_step == 0 && g_pushed == __CPROVER_old(g_pushed) + 1 && self->m_event_processing))   /*@ob C04,C10.event-submitted-during-a-step-is-only-stored */
__CPROVER_ensures((!(g_has_blocking_states && g_blocked) && (g_no_msg_queue || !__CPROVER_old(self->m_event_processing)) && !g_exc) ==> (g_nproc == 1 && g_step == 3 && (int)__CPROVER_return_value == g_handled))   /*@ob C04,C10.one-step-then-completion-then-pending-events */
__CPROVER_ensures((!(g_has_blocking_states && g_blocked) && !g_no_msg_queue && !__CPROVER_old(self->m_event_processing) && !g_no_exception_thrown) ==> !self->m_event_processing)   /*@ob C04,C12.machine-not-left-busy */
__CPROVER_ensures(!g_no_exception_thrown ==> !g_exc)                                                                              /*@ob C12.exception-does-not-escape */
;

/* ---- do_process_helper (C12): exception-protected variant */
extern int g_exc_caught;
extern const _Bool g_is_direct_call; extern int g_nt_calls;
extern int g_threw;   /* ghost: the step ended with an exception in flight */
HandledEnum do_process_event(fsm_t* self, event_t evt, _Bool is_direct_call)
__CPROVER_requires(EV_EQ(evt, g_evt) && is_direct_call == g_is_direct_call && !g_exc && g_nproc == 0)
__CPROVER_assigns(g_nproc, g_handled, g_exc, g_nt_calls, g_threw)
__CPROVER_ensures(g_nproc == 1 && 0 <= g_handled && g_handled <= 7 && (int)__CPROVER_return_value == g_handled)
__CPROVER_ensures(g_threw == (g_exc ? 1 : 0))
__CPROVER_ensures(g_exc ==> g_nt_calls == __CPROVER_old(g_nt_calls))             /* a step aborted by an exception did not reach the no_transition report (do_process_event unit: select.spec.h) */
;
void exception_caught(fsm_t* self, event_t evt, fsm_t* fsm, int e)
__CPROVER_requires(g_exc_caught == 0)                                            /*@ob C12.exception-caught-invoked-exactly-once */
__CPROVER_requires(EV_EQ(evt, g_evt) && self == fsm)                             /*@ob C12.exception-caught-gets-the-event-being-processed */
__CPROVER_requires(!g_exc)                                                       /*@ob C12.handler-runs-after-the-exception-was-caught */
__CPROVER_requires(g_no_msg_queue || self->m_event_processing)                   /*@ob C04.exception-handler-runs-inside-the-step-events-it-submits-are-queued */
__CPROVER_assigns(g_exc_caught)
__CPROVER_ensures(g_exc_caught == 1)
;
HandledEnum do_process_helper_unit(fsm_t* self, type_t EventT, event_t evt, _Bool no_exception_thrown, _Bool is_direct_call)
__CPROVER_requires(__CPROVER_is_fresh(self, sizeof(*self)) && EV_EQ(evt, g_evt) && is_direct_call == g_is_direct_call && !g_exc && g_nproc == 0 && g_exc_caught == 0)
__CPROVER_requires(g_no_msg_queue || self->m_event_processing)                   /* called by process_event_internal after do_pre_msg_queue_helper set the busy mark (its unit) */
__CPROVER_assigns(g_nproc, g_handled, g_exc, g_exc_caught, g_nt_calls, g_threw)
__CPROVER_ensures(g_nproc == 1)
__CPROVER_ensures(no_exception_thrown || !g_exc)                                                              /*@ob C12.exception-does-not-escape */
__CPROVER_ensures((!no_exception_thrown && g_threw) ==> (g_exc_caught == 1 && __CPROVER_return_value == HANDLED_FALSE))    /*@ob C12,C06.caught-exception-means-event-not-handled */
__CPROVER_ensures((!no_exception_thrown && g_threw) ==> g_nt_calls == __CPROVER_old(g_nt_calls))             /*@ob C12,C06.no-transition-not-reported-for-an-aborted-event */
__CPROVER_ensures(!g_threw ==> (g_exc_caught == 0 && (int)__CPROVER_return_value == g_handled))
;

/* ---- C11: is_event_handling_blocked_helper<Event>(true_/false_) ---- */
extern const _Bool g_flag_terminate, g_flag_interrupted, g_flag_end_interrupt;   /* is_flag_active<...>() answers (C17 units: flags.spec.h) */
extern const type_t TerminateFlag, InterruptedFlag;
#define EndInterruptFlag(E) (1000 + (E))
_Bool is_flag_active(fsm_t* self, type_t flag)
__CPROVER_assigns()
__CPROVER_ensures(__CPROVER_return_value == (flag == TerminateFlag ? g_flag_terminate : flag == InterruptedFlag ? g_flag_interrupted : g_flag_end_interrupt))
;
_Bool blocked_helper_unit(fsm_t* self, type_t EventT, _Bool has_blocking)
__CPROVER_requires(TerminateFlag != InterruptedFlag && TerminateFlag < 1000 && InterruptedFlag < 1000 && 0 <= EventT && EventT < 1000000 && Event == EventT)
__CPROVER_assigns()                                                                                                       /*@ob C11.blocking-test-changes-nothing */
__CPROVER_ensures(__CPROVER_return_value == (has_blocking && (g_flag_terminate || (g_flag_interrupted && !g_flag_end_interrupt))))   /*@ob C11,C17.blocked-iff-terminated-or-interrupted-without-end-event */
;

/* ---- handle_eventless_transitions_helper::process_completion_event (machines that have completion rows): the completion event is issued
   iff the step took a transition, as a direct call carrying the source flags of the step (C10) ---- */
#if UNIT_PCE
extern int g_ccalls2; extern const EventSource g_src2;
typedef struct { fsm_t* self; _Bool handled; } eventless_helper_t;
HandledEnum pei_completion(fsm_t* self, EventSource source)         /* self->process_event_internal(first_completion_event(), source | EVENT_SOURCE_DIRECT) */
__CPROVER_requires(g_ccalls2 == 0)                                                /*@ob C10.completion-event-issued-at-most-once-per-step */
__CPROVER_requires(source == (EventSource)(g_src2 | EVENT_SOURCE_DIRECT))         /*@ob C10.completion-event-is-a-direct-call-never-reported-through-no-transition */
__CPROVER_assigns(g_ccalls2)
__CPROVER_ensures(g_ccalls2 == 1)
;
void pce_unit(eventless_helper_t* h, EventSource source)
__CPROVER_requires(__CPROVER_is_fresh(h, sizeof(*h)) && source == g_src2 && g_ccalls2 == 0)
__CPROVER_assigns(g_ccalls2)
__CPROVER_ensures(g_ccalls2 == (h->handled ? 1 : 0))                                                     /*@ob C10,C02.completion-event-only-after-a-taken-transition */
;
#endif
