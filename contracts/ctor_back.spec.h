/* ctor_back.spec.h -- back / back11 state_machine constructors (C06 C07 C03): the order of the construction steps matters:
   active states := initial states; history memory := initial states; user-supplied substate instances (states_ << ...) copied in;
   and only THEN fill_states(this), which marks every submachine as contained (m_is_included: a contained machine never reports
   no_transition itself and forwards exit-point events to its container) and wires the back pointers. */
#if UNIT_CTORS
extern int g_cs;
#ifndef HAS_EXPR
#define HAS_EXPR 0
#endif
void init_states_foreach(fsm_t* self)                      /* unit <be>.init_states.foreach */
__CPROVER_requires(g_cs == 0)                                                     /*@ob C03.construction-starts-from-the-initial-states */
__CPROVER_assigns(g_cs)
__CPROVER_ensures(g_cs == 1)
;
void history_set_initial_states(fsm_t* self)               /* units <be>.*HistoryImpl.set_initial_states */
__CPROVER_requires(g_cs == 1)                                                     /*@ob C08.history-memory-initialised-from-the-initial-states */
__CPROVER_assigns(g_cs)
__CPROVER_ensures(g_cs == 2)
;
void set_states(fsm_t* self, int expr)                      /* fusion::for_each(...expr..., update_state(m_substate_list)): overwrites substate objects with the user's instances */
__CPROVER_requires(HAS_EXPR && g_cs == 2)
__CPROVER_assigns(g_cs)
__CPROVER_ensures(g_cs == 3)
;
void fill_states(fsm_t* self, fsm_t* containing_sm)
__CPROVER_requires(g_cs == (HAS_EXPR ? 3 : 2))                                    /*@ob C06,C07.containment-is-marked-after-the-user-supplied-substate-instances-are-in-place */
__CPROVER_requires(containing_sm == self)                                         /*@ob C07,C09.substates-are-wired-to-this-machine */
__CPROVER_assigns(g_cs)
__CPROVER_ensures(g_cs == 4)
;
void construct(fsm_t* self, int expr)
__CPROVER_requires(__CPROVER_is_fresh(self, sizeof(*self)) && g_cs == 0)
__CPROVER_assigns(g_cs)
__CPROVER_ensures(g_cs == 4)                                                                               /*@ob C03,C06.machine-fully-constructed-states-created-and-marked-last */
;
#endif

/* ---- fill_states / set_containing_sm / add_state: wiring of the substates (run at construction and again after a copy) ---- */
#if UNIT_ADD_STATE
extern fsm_t* const g_container; extern const _Bool g_is_composite, g_is_pseudo_exit; extern int g_marked, g_bound, g_smset;
void sub_set_containing_sm(stref_t substate, fsm_t* containing_sm)           /* at_key<State>(m_substate_list).set_containing_sm(containing_sm) */
__CPROVER_requires(g_is_composite && g_marked == 0 && containing_sm == g_container)   /*@ob C06,C07.every-submachine-is-marked-as-contained-in-the-machine-that-holds-it */
__CPROVER_assigns(g_marked)
__CPROVER_ensures(g_marked == 1)
;
void set_forward_fct_bound_to(stref_t exit_state, fsm_t* target)             /* set_forward_fct(bind(&ContainingSM::process_event, containing_sm, _1)) */
__CPROVER_requires(g_is_pseudo_exit && g_bound == 0 && target == g_container)        /*@ob C09.exit-point-forwards-its-event-to-the-containing-machine */
__CPROVER_assigns(g_bound)
__CPROVER_ensures(g_bound == 1)
;
extern int g_upper;
void set_upper_fsm(stref_t substate, fsm_t* upper)                             /* back11: at_key<State>(m_substate_list).m_upper_fsm = containing_sm */
__CPROVER_requires(g_is_composite && upper == g_container && g_upper == 0)        /*@ob C07.submachine-knows-the-machine-that-holds-it */
__CPROVER_assigns(g_upper)
__CPROVER_ensures(g_upper == 1)
;
void create_state_set_sm(type_t State, fsm_t* self)
__CPROVER_requires(g_smset == 0)
__CPROVER_assigns(g_smset)
__CPROVER_ensures(g_smset == 1)
;
stref_t __CPROVER_uninterpreted_at_key(type_t, slist_t);
#define at_key __CPROVER_uninterpreted_at_key
void add_state_call(fsm_t* self, fsm_t* containing_sm, type_t State)
__CPROVER_requires(__CPROVER_is_fresh(self, sizeof(*self)) && containing_sm == g_container && g_marked == 0 && g_bound == 0 && g_smset == 0 && g_upper == 0 && !(g_is_composite && g_is_pseudo_exit))
__CPROVER_assigns(g_marked, g_bound, g_smset, g_upper)
__CPROVER_ensures(g_marked == (g_is_composite ? 1 : 0))                                                   /*@ob C06,C07.every-submachine-is-marked-as-contained-in-the-machine-that-holds-it */
__CPROVER_ensures(g_bound == (g_is_pseudo_exit ? 1 : 0))                                                  /*@ob C09.exit-point-forwards-its-event-to-the-containing-machine */
__CPROVER_ensures(g_smset == 1)
;
#endif
#if UNIT_SET_CONTAINING
extern fsm_t* const g_container; extern int g_wired;
void wire_substates(fsm_t* self, fsm_t* sm)                                  /* fusion::for_each(m_substate_list, add_state<ContainingSM>(this, sm)) */
__CPROVER_requires(sm == g_container && g_wired == 0 && self->m_is_included)      /*@ob C06,C07.marked-contained-before-the-substates-are-wired */
__CPROVER_assigns(g_wired)
__CPROVER_ensures(g_wired == 1)
;
void set_containing_sm(fsm_t* self, fsm_t* sm)
__CPROVER_requires(__CPROVER_is_fresh(self, sizeof(*self)) && sm == g_container && g_wired == 0)
__CPROVER_assigns(self->m_is_included, g_wired)
__CPROVER_ensures(self->m_is_included && g_wired == 1)                                                     /*@ob C06,C07.a-machine-told-its-container-is-contained */
;
#endif

/* ---- copy assignment / copy constructor of state_machine, copy_helper, fill_states (C15) ---- */
#if UNIT_COPY_OPS
extern const fsm_t* const g_rhs; extern int g_ops;          /* step ledger */
void Derived_assign(fsm_t* self, const fsm_t* rhs)           /* Derived::operator=(rhs): front-end data */
__CPROVER_requires(g_ops == 0 && rhs == g_rhs && self != rhs)                     /*@ob C15.front-end-data-copied-first-never-onto-itself */
__CPROVER_assigns(g_ops)
__CPROVER_ensures(g_ops == 1)
;
void fill_states(fsm_t* self, fsm_t* containing_sm)          /* (copy constructor) create and wire the own substates before copying into them */
__CPROVER_requires(g_ops == 0 && containing_sm == self && self != g_rhs)          /*@ob C15.copy-has-its-own-wired-substates-before-the-contents-are-copied */
__CPROVER_assigns(g_ops)
__CPROVER_ensures(g_ops == 1)
;
void do_copy(fsm_t* self, const fsm_t* rhs)                  /* units <be>.do_copy */
__CPROVER_requires(g_ops == 1 && rhs == g_rhs && self != rhs)                     /*@ob C15.back-end-state-copied-once-from-the-source */
__CPROVER_assigns(g_ops)
__CPROVER_ensures(g_ops == 2)
;
fsm_t* copy_assign(fsm_t* self, const fsm_t* rhs)
__CPROVER_requires(__CPROVER_is_fresh(self, sizeof(*self)) && rhs == g_rhs && g_ops == 0)
__CPROVER_assigns(g_ops)
__CPROVER_ensures(g_ops == (self == rhs ? 0 : 2))                                                         /*@ob C15.assignment-copies-everything-self-assignment-changes-nothing */
__CPROVER_ensures(__CPROVER_return_value == self)
;
void copy_construct(fsm_t* self, const fsm_t* rhs)
__CPROVER_requires(__CPROVER_is_fresh(self, sizeof(*self)) && rhs == g_rhs && g_ops == 0)
__CPROVER_assigns(g_ops)
__CPROVER_ensures(g_ops == (self == rhs ? 0 : 2))                                                         /*@ob C15.copy-construction-wires-own-substates-then-copies */
;
#endif
#if UNIT_COPY_HELPER
extern int g_vis, g_smset2; extern const _Bool g_has_accept_sig;
void copy_visitor_helper(fsm_t* m_sm, type_t StateType, int id)
__CPROVER_requires(g_vis == 0 && m_sm == g_self2)                                  /*@ob C15.visitor-of-every-copied-substate-is-bound-to-the-copys-own-state-object */
__CPROVER_assigns(g_vis)
__CPROVER_ensures(g_vis == 1)
;
void create_state_set_sm(type_t StateType, fsm_t* m_sm)
__CPROVER_requires(g_smset2 == 0 && m_sm == g_self2)                              /*@ob C15.copied-substates-point-back-to-the-copy-not-to-the-original */
__CPROVER_assigns(g_smset2)
__CPROVER_ensures(g_smset2 == 1)
;
extern fsm_t* const g_self2;
typedef struct { fsm_t* m_sm; } copy_helper_t;
void copy_helper_call(copy_helper_t* self, type_t StateType)
__CPROVER_requires(__CPROVER_is_fresh(self, sizeof(*self)) && self->m_sm == g_self2 && g_vis == 0 && g_smset2 == 0)
__CPROVER_assigns(g_vis, g_smset2)
__CPROVER_ensures(g_smset2 == 1)                                                                           /*@ob C15.copied-substates-point-back-to-the-copy-not-to-the-original */
__CPROVER_ensures(g_vis == 1)                                                                              /*@ob C15.visitor-of-every-copied-substate-is-bound-to-the-copys-own-state-object */
;
#endif
#if UNIT_FILL_STATES
extern fsm_t* const g_container; extern int g_fs;
void fill_visitors(fsm_t* self, int max_state)
__CPROVER_requires(g_fs == 0)
__CPROVER_assigns(g_fs)
__CPROVER_ensures(g_fs == 1)
;
void wire_substates(fsm_t* self, fsm_t* containing_sm)        /* fusion::for_each(m_substate_list, add_state<ContainingSM>(this, containing_sm)): unit <be>.add_state.call per substate */
__CPROVER_requires(g_fs == 1 && containing_sm == g_container)                     /*@ob C07,C09.substates-are-wired-to-the-machine-passed-as-container */
__CPROVER_assigns(g_fs)
__CPROVER_ensures(g_fs == 2)
;
void fill_states_unit(fsm_t* self, fsm_t* containing_sm)
__CPROVER_requires(__CPROVER_is_fresh(self, sizeof(*self)) && containing_sm == g_container && g_fs == 0)
__CPROVER_assigns(g_fs)
__CPROVER_ensures(g_fs == 2)                                                                               /*@ob C07.every-substate-created-and-wired */
;
#endif
