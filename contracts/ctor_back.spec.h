/* ctor_back.spec.h -- back / back11 state_machine constructors (C06 C07 C03): the order of the construction steps matters:
   active states := initial states; history memory := initial states; user-supplied substate instances (states_ << ...) copied in;
   and only THEN fill_states(this), which marks every submachine as contained (m_is_included: a contained machine never reports
   no_transition itself and forwards exit-point events to its container) and wires the back pointers. */
extern int g_cs;
void init_states_foreach(fsm_t* self)                      /* unit <be>.init_states.foreach */
__CPROVER_requires(g_cs == 0)                                                     /*@ob C03.construction-starts-from-the-initial-states */
__CPROVER_assigns(g_cs)
__CPROVER_ensures(g_cs == 1)
;
void history_set_initial_states(fsm_t* self)               /* units <be>.*HistoryImpl.set_initial_states */
__CPROVER_requires(g_cs == 1)                                                     /*@ob C08.history-memory-initialised-from-the-initial-states */
__CPROVER_assigns(g_cs)
__CPROVER_ensures(g_cs == 2)
;
void set_states(fsm_t* self, int expr)                      /* fusion::for_each(...expr..., update_state(m_substate_list)): overwrites substate objects with the user's instances */
__CPROVER_requires(HAS_EXPR && g_cs == 2)
__CPROVER_assigns(g_cs)
__CPROVER_ensures(g_cs == 3)
;
void fill_states(fsm_t* self, fsm_t* containing_sm)
__CPROVER_requires(g_cs == (HAS_EXPR ? 3 : 2))                                    /*@ob C06,C07.containment-is-marked-after-the-user-supplied-substate-instances-are-in-place */
__CPROVER_requires(containing_sm == self)                                         /*@ob C07,C09.substates-are-wired-to-this-machine */
__CPROVER_assigns(g_cs)
__CPROVER_ensures(g_cs == 4)
;
void construct(fsm_t* self, int expr)
__CPROVER_requires(__CPROVER_is_fresh(self, sizeof(*self)) && g_cs == 0)
__CPROVER_assigns(g_cs)
__CPROVER_ensures(g_cs == 4)                                                                               /*@ob C03,C06.machine-fully-constructed-states-created-and-marked-last */
;
