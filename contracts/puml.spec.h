/* puml.spec.h -- front/puml/puml.hpp tokenizer (C14, BOUNDED: strings of at most LEN characters; loops of the string_view
   model unwound with --unwinding-assertions).  Oracle = the documented line grammar, expressed with ghost offsets. */
#include "prelude/sv.h"
#ifndef LEN
#define LEN 20
#endif
typedef struct { sv_t source, target, event, guard, action; } Transition;
static _Bool is_trim(char c) { return c == '-' || c == ' ' || c == '\t'; }
static _Bool is_ident(char c) { return (c >= 'a' && c <= 'z') || (c >= 'A' && c <= 'Z') || (c >= '0' && c <= '9') || c == '_'; }
sv_t cleanup_token(sv_t str);
Transition parse_guards(sv_t part);
Transition parse_row_right(sv_t part);
