/* copy_serialize.spec.h -- back / back11: do_copy, region_copy_helper, operator=, copy constructor (C15); serialize (C16) */
extern const int nr_regions;            /* symbolic 1..NR_CAP */
extern const int g_k;                   /* ghost region index */
#define REGIONS_OK (1 <= nr_regions && nr_regions <= NR_CAP && 0 <= g_k && g_k < nr_regions)
extern int g_cstep;                     /* do_copy: which members have been copied (bit mask) */
enum { CP_STATES = 1, CP_MQ = 2, CP_DQ = 4, CP_HIST = 8, CP_SUBSTATES = 16, CP_SMPTR = 32 };
extern int g_mq_len_self, g_mq_len_rhs, g_dq_len_self, g_dq_len_rhs;   /* abstract views of the two queues */
extern const fsm_t* g_mq_target_self; extern const fsm_t* g_mq_target_rhs;   /* the machine the pending calls are bound to (WF: rhs's are bound to rhs) */
extern const fsm_t* g_dq_target_self; extern const fsm_t* g_dq_target_rhs;

/* region_copy_helper<region_id>::do_copy (SPEC recursion) */
void regions_do_copy(int region_id, fsm_t* self_, const fsm_t* rhs)
__CPROVER_requires(REGIONS_OK && __CPROVER_is_fresh(self_, sizeof(*self_)) && __CPROVER_is_fresh(rhs, sizeof(*rhs)) && 0 <= region_id && region_id <= nr_regions)
__CPROVER_assigns(__CPROVER_object_upto(self_->m_states, sizeof(self_->m_states)))                                     /*@ob C15.source-of-a-copy-is-unchanged */
__CPROVER_ensures(region_id <= g_k ==> self_->m_states[g_k] == rhs->m_states[g_k])             /*@ob C15,C03.active-state-of-every-region-copied */
__CPROVER_ensures(g_k < region_id ==> self_->m_states[g_k] == __CPROVER_old(self_->m_states[g_k]))
;
/* std::deque<boost::function<...>>::operator= [A]: element-wise copy; a copied boost::bind(pf, this_of_rhs, ...) keeps its bound object */
void mq_assign(fsm_t* self, const fsm_t* rhs)
__CPROVER_assigns(g_mq_len_self, g_mq_target_self, g_cstep)
__CPROVER_ensures(g_mq_len_self == g_mq_len_rhs && g_mq_target_self == g_mq_target_rhs && g_cstep == (__CPROVER_old(g_cstep) | CP_MQ))
;
void dq_assign(fsm_t* self, const fsm_t* rhs)
__CPROVER_assigns(g_dq_len_self, g_dq_target_self, g_cstep)
__CPROVER_ensures(g_dq_len_self == g_dq_len_rhs && g_dq_target_self == g_dq_target_rhs && g_cstep == (__CPROVER_old(g_cstep) | CP_DQ))
;
void history_assign(fsm_t* self, const fsm_t* rhs)       /* history_back.spec.h units */
__CPROVER_assigns(g_cstep, __CPROVER_object_upto(self->m_history_last, sizeof(self->m_history_last)), __CPROVER_object_upto(self->m_history_init, sizeof(self->m_history_init)))
__CPROVER_ensures(g_cstep == (__CPROVER_old(g_cstep) | CP_HIST) && self->m_history_last[g_k] == rhs->m_history_last[g_k] && self->m_history_init[g_k] == rhs->m_history_init[g_k])
;
void substates_assign(fsm_t* self, const fsm_t* rhs)     /* fusion set assignment: every substate object copy-assigned [A] */
__CPROVER_assigns(g_cstep, self->m_substate_list)
__CPROVER_ensures(g_cstep == (__CPROVER_old(g_cstep) | CP_SUBSTATES) && self->m_substate_list == rhs->m_substate_list)
;
void copy_helper_foreach(fsm_t* self)                    /* mpl::for_each<state_list>(copy_helper(this)): visitors + set_sm(this) for every state */
__CPROVER_requires((g_cstep & CP_SUBSTATES) != 0)                                              /*@ob C15.sm-pointers-reset-after-the-substates-were-copied */
__CPROVER_assigns(g_cstep)
__CPROVER_ensures(g_cstep == (__CPROVER_old(g_cstep) | CP_SMPTR))
;
#define REGIONS_DO_COPY(self, rhs) (regions_do_copy(0, self, rhs), g_cstep |= CP_STATES)   /* ghost step only */
void do_copy(fsm_t* self, const fsm_t* rhs)
__CPROVER_requires(REGIONS_OK && __CPROVER_is_fresh(self, sizeof(*self)) && __CPROVER_is_fresh(rhs, sizeof(*rhs)) && g_cstep == 0)
__CPROVER_requires(g_mq_target_rhs == rhs && g_dq_target_rhs == rhs && 0 <= g_mq_len_rhs && 0 <= g_dq_len_rhs)       /* WF(rhs): its pending calls are bound to it */
#ifdef QUEUES_EMPTY
__CPROVER_requires(g_mq_len_rhs == 0 && g_dq_len_rhs == 0)          /* exclusion of known finding C15/pending-bound-to-original: everything else must hold */
#endif
__CPROVER_assigns(__CPROVER_object_whole(self), g_cstep, g_mq_len_self, g_mq_target_self, g_dq_len_self, g_dq_target_self)   /*@ob C15.source-of-a-copy-is-unchanged */
__CPROVER_ensures(self->m_states[g_k] == rhs->m_states[g_k])                                                             /*@ob C15,C03.active-state-of-every-region-copied */
__CPROVER_ensures(self->m_history_last[g_k] == rhs->m_history_last[g_k] && self->m_history_init[g_k] == rhs->m_history_init[g_k])   /*@ob C15,C08.history-memory-copied */
__CPROVER_ensures(self->m_event_processing == rhs->m_event_processing && self->m_is_included == rhs->m_is_included)    /*@ob C15.processing-flags-copied */
__CPROVER_ensures(self->m_upper_fsm == __CPROVER_old(self->m_upper_fsm) && self->m_root_sm == __CPROVER_old(self->m_root_sm))     /*@ob C15,C07.the-copy-keeps-its-own-wiring-to-the-machines-around-it */
__CPROVER_ensures(g_cstep == (CP_STATES | CP_MQ | CP_DQ | CP_HIST | CP_SUBSTATES | CP_SMPTR))                            /*@ob C15.every-member-copied-and-substate-back-pointers-reset */
__CPROVER_ensures(g_mq_len_self == g_mq_len_rhs && g_dq_len_self == g_dq_len_rhs)                                        /*@ob C15,C04,C05,C20.pending-events-copied */
__CPROVER_ensures((g_mq_len_self > 0 ==> g_mq_target_self == self) && (g_dq_len_self > 0 ==> g_dq_target_self == self))  /*@ob C15.pending-events-of-the-copy-belong-to-the-copy */
;

/* ---------------- C16: serialize(ar, version) ---------------- */
typedef struct { _Bool is_loading; } archive_t;
extern int g_ser_mask;
enum { F_base = 1, F_m_states = 2, F_m_history = 4, F_m_event_processing = 8, F_m_is_included = 16, F_substates = 32 };
void ar_amp(archive_t* ar, int field)                    /* `ar & member` : saves or loads the member [A: Boost.Serialization, any archive] */
__CPROVER_requires((g_ser_mask & field) == 0)                                                  /*@ob C16.each-member-serialized-at-most-once */
__CPROVER_assigns(g_ser_mask)
__CPROVER_ensures(g_ser_mask == (__CPROVER_old(g_ser_mask) | field))
;
#define AR_AMP(ar, f) ar_amp(ar, F_##f)
void serialize(fsm_t* self, archive_t* ar, unsigned int version)
__CPROVER_requires(__CPROVER_is_fresh(self, sizeof(*self)) && __CPROVER_is_fresh(ar, sizeof(*ar)) && g_ser_mask == 0)
__CPROVER_assigns(g_ser_mask)
__CPROVER_ensures(g_ser_mask == (F_base | F_m_states | F_m_history | F_m_event_processing | F_m_is_included | F_substates))   /*@ob C16.saving-and-loading-cover-the-same-complete-member-set */
;

/* ---------------- C16: history policies' serialize(ar, version) (back/history_policies.hpp; -DPOLICY=0 No, 1 Always, 2 Shallow) --------
   what must round-trip is the history MEMORY (Always: m_initialStates doubles as the memory; Shallow: m_currentStates);
   the initial states of No / Shallow are re-established by the constructor of the loading machine, archiving them is optional */
enum { H_m_initialStates = 1, H_m_currentStates = 2 };
extern int g_hser_mask;
void har_amp(archive_t* ar, int field)
__CPROVER_requires((g_hser_mask & field) == 0)                                                 /*@ob C16.each-member-serialized-at-most-once */
__CPROVER_assigns(g_hser_mask)
__CPROVER_ensures(g_hser_mask == (__CPROVER_old(g_hser_mask) | field))
;
#define HAR_AMP(ar, f) har_amp(ar, H_##f)
#ifndef POLICY
#define POLICY 0
#endif
void history_serialize(archive_t* ar, unsigned int version)
__CPROVER_requires(__CPROVER_is_fresh(ar, sizeof(*ar)) && g_hser_mask == 0)
__CPROVER_assigns(g_hser_mask)
__CPROVER_ensures(POLICY == 1 ==> (g_hser_mask & H_m_initialStates) != 0)                      /*@ob C16.always-history-memory-is-archived */
__CPROVER_ensures(POLICY == 2 ==> (g_hser_mask & H_m_currentStates) != 0)                      /*@ob C16.shallow-history-memory-is-archived */
;
