/* visitor_mp11.spec.h -- backmp11 state_visitor.hpp: active traversal (state_visitor_impl<AllStates=false>::visit,
   event_deferral_visitor::visit), accept (recursive / non-recursive), the predefined visitor functors, and
   state_machine_base::is_state_active / is_flag_active  (C03 introspection agreement, C17 flags, C05 deferral traversal).
   The traversal list (states_to_traverse, a compile-time filtered subset of the state set) has g_m elements; the element that
   is region r's active state sits at ghost position g_wit[r] (or outside 0..g_m-1 if filtered out)
   [A: ids of distinct states are distinct, so at most one list element matches an active id].                        */
extern const int nr_regions, g_m, g_k;
extern const int g_wit[NR_CAP];
extern int g_acc[NR_CAP];                 /* ledger: accept() called for region r's active state */
extern int g_cur_region;
#define mp_size(L) g_m
#define REGIONS_OK (1 <= nr_regions && nr_regions <= NR_CAP && 0 <= g_k && g_k < nr_regions && 0 <= g_m && g_m <= 1000000)
#define IN_LIST(r) (0 <= g_wit[r] && g_wit[r] < g_m)
/* get_state_id<State>() for the State-th element of the traversal list */
int sid_of(fsm_t* sm, type_t State)
__CPROVER_requires(0 <= State && State < g_m && 0 <= g_cur_region && g_cur_region < nr_regions)
__CPROVER_assigns()
__CPROVER_ensures((__CPROVER_return_value == sm->m_active_state_ids[g_cur_region]) == (State == g_wit[g_cur_region]))
;
void accept_state(type_t State, fsm_t* sm)
__CPROVER_requires(0 <= g_cur_region && g_cur_region < nr_regions && State == g_wit[g_cur_region])   /*@ob C03,C17,C07.visit-reports-exactly-the-active-state-of-each-region */
__CPROVER_requires(g_acc[g_cur_region] == 0)                                                         /*@ob C03.every-active-state-visited-at-most-once */
__CPROVER_requires(sm->m_running)                                                                    /*@ob C03,C07,C17.nothing-visited-while-the-machine-is-not-running */
__CPROVER_assigns(g_acc[g_cur_region])
__CPROVER_ensures(g_acc[g_cur_region] == 1)
;
#define ZF(j, r) ((size_t)(j) < (size_t)(r) || g_acc[j] == 0)
#define ZERO_FROM(r) (ZF(0,r) && ZF(1,r) && ZF(2,r) && ZF(3,r) && ZF(4,r) && ZF(5,r) && ZF(6,r) && ZF(7,r))     /* NR_CAP == 8 */
#define NEXT_REGION(r) (g_cur_region = (int)(r))        /* ghost step at the head of the region loop */
extern const _Bool g_needs_traversal;
#ifndef NEEDS_TRAVERSAL
#define NEEDS_TRAVERSAL g_needs_traversal
#endif
#ifndef IN_VISIT
#define IN_VISIT g_in_states_to_visit
#endif
void visit_active(fsm_t* sm)
__CPROVER_requires(REGIONS_OK && __CPROVER_is_fresh(sm, sizeof(*sm)))
__CPROVER_requires(g_acc[0] == 0 && g_acc[1] == 0 && g_acc[2] == 0 && g_acc[3] == 0 && g_acc[4] == 0 && g_acc[5] == 0 && g_acc[6] == 0 && g_acc[7] == 0)
__CPROVER_requires(NEEDS_TRAVERSAL || !IN_LIST(g_k))             /* needs_traversal == list not empty */
__CPROVER_assigns(__CPROVER_object_whole(g_acc), g_cur_region)                                                               /*@ob C03.introspection-changes-nothing */
__CPROVER_ensures(g_acc[g_k] == ((sm->m_running && IN_LIST(g_k)) ? 1 : 0))                                                   /*@ob C03,C17,C05.every-regions-active-state-visited-exactly-once-iff-running */
;
/* accept<Mode,State>: visitor called iff State is in states_to_visit; recursion iff it is a submachine to traverse */
extern const _Bool g_in_states_to_visit, g_in_submachines_to_traverse; extern int g_vcalls, g_recursed;
#define mp_contains(L, S) ((L) == LIST_VISIT ? IN_VISIT : g_in_submachines_to_traverse)
enum { LIST_VISIT = 1, LIST_SUBS = 2 };
void visitor_call(stref_t state)
__CPROVER_requires(IN_VISIT && g_vcalls == 0)                        /*@ob C03.visitor-called-only-for-states-selected-by-the-predicate-once */
__CPROVER_assigns(g_vcalls)
__CPROVER_ensures(g_vcalls == 1)
;
void submachine_visit_if(stref_t state)
__CPROVER_requires(g_in_submachines_to_traverse && g_recursed == 0)              /*@ob C03,C17.active-submachines-are-traversed-recursively-once */
__CPROVER_assigns(g_recursed)
__CPROVER_ensures(g_recursed == 1)
;
stref_t __CPROVER_uninterpreted_get_state(type_t);
void accept_unit(fsm_t* sm, type_t State)
__CPROVER_requires(g_vcalls == 0 && g_recursed == 0)
__CPROVER_assigns(g_vcalls, g_recursed)
__CPROVER_ensures(g_vcalls == (IN_VISIT ? 1 : 0))                                       /*@ob C03.visitor-called-iff-the-state-is-selected */
__CPROVER_ensures(RECURSIVE ? g_recursed == (g_in_submachines_to_traverse ? 1 : 0) : g_recursed == 0)   /*@ob C03,C17.recursion-iff-recursive-mode-and-submachine */
;
#ifndef RECURSIVE
#define RECURSIVE 1
#endif
/* predefined visitor functors */
typedef struct { _Bool m_result; } bvis_t;
void bool_visitor_call(bvis_t* self)
__CPROVER_requires(__CPROVER_is_fresh(self, sizeof(*self)))
__CPROVER_assigns(self->m_result)
__CPROVER_ensures(self->m_result == VIS_SETS)                                                        /*@ob C17,C03.visitor-records-the-match */
;
#ifndef VIS_SETS
#define VIS_SETS 1
#endif
/* state_machine_base::is_state_active<State>() / is_flag_active<Flag,BinaryOp>() */
extern const _Bool g_visit_hit;        /* the traversal called the visitor at least once (visit_if units above) */
void visit_if_stub(fsm_t* self, bvis_t* visitor)
__CPROVER_assigns(visitor->m_result)
__CPROVER_ensures(g_visit_hit ? (visitor->m_result == VIS_SETS) : (visitor->m_result == __CPROVER_old(visitor->m_result)))
;
_Bool query_active(fsm_t* self)
__CPROVER_requires(__CPROVER_is_fresh(self, sizeof(*self)))
__CPROVER_assigns()                                                                                  /*@ob C17,C03.queries-change-nothing */
__CPROVER_ensures((__CPROVER_return_value != 0) == (VIS_SETS ? (g_visit_hit != 0) : (g_visit_hit == 0)))                 /*@ob C17,C03.result-is-a-function-of-the-active-configuration */
;

/* ---- get_active_state_ids (C03): exposes exactly the per-region active ids, assigns nothing ---- */
const uint16_t* get_active_state_ids(const fsm_t* self)
__CPROVER_requires(__CPROVER_is_fresh(self, sizeof(*self)))
__CPROVER_assigns()                                                                                        /*@ob C03.introspection-assigns-nothing */
__CPROVER_ensures(__CPROVER_return_value == self->m_active_state_ids)                                      /*@ob C03,C19.get_active_state_ids-is-the-active-configuration */
;

/* ---- all-states traversal (state_visitor_impl<..., AllStates=true>::visit): every state of states_to_traverse accepted once, list order ---- */
#if UNIT_VISIT_ALL
extern int g_all_next;
void accept_all(type_t State, fsm_t* sm)
__CPROVER_requires(State == g_all_next && 0 <= g_all_next && g_all_next < g_m)   /*@ob C03.all-states-visitor-accepts-every-state-once-in-list-order */
__CPROVER_assigns(g_all_next)
__CPROVER_ensures(g_all_next == __CPROVER_old(g_all_next) + 1)
;
void visit_all(fsm_t* sm)
__CPROVER_requires(__CPROVER_is_fresh(sm, sizeof(*sm)) && 0 <= g_m && g_m <= 1000000 && g_all_next == 0 && (NEEDS_TRAVERSAL || g_m == 0))
__CPROVER_assigns(g_all_next)
__CPROVER_ensures(g_all_next == g_m)                                                                       /*@ob C03.all-states-visitor-accepts-every-state-once-in-list-order */
;
#endif
/* ---- init_state_visitor::operator() (run once at construction of the root): every submachine gets the ROOT machine as its root
   (C15: a copied / moved machine keeps its own; C07: exit points forward to the root) ---- */
#if UNIT_INIT_VISITOR
extern fsm_t* const g_root; extern const _Bool g_is_exit_pseudo, g_is_submachine; extern int g_inits, g_rootset;
void exit_state_init(stref_t state)                     /* state.template init<RootSm>() */
__CPROVER_requires(g_is_exit_pseudo && g_inits == 0)                              /*@ob C09.exit-pseudo-states-are-initialised-once-for-the-root */
__CPROVER_assigns(g_inits)
__CPROVER_ensures(g_inits == 1)
;
void set_root_of(stref_t state, fsm_t* root)            /* *state.m_root_sm = &m_root_sm */
__CPROVER_requires(g_is_submachine && root == g_root && g_rootset == 0)          /*@ob C07,C15.every-submachine-gets-the-root-machine-as-its-root */
__CPROVER_assigns(g_rootset)
__CPROVER_ensures(g_rootset == 1)
;
typedef struct { fsm_t* m_root_sm; } initvis_t;
void init_visitor_call(initvis_t* self, stref_t state)
__CPROVER_requires(__CPROVER_is_fresh(self, sizeof(*self)) && self->m_root_sm == g_root && g_inits == 0 && g_rootset == 0)
__CPROVER_assigns(g_inits, g_rootset)
__CPROVER_ensures(g_inits == (g_is_exit_pseudo ? 1 : 0) && g_rootset == (g_is_submachine ? 1 : 0))        /*@ob C07,C15.every-submachine-gets-the-root-machine-as-its-root */
;
#endif
