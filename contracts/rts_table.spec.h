/* rts_table.spec.h -- back / back11, default compile policy (favor_runtime_speed): dispatch_table<Fsm,Stt,Event>::dispatch_table(), the
   RUN-TIME fill of the per-state cell array `entries[]`: first every state's default cell (defer_transition / call_no_transition / the
   internal no-transition cell of the machine itself), then one (chained) row per source state on top of it.  Obligation (C01 C05): the cell
   of a state is the (chained) row whose source it is, if the type-level map has one, else the default that matches the state's kind - in
   particular the rows are written AFTER the defaults.  [A, type level: chained_rows has at most one entry per source state - the chain
   itself is the chain_row unit; generate_state_set lists every state once.]  Witness cell g_c, its state g_s, its row g_i (if g_has_row). */
#ifndef CAP
#define CAP 64
#endif
extern const int g_nt, g_ns;
extern const _Bool g_not_real[CAP], g_is_base[CAP], g_is_kleene[CAP], g_src_is_fsm[CAP]; extern const int g_src_id[CAP];
extern const _Bool g_deferred[CAP], g_state_is_fsm[CAP]; extern const int g_state_id[CAP];
extern const _Bool g_has_row, g_is_completion_event; extern const int g_c, g_i, g_s;
enum { FN_NT = -1, FN_DEFER = -2, FN_EVENTLESS = -3, FN_NT_INTERNAL = -4 };
#define ROW(t) (t)                       /* the cell is the row's execute itself: the event object reaches the row by reference */
#define ROW_CONVERTING(t) ((t) + 2 * CAP)  /* the cell is convert_event_and_forward<Transition>::execute: the row gets a NEW object of its trigger type built from the event */
/* what the cell of row t must be: only a Kleene trigger (boost::any ...) needs the conversion; a row whose trigger is the event's type or a base
   class of it must get the event object itself - a converted copy would be sliced to the base class (C18 payload integrity) */
#define CELLV(t) (g_is_kleene[t] ? ROW_CONVERTING(t) : ROW(t))
#define CELL_OF_ROW(t) (g_src_is_fsm[t] ? 0 : g_src_id[t] + 1)
#define CELL_OF_STATE(s) (g_state_is_fsm[s] ? 0 : g_state_id[s] + 1)
#define DEFAULT_OF(s) (g_is_completion_event ? FN_EVENTLESS : g_deferred[s] ? FN_DEFER : g_state_is_fsm[s] ? FN_NT_INTERNAL : FN_NT)
#define ONLY_STATE(s) (!((s) < g_ns && (s) != g_s) || CELL_OF_STATE(s) != g_c)
#define ONLY_ROW(t) (!((t) < g_nt && !g_not_real[t] && (!g_has_row || (t) != g_i)) || CELL_OF_ROW(t) != g_c)
#define TABLE_PRE \
  __CPROVER_requires(__CPROVER_is_fresh(entries, sizeof(int) * (CAP + 1)) && 0 <= g_nt && g_nt <= CAP && 1 <= g_ns && g_ns <= CAP) \
  __CPROVER_requires(__CPROVER_forall { int t; (0 <= t && t < CAP) ==> (0 <= g_src_id[t] && g_src_id[t] < CAP && 0 <= g_state_id[t] && g_state_id[t] < CAP) }) \
  __CPROVER_requires(0 <= g_s && g_s < g_ns && CELL_OF_STATE(g_s) == g_c) \
  __CPROVER_requires(g_has_row ==> (0 <= g_i && g_i < g_nt && !g_not_real[g_i] && CELL_OF_ROW(g_i) == g_c)) \
  __CPROVER_requires(__CPROVER_forall { int s; (0 <= s && s < CAP) ==> ONLY_STATE(s) }) \
  __CPROVER_requires(__CPROVER_forall { int u; (0 <= u && u < CAP) ==> ONLY_ROW(u) }) \
  __CPROVER_requires(__CPROVER_forall { int v; (0 <= v && v < CAP) ==> (!g_state_is_fsm[v] || !g_deferred[v]) })
/* ids index the array [A: compile time, max_state]; the machine itself defers nothing [A] */
extern int g_phase;
/* phase 1: mpl::for_each<state set>(default_init_cell<Event>(this, entries)) */
void default_cells(int* entries)
#if UNIT_DEFAULTS
TABLE_PRE
#endif
__CPROVER_requires(g_phase == 0)                                                                          /*@ob C01.default-cells-are-written-first */
__CPROVER_assigns(__CPROVER_object_whole(entries), g_phase)
__CPROVER_ensures(g_phase == 1 && entries[g_c] == DEFAULT_OF(g_s))                                         /*@ob C01,C05.state-gets-the-default-that-matches-its-kind */
;
/* phase 2: mpl::for_each<chained_rows>(init_cell(this)) */
void row_cells(int* entries)
#if UNIT_ROWS
TABLE_PRE
#endif
__CPROVER_requires(g_phase == 1)                                                                          /*@ob C01.rows-are-written-over-the-defaults-not-under-them */
__CPROVER_assigns(__CPROVER_object_whole(entries), g_phase)
__CPROVER_ensures(g_phase == 2 && entries[g_c] == (g_has_row ? CELLV(g_i) : __CPROVER_old(entries[g_c])))   /*@ob C01.cell-of-a-state-is-the-chained-row-of-that-source-state */
__CPROVER_ensures(g_has_row ==> entries[g_c] == CELLV(g_i))                                                /*@ob C18,C13.only-a-kleene-row-goes-through-the-converting-wrapper-other-rows-get-the-event-object-itself */
;
#if UNIT_CTOR
void build_entries(int* entries)
TABLE_PRE
__CPROVER_requires(g_phase == 0)
__CPROVER_assigns(__CPROVER_object_whole(entries), g_phase)
__CPROVER_ensures(g_has_row ==> entries[g_c] == CELLV(g_i))                                                /*@ob C01,C18.cell-of-a-state-is-the-chained-row-of-that-source-state */
__CPROVER_ensures(!g_has_row ==> entries[g_c] == DEFAULT_OF(g_s))                                          /*@ob C01,C05.state-without-a-row-gets-the-default-that-matches-its-kind */
;
#endif
