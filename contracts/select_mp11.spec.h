/* select_mp11.spec.h -- backmp11 side of select.spec.h: the SAME obligations (labels) with backmp11 signatures.
   transition_chain::execute / internal_transition_chain::execute (mp_for_each_until), favor_compile_time chains (range-for),
   do_process_event (region loop + sm-internal table + no_transition), forward_transition::execute.                         */
stref_t __CPROVER_uninterpreted_get_state(type_t);
int __CPROVER_uninterpreted_get_state_id_mp11(type_t);
#define get_state_id_mp11 __CPROVER_uninterpreted_get_state_id_mp11
extern const int g_n;                 /* chain length, unbounded (symbolic) */
extern const _Bool g_first_is_frow;
extern int   g_chain_pos;
extern _Bool g_consumed;
extern int   g_taken;
extern int   g_rejects;
#define CONSUMED(r) ((((int)(r)) & (HANDLED_TRUE|HANDLED_DEFERRED)) != 0)
#define handled_true_or_deferred ((process_result)(HANDLED_TRUE|HANDLED_DEFERRED))   /* common_types.hpp:104 (checked by must_contain) */
#define mp_size(L) g_n
typedef int generic_cell;

/* one candidate (Transition::execute(sm, region_id, evt) / Transition::execute(sm, evt) / a cell of the compile-time chain) */
process_result row_execute(type_t row, fsm_t* sm, uint8_t region_id, event_t evt)
__CPROVER_requires(row == g_chain_pos && 0 <= row && row < g_n)                 /*@ob C01,C02.candidates-tried-in-priority-order-each-once */
__CPROVER_requires(!g_consumed)                                                  /*@ob C01,C07.no-candidate-after-consumption */
__CPROVER_requires(g_taken < 1000000 && g_rejects <= 1000000)
__CPROVER_assigns(g_chain_pos, g_consumed, g_taken, g_rejects)
__CPROVER_ensures(g_chain_pos == __CPROVER_old(g_chain_pos)+1)
__CPROVER_ensures(0 <= (int)__CPROVER_return_value && (int)__CPROVER_return_value <= 7)
__CPROVER_ensures((row==0 && g_first_is_frow) || __CPROVER_return_value==HANDLED_FALSE || __CPROVER_return_value==HANDLED_TRUE || __CPROVER_return_value==HANDLED_GUARD_REJECT || __CPROVER_return_value==HANDLED_DEFERRED)
__CPROVER_ensures(g_consumed == CONSUMED(__CPROVER_return_value))
__CPROVER_ensures(g_taken == __CPROVER_old(g_taken) + ((((int)__CPROVER_return_value) & HANDLED_TRUE) != 0))
__CPROVER_ensures(g_rejects == __CPROVER_old(g_rejects) + (!CONSUMED(__CPROVER_return_value) && (((int)__CPROVER_return_value) & HANDLED_GUARD_REJECT) != 0))
;
#define internal_row_execute(row, sm, evt) row_execute(row, sm, 0, evt)

/* the postcondition block is the one of select.spec.h chain_entry, verbatim */
process_result chain_entry(fsm_t* sm, uint8_t region_id, event_t evt)
__CPROVER_requires(0 <= g_n && g_n <= 1000000 && g_chain_pos == 0 && !g_consumed && g_taken == 0 && g_rejects == 0)
__CPROVER_assigns(g_chain_pos, g_consumed, g_taken, g_rejects)
__CPROVER_ensures(g_consumed == CONSUMED(__CPROVER_return_value))                                                          /*@ob C01,C06,C07.result-says-consumed-iff-consumed */
__CPROVER_ensures(((((int)__CPROVER_return_value) & HANDLED_TRUE) != 0) == (g_taken > __CPROVER_old(g_taken)))            /*@ob C06,C01.handled-bit-iff-a-transition-was-taken */
__CPROVER_ensures(g_taken <= __CPROVER_old(g_taken)+1)                                                                     /*@ob C01,C02.at-most-one-candidate-taken */
__CPROVER_ensures(g_taken >= __CPROVER_old(g_taken) && g_rejects >= __CPROVER_old(g_rejects) && g_chain_pos >= __CPROVER_old(g_chain_pos) && g_chain_pos <= g_n)
__CPROVER_ensures(!g_consumed ==> g_chain_pos == g_n)                                                                      /*@ob C01.all-candidates-tried-if-none-consumed */
__CPROVER_ensures(!g_consumed ==> (__CPROVER_return_value == ((g_rejects > __CPROVER_old(g_rejects)) ? HANDLED_GUARD_REJECT : HANDLED_FALSE)))  /*@ob C06.reject-reported-iff-some-guard-rejected */
__CPROVER_ensures(0 <= (int)__CPROVER_return_value && (int)__CPROVER_return_value <= 7)
;
/* favor_compile_time::transition_chain::execute(sm, region_id, event, result): `result` is the accumulated value of the
   preceding base-event chains (HANDLED_FALSE or HANDLED_GUARD_REJECT); same postcondition block */
process_result chain_entry_acc(fsm_t* sm, uint8_t region_id, event_t evt, process_result result)
__CPROVER_requires(0 <= g_n && g_n <= 1000000 && g_chain_pos == 0 && !g_consumed && g_taken == 0 && (result == HANDLED_FALSE || result == HANDLED_GUARD_REJECT) && g_rejects == (result == HANDLED_GUARD_REJECT))
__CPROVER_assigns(g_chain_pos, g_consumed, g_taken, g_rejects)
__CPROVER_ensures(g_consumed == CONSUMED(__CPROVER_return_value))                                                          /*@ob C01,C06,C07.result-says-consumed-iff-consumed */
__CPROVER_ensures(((((int)__CPROVER_return_value) & HANDLED_TRUE) != 0) == (g_taken > __CPROVER_old(g_taken)))            /*@ob C06,C01.handled-bit-iff-a-transition-was-taken */
__CPROVER_ensures(g_taken <= __CPROVER_old(g_taken)+1)                                                                     /*@ob C01,C02.at-most-one-candidate-taken */
__CPROVER_ensures(g_taken >= __CPROVER_old(g_taken) && g_rejects >= __CPROVER_old(g_rejects) && g_chain_pos >= __CPROVER_old(g_chain_pos) && g_chain_pos <= g_n)
__CPROVER_ensures(!g_consumed ==> g_chain_pos == g_n)                                                                      /*@ob C01.all-candidates-tried-if-none-consumed */
__CPROVER_ensures(!g_consumed ==> (__CPROVER_return_value == ((g_rejects > 0) ? HANDLED_GUARD_REJECT : HANDLED_FALSE)))   /*@ob C06.reject-reported-iff-some-guard-rejected */
__CPROVER_ensures(0 <= (int)__CPROVER_return_value && (int)__CPROVER_return_value <= 7)
;

/* ---------------- region loop (do_process_event) */
extern const int nr_regions;
extern int   g_region_next, g_acc, g_ntaken, g_nt_next;
extern int   g_internal_tried;     /* int, not _Bool: a havocked _Bool may hold a non-canonical byte in CBMC */
extern int g_acc_regions;   /* ghost: value of g_acc when the region loop finished (set by rewrite GHOST-regions-done) */
#define ACC_INV ((g_internal_tried == 0 || g_internal_tried == 1) && 0 <= g_region_next && g_region_next <= NR_CAP && 0 <= g_acc && g_acc <= 7 && 0 <= g_ntaken && g_ntaken <= g_region_next + g_internal_tried && (((g_acc & HANDLED_TRUE) != 0) == (g_ntaken > 0)))
enum { process_info_direct_call = 0, process_info_submachine_call = 1, process_info_event_pool = 2 };
typedef int process_info;

process_result dispatch_table_dispatch(fsm_t* sm, size_t region_id, event_t event)
__CPROVER_requires(region_id == g_region_next && region_id < nr_regions)                     /*@ob C06,C01.every-region-once-in-declaration-order */
__CPROVER_requires(ACC_INV)
__CPROVER_assigns(g_region_next, g_acc, g_ntaken, sm->m_active_state_ids[region_id])
__CPROVER_ensures(g_region_next == __CPROVER_old(g_region_next)+1)
__CPROVER_ensures(0 <= (int)__CPROVER_return_value && (int)__CPROVER_return_value <= 7)
__CPROVER_ensures(g_acc == (__CPROVER_old(g_acc) | (int)__CPROVER_return_value))
__CPROVER_ensures(g_ntaken == __CPROVER_old(g_ntaken) + ((((int)__CPROVER_return_value) & HANDLED_TRUE) != 0))
;
process_result dispatch_table_internal_dispatch(fsm_t* sm, event_t event)
__CPROVER_requires(g_region_next == nr_regions)                                              /*@ob C01.sm-internal-table-after-all-regions */
__CPROVER_requires(!CONSUMED(g_acc))                                                         /*@ob C01,C07.sm-internal-table-only-if-not-consumed */
__CPROVER_requires(!g_internal_tried && ACC_INV)
__CPROVER_assigns(g_internal_tried, g_acc, g_ntaken)
__CPROVER_ensures(g_internal_tried == 1)
__CPROVER_ensures(0 <= (int)__CPROVER_return_value && (int)__CPROVER_return_value <= 7)
__CPROVER_ensures(g_acc == (__CPROVER_old(g_acc) | (int)__CPROVER_return_value))
__CPROVER_ensures(g_ntaken == __CPROVER_old(g_ntaken) + ((((int)__CPROVER_return_value) & HANDLED_TRUE) != 0))
;
void no_transition(fsm_t* self, event_t evt, fsm_t* fsm, uint16_t state)
__CPROVER_requires(g_acc == 0)                                                                       /*@ob C06,C05.no-transition-only-if-nothing-reacted */
__CPROVER_requires(0 <= g_nt_next && g_nt_next < nr_regions && state == self->m_active_state_ids[g_nt_next])   /*@ob C06.no-transition-once-per-region-with-its-active-state */
__CPROVER_requires(self == fsm)
__CPROVER_assigns(g_nt_next, g_exc)
__CPROVER_ensures(g_nt_next == __CPROVER_old(g_nt_next)+1)
;
process_result do_process_event(fsm_t* self, event_t event, process_info info)
__CPROVER_requires(__CPROVER_is_fresh(self, sizeof(*self)) && 1 <= nr_regions && nr_regions <= NR_CAP)
__CPROVER_requires(g_region_next == 0 && g_acc == 0 && !g_internal_tried && g_ntaken == 0 && g_nt_next == 0 && !g_exc)
__CPROVER_assigns(g_region_next, g_acc, g_ntaken, g_internal_tried, g_nt_next, g_exc, g_acc_regions, __CPROVER_object_whole(self->m_active_state_ids))
__CPROVER_ensures(!g_exc ==> g_region_next == nr_regions)                                                        /*@ob C06.every-region-was-offered-the-event */
__CPROVER_ensures(!g_exc ==> (int)__CPROVER_return_value == g_acc)                                               /*@ob C06,C07.result-is-the-or-of-the-regions */
__CPROVER_ensures(!g_exc ==> (((g_acc & HANDLED_TRUE) != 0) == (g_ntaken > 0)))                                  /*@ob C06,C01.handled-bit-iff-a-transition-was-taken */
__CPROVER_ensures(!g_exc ==> (g_internal_tried == !CONSUMED(g_acc_regions)))                                     /*@ob C01.sm-internal-table-tried-when-regions-did-not-consume */
__CPROVER_ensures(!g_exc ==> (g_nt_next == ((g_acc == 0 && info != process_info_submachine_call) ? nr_regions : 0)))   /*@ob C06,C05,C10.no-transition-exactly-when-nothing-reacted */
;

/* ---------------- forwarding to a submachine (C07) */
extern const type_t Submachine;
extern int g_sub_calls, g_sub_ret;
extern const event_t g_evt;
process_result sub_process_event_internal(stref_t sub, event_t evt, process_info info)
__CPROVER_requires(sub == __CPROVER_uninterpreted_get_state(Submachine))          /*@ob C07,C01.forwarded-to-the-active-submachine-of-this-row */
__CPROVER_requires(info == process_info_submachine_call)                          /*@ob C07.forwarded-event-is-not-a-direct-call */
__CPROVER_requires(EV_EQ(evt, g_evt))                                             /*@ob C07,C18.same-event-and-payload-forwarded */
__CPROVER_requires(g_sub_calls == 0)                                              /*@ob C07,C06,C01.submachine-offered-the-event-exactly-once */
__CPROVER_assigns(g_sub_calls, g_sub_ret, g_exc)
__CPROVER_ensures(g_sub_calls == 1 && 0 <= g_sub_ret && g_sub_ret <= 7 && (int)__CPROVER_return_value == g_sub_ret)
;
process_result forward_execute(fsm_t* sm, uint8_t region_id, event_t event)
__CPROVER_requires(__CPROVER_is_fresh(sm, sizeof(*sm)) && region_id < NR_CAP && sm->m_active_state_ids[region_id] == get_state_id_mp11(Submachine))
__CPROVER_requires(g_sub_calls == 0 && !g_exc && EV_EQ(event, g_evt))
__CPROVER_assigns(g_sub_calls, g_sub_ret, g_exc)                                                 /*@ob C07.submachine-remains-the-active-state */
__CPROVER_ensures(g_sub_calls == 1)                                                              /*@ob C07,C06,C01.submachine-offered-the-event-exactly-once */
__CPROVER_ensures(!g_exc ==> (int)__CPROVER_return_value == g_sub_ret)                           /*@ob C07,C06,C01.inner-result-returned-unchanged */
;

/* ---------------- backmp11 favor_compile_time: state_dispatch_table::dispatch (one state's cell) ---------------- */
typedef struct { _Bool m_call_process_event; _Bool has_chain; } sdt_t;      /* function pointer set? ; m_transition_chains.find(event.type()) != end() */
extern int g_sub_calls2, g_sub_ret2, g_chain_calls, g_chain_ret;
process_result call_process_event_fp(const sdt_t* self, fsm_t* sm, event_t event)
__CPROVER_requires(self->m_call_process_event && g_sub_calls2 == 0 && g_chain_calls == 0)       /*@ob C01,C07,C06.active-submachine-offered-the-event-first-and-once */
__CPROVER_requires(EV_EQ(event, g_evt))
__CPROVER_assigns(g_sub_calls2, g_sub_ret2)
__CPROVER_ensures(g_sub_calls2 == 1 && 0 <= g_sub_ret2 && g_sub_ret2 <= 7 && (int)__CPROVER_return_value == g_sub_ret2)
;
process_result chain_execute_acc(const sdt_t* self, fsm_t* sm, uint8_t region_id, event_t event, process_result result)
__CPROVER_requires(self->has_chain && g_chain_calls == 0)
__CPROVER_requires(!CONSUMED(g_sub_calls2 ? g_sub_ret2 : 0))                                      /*@ob C01,C07.no-candidate-after-consumption */
__CPROVER_requires((int)result == (g_sub_calls2 ? g_sub_ret2 : HANDLED_FALSE))                    /*@ob C06,C13.guard-reject-of-the-inner-level-is-carried-into-the-outer-chain */
__CPROVER_requires(EV_EQ(event, g_evt))
__CPROVER_assigns(g_chain_calls, g_chain_ret)
__CPROVER_ensures(g_chain_calls == 1 && 0 <= g_chain_ret && g_chain_ret <= 7 && (int)__CPROVER_return_value == g_chain_ret)
;
process_result state_dispatch(const sdt_t* self, fsm_t* sm, uint8_t region_id, event_t event)
__CPROVER_requires(__CPROVER_is_fresh(self, sizeof(*self)) && g_sub_calls2 == 0 && g_chain_calls == 0 && EV_EQ(event, g_evt))
__CPROVER_assigns(g_sub_calls2, g_sub_ret2, g_chain_calls, g_chain_ret)
__CPROVER_ensures(g_sub_calls2 == (self->m_call_process_event ? 1 : 0))                                                          /*@ob C07,C01,C06.active-submachine-offered-the-event-first-and-once */
__CPROVER_ensures(g_chain_calls == ((self->has_chain && !(g_sub_calls2 && CONSUMED(g_sub_ret2))) ? 1 : 0))                       /*@ob C01,C07.outer-chain-tried-iff-the-inner-level-did-not-consume */
__CPROVER_ensures((int)__CPROVER_return_value == (g_chain_calls ? g_chain_ret : g_sub_calls2 ? g_sub_ret2 : HANDLED_FALSE))      /*@ob C06,C13.result-of-the-level-that-decided */
;
