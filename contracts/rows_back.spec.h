/* rows_back.spec.h -- contracts for the transition rows of back / back11
   (row_, g_row_, a_row_, _row_, irow_, g_irow_, a_irow_, _irow_, internal_ ...)
   Properties: C02 (order guard->exit->action->entry, internal rows touch nothing),
               C19 (which state id a behaviour observes, per switch policy),
               C09 (a row whose source is an exit point fires only while that exit point is active),
               C03 (entry/exit ledger agrees with m_states), C12 (exceptional postcondition).
   Selected with -DHAS_GUARD=0/1 -DHAS_ACTION=0/1 -DROW_INTERNAL=0/1.
   The top-level postconditions are typed from the property statements, not from the code. */

extern const type_t stt, current_state_type, next_state_type, T1, T2, library_sm, ROW, StateType;
extern const int policy;                 /* 0 after_entry(default) 1 before_transition 2 after_exit 3 after_transition_action */
extern const _Bool g_exit_active;        /* "the exit pseudo state T1 is the active state of its region in the owner" */
extern int  g_region;                    /* the region this row works on */
extern int  g_act[NSTATE_CAP];           /* ledger: state id is active (entered and not exited) */
extern int  g_guard_calls;
extern const int g_cur, g_nxt;            /* ghost copies of CUR / NXT (no calls allowed in assigns targets) */

int   __CPROVER_uninterpreted_get_state_id(type_t, type_t);
_Bool __CPROVER_uninterpreted_has_pseudo_exit(type_t);
type_t __CPROVER_uninterpreted_get_owner(type_t, type_t);
stref_t __CPROVER_uninterpreted_at_key(type_t, slist_t);
#define get_state_id     __CPROVER_uninterpreted_get_state_id
#define has_pseudo_exit  __CPROVER_uninterpreted_has_pseudo_exit
#define get_owner        __CPROVER_uninterpreted_get_owner
#define at_key           __CPROVER_uninterpreted_at_key

#define CUR get_state_id(stt,current_state_type)
#define NXT get_state_id(stt,next_state_type)

/* ---- C19 oracle, typed in from the property statement ------------------------------------
   policy                     guard  exit  action  entry  afterwards
   after_entry (0, default)     S     S      S       S       T
   after_transition_action (3)  S     S      S       T       T
   after_exit (2)               S     S      T       T       T
   before_transition (1)        S     T      T       T       T                                   */
#define ORACLE_GUARD   (CUR)
#define ORACLE_EXIT    ((policy==1) ? NXT : CUR)
#define ORACLE_ACTION  ((policy==1 || policy==2) ? NXT : CUR)
#define ORACLE_ENTRY   ((policy==0) ? CUR : NXT)
/* which behaviour was running when g_phase==p and an exception is in flight (rows without guard/action skip phases) */
#define ORACLE_AT_PHASE(p) ((p)==0 ? (HAS_GUARD ? ORACLE_GUARD : ORACLE_EXIT) : (p)==1 ? ORACLE_EXIT : (p)==2 ? (HAS_ACTION ? ORACLE_ACTION : ORACLE_ENTRY) : ORACLE_ENTRY)

/* the four policy structs are extracted from active_state_switching_policies.hpp as
   pol<k>_after_<phase>() (aux functions, generated); this glue only selects by the symbolic policy */
static int pol0_after_guard(int,int); static int pol0_after_exit(int,int); static int pol0_after_action(int,int); static int pol0_after_entry(int,int);
static int pol1_after_guard(int,int); static int pol1_after_exit(int,int); static int pol1_after_action(int,int); static int pol1_after_entry(int,int);
static int pol2_after_guard(int,int); static int pol2_after_exit(int,int); static int pol2_after_action(int,int); static int pol2_after_entry(int,int);
static int pol3_after_guard(int,int); static int pol3_after_exit(int,int); static int pol3_after_action(int,int); static int pol3_after_entry(int,int);
#ifndef ROW_INTERNAL
#define ROW_INTERNAL 0
#endif
#ifndef ROW_SM_INTERNAL
#define ROW_SM_INTERNAL 0
#endif
#define POLSEL(f) static int active_state_switching_##f(int c,int n){ return policy==0? pol0_##f(c,n) : policy==1? pol1_##f(c,n) : policy==2? pol2_##f(c,n) : pol3_##f(c,n); }
#if !ROW_INTERNAL
POLSEL(after_guard) POLSEL(after_exit) POLSEL(after_action) POLSEL(after_entry)
#endif

#ifndef HAS_GUARD
#define HAS_GUARD 1
#endif
#ifndef HAS_ACTION
#define HAS_ACTION 1
#endif
#ifndef ROW_INTERNAL
#define ROW_INTERNAL 0
#endif
#define PH_BEFORE_EXIT   (HAS_GUARD ? 1 : 0)
#define PH_BEFORE_ENTRY  (HAS_ACTION ? 3 : 2)

#if ROW_SM_INTERNAL
#define SREF fsm_t*      /* sm-internal rows pass the machine itself as source and target state */
#else
#define SREF stref_t
#endif

/* ---- callee contracts (behaviours are nondeterministic; any of them may throw) ---------- */

_Bool is_exit_state_active(type_t t1, type_t owner, fsm_t* fsm)
__CPROVER_requires(g_phase==0 && !g_exc)
__CPROVER_assigns()
__CPROVER_ensures(__CPROVER_return_value==g_exit_active)
;

/* ROW::guard_call -- the user's guard */
_Bool ROW_guard_call(type_t row, fsm_t* fsm, event_t evt, SREF src, SREF tgt, slist_t all)
__CPROVER_requires(g_phase==0 && !g_exc)                                          /*@ob C02,C01.guard-first-and-once */
__CPROVER_requires(ROW_INTERNAL || fsm->m_states[g_region]==ORACLE_GUARD)         /*@ob C19,C03.guard-observes-source */
__CPROVER_requires(ROW_INTERNAL || !has_pseudo_exit(T1) || g_exit_active)         /*@ob C09,C01.exit-point-row-only-while-active */
__CPROVER_requires(g_guard_calls < 1000)
__CPROVER_assigns(g_phase, g_exc, g_guard_calls)
__CPROVER_ensures(g_guard_calls==__CPROVER_old(g_guard_calls)+1)
__CPROVER_ensures(g_phase == ((!g_exc && __CPROVER_return_value) ? 1 : 0))
;

/* check_guard(): sibling static member of the row; its own unit proves it against this contract */
_Bool check_guard(fsm_t* fsm, event_t evt)
__CPROVER_requires(__CPROVER_is_fresh(fsm,sizeof(*fsm)) && (ROW_INTERNAL || (0<=g_region && g_region<NR_CAP && 0<=policy && policy<=3)))
__CPROVER_requires(g_phase==0 && !g_exc)                                          /*@ob C02,C01.guard-first-and-once */
__CPROVER_requires(ROW_INTERNAL || fsm->m_states[g_region]==ORACLE_GUARD)         /*@ob C19,C03.guard-observes-source */
__CPROVER_requires(ROW_INTERNAL || !has_pseudo_exit(T1) || g_exit_active)         /*@ob C09,C01.exit-point-row-only-while-active */
__CPROVER_requires(g_guard_calls < 1000)
__CPROVER_assigns(g_phase, g_exc, g_guard_calls)
__CPROVER_ensures(g_guard_calls==__CPROVER_old(g_guard_calls)+1)                  /*@ob C01,C02.guard-evaluated-exactly-once-per-row */
__CPROVER_ensures(g_phase == ((!g_exc && __CPROVER_return_value) ? 1 : 0))
;

void execute_exit(type_t st, stref_t s, event_t evt, fsm_t* fsm)
__CPROVER_requires(g_phase==PH_BEFORE_EXIT && !g_exc)                             /*@ob C02,C19.exit-after-guard-before-action */
__CPROVER_requires(st==current_state_type)                                        /*@ob C02,C03.exit-of-the-source-state */
__CPROVER_requires(fsm->m_states[g_region]==ORACLE_EXIT)                          /*@ob C19,C03.exit-observes-policy-state */
__CPROVER_requires(g_act[g_cur]==1)                                                 /*@ob C03,C02.exit-only-of-an-active-state */
__CPROVER_assigns(g_phase, g_exc, g_act[g_cur])
__CPROVER_ensures(g_exc || (g_phase==2 && g_act[g_cur]==0))
__CPROVER_ensures(!g_exc || (g_phase==__CPROVER_old(g_phase)))
;

HandledEnum ROW_action_call(type_t row, fsm_t* fsm, event_t evt, SREF src, SREF tgt, slist_t all)
__CPROVER_requires(!g_exc)
__CPROVER_requires(ROW_INTERNAL ? (g_phase==(HAS_GUARD?1:0)) : g_phase==2)        /*@ob C02,C19.action-after-exit-before-entry */
__CPROVER_requires(ROW_INTERNAL || fsm->m_states[g_region]==ORACLE_ACTION)        /*@ob C19,C03.action-observes-policy-state */
__CPROVER_assigns(g_phase, g_exc)
__CPROVER_ensures(g_exc || g_phase==3)
__CPROVER_ensures(!g_exc || g_phase==__CPROVER_old(g_phase))
__CPROVER_ensures(__CPROVER_return_value==HANDLED_TRUE || __CPROVER_return_value==HANDLED_DEFERRED)
;

void convert_event_and_execute_entry(type_t st, type_t tgt, stref_t s, event_t evt, fsm_t* fsm)
__CPROVER_requires(g_phase==PH_BEFORE_ENTRY && !g_exc)                            /*@ob C02,C19.entry-last */
__CPROVER_requires(st==next_state_type)                                           /*@ob C02,C03.entry-of-the-target-state */
__CPROVER_requires(tgt==T2)                                                       /*@ob C09,C02,C08.entry-is-told-the-declared-target-type-so-explicit-fork-and-entry-point-targets-are-honoured */
__CPROVER_requires(fsm->m_states[g_region]==ORACLE_ENTRY)                         /*@ob C19,C03.entry-observes-policy-state */
__CPROVER_requires(g_act[g_nxt]==0)                                                 /*@ob C03,C02.entry-only-of-an-inactive-state */
__CPROVER_assigns(g_phase, g_exc, g_act[g_nxt])
__CPROVER_ensures(g_exc || (g_phase==4 && g_act[g_nxt]==1))
__CPROVER_ensures(!g_exc || g_phase==__CPROVER_old(g_phase))
;

/* a row that entered its target with execute_entry directly would hand the plain event to a target that may be an explicit entry, a fork or
   an entry point of a submachine (these need the direct_entry_event wrapper built by convert_event_and_execute_entry<Target, T2>) */
void execute_entry(type_t st, stref_t s, event_t evt, fsm_t* fsm)
__CPROVER_requires(0)                                                             /*@ob C09,C02,C08.entry-is-told-the-declared-target-type-so-explicit-fork-and-entry-point-targets-are-honoured */
__CPROVER_assigns()
;

/* ---- the units ------------------------------------------------------------------------- */

#define ROW_PRE \
__CPROVER_requires(__CPROVER_is_fresh(fsm,sizeof(*fsm)) && 0<=policy && policy<=3) \
__CPROVER_requires(0<=region_index && region_index<NR_CAP && g_region==region_index) \
__CPROVER_requires(0<=CUR && CUR<NSTATE_CAP && 0<=NXT && NXT<NSTATE_CAP && g_cur==CUR && g_nxt==NXT) \
__CPROVER_requires(g_phase==0 && !g_exc && g_guard_calls==0)

/* external row (row_, g_row_, a_row_, _row_) */
HandledEnum row_execute(fsm_t* fsm, int region_index, int state, event_t evt)
ROW_PRE
__CPROVER_requires(fsm->m_states[region_index]==CUR && state==CUR)       /* WF: the cell of the active state is the one dispatched (C06 unit) */
__CPROVER_requires(g_act[g_cur]==1 && (NXT==CUR || g_act[g_nxt]==0))        /* WF ledger (C03) */
__CPROVER_assigns(g_phase, g_exc, g_guard_calls, fsm->m_states[region_index], g_act[g_cur], g_act[g_nxt])
__CPROVER_ensures((has_pseudo_exit(T1) && !g_exit_active) ==> (__CPROVER_return_value==HANDLED_FALSE && g_phase==0 && g_guard_calls==0 && fsm->m_states[region_index]==CUR))  /*@ob C09,C01,C02.exit-point-row-inert-while-inactive */
__CPROVER_ensures((!g_exc && __CPROVER_return_value==HANDLED_GUARD_REJECT) ==> (HAS_GUARD && g_phase==0 && fsm->m_states[region_index]==CUR && g_act[g_cur]==1))               /*@ob C02,C03,C01,C06.rejected-guard-changes-nothing */
__CPROVER_ensures((!g_exc && (__CPROVER_return_value==HANDLED_TRUE || __CPROVER_return_value==HANDLED_DEFERRED)) ==> g_phase==4)                                             /*@ob C02,C03,C06.taken-runs-exit-action-entry */
__CPROVER_ensures((!g_exc && (__CPROVER_return_value==HANDLED_TRUE || __CPROVER_return_value==HANDLED_DEFERRED)) ==> fsm->m_states[region_index]==NXT)                       /*@ob C19,C03,C02.after-transition-target-is-active */
__CPROVER_ensures((!g_exc && (__CPROVER_return_value==HANDLED_TRUE || __CPROVER_return_value==HANDLED_DEFERRED)) ==> (g_act[g_nxt]==1 && (NXT==CUR || g_act[g_cur]==0)))          /*@ob C03,C02.ledger-agrees-with-active-state */
__CPROVER_ensures(!g_exc ==> (__CPROVER_return_value==HANDLED_TRUE || __CPROVER_return_value==HANDLED_DEFERRED || __CPROVER_return_value==HANDLED_GUARD_REJECT || __CPROVER_return_value==HANDLED_FALSE))
__CPROVER_ensures(!g_exc ==> (__CPROVER_return_value==HANDLED_FALSE ==> (has_pseudo_exit(T1) && !g_exit_active)))
__CPROVER_ensures(g_guard_calls <= 1)                                                                                                                                         /*@ob C01,C02.guard-at-most-once */
__CPROVER_ensures(g_exc ==> (g_phase<4 && fsm->m_states[region_index]==ORACLE_AT_PHASE(g_phase)))                                                                            /*@ob C12,C03.throw-leaves-policy-state */
;

/* internal rows (irow_ family, internal_ family): no state change, no exit/entry */
HandledEnum irow_execute(fsm_t* fsm, int region_index, int state, event_t evt)
__CPROVER_requires(__CPROVER_is_fresh(fsm,sizeof(*fsm)))
__CPROVER_requires(g_phase==0 && !g_exc && g_guard_calls==0)
__CPROVER_requires(ROW_SM_INTERNAL || state==CUR)
__CPROVER_assigns(g_phase, g_exc, g_guard_calls)                                                     /*@ob C02,C03.internal-row-frame */
__CPROVER_ensures((!g_exc && __CPROVER_return_value==HANDLED_GUARD_REJECT) ==> (HAS_GUARD && g_phase==0))    /*@ob C02,C03,C01,C06.rejected-guard-changes-nothing */
__CPROVER_ensures((!g_exc && __CPROVER_return_value!=HANDLED_GUARD_REJECT) ==> (g_phase==(HAS_ACTION?3:(HAS_GUARD?1:0)) && (__CPROVER_return_value==HANDLED_TRUE || __CPROVER_return_value==HANDLED_DEFERRED)))  /*@ob C02,C01,C06.internal-row-guard-then-action */
__CPROVER_ensures(g_guard_calls <= 1)                                                                /*@ob C01,C02.guard-at-most-once */
;
