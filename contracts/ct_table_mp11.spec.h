/* ct_table_mp11.spec.h -- backmp11 favor_compile_time: RUN-TIME construction of the dispatch tables (dispatch_table<StateMachine,any_event>
   constructor, state_dispatch_table::add_transition_cell, transition_chain::add_transition_cell).  Obligations (C01 C07): every transition's
   cell goes to the table of its source state and the chain of its trigger type; within a chain the cells keep the order of the (compile-time)
   transition list, which is the order transition_chain::execute tries them in; a composite state's table gets the forwarding call.
   [A: transition_table<StateMachine> lists a state's rows last-declared first - type level, monitored by the `sel` family].
   Positions abstract the vector exactly: emplace_back takes hi++.  Witness chain (g_s, g_e), witness constants g_i < g_j. */
#ifndef CAP
#define CAP 64
#endif
extern const int g_nc, g_nsub, g_nic;                               /* init_cell_constants, submachines, internal constants */
extern const int g_c_state[CAP], g_c_event[CAP], g_sub_state[CAP], g_ic_event[CAP];  /* per constant: state_id / event type index ; per submachine: its state id */
extern const _Bool g_has_transitions, g_has_internal;
extern const int g_s, g_e, g_i, g_j, g_w;                          /* witnesses: state, event type, two constants, one submachine */
extern int g_hi, g_pos_i, g_pos_j, g_composite_set, g_ihi, g_ipos_i, g_ipos_j;
#define NONE 1000000
/* transition_chain& chain = m_transition_chains[event_type_index]; chain.add_transition_cell(cell)  ->  one append to the chain (state, event) */
void chain_emplace_back(int state_id, int event_type_index, int cell)
__CPROVER_requires(0 <= cell && cell < g_nc && state_id == g_c_state[cell] && event_type_index == g_c_event[cell])   /*@ob C01.cell-registered-under-its-source-state-and-trigger-type */
__CPROVER_requires(g_hi < 1000000)
__CPROVER_assigns(g_hi, g_pos_i, g_pos_j)
__CPROVER_ensures(g_hi == __CPROVER_old(g_hi) + ((state_id == g_s && event_type_index == g_e) ? 1 : 0))
__CPROVER_ensures(g_pos_i == ((state_id == g_s && event_type_index == g_e && cell == g_i) ? g_hi - 1 : __CPROVER_old(g_pos_i)))
__CPROVER_ensures(g_pos_j == ((state_id == g_s && event_type_index == g_e && cell == g_j) ? g_hi - 1 : __CPROVER_old(g_pos_j)))
;
void internal_chain_emplace_back(int event_type_index, int cell)
__CPROVER_requires(0 <= cell && cell < g_nic && event_type_index == g_ic_event[cell])                                 /*@ob C01.internal-cell-registered-under-its-trigger-type */
__CPROVER_requires(g_ihi < 1000000)
__CPROVER_assigns(g_ihi, g_ipos_i, g_ipos_j)
__CPROVER_ensures(g_ihi == __CPROVER_old(g_ihi) + (event_type_index == g_e ? 1 : 0))
__CPROVER_ensures(g_ipos_i == ((event_type_index == g_e && cell == g_i) ? g_ihi - 1 : __CPROVER_old(g_ipos_i)))
__CPROVER_ensures(g_ipos_j == ((event_type_index == g_e && cell == g_j) ? g_ihi - 1 : __CPROVER_old(g_ipos_j)))
;
void init_composite_state(int state_id, int Submachine)
__CPROVER_requires(0 <= Submachine && Submachine < g_nsub && state_id == g_sub_state[Submachine])                     /*@ob C07.forwarding-call-installed-in-the-table-of-the-composite-state */
__CPROVER_assigns(g_composite_set)
__CPROVER_ensures(g_composite_set == ((Submachine == g_w) ? 1 : __CPROVER_old(g_composite_set)))
;
#if UNIT_CTOR
void build_tables(void)
__CPROVER_requires(0 <= g_nc && g_nc <= CAP && 0 <= g_nsub && g_nsub <= CAP && 0 <= g_nic && g_nic <= CAP && g_hi == 0 && g_ihi == 0 && g_pos_i == NONE && g_pos_j == NONE && g_ipos_i == NONE && g_ipos_j == NONE && g_composite_set == 0)
__CPROVER_requires(0 <= g_i && g_i < g_j)
__CPROVER_assigns(g_hi, g_pos_i, g_pos_j, g_composite_set, g_ihi, g_ipos_i, g_ipos_j)
__CPROVER_ensures((HAS_TRANSITIONS && g_j < g_nc && g_c_state[g_i] == g_s && g_c_event[g_i] == g_e && g_c_state[g_j] == g_s && g_c_event[g_j] == g_e) ==> (g_pos_i != NONE && g_pos_j != NONE && g_pos_i < g_pos_j))   /*@ob C01,C13.cells-of-a-chain-keep-the-order-of-the-transition-list */
__CPROVER_ensures((HAS_INTERNAL && g_j < g_nic && g_ic_event[g_i] == g_e && g_ic_event[g_j] == g_e) ==> (g_ipos_i != NONE && g_ipos_j != NONE && g_ipos_i < g_ipos_j))                                                /*@ob C01.internal-cells-keep-the-order-of-the-internal-transition-list */
__CPROVER_ensures((0 <= g_w && g_w < g_nsub) ==> g_composite_set == 1)                                                  /*@ob C07.every-composite-state-gets-its-forwarding-call */
;
#endif
#if UNIT_ADD_CELL
typedef struct { int event_type_index; size_t state_id; int cell; } init_cell_value_t;
extern const init_cell_value_t g_value; extern int g_added;
void chain_add_transition_cell(int chain_key, int cell)       /* m_transition_chains[key] . add_transition_cell(cell)  (operator[] creates the chain on first use [A: std::unordered_map]) */
__CPROVER_requires(chain_key == g_value.event_type_index)                         /*@ob C01.cell-goes-to-the-chain-of-its-trigger-type */
__CPROVER_requires(cell == g_value.cell && g_added == 0)                          /*@ob C01.cell-added-once-unchanged */
__CPROVER_assigns(g_added)
__CPROVER_ensures(g_added == 1)
;
void add_transition_cell(const init_cell_value_t* value)
__CPROVER_requires(__CPROVER_is_fresh(value, sizeof(*value)) && value->event_type_index == g_value.event_type_index && value->cell == g_value.cell && g_added == 0)
__CPROVER_assigns(g_added)
__CPROVER_ensures(g_added == 1)                                                                           /*@ob C01.cell-added-once-unchanged */
;
#endif
#if UNIT_CHAIN_ADD
extern const int g_cell; extern int g_appended;
void cells_emplace_back(int cell)                              /* std::vector::emplace_back: the new element is the LAST one [A] - the order execute() iterates in */
__CPROVER_requires(cell == g_cell && g_appended == 0)                             /*@ob C01.cell-appended-at-the-end-of-the-chain */
__CPROVER_assigns(g_appended)
__CPROVER_ensures(g_appended == 1)
;
void chain_add(int cell)
__CPROVER_requires(cell == g_cell && g_appended == 0)
__CPROVER_assigns(g_appended)
__CPROVER_ensures(g_appended == 1)                                                                        /*@ob C01.cell-appended-at-the-end-of-the-chain */
;
#endif
