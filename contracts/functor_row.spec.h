/* functor_row.spec.h -- front/functor_row.hpp: the glue between a functor front-end Row<>/Internal<> and the back-end's row kernels (C14:
   the same machine written with row/a_row/... or with Row<> behaves the same; C02: action once, guard once; C05: a deferring action makes the
   row answer HANDLED_DEFERRED), ActionSequence_ (every action once, in sequence order) and Defer. */
extern const event_t g_evt; extern fsm_t* const g_fsm; extern const stref_t g_src, g_tgt;
extern const type_t Action, Guard; extern const _Bool g_action_defers, g_guard_answer;
extern int g_acalls, g_gcalls, g_anext, g_dcalls; extern const int g_nseq;
#define SAME_ARGS(evt, fsm, src, tgt) (EV_EQ(evt, g_evt) && (fsm) == g_fsm && (src) == g_src && (tgt) == g_tgt)
void call_action(type_t A, event_t evt, fsm_t* fsm, stref_t src, stref_t tgt)       /* A()(evt,fsm,src,tgt) */
__CPROVER_requires(A == Action && g_acalls == 0)                                  /*@ob C02,C14.the-rows-action-functor-is-called-exactly-once */
__CPROVER_requires(SAME_ARGS(evt, fsm, src, tgt))                                 /*@ob C14,C18.functor-gets-event-machine-source-target-unchanged */
__CPROVER_assigns(g_acalls)
__CPROVER_ensures(g_acalls == 1)
;
_Bool call_guard_f(type_t G, event_t evt, fsm_t* fsm, stref_t src, stref_t tgt)     /* G()(evt,fsm,src,tgt) */
__CPROVER_requires(G == Guard && g_gcalls == 0)                                   /*@ob C02,C14.the-rows-guard-functor-is-called-exactly-once */
__CPROVER_requires(SAME_ARGS(evt, fsm, src, tgt))                                 /*@ob C14,C18.functor-gets-event-machine-source-target-unchanged */
__CPROVER_assigns(g_gcalls)
__CPROVER_ensures(g_gcalls == 1 && __CPROVER_return_value == g_guard_answer)
;
#define get_functor_return_value(A) (g_action_defers ? HANDLED_DEFERRED : HANDLED_TRUE)     /* the three specialisations: units get_functor_return_value.* */
#if UNIT_ACTION_CALL
HandledEnum action_call(fsm_t* fsm, event_t evt, stref_t src, stref_t tgt)
__CPROVER_requires(SAME_ARGS(evt, fsm, src, tgt) && g_acalls == 0)
__CPROVER_assigns(g_acalls)
__CPROVER_ensures(g_acalls == 1)                                                                          /*@ob C02,C14.the-rows-action-functor-is-called-exactly-once */
__CPROVER_ensures(__CPROVER_return_value == (g_action_defers ? HANDLED_DEFERRED : HANDLED_TRUE))         /*@ob C05,C14.row-with-a-deferring-action-answers-deferred-otherwise-true */
;
#endif
#if UNIT_GUARD_CALL
_Bool guard_call(fsm_t* fsm, event_t evt, stref_t src, stref_t tgt)
__CPROVER_requires(SAME_ARGS(evt, fsm, src, tgt) && g_gcalls == 0)
__CPROVER_assigns(g_gcalls)
__CPROVER_ensures(g_gcalls == 1 && __CPROVER_return_value == g_guard_answer)                              /*@ob C14.row-guard-is-the-functors-answer */
;
#endif
#if UNIT_RETVAL
#define MEMBER_INIT(name, e) return (e)
HandledEnum functor_return_value(_Bool some_deferring_actions_value)
__CPROVER_assigns()
__CPROVER_ensures(__CPROVER_return_value == (RETKIND == 0 ? HANDLED_TRUE : RETKIND == 1 ? HANDLED_DEFERRED : (some_deferring_actions_value ? HANDLED_DEFERRED : HANDLED_TRUE)))   /*@ob C05,C14.deferring-functor-or-sequence-answers-deferred */
;
#endif
#if UNIT_SEQ
void call_seq_action(type_t FCT, event_t evt, fsm_t* fsm, stref_t src, stref_t tgt)
__CPROVER_requires(FCT == g_anext && 0 <= g_anext && g_anext < g_nseq)           /*@ob C02,C14.actions-of-a-sequence-run-in-sequence-order-each-once */
__CPROVER_requires(SAME_ARGS(evt, fsm, src, tgt))                                 /*@ob C14,C18.functor-gets-event-machine-source-target-unchanged */
__CPROVER_assigns(g_anext)
__CPROVER_ensures(g_anext == __CPROVER_old(g_anext) + 1)
;
void action_sequence_call(event_t evt, fsm_t* fsm, stref_t src, stref_t tgt)
__CPROVER_requires(SAME_ARGS(evt, fsm, src, tgt) && g_anext == 0 && 0 <= g_nseq && g_nseq <= 1000000)
__CPROVER_assigns(g_anext)
__CPROVER_ensures(g_anext == g_nseq)                                                                      /*@ob C02,C14.every-action-of-the-sequence-has-run */
;
#endif
#if UNIT_DEFER
void fsm_defer_event(fsm_t* fsm, event_t evt)
__CPROVER_requires(g_dcalls == 0 && fsm == g_fsm)                                 /*@ob C05.defer-action-defers-on-the-machine-it-was-called-with-once */
__CPROVER_requires(EV_EQ(evt, g_evt))                                             /*@ob C05,C18.deferred-occurrence-keeps-type-and-payload */
__CPROVER_assigns(g_dcalls)
__CPROVER_ensures(g_dcalls == 1)
;
void defer_call(event_t evt, fsm_t* fsm, stref_t src, stref_t tgt)
__CPROVER_requires(SAME_ARGS(evt, fsm, src, tgt) && g_dcalls == 0)
__CPROVER_assigns(g_dcalls)
__CPROVER_ensures(g_dcalls == 1)                                                                          /*@ob C05.defer-action-stores-the-event */
;
#endif
/* ---- front/state_machine_def.hpp: the basic front-end's row kinds (row, a_row, g_row, a_irow, irow, g_irow): action_call / guard_call
   invoke the member function the row names, once, on the machine, with the event; action rows answer HANDLED_TRUE ---- */
#if UNIT_BASIC_ACTION || UNIT_BASIC_GUARD
extern const type_t action, guard;
void call_member_action(fsm_t* fsm, type_t mfp, event_t evt)                   /* (fsm.*action)(evt) */
__CPROVER_requires(mfp == action && g_acalls == 0 && fsm == g_fsm)               /*@ob C02,C14.the-rows-action-member-is-called-exactly-once-on-the-machine */
__CPROVER_requires(EV_EQ(evt, g_evt))                                             /*@ob C14,C18.behaviour-gets-the-event-unchanged */
__CPROVER_assigns(g_acalls)
__CPROVER_ensures(g_acalls == 1)
;
_Bool call_member_guard(fsm_t* fsm, type_t mfp, event_t evt)                    /* (fsm.*guard)(evt) */
__CPROVER_requires(mfp == guard && g_gcalls == 0 && fsm == g_fsm)                /*@ob C02,C14.the-rows-guard-member-is-called-exactly-once-on-the-machine */
__CPROVER_requires(EV_EQ(evt, g_evt))                                             /*@ob C14,C18.behaviour-gets-the-event-unchanged */
__CPROVER_assigns(g_gcalls)
__CPROVER_ensures(g_gcalls == 1 && __CPROVER_return_value == g_guard_answer)
;
#endif
#if UNIT_BASIC_ACTION
HandledEnum basic_action_call(fsm_t* fsm, event_t evt)
__CPROVER_requires(fsm == g_fsm && EV_EQ(evt, g_evt) && g_acalls == 0)
__CPROVER_assigns(g_acalls)
__CPROVER_ensures(g_acalls == 1 && __CPROVER_return_value == HANDLED_TRUE)                               /*@ob C02,C14.action-row-runs-its-action-once-and-answers-true */
;
#endif
#if UNIT_BASIC_GUARD
_Bool basic_guard_call(fsm_t* fsm, event_t evt)
__CPROVER_requires(fsm == g_fsm && EV_EQ(evt, g_evt) && g_gcalls == 0)
__CPROVER_assigns(g_gcalls)
__CPROVER_ensures(g_gcalls == 1 && __CPROVER_return_value == g_guard_answer)                              /*@ob C14.row-guard-is-the-members-answer */
;
#endif
#if UNIT_SEQ3
void call_seq_action3(type_t FCT, event_t evt, fsm_t* fsm, stref_t state)
__CPROVER_requires(FCT == g_anext && 0 <= g_anext && g_anext < g_nseq)           /*@ob C02,C14.actions-of-a-sequence-run-in-sequence-order-each-once */
__CPROVER_requires(EV_EQ(evt, g_evt) && fsm == g_fsm && state == g_src)           /*@ob C14,C18.functor-gets-event-machine-state-unchanged */
__CPROVER_assigns(g_anext)
__CPROVER_ensures(g_anext == __CPROVER_old(g_anext) + 1)
;
void action_sequence_call3(event_t evt, fsm_t* fsm, stref_t state)
__CPROVER_requires(EV_EQ(evt, g_evt) && fsm == g_fsm && state == g_src && g_anext == 0 && 0 <= g_nseq && g_nseq <= 1000000)
__CPROVER_assigns(g_anext)
__CPROVER_ensures(g_anext == g_nseq)                                                                      /*@ob C02,C14.every-action-of-the-sequence-has-run */
;
#endif
/* ---- front/row2.hpp, front/internal_row.hpp, front/detail/row2_helper.hpp: rows naming a member function of ANY state (or of the machine):
   action_call / guard_call select the helper overload by is_base_of<CalledFor, FSM> and pass event / machine / state set through;
   the helpers call the member exactly once, on the machine (true_) or on the state object keyed by CalledFor in the state set (false_) ---- */
#if UNIT_ROW2_ACTION || UNIT_ROW2_GUARD || UNIT_ROW2_HELPER
extern const _Bool g_called_is_fsm; extern const stref_t g_all_states; extern const type_t CalledForAction, CalledForGuard, FSM;
#define is_base_of(C, F) g_called_is_fsm
#define bool_(x) ((x) != 0)
#endif
#if UNIT_ROW2_ACTION
void row2_action_call_helper(fsm_t* fsm, event_t evt, stref_t src, stref_t tgt, stref_t all_states, _Bool called_is_fsm)
__CPROVER_requires(g_acalls == 0 && fsm == g_fsm && all_states == g_all_states)  /*@ob C02,C14.the-rows-action-member-is-called-exactly-once-with-the-machine-and-its-state-set */
__CPROVER_requires((called_is_fsm != 0) == (g_called_is_fsm != 0))                /*@ob C14.member-of-the-machine-iff-the-named-class-is-a-base-of-the-machine */
__CPROVER_requires(EV_EQ(evt, g_evt))                                             /*@ob C14,C18.behaviour-gets-the-event-unchanged */
__CPROVER_assigns(g_acalls)
__CPROVER_ensures(g_acalls == 1)
;
HandledEnum row2_action_call(fsm_t* fsm, event_t evt, stref_t src, stref_t tgt, stref_t all_states)
__CPROVER_requires(fsm == g_fsm && EV_EQ(evt, g_evt) && all_states == g_all_states && g_acalls == 0)
__CPROVER_assigns(g_acalls)
__CPROVER_ensures(g_acalls == 1 && __CPROVER_return_value == HANDLED_TRUE)                               /*@ob C02,C14.action-row-runs-its-action-once-and-answers-true */
;
#endif
#if UNIT_ROW2_GUARD
_Bool row2_guard_call_helper(fsm_t* fsm, event_t evt, stref_t src, stref_t tgt, stref_t all_states, _Bool called_is_fsm)
__CPROVER_requires(g_gcalls == 0 && fsm == g_fsm && all_states == g_all_states)  /*@ob C02,C14.the-rows-guard-member-is-called-exactly-once-with-the-machine-and-its-state-set */
__CPROVER_requires((called_is_fsm != 0) == (g_called_is_fsm != 0))                /*@ob C14.member-of-the-machine-iff-the-named-class-is-a-base-of-the-machine */
__CPROVER_requires(EV_EQ(evt, g_evt))                                             /*@ob C14,C18.behaviour-gets-the-event-unchanged */
__CPROVER_assigns(g_gcalls)
__CPROVER_ensures(g_gcalls == 1 && __CPROVER_return_value == g_guard_answer)
;
_Bool row2_guard_call(fsm_t* fsm, event_t evt, stref_t src, stref_t tgt, stref_t all_states)
__CPROVER_requires(fsm == g_fsm && EV_EQ(evt, g_evt) && all_states == g_all_states && g_gcalls == 0)
__CPROVER_assigns(g_gcalls)
__CPROVER_ensures(g_gcalls == 1 && (__CPROVER_return_value != 0) == (g_guard_answer != 0))               /*@ob C14.row-guard-is-the-members-answer */
;
#endif
#if UNIT_ROW2_HELPER
extern const type_t action, guard; extern int g_mcalls;
#ifndef ON_FSM
#define ON_FSM 0
#endif
#ifndef IS_GUARD
#define IS_GUARD 0
#endif
_Bool call_member_of_state(stref_t all_states, type_t key, type_t mfp, event_t evt)   /* (fusion::at_key<CalledFor>(all_states).*member)(evt) */
__CPROVER_requires(!ON_FSM && g_mcalls == 0 && all_states == g_all_states)       /*@ob C02,C14.member-called-exactly-once-on-the-object-the-row-names */
__CPROVER_requires(key == (IS_GUARD ? CalledForGuard : CalledForAction) && mfp == (IS_GUARD ? guard : action))   /*@ob C14.the-member-and-the-state-object-are-the-ones-the-row-names */
__CPROVER_requires(EV_EQ(evt, g_evt))                                             /*@ob C14,C18.behaviour-gets-the-event-unchanged */
__CPROVER_assigns(g_mcalls)
__CPROVER_ensures(g_mcalls == 1 && __CPROVER_return_value == g_guard_answer)
;
_Bool call_member_of_fsm(fsm_t* fsm, type_t mfp, event_t evt)                          /* (fsm.*member)(evt) */
__CPROVER_requires(ON_FSM && g_mcalls == 0 && fsm == g_fsm)                      /*@ob C02,C14.member-called-exactly-once-on-the-object-the-row-names */
__CPROVER_requires(mfp == (IS_GUARD ? guard : action))                            /*@ob C14.the-member-and-the-state-object-are-the-ones-the-row-names */
__CPROVER_requires(EV_EQ(evt, g_evt))                                             /*@ob C14,C18.behaviour-gets-the-event-unchanged */
__CPROVER_assigns(g_mcalls)
__CPROVER_ensures(g_mcalls == 1 && __CPROVER_return_value == g_guard_answer)
;
_Bool row2_helper_call(fsm_t* fsm, event_t evt, stref_t src, stref_t tgt, stref_t all_states)
__CPROVER_requires(fsm == g_fsm && EV_EQ(evt, g_evt) && all_states == g_all_states && g_mcalls == 0)
__CPROVER_assigns(g_mcalls)
__CPROVER_ensures(g_mcalls == 1)                                                                            /*@ob C02,C14.member-called-exactly-once-on-the-object-the-row-names */
__CPROVER_ensures(!IS_GUARD || (__CPROVER_return_value != 0) == (g_guard_answer != 0))                      /*@ob C14.row-guard-is-the-members-answer */
;
#endif
