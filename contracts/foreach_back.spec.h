/* foreach_back.spec.h -- back / back11: the three function objects that mpl::for_each drives over a type list at run time and that
   the cascade units so far only assumed: init_states (start), call_init (start), fork_helper (fork entry).
   mpl::for_each<List>(f) -> `for (k = 0; k != size(List); ++k) f(List[k])` (FOREACH-functor rewrite: the functor object is erased, its
   constructor's member-initialiser list is extracted (INITLIST) and its members become locals).  C02 C03 C09 */
extern const int g_init_ids[NR_CAP];     /* ids of Derived::initial_state, region order [A: compile time] */
extern const int g_k;                    /* ghost region index */
extern const int nr_regions;             /* symbolic 1..NR_CAP */
extern const event_t g_evt;
extern int g_entry_next;
#define EV_EQ_U(a,b) ((a).type==(b).type && (a).payload==(b).payload)
stref_t __CPROVER_uninterpreted_at_key(type_t, slist_t);
#define at_key __CPROVER_uninterpreted_at_key

/* ---- init_states: element k of seq_initial_states is the initial state of region k; get_state_id of it is g_init_ids[k] ---- */
#if UNIT_INIT_STATES
#define get_state_id(stt_, S) g_init_ids[S]
void init_states_foreach(fsm_t* self)
__CPROVER_requires(__CPROVER_is_fresh(self, sizeof(*self)) && 1 <= nr_regions && nr_regions <= NR_CAP && 0 <= g_k && g_k < nr_regions)
__CPROVER_assigns(__CPROVER_object_upto(self->m_states, sizeof(self->m_states)))                /*@ob C03,C02.start-assigns-only-the-active-configuration */
__CPROVER_ensures(self->m_states[g_k] == g_init_ids[g_k])                                        /*@ob C03,C08.every-region-starts-in-its-initial-state */
;
#endif

/* ---- call_init: entry of every region's initial state, region order, each once, with the start event ---- */
#if UNIT_CALL_INIT
void execute_entry(stref_t astate, event_t evt, fsm_t* fsm)
__CPROVER_requires(0 <= g_entry_next && g_entry_next < nr_regions && !g_exc)
__CPROVER_requires(astate == at_key(g_entry_next, fsm->m_substate_list))                         /*@ob C02,C03.initial-states-entered-in-region-order-each-once */
__CPROVER_requires(EV_EQ_U(evt, g_evt))                                                          /*@ob C02,C18.initial-entry-sees-the-start-event */
__CPROVER_assigns(g_entry_next, g_exc)
__CPROVER_ensures(g_exc || g_entry_next == __CPROVER_old(g_entry_next) + 1)
__CPROVER_ensures(g_exc ==> g_entry_next == __CPROVER_old(g_entry_next))
;
void call_init_foreach(fsm_t* self, event_t evt)
__CPROVER_requires(__CPROVER_is_fresh(self, sizeof(*self)) && 1 <= nr_regions && nr_regions <= NR_CAP && g_entry_next == 0 && !g_exc && EV_EQ_U(evt, g_evt))
__CPROVER_assigns(g_entry_next, g_exc)                                                           /*@ob C03.entering-assigns-no-machine-state */
__CPROVER_ensures(!g_exc ==> g_entry_next == nr_regions)                                         /*@ob C02,C03.every-region-initial-state-entered */
;
#endif

/* ---- fork_helper: element t of the fork's target list has region g_t_region[t] and id g_t_id[t] [A: compile time: find_region_id,
   get_state_id]; UML requires the targets of a fork to lie in distinct regions - stated for the ghost region g_k only ---- */
#if UNIT_FORK
extern const int g_ntargets, g_tw; extern const int g_t_region[NR_CAP], g_t_id[NR_CAP];
extern const _Bool g_k_is_fork_target; extern const int g_k_fork_id;
#define get_state_id(stt_, S) g_t_id[S]
#define REGION_INDEX(S) g_t_region[S]
#define NOTK(t) (!((t) < g_ntargets && (t) != g_tw) || g_t_region[t] != g_k)
#define INREG(t) (!((t) < g_ntargets) || (0 <= g_t_region[t] && g_t_region[t] < nr_regions))
void fork_foreach(fsm_t* self, event_t evt)
__CPROVER_requires(__CPROVER_is_fresh(self, sizeof(*self)) && 1 <= nr_regions && nr_regions <= NR_CAP && 0 <= g_k && g_k < nr_regions && 0 <= g_ntargets && g_ntargets <= NR_CAP)
__CPROVER_requires(INREG(0) && INREG(1) && INREG(2) && INREG(3) && INREG(4) && INREG(5) && INREG(6) && INREG(7))     /* the BOOST_STATIC_ASSERTs of the functor [A: compile time] */
__CPROVER_requires(g_k_is_fork_target ? (0 <= g_tw && g_tw < g_ntargets && g_t_region[g_tw] == g_k && g_t_id[g_tw] == g_k_fork_id) : g_tw == -1)
__CPROVER_requires(NOTK(0) && NOTK(1) && NOTK(2) && NOTK(3) && NOTK(4) && NOTK(5) && NOTK(6) && NOTK(7))             /* no other target lies in region g_k */
__CPROVER_assigns(__CPROVER_object_upto(self->m_states, sizeof(self->m_states)))
__CPROVER_ensures(self->m_states[g_k] == (g_k_is_fork_target ? g_k_fork_id : __CPROVER_old(self->m_states[g_k])))    /*@ob C09,C03,C08.fork-sets-exactly-the-named-regions */
;
#endif
