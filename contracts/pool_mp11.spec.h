/* pool_mp11.spec.h -- backmp11 do_process_event_pool: the scan over the event pool (C04 C05 C10 C20)
   std::deque is seen through an index/epoch iterator model [A: std::deque]: an insertion (which a dispatch may cause, at the
   front for completion events, at the back otherwise) invalidates all iterators (epoch bump); erase returns the next iterator. */
typedef struct { size_t pos; unsigned epoch; } pit_t;
typedef struct { size_t pos; } occ_t;       /* reference to the occurrence at a position */
typedef struct { _Bool has; process_result v; } optres_t;
extern size_t g_len; extern unsigned g_epoch;          /* abstract pool: number of occurrences, iterator epoch */
extern unsigned g_dispatches; extern size_t g_erased;
extern unsigned g_nodefbit;    /* ghost: dispatches whose outcome carries no DEFERRED bit: each starts a new deferral cycle (so that occurrences deferred before become eligible again) */
extern size_t g_nondef;        /* ghost: dispatches whose outcome was anything but 'only deferred again': each is one PROCESSED event of the drain's budget, handled or not */
#define SIZE_CAP 1000000
extern _Bool g_marked_here;      /* ghost: whether the occurrence the scan currently looks at is marked for deletion */
extern _Bool g_must_erase;       /* ghost: the scan has seen that the occurrence it looks at is processed and has not removed it yet */
pit_t pool_begin(fsm_t* self)
__CPROVER_assigns(g_marked_here)          /* another position: nothing known about its mark */
__CPROVER_ensures(__CPROVER_return_value.pos == 0 && __CPROVER_return_value.epoch == g_epoch)
;
_Bool pit_ne_end(fsm_t* self, pit_t it)
__CPROVER_requires(it.epoch == g_epoch)                                          /*@ob C20.no-stale-iterator-compared */
__CPROVER_requires(!g_must_erase)                                                /*@ob C04,C20.a-processed-occurrence-is-removed-from-the-pool-before-the-scan-goes-on */
__CPROVER_assigns()
__CPROVER_ensures(__CPROVER_return_value == (it.pos != g_len))
;
occ_t pit_deref(fsm_t* self, pit_t it)
__CPROVER_requires(it.epoch == g_epoch && it.pos < g_len)                        /*@ob C20,C04.no-dereference-of-an-invalid-or-end-iterator */
__CPROVER_assigns()
__CPROVER_ensures(__CPROVER_return_value.pos == it.pos)
;
_Bool occ_marked(occ_t ev)
__CPROVER_assigns(g_must_erase)
__CPROVER_ensures(__CPROVER_return_value == g_marked_here && g_must_erase == g_marked_here)
;
pit_t pool_erase(fsm_t* self, pit_t it)
__CPROVER_requires(it.epoch == g_epoch && it.pos < g_len)                        /*@ob C20,C04.erase-of-a-valid-iterator */
__CPROVER_requires(g_marked_here)                                                /*@ob C04,C05.only-processed-occurrences-are-removed */
__CPROVER_assigns(g_len, g_erased, g_marked_here, g_must_erase)
__CPROVER_ensures(!g_must_erase && g_len == __CPROVER_old(g_len) - 1 && g_erased == __CPROVER_old(g_erased) + 1)
__CPROVER_ensures(__CPROVER_return_value.pos == it.pos && __CPROVER_return_value.epoch == g_epoch)
;
pit_t pit_inc(pit_t it)
__CPROVER_requires(it.epoch == g_epoch && it.pos < g_len)                        /*@ob C20.no-increment-past-the-end */
__CPROVER_assigns(g_marked_here)
__CPROVER_ensures(__CPROVER_return_value.pos == it.pos + 1 && __CPROVER_return_value.epoch == it.epoch)
;
/* event.try_process(self(), cur_seq_cnt) : deferred_event / completion_event_occurrence try_process units */
optres_t occ_try_process(occ_t ev, fsm_t* self, uint16_t seq)
__CPROVER_requires(!g_marked_here)                                               /*@ob C04,C05.a-processed-occurrence-is-never-dispatched-again */
__CPROVER_requires(seq == self->event_pool.cur_seq_cnt)                          /*@ob C05,C04.current-cycle-number-passed-to-the-occurrence */
__CPROVER_requires(ev.pos < g_len)
__CPROVER_assigns(g_len, g_epoch, g_dispatches, g_marked_here, g_nondef, g_nodefbit)
__CPROVER_ensures(g_nodefbit == __CPROVER_old(g_nodefbit) + ((__CPROVER_return_value.has && !((int)__CPROVER_return_value.v & HANDLED_DEFERRED)) ? 1 : 0))
__CPROVER_ensures(g_nondef == __CPROVER_old(g_nondef) + ((__CPROVER_return_value.has && (int)__CPROVER_return_value.v != HANDLED_DEFERRED) ? 1 : 0))
__CPROVER_ensures(__CPROVER_return_value.has ==> (g_dispatches == __CPROVER_old(g_dispatches) + 1 && g_dispatches > __CPROVER_old(g_dispatches) && g_len >= __CPROVER_old(g_len) && g_len < SIZE_CAP && g_marked_here))
__CPROVER_ensures(!__CPROVER_return_value.has ==> (g_dispatches == __CPROVER_old(g_dispatches) && g_len == __CPROVER_old(g_len) && g_epoch == __CPROVER_old(g_epoch) && !g_marked_here))
__CPROVER_ensures(0 <= (int)__CPROVER_return_value.v && (int)__CPROVER_return_value.v <= 7)
;
size_t do_process_event_pool(fsm_t* self, size_t max_events)
__CPROVER_requires(__CPROVER_is_fresh(self, sizeof(*self)) && 1 <= g_len && g_len < SIZE_CAP && max_events >= 1 && g_dispatches == 0 && g_erased == 0 && g_nondef == 0 && g_nodefbit == 0 && !g_must_erase)
__CPROVER_assigns(g_must_erase, self->event_pool.cur_seq_cnt, g_len, g_epoch, g_dispatches, g_erased, g_marked_here, g_nondef, g_nodefbit)
__CPROVER_ensures(__CPROVER_return_value <= g_dispatches)                        /*@ob C04.processed-count-counts-only-dispatched-occurrences */
__CPROVER_ensures(__CPROVER_return_value <= max_events)                          /*@ob C04,C10.single-step-variant-stops-after-max-events */
__CPROVER_ensures(__CPROVER_return_value == g_nondef)                            /*@ob C04.every-dispatched-event-counts-as-processed-whether-or-not-it-was-handled */
__CPROVER_ensures(g_nondef < max_events ==> self->event_pool.cur_seq_cnt == (uint16_t)(__CPROVER_old(self->event_pool.cur_seq_cnt) + g_nodefbit))   /*@ob C05.a-new-deferral-cycle-after-every-dispatch-that-did-not-defer-again-and-only-then */
__CPROVER_ensures(g_nondef <= max_events)                                        /*@ob C04.a-bounded-drain-dispatches-at-most-max-events-events-the-single-step-exactly-the-oldest */
;
