/* hierarchy.spec.h -- forwarding of an event to an active submachine (C07, C13, C18 payload)
   frow::execute (back, back11), favor_compile_time call_submachine / process_any_event_helper */
extern const type_t stt, current_state_type, T1, TransitionState;
extern int g_sub_calls;           /* calls of the submachine's process_event_internal */
extern const event_t g_evt;       /* the event being dispatched */
extern int g_sub_ret;
extern const slist_t g_slist;
int   __CPROVER_uninterpreted_get_state_id(type_t, type_t);
stref_t __CPROVER_uninterpreted_at_key(type_t, slist_t);
#define get_state_id     __CPROVER_uninterpreted_get_state_id
#define at_key           __CPROVER_uninterpreted_at_key

/* submachine.process_event_internal(evt, source = EVENT_SOURCE_DEFAULT)  -- the submachine's own unit (queue.spec.h) */
HandledEnum sub_process_event_internal(stref_t sub, event_t evt, EventSource source)
__CPROVER_requires(sub == at_key(current_state_type, g_slist))                    /*@ob C07,C01.forwarded-to-the-active-submachine-of-this-row */
__CPROVER_requires((source & EVENT_SOURCE_DIRECT) == 0)                           /*@ob C07.forwarded-event-is-not-a-direct-call */
__CPROVER_requires(EV_EQ(evt, g_evt))                                             /*@ob C07,C18.same-event-and-payload-forwarded */
__CPROVER_requires(g_sub_calls == 0)                                              /*@ob C07,C06,C01.submachine-offered-the-event-exactly-once */
__CPROVER_assigns(g_sub_calls, g_sub_ret, g_exc)
__CPROVER_ensures(g_sub_calls == 1 && 0 <= g_sub_ret && g_sub_ret <= 7 && (int)__CPROVER_return_value == g_sub_ret)
;
/* default argument of process_event_internal (the declaration is checked to carry this default on every run) */
#define PEI_SEL(_1,_2,NAME,...) NAME
#define PEI1(sub, e)    sub_process_event_internal(sub, e, EVENT_SOURCE_DEFAULT)
#define PEI2(sub, e, s) sub_process_event_internal(sub, e, s)
#define SUB_PEI(sub, ...) PEI_SEL(__VA_ARGS__, PEI2, PEI1)(sub, __VA_ARGS__)

HandledEnum frow_execute(fsm_t* fsm, int region_index, int state, event_t evt)
__CPROVER_requires(__CPROVER_is_fresh(fsm, sizeof(*fsm)) && 0 <= region_index && region_index < NR_CAP)
__CPROVER_requires(g_sub_calls == 0 && !g_exc && EV_EQ(evt, g_evt) && fsm->m_substate_list == g_slist)
__CPROVER_assigns(g_sub_calls, g_sub_ret, g_exc, fsm->m_states[region_index])
__CPROVER_ensures(g_sub_calls == 1)                                                              /*@ob C07,C06,C01.submachine-offered-the-event-exactly-once */
__CPROVER_ensures(!g_exc ==> (int)__CPROVER_return_value == g_sub_ret)                           /*@ob C07,C06,C01.inner-result-returned-unchanged */
__CPROVER_ensures(!g_exc ==> fsm->m_states[region_index] == get_state_id(stt, T1))               /*@ob C07.submachine-remains-the-active-state */
;
