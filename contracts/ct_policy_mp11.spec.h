/* ct_policy_mp11.spec.h -- backmp11 compile_policy_impl<favor_compile_time>: the any_event based counterparts of the favor_runtime_speed
   policy functions: is_end_interrupt_event (C11), is_event_deferred_dispatch_table::dispatch, is_event_deferred_visitor::operator(),
   is_event_deferred (C05).  The event travels as any_event; its dynamic type g_dyn_type is a position in the event set (or >= g_n). */
extern const event_t g_evt; extern const type_t g_dyn_type; extern const int g_n;
#define mp_size(L) g_n
#if UNIT_END_INTERRUPT
extern const _Bool g_end_flag_of_dyn_type_active; extern int g_fcalls;
_Bool is_end_interrupt_flag_active(const fsm_t* sm, type_t Event)              /* sm.is_flag_active<EndInterruptFlag<Event>>() */
__CPROVER_requires(Event == g_dyn_type)                                           /*@ob C11.end-interrupt-flag-asked-for-the-events-exact-type-only */
__CPROVER_requires(g_fcalls == 0)
__CPROVER_assigns(g_fcalls)
__CPROVER_ensures(g_fcalls == 1 && (__CPROVER_return_value != 0) == (g_end_flag_of_dyn_type_active != 0))
;
_Bool ct_is_end_interrupt_event(const fsm_t* sm, event_t event)
__CPROVER_requires(__CPROVER_is_fresh(sm, sizeof(*sm)) && EV_EQ(event, g_evt) && 0 <= g_n && g_n <= 1000000 && g_fcalls == 0)
__CPROVER_assigns(g_fcalls)
__CPROVER_ensures((__CPROVER_return_value != 0) == ((0 <= g_dyn_type && g_dyn_type < g_n) && g_end_flag_of_dyn_type_active != 0))    /*@ob C11.end-interrupt-event-iff-its-end-interrupt-flag-is-active */
;
#endif
#if UNIT_DEF_DISPATCH
extern const _Bool g_in_deferred_list, g_cell_answer; extern int g_ccalls;
_Bool cells_contains(type_t t)                                                  /* table.m_cells.find(event.type()) != end(): the state's deferred_events list has this type [A: built by the constructor below] */
__CPROVER_requires(t == g_dyn_type)                                               /*@ob C05.deferral-looked-up-by-the-events-exact-type */
__CPROVER_assigns()
__CPROVER_ensures(__CPROVER_return_value == g_in_deferred_list)
;
_Bool call_deferral_cell(stref_t state, event_t event, const fsm_t* fsm)        /* (*cell)(state, event, fsm) -> state.is_event_deferred(*any_cast<Event>(&event), fsm) */
__CPROVER_requires(g_in_deferred_list && g_ccalls == 0 && EV_EQ(event, g_evt))   /*@ob C05,C18.conditional-deferral-asked-once-with-the-event-unchanged */
__CPROVER_assigns(g_ccalls)
__CPROVER_ensures(g_ccalls == 1 && __CPROVER_return_value == g_cell_answer)
;
_Bool deferral_dispatch(stref_t state, event_t event, const fsm_t* fsm)
__CPROVER_requires(EV_EQ(event, g_evt) && g_ccalls == 0)
__CPROVER_assigns(g_ccalls)
__CPROVER_ensures((__CPROVER_return_value != 0) == (g_in_deferred_list != 0 && g_cell_answer != 0))                       /*@ob C05.state-defers-the-event-iff-listed-and-its-condition-holds */
;
#endif
#if UNIT_DEF_TABLE_CTOR
/* is_event_deferred_dispatch_table(const State&, const Fsm&): one cell per event of State::deferred_events (g_n of them, list position = type_t),
   keyed by the event's own type index and pointing to convert_and_execute<State, Event, Fsm> of the SAME event */
extern const int g_n; extern int g_next;
typedef struct { int dummy; } deftable_t;
#define TYPE_INDEX(E) (E)
#define CELL_OF(E) (E)
void cells_set(deftable_t* self, type_t key, type_t cell)                       /* m_cells[key] = cell  [A: std::unordered_map::operator[]] */
__CPROVER_requires(key == g_next && 0 <= g_next && g_next < g_n)                  /*@ob C05,C13.every-deferred-event-of-the-state-gets-a-cell-in-list-order-none-twice */
__CPROVER_requires(cell == key)                                                   /*@ob C05,C18.the-cell-stored-under-an-event-type-converts-to-that-very-type */
__CPROVER_assigns(g_next)
__CPROVER_ensures(g_next == __CPROVER_old(g_next) + 1)
;
void deftable_construct(deftable_t* self)
__CPROVER_requires(__CPROVER_is_fresh(self, sizeof(*self)) && 0 <= g_n && g_n <= 1000000 && g_next == 0)
__CPROVER_assigns(g_next)
__CPROVER_ensures(g_next == g_n)                                                                            /*@ob C05,C13.every-deferred-event-of-the-state-gets-a-cell-in-list-order-none-twice */
;
#endif
#if UNIT_DEF_CONVERT
/* convert_and_execute<State, Event, Fsm>(state, any_event, fsm): state.is_event_deferred(*any_cast<Event>(&event), fsm) */
extern const _Bool g_state_answer; extern int g_scalls;
event_t any_cast_ptr_deref(type_t Event, event_t event)                        /* *any_cast<Event>(&event)  [A: std::any_cast] */
__CPROVER_requires(Event == g_dyn_type)                                           /*@ob C18.event-converted-to-its-own-dynamic-type-only */
__CPROVER_requires(EV_EQ(event, g_evt))
__CPROVER_assigns()
__CPROVER_ensures(EV_EQ(__CPROVER_return_value, g_evt))
;
_Bool state_is_event_deferred(stref_t state, event_t event, const fsm_t* fsm)
__CPROVER_requires(g_scalls == 0 && EV_EQ(event, g_evt))                          /*@ob C05,C18.conditional-deferral-asked-once-with-the-event-unchanged */
__CPROVER_assigns(g_scalls)
__CPROVER_ensures(g_scalls == 1 && __CPROVER_return_value == g_state_answer)
;
_Bool convert_and_execute(type_t Event, stref_t state, event_t event, const fsm_t* fsm)
__CPROVER_requires(Event == g_dyn_type && EV_EQ(event, g_evt) && g_scalls == 0)
__CPROVER_assigns(g_scalls)
__CPROVER_ensures(g_scalls == 1 && (__CPROVER_return_value != 0) == (g_state_answer != 0))                   /*@ob C05.cell-answers-what-the-state-answers */
;
#endif
#if UNIT_DEF_VISITOR
typedef struct { _Bool m_result; event_t m_event; } vis_t;
extern const _Bool g_state_defers;
_Bool table_dispatch(stref_t state, event_t ev, const fsm_t* fsm)
__CPROVER_requires(EV_EQ(ev, g_evt))
__CPROVER_assigns()
__CPROVER_ensures(__CPROVER_return_value == g_state_defers)
;
void visitor_call(vis_t* self, stref_t state, const fsm_t* fsm)
__CPROVER_requires(__CPROVER_is_fresh(self, sizeof(*self)) && EV_EQ(self->m_event, g_evt) && (self->m_result == 0 || self->m_result == 1))
__CPROVER_assigns(self->m_result)
__CPROVER_ensures(self->m_result == (__CPROVER_old(self->m_result) || g_state_defers))     /*@ob C05.deferred-if-any-active-state-defers */
;
#endif
#if UNIT_IS_DEFERRED
typedef struct { _Bool m_result; event_t m_event; } vis_t;
extern const _Bool g_needs_traversal, g_any_active_state_defers; extern int g_visits;
void event_deferral_visit(const fsm_t* sm, vis_t* visitor)
__CPROVER_requires(g_visits == 0 && !visitor->m_result)                           /*@ob C05.deferral-query-starts-from-not-deferred */
__CPROVER_requires(EV_EQ(visitor->m_event, g_evt))                                /*@ob C05,C18.deferral-query-asks-about-the-event-being-processed */
__CPROVER_assigns(g_visits, visitor->m_result)
__CPROVER_ensures(g_visits == 1 && (visitor->m_result != 0) == (g_any_active_state_defers != 0))
;
_Bool is_event_deferred(const fsm_t* sm, event_t event)
__CPROVER_requires(__CPROVER_is_fresh(sm, sizeof(*sm)) && EV_EQ(event, g_evt) && g_visits == 0)
__CPROVER_assigns(g_visits)                                                                                /*@ob C05.deferral-query-changes-no-machine-state */
__CPROVER_ensures(g_needs_traversal ==> (__CPROVER_return_value != 0) == (g_any_active_state_defers != 0)) /*@ob C05.deferred-iff-some-active-state-defers-the-event */
__CPROVER_ensures(!g_needs_traversal ==> !__CPROVER_return_value)
;
#endif
