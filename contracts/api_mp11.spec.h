/* api_mp11.spec.h -- backmp11 public entry points that are thin but decide C03 (start/stop guarded by m_running: exit/entry exactly once),
   C04 (process_event_pool never runs while a step is in progress; enqueue_event only stores; process_event is a direct call) */
enum { process_info_direct_call = 0, process_info_submachine_call = 1, process_info_event_pool = 2 };
typedef int process_info;
extern const event_t g_evt;
extern int g_entries, g_exits, g_pool_calls, g_stored, g_pcalls2, g_pret2;
extern const _Bool g_pool_empty;
#define SIZE_MAX_ ((size_t)-1)
void machine_on_entry(fsm_t* self, event_t event, fsm_t* fsm)            /* on_entry(initial_event, fsm): proved in backmp11.on_entry (cascade_mp11.spec.h): sets m_running */
__CPROVER_requires(!self->m_running && g_entries == 0)                            /*@ob C03.start-enters-only-a-machine-that-is-not-running */
__CPROVER_requires(EV_EQ(event, g_evt) && fsm == self)
__CPROVER_assigns(g_entries, self->m_running)
__CPROVER_ensures(g_entries == 1 && self->m_running)
;
void machine_on_exit(fsm_t* self, event_t event, fsm_t* fsm)
__CPROVER_requires(self->m_running && g_exits == 0)                               /*@ob C03.stop-exits-only-a-running-machine-and-once */
__CPROVER_requires(EV_EQ(event, g_evt) && fsm == self)
__CPROVER_assigns(g_exits)
__CPROVER_ensures(g_exits == 1)
;
#if UNIT_START
void api_start(fsm_t* self, event_t initial_event)
__CPROVER_requires(__CPROVER_is_fresh(self, sizeof(*self)) && EV_EQ(initial_event, g_evt) && g_entries == 0)
__CPROVER_assigns(g_entries, self->m_running)
__CPROVER_ensures(g_entries == (__CPROVER_old(self->m_running) ? 0 : 1))          /*@ob C03.start-enters-the-machine-exactly-once-and-is-a-no-op-while-running */
__CPROVER_ensures(self->m_running)
;
#endif
#if UNIT_STOP
void api_stop(fsm_t* self, event_t final_event)
__CPROVER_requires(__CPROVER_is_fresh(self, sizeof(*self)) && EV_EQ(final_event, g_evt) && g_exits == 0)
__CPROVER_assigns(g_exits, self->m_running)
__CPROVER_ensures(g_exits == (__CPROVER_old(self->m_running) ? 1 : 0))            /*@ob C03.stop-exits-the-active-configuration-exactly-once */
__CPROVER_ensures(!self->m_running)                                               /*@ob C03.stopped-machine-is-not-running */
;
#endif
#if UNIT_POOL
_Bool pool_events_empty(fsm_t* self)
__CPROVER_assigns()
__CPROVER_ensures(__CPROVER_return_value == g_pool_empty)
;
size_t do_process_event_pool(fsm_t* self, size_t max_events)
__CPROVER_requires(!self->m_event_processing)                                     /*@ob C04.pending-events-are-never-dispatched-while-a-step-is-running */
__CPROVER_requires(!g_pool_empty && g_pool_calls == 0)
__CPROVER_requires(max_events == g_max)                                           /*@ob C04.limit-passed-on-unchanged */
__CPROVER_assigns(g_pool_calls)
__CPROVER_ensures(g_pool_calls == 1 && __CPROVER_return_value == g_nprocessed)
;
extern const size_t g_max, g_nprocessed;
size_t api_process_event_pool(fsm_t* self, size_t max_events)
__CPROVER_requires(__CPROVER_is_fresh(self, sizeof(*self)) && max_events == g_max && g_pool_calls == 0)
__CPROVER_assigns(g_pool_calls)
__CPROVER_ensures(g_pool_calls == ((g_pool_empty || self->m_event_processing) ? 0 : 1))                     /*@ob C04.pool-drained-iff-not-empty-and-no-step-in-progress */
__CPROVER_ensures(__CPROVER_return_value == ((g_pool_empty || self->m_event_processing) ? 0 : g_nprocessed))
;
#endif
#if UNIT_ENQUEUE
static event_t normalize_event(event_t e) { return e; }      /* identity except for Kleene wrappers [A] */
void policy_defer_event(fsm_t* self, event_t e, _Bool next_rtc_seq)
__CPROVER_requires(EV_EQ(e, g_evt))                                               /*@ob C04,C18.enqueued-event-keeps-type-and-payload */
__CPROVER_requires(!next_rtc_seq)                                                 /*@ob C04.enqueued-event-is-eligible-at-the-next-drain */
__CPROVER_requires(g_stored == 0)                                                 /*@ob C04.enqueue-stores-exactly-one-occurrence */
__CPROVER_assigns(g_stored)
__CPROVER_ensures(g_stored == 1)
;
void api_enqueue_event(fsm_t* self, event_t event)
__CPROVER_requires(__CPROVER_is_fresh(self, sizeof(*self)) && EV_EQ(event, g_evt) && g_stored == 0)
__CPROVER_assigns(g_stored)                                                       /*@ob C04.enqueue-only-stores-nothing-runs */
__CPROVER_ensures(g_stored == 1)
;
#endif
#if UNIT_PROCESS
static event_t normalize_event(event_t e) { return e; }
process_result process_event_internal(fsm_t* self, event_t event, process_info info)
__CPROVER_requires(EV_EQ(event, g_evt) && g_pcalls2 == 0)
__CPROVER_requires(info == process_info_direct_call)                              /*@ob C04,C06.process-event-is-a-direct-call */
__CPROVER_assigns(g_pcalls2, g_pret2)
__CPROVER_ensures(g_pcalls2 == 1 && 0 <= g_pret2 && g_pret2 <= 7 && (int)__CPROVER_return_value == g_pret2)
;
process_result api_process_event(fsm_t* self, event_t event)
__CPROVER_requires(__CPROVER_is_fresh(self, sizeof(*self)) && EV_EQ(event, g_evt) && g_pcalls2 == 0)
__CPROVER_assigns(g_pcalls2, g_pret2)
__CPROVER_ensures(g_pcalls2 == 1 && (int)__CPROVER_return_value == g_pret2)       /*@ob C06.process-event-returns-the-result-of-the-step */
;
#endif
