/* api_mp11.spec.h -- backmp11 public entry points that are thin but decide C03 (start/stop guarded by m_running: exit/entry exactly once),
   C04 (process_event_pool never runs while a step is in progress; enqueue_event only stores; process_event is a direct call) */
enum { process_info_direct_call = 0, process_info_submachine_call = 1, process_info_event_pool = 2 };
typedef int process_info;
extern const event_t g_evt;
extern int g_entries, g_exits, g_pool_calls, g_stored, g_pcalls2, g_pret2;
extern const _Bool g_pool_empty;
#define SIZE_MAX_ ((size_t)-1)
void machine_on_entry(fsm_t* self, event_t event, fsm_t* fsm)            /* on_entry(initial_event, fsm): proved in backmp11.on_entry (cascade_mp11.spec.h): sets m_running */
__CPROVER_requires(!self->m_running && g_entries == 0)                            /*@ob C03.start-enters-only-a-machine-that-is-not-running */
__CPROVER_requires(EV_EQ(event, g_evt) && fsm == self)
__CPROVER_assigns(g_entries, self->m_running)
__CPROVER_ensures(g_entries == 1 && self->m_running)
;
void machine_on_exit(fsm_t* self, event_t event, fsm_t* fsm)
__CPROVER_requires(self->m_running && g_exits == 0)                               /*@ob C03.stop-exits-only-a-running-machine-and-once */
__CPROVER_requires(EV_EQ(event, g_evt) && fsm == self)
__CPROVER_assigns(g_exits)
__CPROVER_ensures(g_exits == 1)
;
#if UNIT_START
void api_start(fsm_t* self, event_t initial_event)
__CPROVER_requires(__CPROVER_is_fresh(self, sizeof(*self)) && EV_EQ(initial_event, g_evt) && g_entries == 0)
__CPROVER_assigns(g_entries, self->m_running)
__CPROVER_ensures(g_entries == (__CPROVER_old(self->m_running) ? 0 : 1))          /*@ob C03,C02.start-enters-the-machine-exactly-once-and-is-a-no-op-while-running */
__CPROVER_ensures(self->m_running)
;
#endif
#if UNIT_STOP
void api_stop(fsm_t* self, event_t final_event)
__CPROVER_requires(__CPROVER_is_fresh(self, sizeof(*self)) && EV_EQ(final_event, g_evt) && g_exits == 0)
__CPROVER_assigns(g_exits, self->m_running)
__CPROVER_ensures(g_exits == (__CPROVER_old(self->m_running) ? 1 : 0))            /*@ob C03,C02.stop-exits-the-active-configuration-exactly-once */
__CPROVER_ensures(!self->m_running)                                               /*@ob C03.stopped-machine-is-not-running */
;
#endif
#if UNIT_POOL
_Bool pool_events_empty(fsm_t* self)
__CPROVER_assigns()
__CPROVER_ensures(__CPROVER_return_value == g_pool_empty)
;
size_t do_process_event_pool(fsm_t* self, size_t max_events)
__CPROVER_requires(!self->m_event_processing)                                     /*@ob C04.pending-events-are-never-dispatched-while-a-step-is-running */
__CPROVER_requires(!g_pool_empty && g_pool_calls == 0)
__CPROVER_requires(max_events == g_max)                                           /*@ob C04.limit-passed-on-unchanged */
__CPROVER_assigns(g_pool_calls)
__CPROVER_ensures(g_pool_calls == 1 && __CPROVER_return_value == g_nprocessed)
;
extern const size_t g_max, g_nprocessed;
size_t api_process_event_pool(fsm_t* self, size_t max_events)
__CPROVER_requires(__CPROVER_is_fresh(self, sizeof(*self)) && max_events == g_max && g_pool_calls == 0)
__CPROVER_assigns(g_pool_calls)
__CPROVER_ensures(g_pool_calls == ((g_pool_empty || self->m_event_processing) ? 0 : 1))                     /*@ob C04.pool-drained-iff-not-empty-and-no-step-in-progress */
__CPROVER_ensures(__CPROVER_return_value == ((g_pool_empty || self->m_event_processing) ? 0 : g_nprocessed))
;
#endif
#if UNIT_ENQUEUE
static event_t normalize_event(event_t e) { return e; }      /* identity except for Kleene wrappers [A] */
void policy_defer_event(fsm_t* self, event_t e, _Bool next_rtc_seq)
__CPROVER_requires(EV_EQ(e, g_evt))                                               /*@ob C04,C18.enqueued-event-keeps-type-and-payload */
__CPROVER_requires(!next_rtc_seq)                                                 /*@ob C04.enqueued-event-is-eligible-at-the-next-drain */
__CPROVER_requires(g_stored == 0)                                                 /*@ob C04,C20.enqueue-stores-exactly-one-occurrence */
__CPROVER_assigns(g_stored)
__CPROVER_ensures(g_stored == 1)
;
void api_enqueue_event(fsm_t* self, event_t event)
__CPROVER_requires(__CPROVER_is_fresh(self, sizeof(*self)) && EV_EQ(event, g_evt) && g_stored == 0)
__CPROVER_assigns(g_stored)                                                       /*@ob C04.enqueue-only-stores-nothing-runs */
__CPROVER_ensures(g_stored == 1)
;
#endif
#if UNIT_PROCESS
static event_t normalize_event(event_t e) { return e; }
process_result process_event_internal(fsm_t* self, event_t event, process_info info)
__CPROVER_requires(EV_EQ(event, g_evt) && g_pcalls2 == 0)
__CPROVER_requires(info == process_info_direct_call)                              /*@ob C04,C06.process-event-is-a-direct-call */
__CPROVER_assigns(g_pcalls2, g_pret2)
__CPROVER_ensures(g_pcalls2 == 1 && 0 <= g_pret2 && g_pret2 <= 7 && (int)__CPROVER_return_value == g_pret2)
;
process_result api_process_event(fsm_t* self, event_t event)
__CPROVER_requires(__CPROVER_is_fresh(self, sizeof(*self)) && EV_EQ(event, g_evt) && g_pcalls2 == 0)
__CPROVER_assigns(g_pcalls2, g_pret2)
__CPROVER_ensures(g_pcalls2 == 1 && (int)__CPROVER_return_value == g_pret2)       /*@ob C06,C01.process-event-returns-the-result-of-the-step */
;
#endif
/* ---- exit_pt<ExitPseudostate>::forward_event / call_enqueue_event (C09): the second half of a compound transition through an exit point
   is handed to the ROOT machine as an enqueued event (so it runs after the current step), once, unchanged; without a handler the
   exit point is a terminate-like sink ---- */
#if UNIT_EXIT_FORWARD
typedef struct { _Bool m_forward_fn; } exitpt_t;         /* function pointer set? (init<RootSm>() in init_state_visitor) */
extern fsm_t* const g_root; extern int g_fcalls2;
void call_forward_fn(exitpt_t* self, fsm_t* root_sm, event_t event)
__CPROVER_requires(self->m_forward_fn && g_fcalls2 == 0)                          /*@ob C09.exit-point-forwards-exactly-once-if-connected */
__CPROVER_requires(root_sm == g_root && EV_EQ(event, g_evt))                      /*@ob C09,C18.exit-point-event-goes-to-the-root-machine-unchanged */
__CPROVER_assigns(g_fcalls2)
__CPROVER_ensures(g_fcalls2 == 1)
;
void exit_forward_event(exitpt_t* self, fsm_t* root_sm, event_t forward_event)
__CPROVER_requires(__CPROVER_is_fresh(self, sizeof(*self)) && root_sm == g_root && EV_EQ(forward_event, g_evt) && g_fcalls2 == 0)
__CPROVER_assigns(g_fcalls2)
__CPROVER_ensures(g_fcalls2 == (self->m_forward_fn ? 1 : 0))                                              /*@ob C09.exit-point-forwards-exactly-once-if-connected */
;
#endif
#if UNIT_EXIT_ENQUEUE
extern fsm_t* const g_root;
void root_enqueue_event(fsm_t* root, event_t event)
__CPROVER_requires(root == g_root && EV_EQ(event, g_evt) && g_stored == 0)        /*@ob C09,C04.exit-point-event-is-enqueued-on-the-root-not-processed-inside-the-step */
__CPROVER_assigns(g_stored)
__CPROVER_ensures(g_stored == 1)
;
void call_enqueue_event(fsm_t* root_sm, event_t event)
__CPROVER_requires(root_sm == g_root && EV_EQ(event, g_evt) && g_stored == 0)
__CPROVER_assigns(g_stored)
__CPROVER_ensures(g_stored == 1)                                                                           /*@ob C09.exit-point-event-stored-exactly-once */
;
#endif
#if UNIT_COMPLETION_OCC
typedef struct { uint8_t m_region_id; _Bool m_marked_for_deletion; } cocc_t;
typedef struct { _Bool has; process_result v; } optres_t;
static optres_t some_(process_result r) { optres_t o; o.has = 1; o.v = r; return o; }
#define MARK_FOR_DELETION(self) ((self)->m_marked_for_deletion = 1)      /* event_occurrence::mark_for_deletion (must_contain pattern) */
extern int g_ccalls3, g_cret3;
process_result process_completion_transition(fsm_t* sm, uint8_t region_id)
__CPROVER_requires(g_ccalls3 == 0 && region_id == g_region_of_occ)               /*@ob C10.completion-transition-of-the-region-that-was-entered-fires-once */
__CPROVER_assigns(g_ccalls3, g_cret3)
__CPROVER_ensures(g_ccalls3 == 1 && 0 <= g_cret3 && g_cret3 <= 7 && (int)__CPROVER_return_value == g_cret3)
;
extern const uint8_t g_region_of_occ;
optres_t completion_try_process_impl(cocc_t* self, fsm_t* sm)
__CPROVER_requires(__CPROVER_is_fresh(self, sizeof(*self)) && self->m_region_id == g_region_of_occ && g_ccalls3 == 0)
__CPROVER_assigns(self->m_marked_for_deletion, g_ccalls3, g_cret3)
__CPROVER_ensures(__CPROVER_return_value.has && (int)__CPROVER_return_value.v == g_cret3 && g_ccalls3 == 1)   /*@ob C10.completion-occurrence-is-always-dispatched-never-skipped-or-deferred */
__CPROVER_ensures(self->m_marked_for_deletion)                                                             /*@ob C10.completion-occurrence-fires-at-most-once-per-entry */
;
#endif
#if UNIT_DEFER_API
static event_t normalize_event(event_t e) { return e; }
void policy_defer_event(fsm_t* self, event_t e, _Bool next_rtc_seq)
__CPROVER_requires(EV_EQ(e, g_evt) && g_stored == 0)                              /*@ob C05,C18.deferred-occurrence-keeps-type-and-payload */
__CPROVER_requires((next_rtc_seq != 0) == (self->m_event_processing != 0))        /*@ob C05.event-deferred-during-a-step-is-not-re-offered-within-that-step */
__CPROVER_assigns(g_stored)
__CPROVER_ensures(g_stored == 1)
;
void api_defer_event(fsm_t* self, event_t event)
__CPROVER_requires(__CPROVER_is_fresh(self, sizeof(*self)) && EV_EQ(event, g_evt) && g_stored == 0)
__CPROVER_assigns(g_stored)
__CPROVER_ensures(g_stored == 1)                                                                           /*@ob C05,C20.defer-event-stores-exactly-one-occurrence */
;
#endif
