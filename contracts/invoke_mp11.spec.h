/* invoke_mp11.spec.h -- backmp11 transition_table.hpp: how a row's guard / action functor is invoked
   invoke_functor (three arities, chosen by SFINAE over priority tags [A: overload resolution]), invoke_guard_functor<F>::execute,
   invoke_guard_functor<none>, invoke_action_functor<F>::execute, <none>, <front::Defer>        (C02 C05 C14 C18)
   The user's functor is a contract-only stub: it must be called exactly once, with the event, machine, source and target the row
   was given (C18: the behaviour sees the very event that fired the row; C14: all functor arities behave alike).            */
extern const event_t g_evt; extern fsm_t* const g_fsm; extern const stref_t g_src, g_tgt;
extern int g_fcalls, g_dcalls; extern const _Bool g_fret;
_Bool user_functor4(event_t event, fsm_t* fsm, stref_t source, stref_t target)
__CPROVER_requires(g_fcalls == 0)                                                 /*@ob C02,C14.functor-invoked-exactly-once */
__CPROVER_requires(EV_EQ(event, g_evt))                                           /*@ob C18,C14.functor-sees-the-event-that-fired-the-row */
__CPROVER_requires(fsm == g_fsm && source == g_src && target == g_tgt)            /*@ob C02,C14.functor-sees-the-machine-source-and-target-of-the-row */
__CPROVER_assigns(g_fcalls, g_exc)
__CPROVER_ensures(g_fcalls == 1 && __CPROVER_return_value == g_fret)
;
_Bool user_functor2(event_t event, fsm_t* fsm)
__CPROVER_requires(g_fcalls == 0)                                                 /*@ob C02,C14.functor-invoked-exactly-once */
__CPROVER_requires(EV_EQ(event, g_evt))                                           /*@ob C18,C14.functor-sees-the-event-that-fired-the-row */
__CPROVER_requires(fsm == g_fsm)                                                  /*@ob C02,C14.functor-sees-the-machine-source-and-target-of-the-row */
__CPROVER_assigns(g_fcalls, g_exc)
__CPROVER_ensures(g_fcalls == 1 && __CPROVER_return_value == g_fret)
;
_Bool user_functor1(fsm_t* fsm)
__CPROVER_requires(g_fcalls == 0)                                                 /*@ob C02,C14.functor-invoked-exactly-once */
__CPROVER_requires(fsm == g_fsm)                                                  /*@ob C02,C14.functor-sees-the-machine-source-and-target-of-the-row */
__CPROVER_assigns(g_fcalls, g_exc)
__CPROVER_ensures(g_fcalls == 1 && __CPROVER_return_value == g_fret)
;
#ifndef ARITY
#define ARITY 4
#endif
#if ARITY == 4
#define FUNCTOR_CALL user_functor4
#elif ARITY == 2
#define FUNCTOR_CALL user_functor2
#else
#define FUNCTOR_CALL user_functor1
#endif
#define PRE (fsm == g_fsm && EV_EQ(event, g_evt) && source == g_src && target == g_tgt && g_fcalls == 0 && g_dcalls == 0 && !g_exc)
/* invoke_functor<Functor>(priority_tag_N, Functor{}, event, fsm, source, target) */
_Bool invoke_functor_unit(event_t event, fsm_t* fsm, stref_t source, stref_t target)
__CPROVER_requires(PRE)
__CPROVER_assigns(g_fcalls, g_exc)
__CPROVER_ensures(g_fcalls == 1)                                                                            /*@ob C02,C14.functor-invoked-exactly-once */
__CPROVER_ensures(!g_exc ==> (__CPROVER_return_value != 0) == (g_fret != 0))                                /*@ob C01,C14.the-functors-answer-is-the-guards-answer */
;
/* the callee of the execute() wrappers: unit above */
_Bool invoke_functor(event_t event, fsm_t* fsm, stref_t source, stref_t target)
__CPROVER_requires(g_fcalls == 0)                                                 /*@ob C02,C14.functor-invoked-exactly-once */
__CPROVER_requires(EV_EQ(event, g_evt))                                           /*@ob C18,C14.functor-sees-the-event-that-fired-the-row */
__CPROVER_requires(fsm == g_fsm && source == g_src && target == g_tgt)            /*@ob C02,C14.functor-sees-the-machine-source-and-target-of-the-row */
__CPROVER_assigns(g_fcalls, g_exc)
__CPROVER_ensures(g_fcalls == 1 && __CPROVER_return_value == g_fret)
;
_Bool guard_execute(event_t event, fsm_t* fsm, stref_t source, stref_t target)
__CPROVER_requires(PRE)
__CPROVER_assigns(g_fcalls, g_exc)
__CPROVER_ensures(!g_exc ==> (GUARD_NONE ? (g_fcalls == 0 && __CPROVER_return_value != 0) : (g_fcalls == 1 && (__CPROVER_return_value != 0) == (g_fret != 0))))   /*@ob C01,C14.guard-answer-is-the-functors-answer-and-none-means-true */
;
#ifndef GUARD_NONE
#define GUARD_NONE 0
#endif
/* fsm.defer_event(event) : unit backmp11.defer_event */
void fsm_defer_event(fsm_t* fsm, event_t event)
__CPROVER_requires(g_dcalls == 0 && fsm == g_fsm)                                 /*@ob C05.deferring-action-defers-once-in-the-machine-of-the-row */
__CPROVER_requires(EV_EQ(event, g_evt))                                           /*@ob C05,C18.the-occurrence-that-fired-the-row-is-the-one-deferred */
__CPROVER_assigns(g_dcalls)
__CPROVER_ensures(g_dcalls == 1)
;
#ifndef ACTION_KIND
#define ACTION_KIND 0        /* 0 functor, 1 none, 2 front::Defer */
#endif
process_result action_execute(event_t event, fsm_t* fsm, stref_t source, stref_t target)
__CPROVER_requires(PRE)
__CPROVER_assigns(g_fcalls, g_dcalls, g_exc)
__CPROVER_ensures(!g_exc ==> g_fcalls == (ACTION_KIND == 0 ? 1 : 0))                                        /*@ob C02,C14.functor-invoked-exactly-once */
__CPROVER_ensures(!g_exc ==> g_dcalls == (ACTION_KIND == 2 ? 1 : 0))                                        /*@ob C05,C14.only-the-Defer-action-defers-and-exactly-once */
__CPROVER_ensures(!g_exc ==> (int)__CPROVER_return_value == (ACTION_KIND == 2 ? HANDLED_DEFERRED : HANDLED_TRUE))   /*@ob C05,C06,C14.an-action-answers-true-and-the-Defer-action-answers-deferred */
;
