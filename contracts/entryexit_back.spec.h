/* entryexit_back.spec.h -- back / back11: the per-state dispatch inside mpl::for_each<state_list>(entry_exit_helper<Event,is_entry>),
   execute_entry (3 variants), execute_exit (2), convert_event_and_execute_entry (2), exit_pt::forward_event + ForwardHelper (C02 C09 C07) */
extern const int g_nstates;               /* size of state_list (symbolic) */
extern const event_t g_evt;
extern int g_calls, g_step2, g_fwd;
extern const type_t stt, StateType, TargetType, EventType;
#define mp_size(L) g_nstates
/* generate_state_ids: the id of a state IS its position in state_list [A: compile time] -> ids are distinct */
#define get_state_id(stt_, S) (S)
stref_t __CPROVER_uninterpreted_at_key(type_t, slist_t);
#define at_key __CPROVER_uninterpreted_at_key
static event_t unwrap(event_t e) { e.wrapped = 0; return e; }
static event_t direct_entry_event(type_t target, type_t evtype, event_t e) { e.wrapped = 1; e.active_state = target; return e; }
#define EV_EQ_U(a,b) ((a).type==(b).type && (a).payload==(b).payload)

/* ---- entry_exit_helper ---- */
void execute_entry(type_t State, stref_t astate, event_t evt, fsm_t* fsm)
__CPROVER_requires(State == g_wanted_id && g_calls == 0)                         /*@ob C02,C03.only-the-state-whose-id-matches-is-entered-once */
__CPROVER_requires(astate == at_key(State, fsm->m_substate_list) && EV_EQ_U(evt, g_evt))
__CPROVER_assigns(g_calls, g_exc)
__CPROVER_ensures(g_calls == 1)
;
void execute_exit(type_t State, stref_t astate, event_t evt, fsm_t* fsm)
__CPROVER_requires(State == g_wanted_id && g_calls == 0)                         /*@ob C02,C03.only-the-state-whose-id-matches-is-exited-once */
__CPROVER_requires(astate == at_key(State, fsm->m_substate_list) && EV_EQ_U(evt, g_evt))
__CPROVER_assigns(g_calls, g_exc)
__CPROVER_ensures(g_calls == 1)
;
extern const int g_wanted_id;
void entry_exit_foreach(_Bool is_entry, int state_id, event_t evt, fsm_t* self)
__CPROVER_requires(__CPROVER_is_fresh(self, sizeof(*self)) && 0 <= g_nstates && g_nstates <= 1000000 && state_id == g_wanted_id && g_calls == 0 && !g_exc && EV_EQ_U(evt, g_evt))
__CPROVER_assigns(g_calls, g_exc)
__CPROVER_ensures(!g_exc ==> g_calls == ((0 <= state_id && state_id < g_nstates) ? 1 : 0))       /*@ob C02,C03.the-active-substate-is-entered-or-exited-exactly-once */
;

/* ---- execute_entry / execute_exit variants (selected at compile time by the state kind) ---- */
enum { K_COMPOSITE = 0, K_SIMPLE = 1, K_PSEUDO_EXIT = 2 };
void state_do_entry(stref_t astate, event_t evt, fsm_t* fsm)
__CPROVER_requires(g_step2 == 0 && EV_EQ_U(evt, g_evt) && evt.wrapped == g_evt.wrapped)   /*@ob C09.submachine-entry-receives-the-direct-entry-wrapper-unchanged */
__CPROVER_assigns(g_step2, g_exc)
__CPROVER_ensures(g_step2 == 1)
;
void state_on_entry(stref_t astate, event_t evt, fsm_t* fsm)
__CPROVER_requires(g_step2 == 0 && EV_EQ_U(evt, g_evt))
__CPROVER_requires(KIND == K_PSEUDO_EXIT || !evt.wrapped)                                   /*@ob C09,C18.simple-states-see-the-original-event */
__CPROVER_assigns(g_step2, g_exc)
__CPROVER_ensures(g_exc ? g_step2 == 0 : g_step2 == 1)
;
void state_forward_event(stref_t astate, event_t evt)
__CPROVER_requires(g_step2 == 1 && !g_exc && EV_EQ_U(evt, g_evt))                         /*@ob C09.exit-point-forwards-after-its-own-entry-once */
__CPROVER_assigns(g_step2, g_exc)
__CPROVER_ensures(g_step2 == 2)
;
void state_do_exit(stref_t astate, event_t evt, fsm_t* fsm)
__CPROVER_requires(g_step2 == 0 && EV_EQ_U(evt, g_evt))
__CPROVER_assigns(g_step2, g_exc)
__CPROVER_ensures(g_step2 == 1)
;
void state_on_exit(stref_t astate, event_t evt, fsm_t* fsm)
__CPROVER_requires(g_step2 == 0 && EV_EQ_U(evt, g_evt))
__CPROVER_assigns(g_step2, g_exc)
__CPROVER_ensures(g_step2 == 1)
;
event_t remove_direct_entry_event_wrapper(event_t evt)
__CPROVER_assigns()
__CPROVER_ensures(!__CPROVER_return_value.wrapped && EV_EQ_U(__CPROVER_return_value, evt))
;
void execute_entry_unit(stref_t astate, event_t evt, fsm_t* fsm)
__CPROVER_requires(g_step2 == 0 && !g_exc && EV_EQ_U(evt, g_evt) && evt.wrapped == g_evt.wrapped)
__CPROVER_assigns(g_step2, g_exc)
__CPROVER_ensures(!g_exc ==> g_step2 == (KIND == K_PSEUDO_EXIT ? 2 : 1))                    /*@ob C02,C09.entry-behaviour-of-the-right-kind-runs-once */
;
void execute_exit_unit(stref_t astate, event_t evt, fsm_t* fsm)
__CPROVER_requires(g_step2 == 0 && !g_exc && EV_EQ_U(evt, g_evt))
__CPROVER_assigns(g_step2, g_exc)
__CPROVER_ensures(g_step2 == 1)                                                            /*@ob C02,C03,C07.exit-behaviour-of-the-right-kind-runs-once */
;
#ifndef KIND
#define KIND 1
#endif
/* convert_event_and_execute_entry<StateType,TargetType> : explicit-entry / fork targets get the event wrapped */
void execute_entry_any(type_t State, stref_t astate, event_t evt, fsm_t* fsm)
__CPROVER_requires(g_calls == 0 && EV_EQ_U(evt, g_evt))
__CPROVER_requires(evt.wrapped == EXPLICIT)                                    /*@ob C09.explicit-target-entered-through-the-direct-entry-wrapper */
__CPROVER_requires(!evt.wrapped || evt.active_state == TargetType)                         /*@ob C09.wrapper-names-the-targeted-state */
__CPROVER_assigns(g_calls, g_exc)
__CPROVER_ensures(g_calls == 1)
;
#ifndef EXPLICIT
#define EXPLICIT 0
#endif
void convert_event_and_execute_entry(stref_t astate, event_t evt, fsm_t* fsm)
__CPROVER_requires(g_calls == 0 && !g_exc && EV_EQ_U(evt, g_evt) && !evt.wrapped)
__CPROVER_assigns(g_calls, g_exc)
__CPROVER_ensures(g_calls == 1)                                                            /*@ob C02,C03,C09.target-entered-exactly-once */
;
/* ---- exit_pt::forward_event / ForwardHelper ---- */
typedef struct { _Bool set; } fwd_fct_t;
void call_forward(fwd_fct_t* f, event_t ev)
__CPROVER_requires(f->set)                                                                 /*@ob C09.only-a-connected-exit-point-forwards */
__CPROVER_requires(EV_EQ_U(ev, g_evt) && g_fwd == 0)                                       /*@ob C09.exit-point-forwards-the-event-once */
__CPROVER_assigns(g_fwd, g_exc)
__CPROVER_ensures(g_fwd == 1)
;
void forward_helper(event_t incomingEvent, fwd_fct_t* forward_fct, _Bool OwnEvent)
__CPROVER_requires(__CPROVER_is_fresh(forward_fct, sizeof(*forward_fct)) && EV_EQ_U(incomingEvent, g_evt) && g_fwd == 0 && OwnEvent)   /* is_convertible<ForwardEvent,Event> (the other overload asserts false) */
__CPROVER_assigns(g_fwd, g_exc)
__CPROVER_ensures(g_fwd == (forward_fct->set ? 1 : 0))                                     /*@ob C09.exit-point-without-outgoing-connection-is-a-terminate-state */
;

/* ---- get_state_by_id (C03): linear search over state_list; ids are list positions [A: compile time, see get_state_id above] ---- */
stref_t get_state_by_id(fsm_t* self, int id)
__CPROVER_requires(__CPROVER_is_fresh(self, sizeof(*self)) && 0 <= g_nstates && g_nstates <= 1000000)
__CPROVER_requires(at_key(id, self->m_substate_list) != 0)                                       /* a state object has an address */
__CPROVER_assigns()                                                                               /*@ob C03.introspection-assigns-nothing */
__CPROVER_ensures((0 <= id && id < g_nstates) ==> __CPROVER_return_value == at_key(id, self->m_substate_list))   /*@ob C03.get_state_by_id-returns-the-state-object-numbered-id */
__CPROVER_ensures(!(0 <= id && id < g_nstates) ==> __CPROVER_return_value == 0)                                   /*@ob C03.get_state_by_id-returns-null-for-an-id-that-no-state-has */
;
